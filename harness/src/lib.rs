//! Shared plumbing for the correspondence harness: the line protocol, hex, panic capture.
/// Baseline-JPEG writer (oracle) + minimal lossless JPEG->JPEG XL transcoder (VarDCT, DCT8, jbrd box).
/// Written by a mutation sub-agent for its demonstrations of C17 (seeded/c17-*/demo), adopted here as the
/// generator of the end-to-end JPEG reconstruction run.
pub mod synth;
use std::io::{BufRead, Write};

pub fn hex(bytes: &[u8]) -> String {
    if bytes.is_empty() {
        return "-".into();
    }
    let mut s = String::with_capacity(bytes.len() * 2);
    for b in bytes {
        s.push_str(&format!("{:02x}", b));
    }
    s
}

pub fn unhex(s: &str) -> Option<Vec<u8>> {
    if s == "-" {
        return Some(Vec::new());
    }
    if s.len() % 2 != 0 {
        return None;
    }
    (0..s.len())
        .step_by(2)
        .map(|i| u8::from_str_radix(s.get(i..i + 2)?, 16).ok())
        .collect()
}

/// Runs `f` on every stdin line (split into words) and prints what it returns, one line per line.
pub fn line_loop<S>(mut state: S, mut f: impl FnMut(&mut S, &[&str]) -> String) {
    let stdin = std::io::stdin();
    let stdout = std::io::stdout();
    let mut out = std::io::BufWriter::new(stdout.lock());
    for line in stdin.lock().lines() {
        let line = line.expect("stdin");
        let words: Vec<&str> = line.split_whitespace().collect();
        let o = f(&mut state, &words);
        writeln!(out, "{}", o).unwrap();
    }
    out.flush().unwrap();
}

/// Silences the default panic message and records location + message instead.
pub fn install_quiet_panic_hook() {
    std::panic::set_hook(Box::new(|info| {
        let loc = info
            .location()
            .map(|l| format!("{}:{}", l.file(), l.line()))
            .unwrap_or_else(|| "?".into());
        let msg = if let Some(s) = info.payload().downcast_ref::<&str>() {
            (*s).to_string()
        } else if let Some(s) = info.payload().downcast_ref::<String>() {
            s.clone()
        } else {
            "?".into()
        };
        LAST_PANIC.with(|p| *p.borrow_mut() = Some(format!("{} {}", loc, msg)));
    }));
}

thread_local! {
    pub static LAST_PANIC: std::cell::RefCell<Option<String>> = const { std::cell::RefCell::new(None) };
}

/// `Ok(v)` or `Err("panic <file:line> <message>")`.
pub fn catch<T>(f: impl FnOnce() -> T) -> Result<T, String> {
    LAST_PANIC.with(|p| *p.borrow_mut() = None);
    match std::panic::catch_unwind(std::panic::AssertUnwindSafe(f)) {
        Ok(v) => Ok(v),
        Err(_) => {
            let m = LAST_PANIC.with(|p| p.borrow_mut().take()).unwrap_or_else(|| "?".into());
            // strip the /repo prefix and squeeze whitespace so the site is stable
            // (wherever the tree under test lives: the location starts the message)
            let m = match m.find("/crates/") {
                Some(i) if !m[..i].contains(char::is_whitespace) => m[i + "/crates/".len()..].to_string(),
                _ => m,
            };
            Err(format!("panic {}", m.split_whitespace().collect::<Vec<_>>().join("_")))
        }
    }
}

/// Small stable classification of decoder errors: `eof`, `oom`, `other`.
pub fn err_class(e: &(dyn std::error::Error + 'static)) -> &'static str {
    let s = e.to_string().to_lowercase();
    let d = format!("{:?}", e).to_lowercase();
    if d.contains("outofmemory") || s.contains("failed to allocate") || s.contains("out of memory") {
        "oom"
    } else if d.contains("unexpectedeof") || s.contains("unexpected end") || s.contains("eof") {
        "eof"
    } else {
        "other"
    }
}
