//! Tiny synthesiser used by the demonstration.
//!
//! From an explicit description of a baseline JPEG (quantisation tables, quantised DCT
//! coefficients, scan layout, optional metadata) it produces
//!
//!  1. the JPEG file itself, written by a small textbook JPEG entropy coder that shares no code
//!     with jxl-oxide (this is the "original" the reconstruction has to reproduce), and
//!  2. a JPEG XL container that carries the same coefficients losslessly (VarDCT frame, DCT8
//!     blocks only, YCbCr with the JPEG's chroma subsampling, prefix-coded with one flat code)
//!     together with a `jbrd` reconstruction box, the way a lossless JPEG transcode does.
//!
//! Supported: 3 components (YCbCr) with sampling factors 1 or 2 per component and direction
//! (4:4:4, 4:2:0, 4:2:2, 4:4:0 and the unusual mixes), or 1 component (grey); 8-bit tables;
//! baseline and progressive scans; any image size up to 2048 (also not a multiple of the MCU).
//!
//! Geometry (ITU-T T.81 A.1.1, A.2): with `Hmax`/`Vmax` the largest factors of the frame, component
//! `c` is `ceil(X * Hc / Hmax)` samples wide. An interleaved scan (two or more components) is made
//! of `ceil(X / (8 Hmax)) * ceil(Y / (8 Vmax))` MCUs of `Hc x Vc` blocks of each of its components;
//! the blocks beyond the component's own size are padding the encoder made up, and they are in the
//! file. A scan of one component is never interleaved: it walks the component's own
//! `ceil(width_c / 8) x ceil(height_c / 8)` blocks, one per MCU, and leaves the padding out.
//! A lossless transcode has to keep the padding blocks, so the JPEG XL frame codes whole MCUs: the
//! decoder (and libjxl) round the block grid of a subsampled frame up to even and give channel `c`
//! that grid shifted by `Hmax / Hc`, `Vmax / Vc` - exactly `mcus * Hc` by `mcus * Vc` blocks, the
//! padded JPEG grid. `JpegSpec::blocks[c]` is this padded grid.
#![allow(dead_code)]

// ---------------------------------------------------------------------------------------------
// JPEG side
// ---------------------------------------------------------------------------------------------

/// `(row, col)` of zigzag index `k`.
pub fn zigzag() -> [(usize, usize); 64] {
    let mut out = [(0usize, 0usize); 64];
    let mut i = 0;
    for s in 0..15usize {
        let rows: Vec<usize> = (0..=s).filter(|&r| r < 8 && s - r < 8).collect();
        if s % 2 == 0 {
            for &r in rows.iter().rev() {
                out[i] = (r, s - r);
                i += 1;
            }
        } else {
            for &r in rows.iter() {
                out[i] = (r, s - r);
                i += 1;
            }
        }
    }
    assert_eq!(i, 64);
    out
}

fn zz_index(row: usize, col: usize) -> usize {
    zigzag().iter().position(|&p| p == (row, col)).unwrap()
}

/// A JPEG Huffman table as it appears in a DHT segment.
#[derive(Clone)]
pub struct HuffSpec {
    pub is_ac: bool,
    pub id: u8,
    /// `counts[l]` = number of codes of length `l + 1`.
    pub counts: [u8; 16],
    pub values: Vec<u8>,
}

impl HuffSpec {
    /// Canonical code assignment of ITU T.81 Annex C: `(code, length)` per symbol.
    pub fn codes(&self) -> Vec<Option<(u16, u8)>> {
        let mut out = vec![None; 256];
        let mut code = 0u32;
        let mut k = 0usize;
        for len in 1..=16u8 {
            for _ in 0..self.counts[len as usize - 1] {
                let sym = self.values[k];
                assert!(out[sym as usize].is_none(), "duplicate symbol in table");
                out[sym as usize] = Some((code as u16, len));
                code += 1;
                k += 1;
            }
            code <<= 1;
        }
        assert_eq!(k, self.values.len());
        out
    }
}

pub fn std_tables() -> [HuffSpec; 4] {
    let dc_vals: Vec<u8> = (0..12).collect();
    #[rustfmt::skip]
    let ac_lum: Vec<u8> = vec![
        0x01,0x02,0x03,0x00,0x04,0x11,0x05,0x12,0x21,0x31,0x41,0x06,0x13,0x51,0x61,0x07,
        0x22,0x71,0x14,0x32,0x81,0x91,0xa1,0x08,0x23,0x42,0xb1,0xc1,0x15,0x52,0xd1,0xf0,
        0x24,0x33,0x62,0x72,0x82,0x09,0x0a,0x16,0x17,0x18,0x19,0x1a,0x25,0x26,0x27,0x28,
        0x29,0x2a,0x34,0x35,0x36,0x37,0x38,0x39,0x3a,0x43,0x44,0x45,0x46,0x47,0x48,0x49,
        0x4a,0x53,0x54,0x55,0x56,0x57,0x58,0x59,0x5a,0x63,0x64,0x65,0x66,0x67,0x68,0x69,
        0x6a,0x73,0x74,0x75,0x76,0x77,0x78,0x79,0x7a,0x83,0x84,0x85,0x86,0x87,0x88,0x89,
        0x8a,0x92,0x93,0x94,0x95,0x96,0x97,0x98,0x99,0x9a,0xa2,0xa3,0xa4,0xa5,0xa6,0xa7,
        0xa8,0xa9,0xaa,0xb2,0xb3,0xb4,0xb5,0xb6,0xb7,0xb8,0xb9,0xba,0xc2,0xc3,0xc4,0xc5,
        0xc6,0xc7,0xc8,0xc9,0xca,0xd2,0xd3,0xd4,0xd5,0xd6,0xd7,0xd8,0xd9,0xda,0xe1,0xe2,
        0xe3,0xe4,0xe5,0xe6,0xe7,0xe8,0xe9,0xea,0xf1,0xf2,0xf3,0xf4,0xf5,0xf6,0xf7,0xf8,
        0xf9,0xfa,
    ];
    #[rustfmt::skip]
    let ac_chr: Vec<u8> = vec![
        0x00,0x01,0x02,0x03,0x11,0x04,0x05,0x21,0x31,0x06,0x12,0x41,0x51,0x07,0x61,0x71,
        0x13,0x22,0x32,0x81,0x08,0x14,0x42,0x91,0xa1,0xb1,0xc1,0x09,0x23,0x33,0x52,0xf0,
        0x15,0x62,0x72,0xd1,0x0a,0x16,0x24,0x34,0xe1,0x25,0xf1,0x17,0x18,0x19,0x1a,0x26,
        0x27,0x28,0x29,0x2a,0x35,0x36,0x37,0x38,0x39,0x3a,0x43,0x44,0x45,0x46,0x47,0x48,
        0x49,0x4a,0x53,0x54,0x55,0x56,0x57,0x58,0x59,0x5a,0x63,0x64,0x65,0x66,0x67,0x68,
        0x69,0x6a,0x73,0x74,0x75,0x76,0x77,0x78,0x79,0x7a,0x82,0x83,0x84,0x85,0x86,0x87,
        0x88,0x89,0x8a,0x92,0x93,0x94,0x95,0x96,0x97,0x98,0x99,0x9a,0xa2,0xa3,0xa4,0xa5,
        0xa6,0xa7,0xa8,0xa9,0xaa,0xb2,0xb3,0xb4,0xb5,0xb6,0xb7,0xb8,0xb9,0xba,0xc2,0xc3,
        0xc4,0xc5,0xc6,0xc7,0xc8,0xc9,0xca,0xd2,0xd3,0xd4,0xd5,0xd6,0xd7,0xd8,0xd9,0xda,
        0xe2,0xe3,0xe4,0xe5,0xe6,0xe7,0xe8,0xe9,0xea,0xf2,0xf3,0xf4,0xf5,0xf6,0xf7,0xf8,
        0xf9,0xfa,
    ];
    assert_eq!(ac_lum.len(), 162);
    assert_eq!(ac_chr.len(), 162);
    [
        HuffSpec {
            is_ac: false,
            id: 0,
            counts: [0, 1, 5, 1, 1, 1, 1, 1, 1, 0, 0, 0, 0, 0, 0, 0],
            values: dc_vals.clone(),
        },
        HuffSpec {
            is_ac: false,
            id: 1,
            counts: [0, 3, 1, 1, 1, 1, 1, 1, 1, 1, 1, 0, 0, 0, 0, 0],
            values: dc_vals,
        },
        HuffSpec {
            is_ac: true,
            id: 0,
            counts: [0, 2, 1, 3, 3, 2, 4, 3, 5, 5, 4, 4, 0, 0, 1, 0x7d],
            values: ac_lum,
        },
        HuffSpec {
            is_ac: true,
            id: 1,
            counts: [0, 2, 1, 2, 4, 4, 3, 4, 7, 5, 4, 4, 0, 1, 2, 0x77],
            values: ac_chr,
        },
    ]
}

/// Description of the "original" JPEG.
pub struct JpegSpec {
    pub width: usize,
    pub height: usize,
    /// Quantisation tables in zigzag order; table `i` belongs to component `i`.
    pub quant: [[u16; 64]; 3],
    /// Quantised coefficients: per component, 8x8 blocks in raster order of the component's grid
    /// padded to whole MCUs (`grid(c)`), zigzag order inside.
    pub blocks: [Vec<[i16; 64]>; 3],
    /// Sampling factors `(H, V)` per component, each 1 or 2.
    pub sampling: [(usize, usize); 3],
    /// One component only (`blocks[1]`, `blocks[2]`, their tables and factors are not used).
    pub gray: bool,
    /// Sequential scans, each a list of component indices.
    pub scans: Vec<Vec<usize>>,
    /// Per scan: `(block index within the scan, number of ZRL symbols written before EOB)`.
    pub extra_zero_runs: Vec<Vec<(u32, u32)>>,
    /// Padding bits in the order they are consumed, one bit per entry. `None`: all ones.
    pub padding: Option<Vec<u8>>,
    /// Write a JFIF APP0 segment.
    pub jfif: bool,
    /// Exif payload (TIFF data) for an APP1 segment.
    pub exif_app1: Option<Vec<u8>>,
    /// Comment segment.
    pub comment: Option<Vec<u8>>,
    /// Progressive JPEG (SOF2): every scan has its `(ss, se, ah, al)` in `scan_params`, a scan is
    /// either DC only (`ss = se = 0`, any components) or AC only (`ss > 0`, one component).
    pub progressive: bool,
    /// `(ss, se, ah, al)` per scan; empty: `(0, 63, 0, 0)` for every scan.
    pub scan_params: Vec<(u8, u8, u8, u8)>,
    /// Restart interval in MCUs (0: no DRI segment).
    pub restart_interval: u16,
    /// `[DC0, DC1, AC0, AC1]`; `None`: the tables of Annex K. Component 0 uses tables 0, the others 1.
    pub tables: Option<[HuffSpec; 4]>,
    /// One DHT segment per table instead of one for all.
    pub dht_split: bool,
    /// Per scan: block indices before which the original encoder ended a running end-of-band run
    /// although it did not have to (progressive AC scans).
    pub forced_resets: Vec<Vec<u32>>,
}

/// What `write_jpeg_ex` produced.
pub struct JpegOut {
    pub bytes: Vec<u8>,
    /// per padding event, how many bits were needed
    pub pad_needs: Vec<u32>,
    /// per scan, the block indices before which an end-of-band run was ended early
    pub reset_points: Vec<Vec<u32>>,
}

pub const S444: [(usize, usize); 3] = [(1, 1); 3];

impl JpegSpec {
    pub fn ncomp(&self) -> usize {
        if self.gray { 1 } else { 3 }
    }
    /// `(Hmax, Vmax)` of the frame.
    pub fn max_sampling(&self) -> (usize, usize) {
        let s = &self.sampling[..self.ncomp()];
        (s.iter().map(|p| p.0).max().unwrap(), s.iter().map(|p| p.1).max().unwrap())
    }
    /// MCUs of an interleaved scan per row and per column.
    pub fn mcus(&self) -> (usize, usize) {
        let (hm, vm) = self.max_sampling();
        (self.width.div_ceil(8 * hm), self.height.div_ceil(8 * vm))
    }
    /// Block grid of component `c` padded to whole MCUs: what `blocks[c]` holds.
    pub fn grid(&self, c: usize) -> (usize, usize) {
        let (mx, my) = self.mcus();
        (mx * self.sampling[c].0, my * self.sampling[c].1)
    }
    /// Block grid of component `c` without MCU padding: what a scan of this component alone codes.
    pub fn own_grid(&self, c: usize) -> (usize, usize) {
        let (hm, vm) = self.max_sampling();
        let (h, v) = self.sampling[c];
        ((self.width * h).div_ceil(hm).div_ceil(8), (self.height * v).div_ceil(vm).div_ceil(8))
    }
    /// Number of blocks `blocks[c]` has to hold.
    pub fn nblocks(&self, c: usize) -> usize {
        let (w, h) = self.grid(c);
        w * h
    }
    /// The blocks of a scan in coding order as `(component, index into blocks[component])`, and
    /// the number of blocks per MCU.
    pub fn scan_order(&self, comps: &[usize]) -> (Vec<(usize, usize)>, usize) {
        let mut out = Vec::new();
        if comps.len() == 1 {
            // not interleaved: the component's own grid, one block per MCU
            let c = comps[0];
            let (gw, _) = self.grid(c);
            let (ow, oh) = self.own_grid(c);
            for by in 0..oh {
                for bx in 0..ow {
                    out.push((c, by * gw + bx));
                }
            }
            return (out, 1);
        }
        let (mx, my) = self.mcus();
        for y in 0..my {
            for x in 0..mx {
                for &c in comps {
                    let (h, v) = self.sampling[c];
                    let (gw, _) = self.grid(c);
                    for dy in 0..v {
                        for dx in 0..h {
                            out.push((c, (y * v + dy) * gw + x * h + dx));
                        }
                    }
                }
            }
        }
        let per_mcu = comps.iter().map(|&c| self.sampling[c].0 * self.sampling[c].1).sum();
        (out, per_mcu)
    }
    pub fn scan_param(&self, scan: usize) -> (u8, u8, u8, u8) {
        self.scan_params.get(scan).copied().unwrap_or((0, 63, 0, 0))
    }
    pub fn huff_tables(&self) -> [HuffSpec; 4] {
        self.tables.clone().unwrap_or_else(std_tables)
    }
}

/// A seeded Huffman table holding every symbol of `symbols` (first ones get the short codes), with
/// one of a few code-length shapes; the all-ones code of the longest length stays unused.
pub fn custom_table(seed: u64, is_ac: bool, id: u8, symbols: &[u8]) -> HuffSpec {
    let n = symbols.len();
    assert!(n >= 2 && n <= 256);
    // (length, how many) shapes with Kraft sum < 1; the last length takes what is left
    let shapes: [&[(u8, usize)]; 5] = [
        &[(8, 128), (9, 256)],
        &[(7, 64), (9, 256)],
        &[(2, 2), (7, 30), (10, 256)],
        &[(1, 1), (6, 15), (10, 256)],
        &[(3, 3), (5, 7), (8, 40), (12, 256)],
    ];
    let shape = shapes[(seed % shapes.len() as u64) as usize];
    let mut counts = [0u8; 16];
    let mut left = n;
    for &(len, k) in shape {
        let k = k.min(left);
        // a count is one byte: spill over to the next length if needed
        let mut k_here = k;
        let mut len_here = len as usize;
        while k_here > 0 {
            let take = k_here.min(255 - counts[len_here - 1] as usize);
            counts[len_here - 1] += take as u8;
            k_here -= take;
            if k_here > 0 {
                len_here += 1;
            }
        }
        left -= k;
        if left == 0 {
            break;
        }
    }
    assert_eq!(left, 0);
    // Kraft check incl. the reserved all-ones code
    let mut kraft = 0u64;
    for (i, &c) in counts.iter().enumerate() {
        kraft += (c as u64) << (16 - (i + 1));
    }
    assert!(kraft < 1 << 16, "table shape is over-subscribed");
    // seeded order of the tail, the head stays as given
    let mut values = symbols.to_vec();
    let mut s = seed.wrapping_mul(0x9e3779b97f4a7c15) | 1;
    let keep = (n / 4).max(1);
    for i in (keep + 1..n).rev() {
        s ^= s << 13;
        s ^= s >> 7;
        s ^= s << 17;
        let j = keep + (s % (i - keep + 1) as u64) as usize;
        values.swap(i, j);
    }
    HuffSpec { is_ac, id, counts, values }
}

/// `[DC0, DC1, AC0, AC1]` holding every symbol a progressive or sequential scan can need.
pub fn custom_tables(seed: u64) -> [HuffSpec; 4] {
    let dc: Vec<u8> = (0..16).collect();
    // frequent AC symbols first: EOB, small run/size pairs, ZRL, end-of-band runs; then the rest
    let mut ac: Vec<u8> = vec![0x00, 0x01, 0x11, 0x02, 0x21, 0x31, 0xf0, 0x10, 0x20, 0x12, 0x03, 0x41, 0x30, 0x40];
    for v in 0..=255u8 {
        if !ac.contains(&v) {
            ac.push(v);
        }
    }
    [
        custom_table(seed, false, 0, &dc),
        custom_table(seed / 5 + 1, false, 1, &dc),
        custom_table(seed / 7 + 2, true, 0, &ac),
        custom_table(seed / 11 + 3, true, 1, &ac),
    ]
}

struct JpegBits {
    out: Vec<u8>,
    acc: u32,
    n: u32,
}

impl JpegBits {
    fn new() -> Self {
        Self {
            out: Vec::new(),
            acc: 0,
            n: 0,
        }
    }
    fn bit(&mut self, b: u32) {
        self.acc = (self.acc << 1) | (b & 1);
        self.n += 1;
        if self.n == 8 {
            let byte = self.acc as u8;
            self.out.push(byte);
            if byte == 0xff {
                self.out.push(0);
            }
            self.acc = 0;
            self.n = 0;
        }
    }
    fn bits(&mut self, v: u32, n: u8) {
        for i in (0..n).rev() {
            self.bit(v >> i);
        }
    }
}

fn magnitude(v: i32) -> (u8, u32) {
    if v == 0 {
        return (0, 0);
    }
    let a = v.unsigned_abs();
    let size = 32 - a.leading_zeros();
    let bits = if v < 0 {
        (v - 1) as u32 & ((1u32 << size) - 1)
    } else {
        v as u32
    };
    (size as u8, bits)
}

const JFIF_PAYLOAD: [u8; 14] = [b'J', b'F', b'I', b'F', 0, 1, 1, 0, 0, 1, 0, 1, 0, 0];

/// Writes the JPEG file. Also returns, per padding event, how many bits were needed.
pub fn write_jpeg(spec: &JpegSpec) -> (Vec<u8>, Vec<u32>) {
    let out = write_jpeg_ex(spec);
    (out.bytes, out.pad_needs)
}

/// Entropy coder state of one scan, after `jcphuff.c` of the IJG library (the encoder whose
/// output a reconstruction box is designed to describe).
struct ScanEnc<'a> {
    bw: JpegBits,
    ac_codes: &'a [Option<(u16, u8)>],
    /// pending end-of-band run
    eobrun: u32,
    /// correction bits that belong to the pending run
    be: Vec<u8>,
}

impl ScanEnc<'_> {
    fn sym(&mut self, sym: usize) {
        let (code, len) = self.ac_codes[sym].expect("AC symbol not in table");
        self.bw.bits(code as u32, len);
    }
    fn emit_eobrun(&mut self) {
        if self.eobrun == 0 {
            return;
        }
        let nbits = 31 - self.eobrun.leading_zeros();
        self.sym((nbits as usize) << 4);
        if nbits > 0 {
            self.bw.bits(self.eobrun & ((1 << nbits) - 1), nbits as u8);
        }
        self.eobrun = 0;
        for b in std::mem::take(&mut self.be) {
            self.bw.bit(b as u32);
        }
    }
}

/// IJG's limit on buffered correction bits (`MAX_CORR_BITS - DCTSIZE2 + 1`).
const MAX_BE: usize = 1000 - 64 + 1;

pub fn write_jpeg_ex(spec: &JpegSpec) -> JpegOut {
    let tables = spec.huff_tables();
    let codes: Vec<_> = tables.iter().map(|t| t.codes()).collect();
    let mut out = vec![0xff, 0xd8];

    if spec.jfif {
        out.extend_from_slice(&[0xff, 0xe0]);
        out.extend_from_slice(&((2 + JFIF_PAYLOAD.len()) as u16).to_be_bytes());
        out.extend_from_slice(&JFIF_PAYLOAD);
    }
    if let Some(exif) = &spec.exif_app1 {
        out.extend_from_slice(&[0xff, 0xe1]);
        out.extend_from_slice(&((2 + 6 + exif.len()) as u16).to_be_bytes());
        out.extend_from_slice(b"Exif\0\0");
        out.extend_from_slice(exif);
    }
    if let Some(com) = &spec.comment {
        out.extend_from_slice(&[0xff, 0xfe]);
        out.extend_from_slice(&((2 + com.len()) as u16).to_be_bytes());
        out.extend_from_slice(com);
    }

    // DQT, one 8-bit table per component in one segment
    let ncomp = spec.ncomp();
    for c in 0..ncomp {
        let (h, v) = spec.sampling[c];
        assert!((1..=2).contains(&h) && (1..=2).contains(&v));
        assert_eq!(spec.blocks[c].len(), spec.nblocks(c), "blocks[{c}] is not the padded grid");
    }
    out.extend_from_slice(&[0xff, 0xdb]);
    out.extend_from_slice(&((2 + ncomp * 65) as u16).to_be_bytes());
    for (i, q) in spec.quant.iter().enumerate().take(ncomp) {
        out.push(i as u8);
        for &v in q {
            assert!(v >= 1 && v <= 255);
            out.push(v as u8);
        }
    }

    // SOF0 / SOF2
    out.extend_from_slice(&[0xff, if spec.progressive { 0xc2 } else { 0xc0 }]);
    out.extend_from_slice(&((8 + 3 * ncomp) as u16).to_be_bytes());
    out.push(8);
    out.extend_from_slice(&(spec.height as u16).to_be_bytes());
    out.extend_from_slice(&(spec.width as u16).to_be_bytes());
    out.push(ncomp as u8);
    for i in 0..ncomp {
        let (h, v) = spec.sampling[i];
        out.extend_from_slice(&[i as u8 + 1, ((h << 4) | v) as u8, i as u8]);
    }

    // DHT: four tables in one segment, or one segment each
    let groups: Vec<&[HuffSpec]> = if spec.dht_split {
        tables.chunks(1).collect()
    } else {
        vec![&tables[..]]
    };
    for g in groups {
        out.extend_from_slice(&[0xff, 0xc4]);
        let len: usize = 2 + g.iter().map(|t| 17 + t.values.len()).sum::<usize>();
        out.extend_from_slice(&(len as u16).to_be_bytes());
        for t in g {
            out.push(t.id | if t.is_ac { 0x10 } else { 0 });
            out.extend_from_slice(&t.counts);
            out.extend_from_slice(&t.values);
        }
    }

    // DRI
    if spec.restart_interval != 0 {
        out.extend_from_slice(&[0xff, 0xdd, 0, 4]);
        out.extend_from_slice(&spec.restart_interval.to_be_bytes());
    }

    let mut pad_iter = spec.padding.as_ref().map(|p| p.iter().copied());
    let mut pad_needs = Vec::new();
    let mut reset_points = Vec::new();

    for (scan_idx, comps) in spec.scans.iter().enumerate() {
        assert!(!comps.is_empty() && comps.iter().all(|&c| c < ncomp));
        // interleaved: `Hc x Vc` blocks of each component per MCU (at most 10, T.81 B.2.3)
        let (order, per_mcu) = spec.scan_order(comps);
        assert!(per_mcu <= 10, "more than 10 blocks in an MCU");
        let nmcus = order.len() / per_mcu;
        let (ss, se, ah, al) = spec.scan_param(scan_idx);
        if spec.progressive {
            assert!(ss <= se && se <= 63);
            assert!(if ss == 0 { se == 0 } else { comps.len() == 1 }, "progressive scans are DC only or AC of one component");
        } else {
            assert!((ss, se, ah, al) == (0, 63, 0, 0));
        }
        out.extend_from_slice(&[0xff, 0xda]);
        out.extend_from_slice(&((6 + 2 * comps.len()) as u16).to_be_bytes());
        out.push(comps.len() as u8);
        for &c in comps {
            let tbl = if c == 0 { 0u8 } else { 1 };
            out.extend_from_slice(&[c as u8 + 1, (tbl << 4) | tbl]);
        }
        out.extend_from_slice(&[ss, se, (ah << 4) | al]);

        let empty = Vec::new();
        let ezr = spec.extra_zero_runs.get(scan_idx).unwrap_or(&empty);
        let no_forced = Vec::new();
        let forced = spec.forced_resets.get(scan_idx).unwrap_or(&no_forced);
        let mut resets: Vec<u32> = Vec::new();
        let ac_tbl_of_scan = if comps[0] == 0 { 0 } else { 1 };
        let mut st = ScanEnc {
            bw: JpegBits::new(),
            ac_codes: &codes[2 + ac_tbl_of_scan],
            eobrun: 0,
            be: Vec::new(),
        };
        let mut pred = [0i32; 3];
        let mut block_idx = 0u32;
        let mut rst = 0u8;
        for b in 0..nmcus {
            if spec.restart_interval != 0 && b != 0 && b % spec.restart_interval as usize == 0 {
                st.emit_eobrun();
                let need = (8 - st.bw.n) % 8;
                pad_needs.push(need);
                for _ in 0..need {
                    let bit = match &mut pad_iter {
                        Some(it) => it.next().expect("not enough padding bits in the spec") as u32,
                        None => 1,
                    };
                    st.bw.bit(bit);
                }
                out.extend_from_slice(&st.bw.out);
                st.bw = JpegBits::new();
                out.extend_from_slice(&[0xff, 0xd0 + rst]);
                rst = (rst + 1) % 8;
                pred = [0; 3];
            }
            for &(c, bi) in &order[b * per_mcu..(b + 1) * per_mcu] {
                let tbl = if c == 0 { 0 } else { 1 };
                let dc_codes = &codes[tbl];
                st.ac_codes = &codes[2 + tbl];
                let block = &spec.blocks[c][bi];
                let zr = ezr.iter().find(|&&(idx, _)| idx == block_idx).map(|&(_, n)| n);
                if forced.contains(&block_idx) {
                    // an encoder that ends its run here for reasons of its own
                    st.emit_eobrun();
                    resets.push(block_idx);
                }

                if !spec.progressive {
                    let diff = block[0] as i32 - pred[c];
                    pred[c] = block[0] as i32;
                    let (size, bits) = magnitude(diff);
                    let (code, len) = dc_codes[size as usize].expect("DC category not in table");
                    st.bw.bits(code as u32, len);
                    st.bw.bits(bits, size);

                    let last_nz = (1..64).rev().find(|&k| block[k] != 0).unwrap_or(0);
                    let mut run = 0u32;
                    for &coeff in &block[1..=last_nz] {
                        if coeff == 0 {
                            run += 1;
                            continue;
                        }
                        while run >= 16 {
                            st.sym(0xf0);
                            run -= 16;
                        }
                        let (size, bits) = magnitude(coeff as i32);
                        st.sym(((run as usize) << 4) | size as usize);
                        st.bw.bits(bits, size);
                        run = 0;
                    }
                    let mut trailing = 63 - last_nz as i32;
                    if let Some(n) = zr {
                        // The original encoder spelled part of the trailing zeros as ZRL symbols.
                        assert!(16 * n as i32 <= trailing);
                        for _ in 0..n {
                            st.sym(0xf0);
                        }
                        trailing -= 16 * n as i32;
                    }
                    if trailing > 0 {
                        st.sym(0x00);
                    }
                } else if ss == 0 {
                    if ah == 0 {
                        // DC, first pass: point transform by arithmetic shift
                        let v = (block[0] as i32) >> al;
                        let diff = v - pred[c];
                        pred[c] = v;
                        let (size, bits) = magnitude(diff);
                        let (code, len) = dc_codes[size as usize].expect("DC category not in table");
                        st.bw.bits(code as u32, len);
                        st.bw.bits(bits, size);
                    } else {
                        st.bw.bit(((block[0] as i32) >> al) as u32 & 1);
                    }
                } else if ah == 0 {
                    // AC, first pass (encode_mcu_AC_first)
                    let mut r = 0i32;
                    for k in ss as usize..=se as usize {
                        let v = block[k] as i32;
                        let temp = v.abs() >> al;
                        if temp == 0 {
                            r += 1;
                            continue;
                        }
                        st.emit_eobrun();
                        while r > 15 {
                            st.sym(0xf0);
                            r -= 16;
                        }
                        let nbits = 32 - (temp as u32).leading_zeros();
                        let temp2 = if v < 0 { !temp } else { temp };
                        st.sym(((r as usize) << 4) | nbits as usize);
                        st.bw.bits(temp2 as u32 & ((1 << nbits) - 1), nbits as u8);
                        r = 0;
                    }
                    if let Some(n) = zr {
                        assert!(16 * n as i32 <= r);
                        st.emit_eobrun();
                        for _ in 0..n {
                            st.sym(0xf0);
                        }
                        r -= 16 * n as i32;
                    }
                    if r > 0 {
                        st.eobrun += 1;
                        if st.eobrun == 0x7fff {
                            st.emit_eobrun();
                        }
                    }
                } else {
                    // AC, refinement (encode_mcu_AC_refine)
                    assert!(zr.is_none(), "extra zero runs are not synthesised for refinement scans");
                    let mut absv = [0i32; 64];
                    let mut eob = 0usize;
                    for k in ss as usize..=se as usize {
                        absv[k] = (block[k] as i32).abs() >> al;
                        if absv[k] == 1 {
                            eob = k;
                        }
                    }
                    let mut r = 0i32;
                    let mut br: Vec<u8> = Vec::new();
                    for k in ss as usize..=se as usize {
                        let temp = absv[k];
                        if temp == 0 {
                            r += 1;
                            continue;
                        }
                        while r > 15 && k <= eob {
                            st.emit_eobrun();
                            st.sym(0xf0);
                            r -= 16;
                            for b in br.drain(..) {
                                st.bw.bit(b as u32);
                            }
                        }
                        if temp > 1 {
                            br.push((temp & 1) as u8);
                            continue;
                        }
                        st.emit_eobrun();
                        st.sym(((r as usize) << 4) | 1);
                        st.bw.bit(if block[k] < 0 { 0 } else { 1 });
                        for b in br.drain(..) {
                            st.bw.bit(b as u32);
                        }
                        r = 0;
                    }
                    if r > 0 || !br.is_empty() {
                        st.eobrun += 1;
                        st.be.extend_from_slice(&br);
                        if st.eobrun == 0x7fff || st.be.len() > MAX_BE {
                            let by_count = st.eobrun == 0x7fff;
                            st.emit_eobrun();
                            if !by_count {
                                // the run ended because of the correction-bit buffer: nothing in
                                // the coefficients says so, the box has to
                                resets.push(block_idx + 1);
                            }
                        }
                    }
                }
                block_idx += 1;
            }
        }
        // end of scan: finish the run, pad to a byte boundary
        st.emit_eobrun();
        let need = (8 - st.bw.n) % 8;
        pad_needs.push(need);
        for _ in 0..need {
            let bit = match &mut pad_iter {
                Some(it) => it.next().expect("not enough padding bits in the spec") as u32,
                None => 1,
            };
            st.bw.bit(bit);
        }
        out.extend_from_slice(&st.bw.out);
        resets.sort();
        resets.dedup();
        reset_points.push(resets);
    }

    out.extend_from_slice(&[0xff, 0xd9]);
    JpegOut { bytes: out, pad_needs, reset_points }
}

// ---------------------------------------------------------------------------------------------
// JPEG XL side
// ---------------------------------------------------------------------------------------------

/// LSB-first bit writer (JPEG XL codestream and jbrd header).
#[derive(Default, Clone)]
pub struct BitW {
    pub buf: Vec<u8>,
    pub nbits: usize,
}

impl BitW {
    pub fn put(&mut self, v: u64, n: usize) {
        for i in 0..n {
            if self.nbits % 8 == 0 {
                self.buf.push(0);
            }
            if (v >> i) & 1 != 0 {
                *self.buf.last_mut().unwrap() |= 1 << (self.nbits % 8);
            }
            self.nbits += 1;
        }
    }
    pub fn align(&mut self) {
        while self.nbits % 8 != 0 {
            self.put(0, 1);
        }
    }
    /// `U32(d0, d1, d2, d3)` with `d = (base, extra bits)`: first distribution that fits.
    pub fn u32(&mut self, d: [(u32, u32); 4], v: u32) {
        for (sel, &(base, bits)) in d.iter().enumerate() {
            if v >= base && ((v - base) as u64) < (1u64 << bits) {
                self.put(sel as u64, 2);
                self.put((v - base) as u64, bits as usize);
                return;
            }
        }
        panic!("value {v} not representable");
    }
    pub fn u64v(&mut self, v: u64) {
        if v == 0 {
            self.put(0, 2);
        } else if v <= 16 {
            self.put(1, 2);
            self.put(v - 1, 4);
        } else if v <= 272 {
            self.put(2, 2);
            self.put(v - 17, 8);
        } else {
            panic!("u64 too large for this writer");
        }
    }
    pub fn append(&mut self, o: &BitW) {
        for i in 0..o.nbits {
            self.put(((o.buf[i / 8] >> (i % 8)) & 1) as u64, 1);
        }
    }
}

fn ceil_log2(x: usize) -> usize {
    x.next_power_of_two().trailing_zeros() as usize
}

/// Entropy code header: no LZ77, every context in one cluster, prefix code with a flat 5-bit
/// code over 32 tokens, hybrid integer config (split_exponent 0, no msb/lsb in token).
fn ent_header_flat(w: &mut BitW, num_dist: usize) {
    w.put(0, 1); // lz77 disabled
    if num_dist > 1 {
        w.put(1, 1); // simple cluster map
        w.put(0, 2); // 0 bits per entry: everything in cluster 0
    }
    w.put(1, 1); // use_prefix_code
    w.put(0, 4); // split_exponent = 0 (msb_in_token / lsb_in_token take 0 bits)
    w.put(1, 1); // alphabet size: 1 + (1 << 4) + 15 = 32
    w.put(4, 4);
    w.put(15, 4);
    w.put(0, 2); // hskip = 0: complex prefix code
    for i in 0..18 {
        // code length code lengths in the order 1,2,3,4,0,5,...: only "5" is used, so every
        // symbol gets length 5 without spending bits
        w.put(if i == 5 { 1 } else { 0 }, 2);
    }
}

/// Entropy code header whose single cluster only ever produces token 0 (used for the MA tree).
fn ent_header_zero(w: &mut BitW, num_dist: usize) {
    w.put(0, 1);
    if num_dist > 1 {
        w.put(1, 1);
        w.put(0, 2);
    }
    w.put(1, 1);
    w.put(0, 4);
    w.put(0, 1); // alphabet size 1
}

fn tok(w: &mut BitW, v: u32) {
    let (t, n, extra) = if v == 0 {
        (0u32, 0u32, 0u32)
    } else {
        let n = 31 - v.leading_zeros();
        (1 + n, n, v - (1 << n))
    };
    assert!(t < 32);
    // canonical 5-bit code of the token, most significant bit first
    for i in (0..5).rev() {
        w.put(((t >> i) & 1) as u64, 1);
    }
    w.put(extra as u64, n as usize);
}

fn pack_signed(v: i32) -> u32 {
    if v >= 0 { (v as u32) << 1 } else { (((-v) as u32) << 1) - 1 }
}

fn modular_header_global_tree(w: &mut BitW) {
    w.put(1, 1); // use_global_tree
    w.put(1, 1); // default weighted predictor parameters
    w.put(0, 2); // no transforms
}

/// Builds the JPEG XL codestream (image header + one VarDCT frame).
///
/// Subsampled frames: `jpeg_upsampling` holds, per channel in the order Cb, Y, Cr, the *sampling
/// factors* of the channel as a mode (0: 1x1, 1: 2x2, 2: 2x1, 3: 1x2 as HxV); a channel is
/// shifted in a direction when some channel has factor 2 there and it has factor 1. The frame has
/// the true image size; the block grid is `ceil(size / 8)` rounded up to even in a subsampled
/// direction (`HfMetadata::parse`, `ChannelShift::shift_size`), i.e. whole MCUs, and channel `c`
/// has that grid shifted: `JpegSpec::grid(c)`.
pub fn write_codestream(spec: &JpegSpec) -> Vec<u8> {
    let (w, h) = (spec.width, spec.height);
    assert!(w <= 2048 && h <= 2048 && w > 0 && h > 0);
    let ncomp = spec.ncomp();
    // a grey JPEG travels as a 4:4:4 YCbCr frame with empty chroma channels
    let sampling = if spec.gray { S444 } else { spec.sampling };
    let (hm, vm) = spec.max_sampling();
    let (mx, my) = spec.mcus();
    // full-resolution block grid as the decoder sizes it
    let (bw, bh) = (mx * hm, my * vm);
    {
        let (mut dbw, mut dbh) = (w.div_ceil(8), h.div_ceil(8));
        if hm == 2 {
            dbw = dbw.div_ceil(2) * 2;
        }
        if vm == 2 {
            dbh = dbh.div_ceil(2) * 2;
        }
        assert_eq!((bw, bh), (dbw, dbh));
    }
    // channel shifts and grids
    let shift: Vec<(usize, usize)> = (0..3).map(|c| ((hm / sampling[c].0).trailing_zeros() as usize, (vm / sampling[c].1).trailing_zeros() as usize)).collect();
    let cgrid: Vec<(usize, usize)> = (0..3).map(|c| (bw >> shift[c].0, bh >> shift[c].1)).collect();
    let zero_block = [0i16; 64];
    let block_at = |c: usize, x: usize, y: usize| -> &[i16; 64] {
        if c < ncomp { &spec.blocks[c][y * cgrid[c].0 + x] } else { &zero_block }
    };
    for c in 0..ncomp {
        assert_eq!(cgrid[c], spec.grid(c));
        assert_eq!(spec.blocks[c].len(), cgrid[c].0 * cgrid[c].1);
    }
    let zz = zigzag();

    let mut cs = BitW::default();
    cs.put(0x0aff, 16);
    // SizeHeader
    if w % 8 == 0 && h % 8 == 0 && w <= 256 && h <= 256 {
        cs.put(1, 1);
        cs.put((h / 8 - 1) as u64, 5);
        cs.put(0, 3);
        cs.put((w / 8 - 1) as u64, 5);
    } else {
        let d = [(1, 9), (1, 13), (1, 18), (1, 30)];
        cs.put(0, 1);
        cs.u32(d, h as u32);
        cs.put(0, 3);
        cs.u32(d, w as u32);
    }
    // ImageMetadata
    cs.put(0, 1); // !all_default
    cs.put(0, 1); // no extra fields
    cs.put(0, 1); // integer samples
    cs.put(0, 2); // 8 bits
    cs.put(1, 1); // modular_16bit_buffers
    cs.put(0, 2); // no extra channels
    cs.put(0, 1); // xyb_encoded = false
    cs.put(1, 1); // colour encoding: default (sRGB)
    cs.put(0, 2); // extensions
    cs.put(1, 1); // default_m
    cs.align();

    // FrameHeader
    cs.put(0, 1); // !all_default
    cs.put(0, 2); // regular frame
    cs.put(0, 1); // VarDCT
    cs.u64v(0x80); // flags: skip adaptive LF smoothing
    cs.put(1, 1); // do_ycbcr
    for c in [1usize, 0, 2] {
        // jpeg_upsampling, channel order Cb, Y, Cr
        let mode = match sampling[c] {
            (1, 1) => 0,
            (2, 2) => 1,
            (2, 1) => 2,
            (1, 2) => 3,
            _ => panic!("sampling factor"),
        };
        cs.put(mode, 2);
    }
    cs.put(0, 2); // upsampling 1
    cs.put(0, 2); // one pass
    cs.put(0, 1); // no crop
    cs.put(0, 2); // blend mode: replace
    cs.put(1, 1); // is_last
    cs.put(0, 2); // no name
    cs.put(0, 1); // restoration filter: !all_default
    cs.put(0, 1); //   gaborish off
    cs.put(0, 2); //   epf off
    cs.put(0, 2); //   extensions
    cs.put(0, 2); // frame header extensions

    let groups_x = w.div_ceil(256);
    let groups_y = h.div_ceil(256);
    let num_groups = groups_x * groups_y;

    // --- LfGlobal
    let mut lfg = BitW::default();
    lfg.put(1, 1); // LF dequant: default
    lfg.u32([(1, 11), (2049, 11), (4097, 12), (8193, 16)], 8); // global_scale
    lfg.put(0, 2); // quant_lf = 16
    lfg.put(1, 1); // default HF block context
    lfg.put(0, 1); // LF channel correlation: explicit
    lfg.put(0, 2); //   colour_factor = 84
    lfg.put(0, 16); //   base_correlation_x = 0.0
    lfg.put(0, 16); //   base_correlation_b = 0.0
    lfg.put(128, 8);
    lfg.put(128, 8);
    lfg.put(1, 1); // global MA tree present
    ent_header_zero(&mut lfg, 6); // tree: one leaf, zero predictor, offset 0, multiplier 1
    ent_header_flat(&mut lfg, 1); // the code every modular stream of this frame uses

    // --- LfGroup
    let mut lfgrp = BitW::default();
    lfgrp.put(0, 2); // extra_precision
    modular_header_global_tree(&mut lfgrp);
    for c in 0..3 {
        // LF channels Y, Cb, Cr, each with its own (shifted) grid
        for y in 0..cgrid[c].1 {
            for x in 0..cgrid[c].0 {
                tok(&mut lfgrp, pack_signed(block_at(c, x, y)[0] as i32));
            }
        }
    }
    let nb_blocks = bw * bh;
    lfgrp.put((nb_blocks - 1) as u64, ceil_log2(bw * bh));
    modular_header_global_tree(&mut lfgrp);
    let cfl_samples = w.div_ceil(64) * h.div_ceil(64);
    for _ in 0..2 * cfl_samples {
        tok(&mut lfgrp, 0); // x_from_y, b_from_y
    }
    for _ in 0..2 * nb_blocks {
        tok(&mut lfgrp, 0); // DCT8, HfMul 1
    }
    for _ in 0..bw * bh {
        tok(&mut lfgrp, 0); // sharpness
    }

    // --- HfGlobal
    let mut hfg = BitW::default();
    hfg.put(0, 1); // dequant matrices: !all_default
    hfg.put(7, 3); // DCT8: RAW
    hfg.put(0x1004, 16); // denominator ~ 1/2040 as f16
    modular_header_global_tree(&mut hfg);
    for c in [1usize, 0, 2] {
        // JPEG XL channel order is Cb, Y, Cr
        let c = if c < ncomp { c } else { 0 };
        for y in 0..8 {
            for x in 0..8 {
                // pixel (x, y) holds the quantiser of JPEG position (row = x, col = y)
                let k = zz.iter().position(|&p| p == (x, y)).unwrap();
                tok(&mut hfg, pack_signed(spec.quant[c][k] as i32));
            }
        }
    }
    for _ in 0..16 {
        hfg.put(0, 3); // every other transform: library default
    }
    hfg.put(0, ceil_log2(num_groups)); // num_hf_presets = 1
    hfg.put(2, 2); // used_orders = 0
    ent_header_flat(&mut hfg, 495 * 15);

    // --- PassGroups
    // stream position k of a block carries the JPEG coefficient of the transposed position
    let tr: Vec<usize> = (0..64)
        .map(|k| {
            let (r, c) = zz[k];
            zz.iter().position(|&p| p == (c, r)).unwrap()
        })
        .collect();
    let mut pass_groups = Vec::new();
    for gy in 0..groups_y {
        for gx in 0..groups_x {
            let mut pg = BitW::default();
            let x0 = gx * 32;
            let y0 = gy * 32;
            for by in y0..(y0 + 32).min(bh) {
                for bx in x0..(x0 + 32).min(bw) {
                    for c in 0..3 {
                        // Y, Cb, Cr; a shifted channel has a block where the position is aligned
                        let (hs, vs) = shift[c];
                        if (bx >> hs) << hs != bx || (by >> vs) << vs != by {
                            continue;
                        }
                        let block = block_at(c, bx >> hs, by >> vs);
                        let stream: Vec<i16> = (0..64).map(|k| block[tr[k]]).collect();
                        let mut nz = stream[1..].iter().filter(|&&v| v != 0).count();
                        tok(&mut pg, nz as u32);
                        for &v in &stream[1..] {
                            if nz == 0 {
                                break;
                            }
                            tok(&mut pg, pack_signed(v as i32));
                            if v != 0 {
                                nz -= 1;
                            }
                        }
                    }
                }
            }
            pass_groups.push(pg);
        }
    }

    // --- TOC + sections
    let toc_dist = [(0, 10), (1024, 14), (17408, 22), (4211712, 30)];
    cs.put(0, 1); // TOC not permuted
    cs.align();
    if num_groups == 1 {
        let mut all = BitW::default();
        all.append(&lfg);
        all.append(&lfgrp);
        all.append(&hfg);
        all.append(&pass_groups[0]);
        all.align();
        cs.u32(toc_dist, all.buf.len() as u32);
        cs.align();
        cs.buf.extend_from_slice(&all.buf);
    } else {
        let mut sections = vec![lfg, lfgrp, hfg];
        sections.extend(pass_groups);
        for s in &mut sections {
            s.align();
            cs.u32(toc_dist, s.buf.len() as u32);
        }
        cs.align();
        for s in &sections {
            cs.buf.extend_from_slice(&s.buf);
        }
    }
    cs.buf
}

/// Brotli stream made of stored (uncompressed) meta-blocks.
pub fn brotli_store(data: &[u8]) -> Vec<u8> {
    let mut w = BitW::default();
    w.put(0, 1); // WBITS = 16
    for chunk in data.chunks(65536) {
        w.put(0, 1); // ISLAST = 0
        w.put(0, 2); // MNIBBLES = 4
        w.put((chunk.len() - 1) as u64, 16);
        w.put(1, 1); // ISUNCOMPRESSED
        w.align();
        w.buf.extend_from_slice(chunk);
        w.nbits = w.buf.len() * 8;
    }
    w.put(1, 1); // ISLAST
    w.put(1, 1); // ISLASTEMPTY
    w.buf
}

/// One Huffman code of the reconstruction data (with the sentinel symbol 256 already added).
#[derive(Clone, Debug)]
pub struct JbrdHuff {
    pub is_ac: bool,
    pub id: u8,
    pub is_last: bool,
    pub counts: [u32; 17],
    pub values: Vec<u32>,
}

#[derive(Clone, Debug)]
pub struct JbrdScan {
    pub ss: u8,
    pub se: u8,
    pub al: u8,
    pub ah: u8,
    /// `(comp_idx, ac_tbl_idx, dc_tbl_idx)`
    pub comps: Vec<(u8, u8, u8)>,
    pub last_needed_pass: u32,
    pub reset_points: Vec<u32>,
    /// `(block index, number of runs)`
    pub extra_zero_runs: Vec<(u32, u32)>,
}

/// The fields of the `jbrd` header, one to one with what `JpegBitstreamHeader::parse` reads.
/// `serialize` writes as many per-marker entries as the marker list calls for (missing ones are
/// made up, surplus ones dropped), so every value of this type is a parseable header.
#[derive(Clone, Debug)]
pub struct JbrdFields {
    pub is_gray: bool,
    /// marker bytes `0xc0..=0xff`, the last one `0xd9`
    pub markers: Vec<u8>,
    /// `(type, length)`
    pub app: Vec<(u32, u32)>,
    pub com_lengths: Vec<u32>,
    /// `(precision, index, is_last)`, 1..=4 of them
    pub quant: Vec<(u8, u8, bool)>,
    /// 0: one component, 1: ids 1 2 3, 2: ids R G B, 3: `comp_ids`
    pub comp_type: u8,
    pub comp_ids: Vec<u8>,
    pub comp_q: Vec<u8>,
    pub huff: Vec<JbrdHuff>,
    pub scans: Vec<JbrdScan>,
    pub restart_interval: u16,
    pub intermarker_lengths: Vec<u32>,
    pub tail_len: u32,
    pub padding: Option<Vec<u8>>,
    /// what follows the header, before Brotli
    pub data: Vec<u8>,
}

impl JbrdFields {
    pub fn from_spec(spec: &JpegSpec) -> Self {
        let tables = spec.huff_tables();
        let jpeg = write_jpeg_ex(spec);
        let mut markers: Vec<u8> = Vec::new();
        let mut app = Vec::new();
        let mut com_lengths = Vec::new();
        let mut data = Vec::new();
        if spec.jfif {
            // generic APPn: marker byte, length and payload live in the data section
            markers.push(0xe0);
            app.push((0, (1 + 2 + JFIF_PAYLOAD.len()) as u32));
            data.push(0xe0);
            data.extend_from_slice(&((2 + JFIF_PAYLOAD.len()) as u16).to_be_bytes());
            data.extend_from_slice(&JFIF_PAYLOAD);
        }
        if let Some(exif) = &spec.exif_app1 {
            // Exif APP1: payload comes from the Exif box
            markers.push(0xe1);
            app.push((2, (3 + 6 + exif.len()) as u32));
        }
        if let Some(com) = &spec.comment {
            markers.push(0xfe);
            com_lengths.push((2 + com.len()) as u32);
            data.extend_from_slice(&((2 + com.len()) as u16).to_be_bytes());
            data.extend_from_slice(com);
        }
        markers.extend_from_slice(&[0xdb, if spec.progressive { 0xc2 } else { 0xc0 }]);
        for _ in 0..if spec.dht_split { tables.len() } else { 1 } {
            markers.push(0xc4);
        }
        if spec.restart_interval != 0 {
            markers.push(0xdd);
        }
        for _ in &spec.scans {
            markers.push(0xda);
        }
        markers.push(0xd9);

        let huff = tables
            .iter()
            .enumerate()
            .map(|(i, t)| {
                // counts[0..17] by code length, with the sentinel symbol 256 added at the longest length
                let mut counts = [0u32; 17];
                for l in 1..=16 {
                    counts[l] = t.counts[l - 1] as u32;
                }
                let longest = (1..=16).rev().find(|&l| counts[l] != 0).unwrap();
                counts[longest] += 1;
                let mut values: Vec<u32> = t.values.iter().map(|&v| v as u32).collect();
                values.push(256);
                JbrdHuff { is_ac: t.is_ac, id: t.id, is_last: i == 3 || spec.dht_split, counts, values }
            })
            .collect();
        let no_ezr = Vec::new();
        let scans = spec
            .scans
            .iter()
            .enumerate()
            .map(|(scan_idx, comps)| {
                let (ss, se, ah, al) = spec.scan_param(scan_idx);
                JbrdScan {
                    ss,
                    se,
                    al,
                    ah,
                    comps: comps.iter().map(|&c| (c as u8, (c != 0) as u8, (c != 0) as u8)).collect(),
                    last_needed_pass: 0,
                    reset_points: jpeg.reset_points[scan_idx].clone(),
                    extra_zero_runs: spec.extra_zero_runs.get(scan_idx).unwrap_or(&no_ezr).clone(),
                }
            })
            .collect();
        // the sampling factors are not in the box: the decoder takes them from the frame header
        Self {
            is_gray: spec.gray,
            markers,
            app,
            com_lengths,
            quant: if spec.gray { vec![(0, 0, true)] } else { vec![(0, 0, false), (0, 1, false), (0, 2, true)] },
            comp_type: if spec.gray { 0 } else { 1 },
            comp_ids: if spec.gray { vec![1] } else { vec![1, 2, 3] },
            comp_q: if spec.gray { vec![0] } else { vec![0, 1, 2] },
            huff,
            scans,
            restart_interval: spec.restart_interval,
            intermarker_lengths: Vec::new(),
            tail_len: 0,
            padding: spec.padding.clone(),
            data,
        }
    }

    pub fn serialize(&self) -> Vec<u8> {
        let mut w = BitW::default();
        w.put(self.is_gray as u64, 1);
        assert_eq!(self.markers.last(), Some(&0xd9));
        assert!(self.markers[..self.markers.len() - 1].iter().all(|&m| m != 0xd9));
        for &m in &self.markers {
            assert!(m >= 0xc0);
            w.put((m - 0xc0) as u64, 6);
        }
        let count = |f: &dyn Fn(u8) -> bool| self.markers.iter().filter(|&&m| f(m)).count();
        let n_app = count(&|m| (0xe0..=0xef).contains(&m));
        let n_com = count(&|m| m == 0xfe);
        let n_scans = count(&|m| m == 0xda);
        let n_inter = count(&|m| m == 0xff);
        let has_dri = count(&|m| m == 0xdd) > 0;

        for i in 0..n_app {
            let (ty, len) = self.app.get(i).copied().unwrap_or((0, 3));
            w.u32([(0, 0), (1, 0), (2, 1), (4, 2)], ty.min(7));
            w.put((len.clamp(1, 65536) - 1) as u64, 16);
        }
        for i in 0..n_com {
            let len = self.com_lengths.get(i).copied().unwrap_or(2);
            w.put((len.clamp(1, 65536) - 1) as u64, 16);
        }
        assert!((1..=4).contains(&self.quant.len()));
        w.put((self.quant.len() - 1) as u64, 2);
        for &(precision, index, is_last) in &self.quant {
            w.put(precision as u64 & 1, 1);
            w.put(index as u64 & 3, 2);
            w.put(is_last as u64, 1);
        }
        w.put(self.comp_type as u64 & 3, 2);
        let ncomp = match self.comp_type & 3 {
            0 => 1,
            1 | 2 => 3,
            _ => {
                let n = self.comp_ids.len().clamp(1, 4);
                w.put((n - 1) as u64, 2);
                for i in 0..n {
                    w.put(self.comp_ids[i] as u64, 8);
                }
                n
            }
        };
        for i in 0..ncomp {
            w.put(self.comp_q.get(i).copied().unwrap_or(0) as u64 & 3, 2);
        }

        w.u32([(4, 0), (2, 3), (10, 4), (26, 6)], self.huff.len() as u32);
        for h in &self.huff {
            w.put(h.is_ac as u64, 1);
            w.put(h.id as u64 & 3, 2);
            w.put(h.is_last as u64, 1);
            for &c in &h.counts {
                w.u32([(0, 0), (1, 0), (2, 3), (0, 8)], c.min(255));
            }
            // the parser reads as many values as the counts add up to
            let total: u32 = h.counts.iter().map(|&c| c.min(255)).sum();
            for i in 0..total as usize {
                let v = h.values.get(i).copied().unwrap_or(0);
                w.u32([(0, 2), (4, 2), (8, 4), (1, 8)], v.min(256));
            }
        }

        for i in 0..n_scans {
            let dflt = JbrdScan { ss: 0, se: 63, al: 0, ah: 0, comps: vec![(0, 0, 0)], last_needed_pass: 0, reset_points: Vec::new(), extra_zero_runs: Vec::new() };
            let sc = self.scans.get(i).unwrap_or(&dflt);
            let n = sc.comps.len().clamp(1, 4);
            w.put((n - 1) as u64, 2);
            w.put(sc.ss as u64 & 63, 6);
            w.put(sc.se as u64 & 63, 6);
            w.put(sc.al as u64 & 15, 4);
            w.put(sc.ah as u64 & 15, 4);
            for j in 0..n {
                let (c, ac, dc) = sc.comps[j];
                w.put(c as u64 & 3, 2);
                w.put(ac as u64 & 3, 2);
                w.put(dc as u64 & 3, 2);
            }
            w.u32([(0, 0), (1, 0), (2, 0), (3, 3)], sc.last_needed_pass.min(10));
        }
        if has_dri {
            w.put(self.restart_interval as u64, 16);
        }
        let cnt = [(0, 0), (1, 2), (4, 4), (20, 16)];
        let pos = [(0, 0), (1, 3), (9, 5), (41, 28)];
        for i in 0..n_scans {
            let (resets, ezr) = match self.scans.get(i) {
                Some(sc) => (sc.reset_points.clone(), sc.extra_zero_runs.clone()),
                None => (Vec::new(), Vec::new()),
            };
            w.u32(cnt, resets.len() as u32);
            let mut last: Option<u32> = None;
            for &idx in &resets {
                let delta = match last {
                    None => idx,
                    Some(l) => idx.saturating_sub(l + 1),
                };
                w.u32(pos, delta);
                last = Some(idx);
            }
            w.u32(cnt, ezr.len() as u32);
            let mut last: Option<u32> = None;
            for &(idx, n) in &ezr {
                w.u32([(1, 0), (2, 2), (5, 4), (20, 8)], n.clamp(1, 275));
                let delta = match last {
                    None => idx,
                    Some(l) => idx.saturating_sub(l + 1),
                };
                w.u32(pos, delta);
                last = Some(idx);
            }
        }
        for i in 0..n_inter {
            w.put(self.intermarker_lengths.get(i).copied().unwrap_or(0) as u64 & 0xffff, 16);
        }
        w.u32([(0, 0), (1, 8), (257, 16), (65793, 22)], self.tail_len);
        match &self.padding {
            None => w.put(0, 1),
            Some(bits) => {
                w.put(1, 1);
                w.put(bits.len() as u64, 24);
                for &b in bits {
                    w.put(b as u64, 1);
                }
            }
        }
        w.align();
        let mut out = w.buf;
        out.extend_from_slice(&brotli_store(&self.data));
        out
    }
}

/// Builds the contents of the `jbrd` box for `spec`.
pub fn write_jbrd(spec: &JpegSpec) -> Vec<u8> {
    JbrdFields::from_spec(spec).serialize()
}

/// Seeded structural damage to a truthful header: every result still parses as a `jbrd` header
/// (the lists follow the marker list), but what it says no longer fits the image or itself.
pub fn hostile(f: &mut JbrdFields, seed: u64) -> Vec<&'static str> {
    let mut s = seed.wrapping_mul(0x9e3779b97f4a7c15) | 1;
    let mut next = move || {
        s ^= s << 13;
        s ^= s >> 7;
        s ^= s << 17;
        s
    };
    let mut done = Vec::new();
    let n_mut = 1 + next() % 3;
    for _ in 0..n_mut {
        let body = f.markers.len() - 1; // EOI stays last
        match next() % 22 {
            0 => {
                // a marker once more, somewhere
                let pool = [0xdbu8, 0xc4, 0xda, 0xdd, 0xc0, 0xc2, 0xc1, 0xc9, 0xca, 0xe0, 0xe1, 0xe2, 0xef, 0xfe, 0xff, 0xd0, 0xd7];
                let m = pool[(next() % pool.len() as u64) as usize];
                let at = (next() % (body as u64 + 1)) as usize;
                f.markers.insert(at, m);
                done.push("marker-inserted");
            }
            1 => {
                // a marker the reconstruction does not know
                let pool = [0xc3u8, 0xc5, 0xc8, 0xcc, 0xd8, 0xdc, 0xde, 0xf0, 0xfd];
                let m = pool[(next() % pool.len() as u64) as usize];
                let at = (next() % (body as u64 + 1)) as usize;
                f.markers.insert(at, m);
                done.push("marker-unknown");
            }
            2 => {
                if body > 0 {
                    let at = (next() % body as u64) as usize;
                    f.markers.remove(at);
                    done.push("marker-removed");
                }
            }
            3 => {
                if body > 1 {
                    let a = (next() % body as u64) as usize;
                    let b = (next() % body as u64) as usize;
                    f.markers.swap(a, b);
                    done.push("markers-swapped");
                }
            }
            4 => {
                for q in f.quant.iter_mut() {
                    q.2 = next() % 2 == 0;
                }
                done.push("quant-is-last");
            }
            5 => {
                let i = (next() % f.quant.len() as u64) as usize;
                f.quant[i].1 = (next() % 4) as u8;
                f.quant[i].0 = (next() % 2) as u8;
                done.push("quant-index-precision");
            }
            6 => {
                if next() % 2 == 0 && f.quant.len() > 1 {
                    f.quant.pop();
                } else if f.quant.len() < 4 {
                    f.quant.push(((next() % 2) as u8, (next() % 4) as u8, next() % 2 == 0));
                }
                done.push("quant-count");
            }
            7 => {
                f.comp_type = (next() % 4) as u8;
                f.comp_ids = (0..1 + next() % 4).map(|_| next() as u8).collect();
                f.is_gray = next() % 2 == 0;
                done.push("components");
            }
            8 => {
                for q in f.comp_q.iter_mut() {
                    *q = (next() % 4) as u8;
                }
                done.push("component-quant-index");
            }
            9 => {
                for h in f.huff.iter_mut() {
                    h.is_last = next() % 3 == 0;
                }
                done.push("huffman-is-last");
            }
            10 => {
                if !f.huff.is_empty() {
                    let i = (next() % f.huff.len() as u64) as usize;
                    match next() % 4 {
                        0 => f.huff[i].id = (next() % 4) as u8,
                        1 => f.huff[i].is_ac = !f.huff[i].is_ac,
                        2 => {
                            f.huff.remove(i);
                        }
                        _ => {
                            let h = f.huff[i].clone();
                            f.huff.push(h);
                        }
                    }
                    done.push("huffman-slot");
                }
            }
            11 => {
                if !f.huff.is_empty() {
                    let i = (next() % f.huff.len() as u64) as usize;
                    let h = &mut f.huff[i];
                    match next() % 4 {
                        0 => {
                            // over-subscribed lengths
                            h.counts[1 + (next() % 3) as usize] += 1 + (next() % 200) as u32;
                        }
                        1 => {
                            // the sentinel somewhere else / twice
                            let at = (next() % h.values.len() as u64) as usize;
                            h.values[at] = 256;
                        }
                        2 => {
                            // a symbol twice
                            let at = (next() % h.values.len() as u64) as usize;
                            h.values[at] = h.values[0];
                        }
                        _ => {
                            h.counts = [0; 17];
                            h.counts[16] = 255;
                            h.counts[15] = 2;
                        }
                    }
                    done.push("huffman-code");
                }
            }
            12 => {
                if !f.scans.is_empty() {
                    let i = (next() % f.scans.len() as u64) as usize;
                    let sc = &mut f.scans[i];
                    match next() % 5 {
                        0 => sc.comps = (0..1 + next() % 4).map(|_| ((next() % 4) as u8, (next() % 4) as u8, (next() % 4) as u8)).collect(),
                        1 => {
                            for c in sc.comps.iter_mut() {
                                c.1 = (next() % 4) as u8;
                                c.2 = (next() % 4) as u8;
                            }
                        }
                        2 => {
                            for c in sc.comps.iter_mut() {
                                c.0 = (next() % 4) as u8;
                            }
                        }
                        3 => {
                            let c = sc.comps[0];
                            sc.comps.push(c);
                            sc.comps.truncate(4);
                        }
                        _ => sc.comps.truncate(1),
                    }
                    done.push("scan-components");
                }
            }
            13 => {
                if !f.scans.is_empty() {
                    let i = (next() % f.scans.len() as u64) as usize;
                    let sc = &mut f.scans[i];
                    sc.ss = (next() % 64) as u8;
                    sc.se = (next() % 64) as u8;
                    if next() % 2 == 0 {
                        sc.al = (next() % 16) as u8;
                        sc.ah = (next() % 16) as u8;
                    }
                    done.push("scan-band");
                }
            }
            14 => {
                if !f.scans.is_empty() {
                    let i = (next() % f.scans.len() as u64) as usize;
                    let sc = &mut f.scans[i];
                    let mut at = next() % 8;
                    sc.extra_zero_runs = (0..1 + next() % 6)
                        .map(|_| {
                            at += 1 + next() % 4;
                            (at as u32, 1 + (next() % 275) as u32)
                        })
                        .collect();
                    done.push("extra-zero-runs");
                }
            }
            15 => {
                if !f.scans.is_empty() {
                    let i = (next() % f.scans.len() as u64) as usize;
                    let mut at = next() % 4;
                    f.scans[i].reset_points = (0..1 + next() % 20)
                        .map(|_| {
                            at += 1 + next() % 3;
                            at as u32
                        })
                        .collect();
                    if next() % 4 == 0 {
                        f.scans[i].reset_points.push(3 << 26);
                    }
                    done.push("reset-points");
                }
            }
            16 => {
                f.restart_interval = [0u16, 1, 2, 3, 65535, 7][(next() % 6) as usize];
                if !f.markers.contains(&0xdd) {
                    let at = (next() % (body as u64 + 1)) as usize;
                    f.markers.insert(at, 0xdd);
                }
                done.push("restart-interval");
            }
            17 => {
                if !f.app.is_empty() {
                    let i = (next() % f.app.len() as u64) as usize;
                    match next() % 3 {
                        0 => f.app[i].0 = (next() % 4) as u32,
                        1 => f.app[i].1 = 1 + (next() % 40) as u32,
                        _ => f.app[i].1 = 65536 - (next() % 3) as u32,
                    }
                    done.push("app-marker");
                } else {
                    f.markers.insert(0, 0xe2);
                    f.app.push(((next() % 4) as u32, 1 + (next() % 600) as u32));
                    done.push("app-marker-added");
                }
            }
            18 => {
                match next() % 3 {
                    0 => f.data.truncate(f.data.len() / 2),
                    1 => f.data.extend((0..1 + next() % 300).map(|i| i as u8)),
                    _ => f.tail_len = (next() % 70000) as u32,
                }
                done.push("data-length");
            }
            19 => {
                match next() % 3 {
                    0 => f.padding = Some(Vec::new()),
                    1 => f.padding = Some((0..next() % 5).map(|_| (next() & 1) as u8).collect()),
                    _ => f.padding = None,
                }
                done.push("padding-bits");
            }
            20 => {
                f.intermarker_lengths = (0..4).map(|_| (next() % 300) as u32).collect();
                let at = (next() % (body as u64 + 1)) as usize;
                f.markers.insert(at, 0xff);
                done.push("intermarker-data");
            }
            _ => {
                f.com_lengths = (0..3).map(|_| 1 + (next() % 100) as u32).collect();
                let at = (next() % (body as u64 + 1)) as usize;
                f.markers.insert(at, 0xfe);
                done.push("comment-added");
            }
        }
    }
    done
}

fn push_box(out: &mut Vec<u8>, ty: &[u8; 4], payload: &[u8]) {
    out.extend_from_slice(&((8 + payload.len()) as u32).to_be_bytes());
    out.extend_from_slice(ty);
    out.extend_from_slice(payload);
}

/// Container with `jbrd`, optional `Exif` / `xml ` boxes and the codestream.
pub fn write_container(
    spec: &JpegSpec,
    exif_box: Option<&[u8]>,
    xml_box: Option<&[u8]>,
) -> Vec<u8> {
    write_container_with(spec, &write_jbrd(spec), exif_box, xml_box)
}

/// The same with the contents of the `jbrd` box given.
pub fn write_container_with(
    spec: &JpegSpec,
    jbrd: &[u8],
    exif_box: Option<&[u8]>,
    xml_box: Option<&[u8]>,
) -> Vec<u8> {
    let mut out = Vec::new();
    out.extend_from_slice(&[0, 0, 0, 0x0c, b'J', b'X', b'L', b' ', 0x0d, 0x0a, 0x87, 0x0a]);
    push_box(&mut out, b"ftyp", b"jxl \0\0\0\0jxl ");
    push_box(&mut out, b"jbrd", jbrd);
    if let Some(tiff) = exif_box {
        let mut payload = vec![0, 0, 0, 0]; // offset of the TIFF header
        payload.extend_from_slice(tiff);
        push_box(&mut out, b"Exif", &payload);
    }
    if let Some(xml) = xml_box {
        push_box(&mut out, b"xml ", xml);
    }
    push_box(&mut out, b"jxlc", &write_codestream(spec));
    out
}

/// Deterministic pseudo-random coefficients that look like a photo: decaying magnitudes, mostly
/// zero high frequencies.
pub fn random_blocks(seed: u64, n: usize) -> Vec<[i16; 64]> {
    let mut s = seed.wrapping_mul(0x9e3779b97f4a7c15) | 1;
    let mut next = move || {
        s ^= s << 13;
        s ^= s >> 7;
        s ^= s << 17;
        s
    };
    (0..n)
        .map(|_| {
            let mut b = [0i16; 64];
            b[0] = (next() % 400) as i16 - 200;
            let last = (next() % 40) as usize;
            for k in 1..=last {
                let r = next();
                if r % 3 != 0 {
                    continue;
                }
                let mag = 1 + (r >> 8) % (1 + 60 / (k as u64 + 1));
                b[k] = if (r >> 40) & 1 == 0 { mag as i16 } else { -(mag as i16) };
            }
            b
        })
        .collect()
}

pub fn default_quant() -> [[u16; 64]; 3] {
    let mut q = [[0u16; 64]; 3];
    for (c, t) in q.iter_mut().enumerate() {
        for (k, v) in t.iter_mut().enumerate() {
            *v = (2 + c as u16 * 3 + (k as u16 * (3 + c as u16)) / 2).min(255);
        }
    }
    q
}
