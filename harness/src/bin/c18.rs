//! C18 correspondence: the real ICC command interpreter (`jxl_color::icc::decode_icc`), the
//! 41-context function of the ICC byte stream (`get_icc_ctx`, through the cfg hook) and
//! `colour_encoding_to_icc` as a source of realistic profiles.
use jxl_color::{
    ColourSpace, EnumColourEncoding, Primaries, RenderingIntent, TransferFunction, WhitePoint,
};
use verif_harness::*;

/// Stable one-word names for the errors `decode_icc` can return.
fn err_kind(e: &jxl_color::Error) -> String {
    use jxl_color::Error::*;
    match e {
        InvalidIccStream(s) => match *s {
            "stream is too short" => "short",
            "invalid commands_size" => "cmdsize",
            "invalid output_size" => "outsize",
            "num_tags too large" => "numtags",
            "unexpected end of data stream" => "tagdata",
            "invalid tagcode" => "tagcode",
            "ICC profile size mismatch" => "tagrange",
            "width == 3 || order == 3" => "widthorder",
            "stride < width" => "stride",
            "stride * 4 >= out.len()" => "lookback",
            "invalid command" => "command",
            "decoded ICC profile size mismatch" => "sizemismatch",
            _ => "other-icc",
        }
        .into(),
        Bitstream(jxl_bitstream::Error::ProfileConformance(_)) => "toolarge".into(),
        _ => "other".into(),
    }
}

fn synth(w: &[&str]) -> Option<EnumColourEncoding> {
    let colour_space = match w[0] {
        "rgb" => ColourSpace::Rgb,
        "grey" => ColourSpace::Grey,
        _ => return None,
    };
    let white_point = match w[1] {
        "d65" => WhitePoint::D65,
        "e" => WhitePoint::E,
        "dci" => WhitePoint::Dci,
        _ => return None,
    };
    let primaries = match w[2] {
        "srgb" => Primaries::Srgb,
        "bt2100" => Primaries::Bt2100,
        "p3" => Primaries::P3,
        _ => return None,
    };
    let tf = match w[3] {
        "bt709" => TransferFunction::Bt709,
        "linear" => TransferFunction::Linear,
        "srgb" => TransferFunction::Srgb,
        "pq" => TransferFunction::Pq,
        "dci" => TransferFunction::Dci,
        "hlg" => TransferFunction::Hlg,
        "g22" => TransferFunction::Gamma { g: 4545455, inverted: true },
        "g18" => TransferFunction::Gamma { g: 18000000, inverted: false },
        _ => return None,
    };
    let rendering_intent = match w[4] {
        "per" => RenderingIntent::Perceptual,
        "rel" => RenderingIntent::Relative,
        "sat" => RenderingIntent::Saturation,
        "abs" => RenderingIntent::Absolute,
        _ => return None,
    };
    Some(EnumColourEncoding { colour_space, white_point, primaries, tf, rendering_intent })
}

fn main() {
    install_quiet_panic_hook();
    line_loop((), |_, w| match w {
        ["decode", h] => {
            let Some(bytes) = unhex(h) else { return "bad-op".into() };
            match catch(move || jxl_color::icc::decode_icc(&bytes)) {
                Err(p) => p,
                Ok(Ok(v)) => format!("ok {}", hex(&v)),
                Ok(Err(e)) => format!("err {}", err_kind(&e)),
            }
        }
        ["ctx", i, b1, b2] => {
            let (Ok(i), Ok(b1), Ok(b2)) = (i.parse::<usize>(), b1.parse::<u8>(), b2.parse::<u8>())
            else {
                return "bad-op".into();
            };
            format!("{}", jxl_color::icc::verif_get_icc_ctx(i, b1, b2))
        }
        ["synth", rest @ ..] if rest.len() == 5 => {
            let Some(enc) = synth(rest) else { return "bad-op".into() };
            match catch(move || jxl_color::icc::colour_encoding_to_icc(&enc)) {
                Err(p) => p,
                Ok(v) => format!("ok {}", hex(&v)),
            }
        }
        _ => "bad-op".into(),
    });
}
