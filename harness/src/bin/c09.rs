//! C09 / C11: the incremental feeding API of `jxl_oxide` driven op by op.
//!
//! One *script* per input line (so that every line is independent and a crash or hang costs one
//! case only): `script <op> <op> ...`, answers joined with ` | `.  Ops:
//!
//! * `new`                      fresh `JxlImage::builder().build_uninit()` (also implied at start)
//! * `newwide`                  the same with `force_wide_buffers(true)` (32-bit Modular buffers)
//! * `feed:<hex>`               exactly one API call on the bytes given:
//!                              uninitialised: `UninitializedJxlImage::feed_bytes` then `try_init`;
//!                              initialised: `JxlImage::feed_bytes`.  Answer:
//!                              `consumed=<n> st=<uninit|ready|err-*> [frames= kf= offs= done=]`
//! * `push:<hex>`               the caller the API documentation asks for: offers the bytes not
//!                              consumed by the previous call again in front of the new chunk
//! * `pushf:<path>:<a>:<b>`     `push` of bytes `[a, b)` of a file (for the 387 KB fixture)
//! * `loading`                  `render_loading_frame()`: `img <w>x<h>[,<w>x<h>..]` (one entry
//!                              per channel buffer) | `needmore` | `err-<class>` | `uninit`
//! * `finish`                   `finalize()`, then the observables and every keyframe rendered:
//!                              `fin st=.. hdr=.. frames=.. kf=.. offs=.. done=.. left=<pending>
//!                              exif=.. xml=.. jbrd=.. r=<hash>,<hash>..`
//! * `read:<hex>` / `readf:<path>`  `JxlImage::builder().read(Cursor)` on the whole buffer, then
//!                              the same report as `finish`
//!
//! Samples are reported as an FNV-1a hash over (kind, width, height, values) of every channel
//! buffer of every keyframe (integers as they are, floats by bit pattern).
use jxl_oxide::{AuxBoxData, InitializeResult, JxlImage, JxlThreadPool, UninitializedJxlImage};
use jxl_render::ImageBuffer;
use verif_harness::*;

enum St {
    Uninit(Box<UninitializedJxlImage>),
    Ready(Box<JxlImage>),
    Dead(String),
}

struct Sess {
    st: St,
    pending: Vec<u8>,
    tracker: jxl_oxide::AllocTracker,
}

fn fresh() -> Sess {
    fresh_with(false)
}

fn fresh_with(wide: bool) -> Sess {
    let tracker = jxl_oxide::AllocTracker::with_limit(1 << 30);
    let u = JxlImage::builder()
        .pool(JxlThreadPool::none())
        .alloc_tracker(tracker.clone())
        .force_wide_buffers(wide)
        .build_uninit();
    Sess { st: St::Uninit(Box::new(u)), pending: Vec::new(), tracker }
}

struct Fnv(u64);
impl Fnv {
    fn new() -> Self {
        Fnv(0xcbf29ce484222325)
    }
    fn u32(&mut self, v: u32) {
        for b in v.to_le_bytes() {
            self.0 ^= b as u64;
            self.0 = self.0.wrapping_mul(0x100000001b3);
        }
    }
}

fn hash_buf(b: &ImageBuffer, h: &mut Fnv) {
    match b {
        ImageBuffer::I32(g) => {
            h.u32(1);
            h.u32(g.width() as u32);
            h.u32(g.height() as u32);
            for v in g.buf() {
                h.u32(*v as u32);
            }
        }
        ImageBuffer::I16(g) => {
            h.u32(1);
            h.u32(g.width() as u32);
            h.u32(g.height() as u32);
            for v in g.buf() {
                h.u32(*v as i32 as u32);
            }
        }
        ImageBuffer::F32(g) => {
            h.u32(2);
            h.u32(g.width() as u32);
            h.u32(g.height() as u32);
            for v in g.buf() {
                h.u32(v.to_bits());
            }
        }
    }
}

fn buf_dims(b: &ImageBuffer) -> (usize, usize) {
    match b {
        ImageBuffer::I32(g) => (g.width(), g.height()),
        ImageBuffer::I16(g) => (g.width(), g.height()),
        ImageBuffer::F32(g) => (g.width(), g.height()),
    }
}

/// error class: need-more-data (`eof`), out of memory, anything else
fn class(e: &(dyn std::error::Error + 'static)) -> String {
    if let Some(r) = e.downcast_ref::<jxl_render::Error>() {
        if matches!(r, jxl_render::Error::IncompleteFrame) || r.unexpected_eof() {
            return "needmore".into();
        }
        let d = format!("{:?}", r);
        let head: String = d.chars().take_while(|c| c.is_alphanumeric()).collect();
        let inner = d
            .split(|c: char| !c.is_alphanumeric())
            .filter(|s| !s.is_empty())
            .nth(1)
            .unwrap_or("");
        return format!("err-render-{}-{}", head, inner);
    }
    if let Some(f) = e.downcast_ref::<jxl_frame::Error>() {
        if f.unexpected_eof() {
            return "needmore".into();
        }
    }
    if let Some(b) = e.downcast_ref::<jxl_bitstream::Error>() {
        if b.unexpected_eof() {
            return "needmore".into();
        }
    }
    match err_class(e) {
        "eof" => "err-eof-unclassified".into(),
        "oom" => "err-oom".into(),
        _ => {
            let d = format!("{:?}", e);
            let head: String = d
                .split(|c: char| !c.is_alphanumeric())
                .filter(|s| !s.is_empty())
                .take(2)
                .collect::<Vec<_>>()
                .join("-");
            format!("err-other-{}", head)
        }
    }
}

fn state_words(img: &JxlImage) -> String {
    let n = img.num_loaded_frames();
    // frame_offset is known for the loading frame too
    let mut offs = Vec::new();
    let mut i = 0;
    while let Some(o) = img.frame_offset(i) {
        offs.push(o.to_string());
        i += 1;
    }
    format!(
        "frames={} kf={} offs={} done={}",
        n,
        img.num_loaded_keyframes(),
        if offs.is_empty() { "-".into() } else { offs.join(",") },
        img.is_loading_done() as u8
    )
}

fn do_feed(s: &mut Sess, buf: &[u8]) -> String {
    let st = std::mem::replace(&mut s.st, St::Dead("taken".into()));
    match st {
        St::Dead(m) => {
            s.st = St::Dead(m);
            "dead".into()
        }
        St::Uninit(mut u) => {
            let consumed = match u.feed_bytes(buf) {
                Ok(c) => c,
                Err(e) => {
                    let c = class(&*e);
                    s.st = St::Dead(c.clone());
                    return format!("consumed=? st={}", c.replace("needmore", "err-feed-eof"));
                }
            };
            match u.try_init() {
                Ok(InitializeResult::NeedMoreData(u)) => {
                    s.st = St::Uninit(Box::new(u));
                    format!("consumed={} st=uninit", consumed)
                }
                Ok(InitializeResult::Initialized(img)) => {
                    let w = state_words(&img);
                    s.st = St::Ready(Box::new(img));
                    format!("consumed={} st=ready {}", consumed, w)
                }
                Err(e) => {
                    let c = class(&*e).replace("needmore", "err-init-eof");
                    s.st = St::Dead(c.clone());
                    format!("consumed={} st={}", consumed, c)
                }
            }
        }
        St::Ready(mut img) => match img.feed_bytes(buf) {
            Ok(c) => {
                let w = state_words(&img);
                s.st = St::Ready(img);
                format!("consumed={} st=ready {}", c, w)
            }
            Err(e) => {
                let c = class(&*e).replace("needmore", "err-feed-eof");
                s.st = St::Dead(c.clone());
                format!("consumed=? st={}", c)
            }
        },
    }
}

fn do_push(s: &mut Sess, chunk: &[u8]) -> String {
    let mut buf = std::mem::take(&mut s.pending);
    buf.extend_from_slice(chunk);
    let r = do_feed(s, &buf);
    if let Some(c) = r
        .strip_prefix("consumed=")
        .and_then(|x| x.split(' ').next())
        .and_then(|x| x.parse::<usize>().ok())
    {
        s.pending = buf[c.min(buf.len())..].to_vec();
    }
    r
}

fn do_loading(s: &mut Sess) -> String {
    match &mut s.st {
        St::Dead(_) => "dead".into(),
        St::Uninit(_) => "uninit".into(),
        St::Ready(img) => match img.render_loading_frame() {
            Ok(r) => {
                // what the caller gets: the image region of the grid, orientation applied
                let mut st = r.stream();
                let (w, h, c) = (st.width() as usize, st.height() as usize, st.channels() as usize);
                let mut buf = vec![0f32; w * h * c];
                let written = st.write_to_buffer(&mut buf);
                let _ = buf_dims;
                format!("img {}x{} ch={} px={}", w, h, c, written / c.max(1))
            }
            Err(e) => class(&*e),
        },
    }
}

fn aux_word<T: AsRef<[u8]>>(d: AuxBoxData<T>) -> String {
    match d {
        AuxBoxData::Data(x) => {
            let mut h = Fnv::new();
            let x = x.as_ref();
            for b in x {
                h.u32(*b as u32);
            }
            format!("{}:{:016x}", x.len(), h.0)
        }
        AuxBoxData::Decoding => "decoding".into(),
        AuxBoxData::NotFound => "notfound".into(),
    }
}

fn report(img: &mut JxlImage, pending: usize) -> String {
    let fin = match img.finalize() {
        Ok(()) => "ok".to_string(),
        Err(e) => class(&*e),
    };
    let hd = img.image_header();
    let hdr = format!(
        "{}x{}/{}x{}/{}/{}/{}",
        hd.width_with_orientation(),
        hd.height_with_orientation(),
        hd.size.width,
        hd.size.height,
        hd.metadata.bit_depth.bits_per_sample(),
        hd.metadata.ec_info.len(),
        hd.metadata.orientation
    );
    let exif = match img.aux_boxes().first_exif() {
        Ok(d) => aux_word(d.map(|e| e.payload().to_vec())),
        Err(_) => "invalid".into(),
    };
    let xml = aux_word(img.aux_boxes().first_xml().map(|x| x.to_vec()));
    let jbrd = format!("{:?}", img.jpeg_reconstruction_status());
    let mut rs = Vec::new();
    for k in 0..img.num_loaded_keyframes() {
        match img.render_frame(k) {
            Err(e) => rs.push(class(&*e)),
            Ok(r) => {
                let mut h = Fnv::new();
                let (_, ec) = r.extra_channels();
                for b in r.color_channels().iter().chain(ec.iter()) {
                    hash_buf(b, &mut h);
                }
                h.u32(r.duration());
                rs.push(format!("{:016x}", h.0));
            }
        }
    }
    format!(
        "fin={} hdr={} {} left={} exif={} xml={} jbrd={} r={} lay={}",
        fin,
        hdr,
        state_words(img),
        pending,
        exif,
        xml,
        jbrd,
        if rs.is_empty() { "-".into() } else { rs.join(",") },
        layout(img)
    )
}

/// Structure of the codestream as the decoder parsed it, for the model's layout-driven parsers:
/// `<bytes before the first frame>/<header+TOC bytes>:<is_last>:<is_keyframe>:<section sizes in
/// bitstream order>/...` (loaded frames, then the loading frame if its header is parsed).
fn layout(img: &JxlImage) -> String {
    let mut out = match img.frame_offset(0) {
        Some(o) => o.to_string(),
        None => return "-".into(),
    };
    let mut i = 0;
    while let Some(f) = img.frame(i) {
        let toc = f.toc();
        let hdr_len = toc.iter_bitstream_order().map(|g| g.offset).min().unwrap_or(0);
        let sizes: Vec<String> = toc.iter_bitstream_order().map(|g| g.size.to_string()).collect();
        out.push_str(&format!(
            "/{}:{}:{}:{}",
            hdr_len,
            f.header().is_last as u8,
            f.header().is_keyframe() as u8,
            sizes.join(",")
        ));
        i += 1;
    }
    out
}

fn do_finish(s: &mut Sess) -> String {
    let pending = s.pending.len();
    match &mut s.st {
        St::Dead(m) => format!("dead {}", m),
        St::Uninit(_) => format!("uninit left={}", pending),
        St::Ready(img) => report(img, pending),
    }
}

fn do_read(bytes: &[u8]) -> String {
    let image = JxlImage::builder()
        .pool(JxlThreadPool::none())
        .alloc_tracker(jxl_oxide::AllocTracker::with_limit(1 << 30))
        .read(std::io::Cursor::new(bytes));
    match image {
        Ok(mut img) => report(&mut img, 0),
        Err(e) => format!("readerr {}", class(&*e)),
    }
}

fn read_file(path: &str) -> Option<Vec<u8>> {
    std::fs::read(path).ok()
}


// ---- C11: the `unexpected_eof()` chain on values named by a path --------------------------------
// `eof:frame.modular.decoder.bitstream.io1` -> `true` / `false`; `unknown` if this harness has no
// constructor for the path (payload types that cannot be built from outside their crate).
fn mk_bitstream(p: &[&str]) -> Option<jxl_bitstream::Error> {
    use jxl_bitstream::Error as E;
    Some(match p {
        ["io1"] => E::Io(std::io::ErrorKind::UnexpectedEof.into()),
        ["io0"] => E::Io(std::io::ErrorKind::InvalidData.into()),
        ["invalidBox"] => E::InvalidBox,
        ["nonZeroPadding"] => E::NonZeroPadding,
        ["invalidFloat"] => E::InvalidFloat,
        ["invalidEnum"] => E::InvalidEnum { name: "x", value: 0 },
        ["validationFailed"] => E::ValidationFailed("x"),
        ["profileConformance"] => E::ProfileConformance("x"),
        ["cannotSkip"] => E::CannotSkip,
        ["notAligned"] => E::NotAligned,
        _ => return None,
    })
}

fn mk_coding(p: &[&str]) -> Option<jxl_coding::Error> {
    use jxl_coding::Error as E;
    Some(match p {
        ["bitstream", r @ ..] => E::Bitstream(mk_bitstream(r)?),
        ["lz77NotAllowed"] => E::Lz77NotAllowed,
        ["invalidAnsHistogram"] => E::InvalidAnsHistogram,
        ["invalidAnsStream"] => E::InvalidAnsStream,
        ["invalidIntegerConfig"] => E::InvalidIntegerConfig {
            split_exponent: 0,
            msb_in_token: 0,
            lsb_in_token: None,
        },
        ["invalidPermutation"] => E::InvalidPermutation,
        ["invalidPrefixHistogram"] => E::InvalidPrefixHistogram,
        ["prefixSymbolTooLarge"] => E::PrefixSymbolTooLarge(0),
        ["invalidCluster"] => E::InvalidCluster(0),
        ["clusterHole"] => E::ClusterHole { num_expected_clusters: 0, num_actual_clusters: 0 },
        ["unexpectedLz77Repeat"] => E::UnexpectedLz77Repeat,
        ["invalidLz77Symbol"] => E::InvalidLz77Symbol,
        _ => return None,
    })
}

fn mk_modular(p: &[&str]) -> Option<jxl_modular::Error> {
    use jxl_modular::Error as E;
    Some(match p {
        ["invalidMaTree"] => E::InvalidMaTree,
        ["globalMaTreeNotAvailable"] => E::GlobalMaTreeNotAvailable,
        ["invalidRctParams"] => E::InvalidRctParams,
        ["invalidPaletteParams"] => E::InvalidPaletteParams,
        ["invalidSqueezeParams"] => E::InvalidSqueezeParams,
        ["bitstream", r @ ..] => E::Bitstream(mk_bitstream(r)?),
        ["decoder", r @ ..] => E::Decoder(mk_coding(r)?),
        _ => return None,
    })
}

fn mk_vardct(p: &[&str]) -> Option<jxl_vardct::Error> {
    use jxl_vardct::Error as E;
    Some(match p {
        ["bitstream", r @ ..] => E::Bitstream(mk_bitstream(r)?),
        ["decoder", r @ ..] => E::Decoder(mk_coding(r)?),
        ["modular", r @ ..] => E::Modular(mk_modular(r)?),
        _ => return None,
    })
}

fn mk_frame(p: &[&str]) -> Option<jxl_frame::Error> {
    use jxl_frame::Error as E;
    Some(match p {
        ["bitstream", r @ ..] => E::Bitstream(mk_bitstream(r)?),
        ["decoder", r @ ..] => E::Decoder(mk_coding(r)?),
        ["modular", r @ ..] => E::Modular(mk_modular(r)?),
        ["varDct", r @ ..] => E::VarDct(mk_vardct(r)?),
        ["invalidTocPermutation"] => E::InvalidTocPermutation,
        ["incompleteFrameData"] => E::IncompleteFrameData { field: "x" },
        ["outOfMemory"] => E::OutOfMemory,
        ["hadError"] => E::HadError,
        _ => return None,
    })
}

fn mk_color(p: &[&str]) -> Option<jxl_color::Error> {
    use jxl_color::Error as E;
    Some(match p {
        ["bitstream", r @ ..] => E::Bitstream(mk_bitstream(r)?),
        ["decoder", r @ ..] => E::Decoder(mk_coding(r)?),
        ["invalidIccStream"] => E::InvalidIccStream("x"),
        ["iccParseFailure"] => E::IccParseFailure("x"),
        ["unsupportedColorEncoding"] => E::UnsupportedColorEncoding,
        ["unsupportedIccProfile"] => E::UnsupportedIccProfile,
        ["iccProfileEmbedded"] => E::IccProfileEmbedded,
        ["invalidEnumColorspace"] => E::InvalidEnumColorspace,
        ["cmsNotAvailable"] => E::CmsNotAvailable,
        ["cmsFailure"] => E::CmsFailure("x".into()),
        _ => return None,
    })
}

fn mk_render(p: &[&str]) -> Option<jxl_render::Error> {
    use jxl_render::Error as E;
    Some(match p {
        ["bitstream", r @ ..] => E::Bitstream(mk_bitstream(r)?),
        ["decoder", r @ ..] => E::Decoder(mk_coding(r)?),
        ["modular", r @ ..] => E::Modular(mk_modular(r)?),
        ["frame", r @ ..] => E::Frame(mk_frame(r)?),
        ["color", r @ ..] => E::Color(mk_color(r)?),
        ["incompleteFrame"] => E::IncompleteFrame,
        ["failedReference"] => E::FailedReference,
        ["uninitializedLfFrame"] => E::UninitializedLfFrame(0),
        ["invalidReference"] => E::InvalidReference(0),
        ["notReady"] => E::NotReady,
        ["notSupported"] => E::NotSupported("x"),
        _ => return None,
    })
}

fn do_eof(path: &str) -> String {
    let p: Vec<&str> = path.split('.').collect();
    let r = match p.as_slice() {
        ["bitstream", r @ ..] => mk_bitstream(r).map(|e| e.unexpected_eof()),
        ["coding", r @ ..] => mk_coding(r).map(|e| e.unexpected_eof()),
        ["modular", r @ ..] => mk_modular(r).map(|e| e.unexpected_eof()),
        ["vardct", r @ ..] => mk_vardct(r).map(|e| e.unexpected_eof()),
        ["frame", r @ ..] => mk_frame(r).map(|e| e.unexpected_eof()),
        ["color", r @ ..] => mk_color(r).map(|e| e.unexpected_eof()),
        ["render", r @ ..] => mk_render(r).map(|e| e.unexpected_eof()),
        _ => None,
    };
    match r {
        Some(b) => b.to_string(),
        None => "unknown".into(),
    }
}

fn op(s: &mut Sess, o: &str) -> String {
    let mut parts = o.splitn(2, ':');
    let name = parts.next().unwrap_or("");
    let arg = parts.next();
    match (name, arg) {
        ("new", None) => {
            *s = fresh();
            "ok".into()
        }
        ("newwide", None) => {
            *s = fresh_with(true);
            "ok".into()
        }
        ("feed", Some(h)) => match unhex(h) {
            Some(b) => do_feed(s, &b),
            None => "bad-op".into(),
        },
        ("push", Some(h)) => match unhex(h) {
            Some(b) => do_push(s, &b),
            None => "bad-op".into(),
        },
        ("pushf", Some(a)) => {
            let v: Vec<&str> = a.rsplitn(3, ':').collect();
            if v.len() != 3 {
                return "bad-op".into();
            }
            let (Ok(hi), Ok(lo)) = (v[0].parse::<usize>(), v[1].parse::<usize>()) else {
                return "bad-op".into();
            };
            match read_file(v[2]) {
                Some(f) if lo <= hi && hi <= f.len() => do_push(s, &f[lo..hi]),
                _ => "bad-file".into(),
            }
        }
        ("eof", Some(p)) => do_eof(p),
        ("loading", None) => do_loading(s),
        // fault injection (hook H1): from the k-th allocation from now on every allocation fails
        ("ff", Some(k)) => match k.parse::<usize>() {
            Ok(k) => {
                s.tracker.verif_fail_from(s.tracker.verif_alloc_calls() + k);
                "ff".into()
            }
            Err(_) => "bad-op".into(),
        },
        ("ffoff", None) => {
            s.tracker.verif_fail_from(usize::MAX);
            "ffoff".into()
        }
        ("finish", None) => do_finish(s),
        ("read", Some(h)) => match unhex(h) {
            Some(b) => do_read(&b),
            None => "bad-op".into(),
        },
        ("readf", Some(p)) => match read_file(p) {
            Some(b) => do_read(&b),
            None => "bad-file".into(),
        },
        _ => "bad-op".into(),
    }
}

fn main() {
    install_quiet_panic_hook();
    line_loop(fresh(), |s, w| match w {
        ["script", ops @ ..] => {
            *s = fresh();
            let mut out = Vec::new();
            for o in ops {
                match catch(|| op(s, o)) {
                    Ok(r) => out.push(r),
                    Err(p) => {
                        out.push(p);
                        s.st = St::Dead("panicked".into());
                    }
                }
            }
            out.join(" | ")
        }
        [one] => match catch(|| op(s, one)) {
            Ok(r) => r,
            Err(p) => {
                s.st = St::Dead("panicked".into());
                p
            }
        },
        _ => "bad-op".into(),
    });
}
