//! C06 / C05-geometry correspondence.
//!
//! (a) every modelled integer function of the region arithmetic, called on the real crates through
//!     hook H2 (`jxl_render::verif_region`), headers built in Rust (`BundleDefault` + public fields);
//! (b) crop-vs-full on the real decoder: `open`, `fresh`, `crop l t w h`.
use std::sync::Arc;

use jxl_frame::data::{BlendingModeInformation, GlobalModular, PatchBlendMode, PatchRef, PatchTarget};
use jxl_frame::filter::{EdgePreservingFilter, EpfParams, Gabor};
use jxl_frame::header::{Encoding, FrameType};
use jxl_frame::{Frame, FrameHeader};
use jxl_image::{ExtraChannelInfo, ImageHeader, ImageMetadata, SizeHeader};
use jxl_modular::{ChannelShift, Modular, ModularParams};
use jxl_oxide::{CropInfo, JxlImage};
use jxl_oxide_common::{Bundle, BundleDefault};
use jxl_render::verif_region as vr;
use jxl_render::Region;
use verif_harness::*;

struct Hdr {
    image: Arc<ImageHeader>,
    frame: Frame,
}

struct Loaded {
    bytes: Vec<u8>,
    width: u32,
    #[allow(dead_code)]
    height: u32,
    /// per keyframe, per channel: full render
    full: Vec<Vec<Vec<f32>>>,
    tester: JxlImage,
    /// `x0,y0,width,height,group_dim` of every frame, `;`-separated
    geo: String,
}

struct St {
    hdr: Hdr,
    /// Modular headers without / with a palette transform (for `compute_modular_region`)
    gm_plain: GlobalModular<i32>,
    gm_palette: GlobalModular<i32>,
    gm_squeeze: GlobalModular<i32>,
    loaded: Option<Loaded>,
}

fn image_header(w: u32, h: u32, orientation: u32, ec: &[(u32, u32)]) -> ImageHeader {
    let mut size = SizeHeader::default_with_context(());
    size.width = w;
    size.height = h;
    let mut metadata = ImageMetadata::default_with_context(());
    metadata.orientation = orientation;
    metadata.xyb_encoded = false;
    metadata.ec_info = ec
        .iter()
        .map(|&(_, dim_shift)| ExtraChannelInfo {
            dim_shift,
            ..Default::default()
        })
        .collect();
    ImageHeader { size, metadata }
}

#[allow(clippy::too_many_arguments)]
fn make_hdr(a: &[i64]) -> Option<Hdr> {
    if a.len() < 15 {
        return None;
    }
    let u = |x: i64| u32::try_from(x).ok();
    let i = |x: i64| i32::try_from(x).ok();
    let nec = usize::try_from(a[14]).ok()?;
    if a.len() != 15 + 2 * nec {
        return None;
    }
    let ec: Vec<(u32, u32)> = (0..nec)
        .map(|k| Some((u(a[15 + 2 * k])?, u(a[16 + 2 * k])?)))
        .collect::<Option<_>>()?;
    let image = Arc::new(image_header(u(a[0])?, u(a[1])?, u(a[2])?, &ec));
    let mut fh = FrameHeader::default_with_context(&*image);
    fh.x0 = i(a[3])?;
    fh.y0 = i(a[4])?;
    fh.width = u(a[5])?;
    fh.height = u(a[6])?;
    fh.have_crop = true;
    fh.frame_type = match a[7] {
        0 => FrameType::RegularFrame,
        1 => FrameType::LfFrame,
        2 => FrameType::ReferenceOnly,
        3 => FrameType::SkipProgressive,
        _ => return None,
    };
    fh.encoding = Encoding::Modular;
    fh.lf_level = u(a[8])?;
    let up = u(a[9])?;
    if up > 31 {
        return None;
    }
    fh.upsampling = 1u32 << up;
    fh.ec_upsampling = ec.iter().map(|&(e, _)| 1u32 << e.min(31)).collect();
    fh.restoration_filter.epf = match u(a[10])? {
        0 => EdgePreservingFilter::Disabled,
        iters => EdgePreservingFilter::Enabled(EpfParams {
            iters,
            ..Default::default()
        }),
    };
    fh.restoration_filter.gab = if a[11] != 0 {
        Gabor::default()
    } else {
        Gabor::Disabled
    };
    fh.do_ycbcr = a[12] != 0;
    fh.group_size_shift = u(a[13])?;
    let frame = Frame::verif_from_headers(Arc::clone(&image), fh);
    Some(Hdr { image, frame })
}

/// A Modular sub-bitstream header: `use_global_tree = 1`, default WP, `nb_transforms`, transforms.
/// Bits are LSB-first. With `use_global_tree` the parser needs a global MA config, which we get
/// from nowhere; so instead the local tree is used: that requires an entropy-coded tree. To stay
/// independent of any stream encoder the header is parsed with a *global* tree taken from the
/// fixture (see `modular_with`).
fn bits_to_bytes(bits: &[u8]) -> Vec<u8> {
    let mut out = vec![0u8; bits.len().div_ceil(8) + 8];
    for (i, b) in bits.iter().enumerate() {
        out[i / 8] |= b << (i % 8);
    }
    out
}

fn push(bits: &mut Vec<u8>, v: u32, n: u32) {
    for k in 0..n {
        bits.push(((v >> k) & 1) as u8);
    }
}

/// transform: 0 none, 1 palette (begin_c 0, num_c 1, nb_colours 1, nb_deltas 0, d_pred 0),
/// 2 squeeze with default parameters
fn modular_with(transform: u32, ma: &jxl_modular::MaConfig) -> Option<Modular<i32>> {
    let mut bits = Vec::new();
    push(&mut bits, 1, 1); // use_global_tree
    push(&mut bits, 1, 1); // default_wp
    match transform {
        0 => push(&mut bits, 0, 2), // nb_transforms = 0
        1 => {
            push(&mut bits, 1, 2); // nb_transforms = 1
            push(&mut bits, 1, 2); // tr = palette
            push(&mut bits, 0, 2); // begin_c: U32(u(3), 8+u(6), ..) selector 0
            push(&mut bits, 0, 3); //   = 0
            push(&mut bits, 0, 2); // num_c: U32(1, 3, 4, 1+u(13)) selector 0 = 1
            push(&mut bits, 0, 2); // nb_colours: U32(u(8), 256+u(10), ..) selector 0
            push(&mut bits, 1, 8); //   = 1
            push(&mut bits, 0, 2); // nb_deltas: U32(0, 1+u(8), ..) selector 0 = 0
            push(&mut bits, 0, 4); // d_pred
        }
        _ => {
            push(&mut bits, 1, 2); // nb_transforms = 1
            push(&mut bits, 2, 2); // tr = squeeze
            push(&mut bits, 0, 2); // num_sq: U32(0, 1+u(4), ..) selector 0 = 0 (default params)
        }
    }
    let bytes = bits_to_bytes(&bits);
    let mut bs = jxl_bitstream::Bitstream::new(&bytes);
    let params = ModularParams::new(8, 8, 128, 8, vec![ChannelShift::from_shift(0)], Some(ma), None);
    Modular::<i32>::parse(&mut bs, params).ok()
}

fn reg(a: &[i64]) -> Option<Region> {
    Some(Region {
        left: i32::try_from(a[0]).ok()?,
        top: i32::try_from(a[1]).ok()?,
        width: u32::try_from(a[2]).ok()?,
        height: u32::try_from(a[3]).ok()?,
    })
}

fn show(r: Region) -> String {
    format!("{} {} {} {}", r.left, r.top, r.width, r.height)
}

fn site(e: String) -> String {
    // "panic /tmp/..../crates/jxl-render/src/region.rs:58_attempt_to_add_with_overflow"
    match e.find("jxl-") {
        Some(p) => format!("panic {}", &e[p..]),
        None => e,
    }
}

fn guarded(f: impl FnOnce() -> Option<String>) -> String {
    match catch(f) {
        Ok(Some(s)) => format!("ok {}", s),
        Ok(None) => "bad-op".into(),
        Err(e) => site(e),
    }
}

fn cells(v: &[f32]) -> String {
    v.iter()
        .map(|x| format!("{}", *x as i64))
        .collect::<Vec<_>>()
        .join(" ")
}

fn render_all(image: &JxlImage) -> Result<Vec<Vec<(usize, usize, Vec<f32>)>>, String> {
    let mut out = Vec::new();
    for k in 0..image.num_loaded_keyframes() {
        let render = image.render_frame_cropped(k).map_err(|e| format!("render-error {e}"))?;
        let planes = render
            .image_planar()
            .into_iter()
            .map(|fb| (fb.width(), fb.height(), fb.buf().to_vec()))
            .collect();
        out.push(planes);
    }
    Ok(out)
}

/// `openw` instead of `open`: every image of the session is opened with `force_wide_buffers(true)`
static WIDE: std::sync::atomic::AtomicBool = std::sync::atomic::AtomicBool::new(false);

fn open_image(bytes: &[u8]) -> Result<JxlImage, String> {
    JxlImage::builder()
        .force_wide_buffers(WIDE.load(std::sync::atomic::Ordering::Relaxed))
        .read(std::io::Cursor::new(bytes))
        .map_err(|e| format!("open-error {e}"))
}

fn crop_check(l: &Loaded, c: CropInfo) -> String {
    let got = match catch(|| render_all(&l.tester)) {
        Ok(Ok(g)) => g,
        Ok(Err(e)) => return e.split_whitespace().collect::<Vec<_>>().join("_"),
        Err(e) => return site(e),
    };
    if got.len() != l.full.len() {
        return format!("mismatch keyframes {} vs {}", got.len(), l.full.len());
    }
    let mut maxdiff = 0f32;
    for (k, (planes, full)) in got.iter().zip(&l.full).enumerate() {
        if planes.len() != full.len() {
            return format!("mismatch kf={k} channels {} vs {}", planes.len(), full.len());
        }
        for (ch, ((w, h, buf), exp)) in planes.iter().zip(full).enumerate() {
            if *w != c.width as usize || *h != c.height as usize {
                return format!("mismatch kf={k} c={ch} size {w}x{h}");
            }
            for y in 0..*h {
                for x in 0..*w {
                    let e = exp[(c.top as usize + y) * l.width as usize + c.left as usize + x];
                    let a = buf[y * *w + x];
                    let d = (e - a).abs();
                    if !(d <= 1e-6) && !(e.is_nan() && a.is_nan()) {
                        return format!(
                            "mismatch kf={k} c={ch} x={x} y={y} exp={:08x} act={:08x}",
                            e.to_bits(),
                            a.to_bits()
                        );
                    }
                    if d > maxdiff {
                        maxdiff = d;
                    }
                }
            }
        }
    }
    format!("ok maxdiff={:08x}", maxdiff.to_bits())
}

fn main() {
    install_quiet_panic_hook();
    let fixture = std::env::args().nth(1);
    // a global MA config for parsing bare Modular headers: taken from the fixture's first frame
    let (gm_plain, gm_palette, gm_squeeze) = {
        let ma = fixture.as_ref().and_then(|p| {
            let image = JxlImage::builder().open(p).ok()?;
            let f = image.frame(0)?;
            let lfg = f.try_parse_lf_global::<i32>()?.ok()?;
            lfg.gmodular.ma_config().cloned()
        });
        match ma {
            Some(ma) => (
                GlobalModular::verif_from_modular(modular_with(0, &ma).expect("plain")),
                GlobalModular::verif_from_modular(modular_with(1, &ma).expect("palette")),
                GlobalModular::verif_from_modular(modular_with(2, &ma).expect("squeeze")),
            ),
            None => (
                GlobalModular::verif_from_modular(Modular::empty()),
                GlobalModular::verif_from_modular(Modular::empty()),
                GlobalModular::verif_from_modular(Modular::empty()),
            ),
        }
    };
    let st = St {
        hdr: make_hdr(&[1, 1, 1, 0, 0, 1, 1, 0, 0, 0, 0, 0, 0, 1, 0]).unwrap(),
        gm_plain,
        gm_palette,
        gm_squeeze,
        loaded: None,
    };
    line_loop(st, |st, w| {
        if w.is_empty() {
            return "bad-op".into();
        }
        // ---- (b) real decoder ops -------------------------------------------------------
        match w[0] {
            "open" | "openw" if w.len() == 2 => {
                WIDE.store(w[0] == "openw", std::sync::atomic::Ordering::Relaxed);
                let Ok(bytes) = std::fs::read(w[1]) else {
                    return "open-error read".into();
                };
                let r = catch(|| -> Result<Loaded, String> {
                    let image = open_image(&bytes)?;
                    let (width, height) = (image.width(), image.height());
                    let full = render_all(&image)?
                        .into_iter()
                        .map(|p| p.into_iter().map(|(_, _, b)| b).collect())
                        .collect();
                    let tester = open_image(&bytes)?;
                    let mut geo = Vec::new();
                    let mut idx = 0;
                    while let Some(f) = image.frame(idx) {
                        let h = f.header();
                        let forced = f
                            .try_parse_lf_global::<i32>()
                            .and_then(|r| r.ok())
                            .map(|g| (g.gmodular.modular.has_palette() || g.gmodular.modular.has_squeeze()) as u8)
                            .unwrap_or(2);
                        geo.push(format!("{},{},{},{},{},{}", h.x0, h.y0, h.width, h.height, h.group_dim(), forced));
                        idx += 1;
                    }
                    Ok(Loaded { bytes: bytes.clone(), width, height, full, tester, geo: geo.join(";") })
                });
                return match r {
                    Ok(Ok(l)) => {
                        let s = format!(
                            "ok {} {} {} {} {}",
                            l.width,
                            l.height,
                            l.full.len(),
                            l.full.first().map(|p| p.len()).unwrap_or(0),
                            l.geo
                        );
                        st.loaded = Some(l);
                        s
                    }
                    Ok(Err(e)) => e.split_whitespace().collect::<Vec<_>>().join("_"),
                    Err(e) => site(e),
                };
            }
            "fresh" => {
                let Some(l) = st.loaded.as_mut() else {
                    return "bad-op".into();
                };
                return match open_image(&l.bytes) {
                    Ok(t) => {
                        l.tester = t;
                        "ok".into()
                    }
                    Err(e) => e,
                };
            }
            "modflags" => {
                return format!(
                    "ok {} {} {}",
                    (st.gm_plain.modular.has_palette() || st.gm_plain.modular.has_squeeze()) as u8,
                    st.gm_palette.modular.has_palette() as u8,
                    st.gm_squeeze.modular.has_squeeze() as u8
                );
            }
            _ => {}
        }
        let Some(a) = w[1..]
            .iter()
            .map(|s| s.parse::<i64>().ok())
            .collect::<Option<Vec<i64>>>()
        else {
            return "bad-op".into();
        };
        let u = |x: i64| u32::try_from(x).ok();
        let i = |x: i64| i32::try_from(x).ok();
        match (w[0], a.len()) {
            ("crop", 4) | ("crop", 5) => {
                let Some(l) = st.loaded.as_mut() else {
                    return "bad-op".into();
                };
                let (Some(left), Some(top), Some(width), Some(height)) = (u(a[0]), u(a[1]), u(a[2]), u(a[3])) else {
                    return "bad-op".into();
                };
                let c = CropInfo { left, top, width, height };
                l.tester.set_image_region(c);
                if a.len() == 5 && a[4] == 0 {
                    return "ok norender".into();
                }
                crop_check(l, c)
            }
            ("hdr", _) => match make_hdr(&a) {
                Some(h) => {
                    st.hdr = h;
                    "ok".into()
                }
                None => "bad-op".into(),
            },
            ("translate", 6) => guarded(|| Some(show(reg(&a)?.translate(i(a[4])?, i(a[5])?)))),
            ("intersection", 8) => guarded(|| Some(show(reg(&a)?.intersection(reg(&a[4..])?)))),
            ("merge", 8) => guarded(|| Some(show(reg(&a)?.merge(reg(&a[4..])?)))),
            ("contains", 8) => guarded(|| Some((reg(&a)?.contains(reg(&a[4..])?) as u8).to_string())),
            ("isempty", 4) => guarded(|| Some((reg(&a)?.is_empty() as u8).to_string())),
            ("pad", 5) => guarded(|| Some(show(reg(&a)?.pad(u(a[4])?)))),
            ("down", 5) => guarded(|| Some(show(reg(&a)?.downsample(u(a[4])?)))),
            ("downsep", 6) => guarded(|| Some(show(reg(&a)?.downsample_separate(u(a[4])?, u(a[5])?)))),
            ("up", 5) => guarded(|| Some(show(reg(&a)?.upsample(u(a[4])?)))),
            ("align", 5) => guarded(|| Some(show(vr::container_aligned(reg(&a)?, u(a[4])?)))),
            ("orient", 7) => guarded(|| {
                let o = u(a[6])?;
                // `a[4]`, `a[5]` are the coded image dimensions
                let h = image_header(u(a[4])?, u(a[5])?, o, &[]);
                Some(show(reg(&a)?.apply_orientation(&h)))
            }),
            ("i2f", 5) => guarded(|| Some(show(vr::image_region_to_frame(&st.hdr.frame, reg(&a)?, a[4] != 0)))),
            ("padlf", 4) => guarded(|| Some(show(vr::pad_lf_region(st.hdr.frame.header(), reg(&a)?)))),
            ("padup", 4) => guarded(|| Some(show(vr::pad_upsampling(&st.hdr.image, st.hdr.frame.header(), reg(&a)?)))),
            ("padcolor", 4) => guarded(|| Some(show(vr::pad_color_region(&st.hdr.image, st.hdr.frame.header(), reg(&a)?)))),
            ("modreg", 6) => guarded(|| {
                let gm = match a[4] {
                    0 => &st.gm_plain,
                    1 => &st.gm_palette,
                    _ => &st.gm_squeeze,
                };
                Some(show(vr::compute_modular_region(st.hdr.frame.header(), gm, reg(&a)?, a[5] != 0)))
            }),
            ("groupcol", 5) => guarded(|| {
                let r = (u(a[1])?, u(a[2])?, u(a[3])?, u(a[4])?);
                Some((st.hdr.frame.header().is_group_collides_region(u(a[0])?, r) as u8).to_string())
            }),
            ("lfgroupcol", 5) => guarded(|| {
                let r = (u(a[1])?, u(a[2])?, u(a[3])?, u(a[4])?);
                Some((st.hdr.frame.header().is_lf_group_collides_region(u(a[0])?, r) as u8).to_string())
            }),
            ("dims", 0) => guarded(|| {
                let h = st.hdr.frame.header();
                Some(format!(
                    "{} {} {} {} {} {} {} {} {}",
                    h.sample_width(1),
                    h.sample_height(1),
                    h.color_sample_width(),
                    h.color_sample_height(),
                    h.group_dim(),
                    h.groups_per_row(),
                    h.num_groups(),
                    h.lf_groups_per_row(),
                    h.num_lf_groups()
                ))
            }),
            ("plumb", 5) | ("groups", 5) => guarded(|| {
                // the call sequence of render::render_frame (render.rs:22..44) and
                // modular::render_modular (modular.rs:27, 44) on the real functions
                let frame = &st.hdr.frame;
                let (ih, fh) = (&*st.hdr.image, frame.header());
                let frame_region = vr::image_region_to_frame(frame, reg(&a)?, false);
                let lf_padded = vr::pad_lf_region(fh, frame_region);
                let up_full = Region::with_size(fh.sample_width(1), fh.sample_height(1));
                let up_valid = vr::pad_upsampling(ih, fh, lf_padded).intersection(up_full);
                let full = Region::with_size(fh.color_sample_width(), fh.color_sample_height());
                let color_padded = vr::pad_color_region(ih, fh, lf_padded).intersection(full);
                let gm = if a[4] != 0 { &st.gm_palette } else { &st.gm_plain };
                let modular_region = vr::compute_modular_region(fh, gm, color_padded, false);
                let lf_region = modular_region.downsample(3);
                if w[0] == "plumb" {
                    return Some(
                        [frame_region, lf_padded, up_valid, color_padded, modular_region, lf_region]
                            .map(show)
                            .join(" | "),
                    );
                }
                // job filters of render_modular (modular.rs:68..83) and load_lf_groups (util.rs:199..211)
                let (gd, gpr, ng) = (fh.group_dim(), fh.groups_per_row(), fh.num_groups());
                let (lgpr, nlg) = (fh.lf_groups_per_row(), fh.num_lf_groups());
                let sel = |n: u32, per_row: u32, against: Region, swap: bool| -> String {
                    if n > 4096 {
                        return "toomany".into();
                    }
                    (0..n)
                        .filter(|g| {
                            let gr = Region {
                                left: ((g % per_row) * gd) as i32,
                                top: ((g / per_row) * gd) as i32,
                                width: gd,
                                height: gd,
                            };
                            let x = if swap { against.intersection(gr) } else { gr.intersection(against) };
                            !x.is_empty()
                        })
                        .map(|g| g.to_string())
                        .collect::<Vec<_>>()
                        .join(" ")
                };
                Some(format!(
                    "{} | {}",
                    sel(ng, gpr, modular_region, false),
                    sel(nlg, lgpr, lf_region, true)
                ))
            }),
            ("composite", 4) | ("compositeo", 4) => guarded(|| {
                // RenderedImage::blend's orientation step, then image::composite_region itself
                let (ih, fh) = (&*st.hdr.image, st.hdr.frame.header());
                let r = reg(&a)?;
                let r = if w[0] == "composite" { vr::apply_orientation_to_image_region(ih, r) } else { r };
                let r = vr::composite_region(ih, fh, r);
                Some(show(r))
            }),
            ("blend", 19) => guarded(|| {
                let image = Arc::new(image_header(1, 1, 1, &[]));
                let mk = |x0: i64, y0: i64, w: i64, h: i64| -> Option<FrameHeader> {
                    let mut fh = FrameHeader::default_with_context(&*image);
                    fh.x0 = i(x0)?;
                    fh.y0 = i(y0)?;
                    fh.width = u(w)?;
                    fh.height = u(h)?;
                    fh.have_crop = true;
                    fh.encoding = Encoding::Modular;
                    Some(fh)
                };
                let nf = Frame::verif_from_headers(Arc::clone(&image), mk(a[0], a[1], a[2], a[3])?);
                let new_grid = reg(&a[4..])?;
                let output = reg(&a[8..])?;
                let base = if a[12] != 0 {
                    let mut bh = mk(a[13], a[14], 1, 1)?;
                    bh.resets_canvas = true;
                    bh.save_before_ct = true;
                    Some((Frame::verif_from_headers(Arc::clone(&image), bh), reg(&a[15..])?))
                } else {
                    None
                };
                // an Err (e.g. "blending source does not cover the image region") is an answer, not a bad op
                match vr::blend_probe(&image, &nf, new_grid, output, base) {
                    Ok(p) => Some(format!("{} | {}", show(p.region), cells(&p.cells))),
                    Err(_) => Some("err".to_string()),
                }
            }),
            ("patch", 14) => guarded(|| {
                let image = image_header(1, 1, 1, &[]);
                let patch_ref = PatchRef {
                    ref_idx: 0,
                    x0: u(a[8])?,
                    y0: u(a[9])?,
                    width: u(a[10])?,
                    height: u(a[11])?,
                    patch_targets: vec![PatchTarget {
                        x: i(a[12])?,
                        y: i(a[13])?,
                        blending: vec![BlendingModeInformation {
                            mode: PatchBlendMode::Replace,
                            alpha_channel: 0,
                            clamp: false,
                        }],
                    }],
                };
                let p = vr::patch_probe(&image, reg(&a)?, reg(&a[4..])?, &patch_ref).ok()?;
                Some(format!("{} | {}", show(p.region), cells(&p.cells)))
            }),
            _ => "bad-op".into(),
        }
    });
}
