//! C04 correspondence: the real `jxl_coding` decoder on bit strings produced by the Lean encoder.
//! Same line protocol as `jxlmodel c04` (see lean/JxlModel/Driver/C04.lean).
use jxl_bitstream::Bitstream;
use jxl_coding::{Decoder, Error, RleToken};
use verif_harness::*;

fn err_word(e: &Error) -> String {
    match e {
        Error::Bitstream(_) if e.unexpected_eof() => "eof".into(),
        Error::Bitstream(_) => "bitstream".into(),
        Error::Lz77NotAllowed => "lz77-not-allowed".into(),
        Error::InvalidAnsHistogram => "ans-histogram".into(),
        Error::InvalidAnsStream => "ans-stream".into(),
        Error::InvalidIntegerConfig { .. } => "integer-config".into(),
        Error::InvalidPermutation => "permutation".into(),
        Error::InvalidPrefixHistogram => "prefix-histogram".into(),
        Error::PrefixSymbolTooLarge(_) => "prefix-too-large".into(),
        Error::InvalidCluster(_) => "cluster".into(),
        Error::ClusterHole { .. } => "cluster-hole".into(),
        Error::UnexpectedLz77Repeat => "lz77-repeat".into(),
        Error::InvalidLz77Symbol => "lz77-symbol".into(),
        _ => "other".into(),
    }
}

fn single_tokens(d: &Decoder) -> String {
    let n = d.cluster_map().iter().copied().max().map(|m| m as usize + 1).unwrap_or(0);
    (0..n)
        .map(|c| match d.single_token(c as u8) {
            Some(t) => t.to_string(),
            None => "-".into(),
        })
        .collect::<Vec<_>>()
        .join(",")
}

fn dec(nd: u32, mult: u32, bytes: &[u8], ctxs: &[u32]) -> String {
    let mut bs = Bitstream::new(bytes);
    let mut d = match Decoder::parse(&mut bs, nd) {
        Ok(d) => d,
        Err(e) => return format!("hdr=err:{}", err_word(&e)),
    };
    let mut out = format!("hdr=ok:{} st={} ", bs.num_read_bits(), single_tokens(&d));
    if let Err(e) = d.begin(&mut bs) {
        return out + &format!("begin=err:{}", err_word(&e));
    }
    let mut vals: Vec<String> = Vec::with_capacity(ctxs.len());
    for &c in ctxs {
        match d.read_varint_with_multiplier(&mut bs, c, mult) {
            Ok(v) => vals.push(format!("{}@{}", v, bs.num_read_bits())),
            Err(e) => {
                return out + &format!("vals={} err={}@{}", vals.join(","), err_word(&e), vals.len());
            }
        }
    }
    let fin = match d.finalize() {
        Ok(()) => "ok".to_string(),
        Err(e) => format!("err:{}", err_word(&e)),
    };
    out += &format!("vals={} fin={} end={}", vals.join(","), fin, bs.num_read_bits());
    out
}

fn rle(nd: u32, bytes: &[u8], ctxs: &[u32]) -> String {
    let mut bs = Bitstream::new(bytes);
    let mut d = match Decoder::parse(&mut bs, nd) {
        Ok(d) => d,
        Err(e) => return format!("hdr=err:{}", err_word(&e)),
    };
    let out = format!("hdr=ok:{} ", bs.num_read_bits());
    if d.as_rle().is_none() {
        return out + "rle=none";
    }
    if let Err(e) = d.begin(&mut bs) {
        return out + &format!("begin=err:{}", err_word(&e));
    }
    let mut r = d.as_rle().unwrap();
    let mut toks: Vec<String> = Vec::new();
    for &c in ctxs {
        let cluster = r.cluster_map()[c as usize];
        match r.read_varint_clustered(&mut bs, cluster) {
            Ok(RleToken::Value(v)) => toks.push(format!("V{}@{}", v, bs.num_read_bits())),
            Ok(RleToken::Repeat(n)) => toks.push(format!("R{}@{}", n, bs.num_read_bits())),
            Err(e) => {
                return out + &format!("toks={} err={}@{}", toks.join(","), err_word(&e), toks.len());
            }
        }
    }
    out + &format!("toks={} end={}", toks.join(","), bs.num_read_bits())
}

fn perm(nd: u32, size: u32, skip: u32, bytes: &[u8]) -> String {
    let mut bs = Bitstream::new(bytes);
    let mut d = match Decoder::parse(&mut bs, nd) {
        Ok(d) => d,
        Err(e) => return format!("hdr=err:{}", err_word(&e)),
    };
    let out = format!("hdr=ok:{} ", bs.num_read_bits());
    if let Err(e) = d.begin(&mut bs) {
        return out + &format!("begin=err:{}", err_word(&e));
    }
    match jxl_coding::read_permutation(&mut bs, &mut d, size, skip) {
        Err(e) => out + &format!("perm=err:{}", err_word(&e)),
        Ok(p) => {
            let fin = match d.finalize() {
                Ok(()) => "ok".to_string(),
                Err(e) => format!("err:{}", err_word(&e)),
            };
            out + &format!(
                "perm=ok:{} fin={} end={}",
                p.iter().map(|x| x.to_string()).collect::<Vec<_>>().join(","),
                fin,
                bs.num_read_bits()
            )
        }
    }
}

fn clusters(nd: u32, bytes: &[u8]) -> String {
    let mut bs = Bitstream::new(bytes);
    match jxl_coding::read_clusters(&mut bs, nd) {
        Err(e) => format!("err:{}", err_word(&e)),
        Ok((n, cl)) => format!(
            "ok:{}:{} end={}",
            n,
            cl.iter().map(|x| x.to_string()).collect::<Vec<_>>().join(","),
            bs.num_read_bits()
        ),
    }
}

fn main() {
    install_quiet_panic_hook();
    line_loop((), |_, w| {
        let p = |s: &str| s.parse::<u32>().ok();
        let nums = |ws: &[&str]| ws.iter().map(|s| s.parse::<u32>().ok()).collect::<Option<Vec<u32>>>();
        let res: Option<Result<String, String>> = (|| match w {
            ["dec", nd, mult, hex, _n, ctxs @ ..] => {
                let (nd, mult, bytes, ctxs) = (p(nd)?, p(mult)?, unhex(hex)?, nums(ctxs)?);
                Some(catch(move || dec(nd, mult, &bytes, &ctxs)))
            }
            ["rle", nd, hex, _n, ctxs @ ..] => {
                let (nd, bytes, ctxs) = (p(nd)?, unhex(hex)?, nums(ctxs)?);
                Some(catch(move || rle(nd, &bytes, &ctxs)))
            }
            ["perm", nd, size, skip, hex] => {
                let (nd, size, skip, bytes) = (p(nd)?, p(size)?, p(skip)?, unhex(hex)?);
                Some(catch(move || perm(nd, size, skip, &bytes)))
            }
            ["clusters", nd, hex] => {
                let (nd, bytes) = (p(nd)?, unhex(hex)?);
                Some(catch(move || clusters(nd, &bytes)))
            }
            _ => None,
        })();
        match res {
            Some(Ok(s)) => s,
            Some(Err(panic)) => panic,
            None => "bad-op".into(),
        }
    });
}
