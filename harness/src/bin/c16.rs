//! C16 correspondence: the real block transforms (hook H5, `jxl_render::verif_vardct`) on
//! caller-supplied coefficient blocks, generic path and the path selected on this CPU.
//!
//! Line protocol (floats only as bit patterns: 8 hex digits per f32, most significant first):
//!   info | types
//!   vb   <type 0..26> <g|a> <off> <pad> <lf-block> <coeff-block>   production entry point
//!        (`transform_varblocks`: LF injection + inverse transform), the same block in all three
//!        channels
//!   tr   <type> <g|a> <off> <pad> <coeff-block>                    per-type transform alone
//!   dct  <w> <h> <f|i> <g|a> <off> <pad> <block>                   2-D DCT driver alone
//!   sec <n> | scalef <c> <logb> | afv                               constants
//! A block is dense hex, or sparse `s` / `sIDX=BITS,IDX=BITS,…` (everything else zero).
//! `off` = offset of the first sample from a 64-byte aligned address, in floats; `pad` = stride -
//! width. Answers: `ok <hex>` | `bad-op` | `panic …` | `oob-write` | `chan-mismatch`.
use jxl_grid::{MutableSubgrid, SharedSubgrid};
use jxl_modular::ChannelShift;
use jxl_render::verif_vardct as hook;
use jxl_vardct::{BlockInfo, TransformType};
use verif_harness::*;

const CANARY: u32 = 0x7fc0_dead;

fn parse_block(s: &str, n: usize) -> Option<Vec<f32>> {
    let mut v = vec![0f32; n];
    if let Some(rest) = s.strip_prefix('s') {
        if !rest.is_empty() {
            for kv in rest.split(',') {
                let (k, b) = kv.split_once('=')?;
                let k: usize = k.parse().ok()?;
                if k >= n {
                    return None;
                }
                v[k] = f32::from_bits(u32::from_str_radix(b, 16).ok()?);
            }
        }
        return Some(v);
    }
    if s.len() != n * 8 {
        return None;
    }
    for (i, x) in v.iter_mut().enumerate() {
        *x = f32::from_bits(u32::from_str_radix(s.get(i * 8..i * 8 + 8)?, 16).ok()?);
    }
    Some(v)
}

fn hex_f32(v: impl IntoIterator<Item = f32>) -> String {
    let mut s = String::new();
    for x in v {
        s.push_str(&format!("{:08x}", x.to_bits()));
    }
    s
}

/// A `w × h` block inside a larger buffer: first sample `off` floats past a 64-byte boundary,
/// rows `w + pad` apart, everything around the samples filled with a canary.
struct Buf {
    store: Vec<f32>,
    start: usize,
    w: usize,
    h: usize,
    stride: usize,
}

impl Buf {
    fn new(data: &[f32], w: usize, h: usize, off: usize, pad: usize) -> Buf {
        let stride = w + pad;
        let len = stride * h + 64;
        let mut store = vec![f32::from_bits(CANARY); len];
        let base = store.as_ptr() as usize;
        let mis = (base % 64) / 4;
        let start = (16 - mis) % 16 + off;
        for y in 0..h {
            store[start + y * stride..start + y * stride + w]
                .copy_from_slice(&data[y * w..(y + 1) * w]);
        }
        Buf { store, start, w, h, stride }
    }
    fn grid(&mut self) -> MutableSubgrid<'_, f32> {
        let (w, h, stride) = (self.w, self.h, self.stride);
        let end = self.start + stride * (h - 1) + w;
        MutableSubgrid::from_buf(&mut self.store[self.start..end], w, h, stride)
    }
    fn shared(&self) -> SharedSubgrid<'_, f32> {
        let end = self.start + self.stride * (self.h - 1) + self.w;
        SharedSubgrid::from_buf(&self.store[self.start..end], self.w, self.h, self.stride)
    }
    fn samples(&self) -> Vec<f32> {
        let mut v = Vec::with_capacity(self.w * self.h);
        for y in 0..self.h {
            v.extend_from_slice(&self.store[self.start + y * self.stride..][..self.w]);
        }
        v
    }
    fn canary_intact(&self) -> bool {
        let end = self.start + self.stride * (self.h - 1) + self.w;
        self.store.iter().enumerate().all(|(i, x)| {
            let inside = i >= self.start && i < end && (i - self.start) % self.stride < self.w;
            inside || x.to_bits() == CANARY
        })
    }
}

fn path(s: &str) -> Option<hook::Path> {
    match s {
        "g" => Some(hook::Path::Generic),
        "a" => Some(hook::Path::Arch),
        _ => None,
    }
}

fn finish(r: Result<Result<Vec<f32>, &'static str>, String>) -> String {
    match r {
        Ok(Ok(v)) => format!("ok {}", hex_f32(v)),
        Ok(Err(e)) => e.into(),
        Err(p) => p,
    }
}

fn main() {
    install_quiet_panic_hook();
    line_loop((), |_, w| {
        let p = |s: &str| s.parse::<usize>().ok();
        let res: Option<String> = (|| match w {
            ["info"] => Some(format!("ok arch={}", hook::arch_name())),
            ["types"] => {
                let mut v = Vec::new();
                for id in 0u8..=255 {
                    let Ok(ty) = TransformType::try_from(id) else { break };
                    let (bw, bh) = ty.dct_select_size();
                    v.push(format!("{:?}:{}:{}", ty, bw, bh));
                }
                Some(format!("ok {}", v.join(" ")))
            }
            ["vb", ty, pa, off, pad, lf, coeff] => {
                let ty = TransformType::try_from(p(ty)? as u8).ok()?;
                let pa = path(pa)?;
                let (off, pad) = (p(off)?, p(pad)?);
                let (bw, bh) = ty.dct_select_size();
                let (bw, bh) = (bw as usize, bh as usize);
                let (w_, h_) = (bw * 8, bh * 8);
                let lf = parse_block(lf, bw * bh)?;
                let coeff = parse_block(coeff, w_ * h_)?;
                Some(finish(catch(move || {
                    let mut info = vec![BlockInfo::Occupied; bw * bh];
                    info[0] = BlockInfo::Data { dct_select: ty, hf_mul: 1 };
                    let info = SharedSubgrid::from_buf(&info, bw, bh, bw);
                    let lfb = [
                        Buf::new(&lf, bw, bh, 0, 0),
                        Buf::new(&lf, bw, bh, 1, 3),
                        Buf::new(&lf, bw, bh, 0, 1),
                    ];
                    let mut cb = [
                        Buf::new(&coeff, w_, h_, off, pad),
                        Buf::new(&coeff, w_, h_, off, pad),
                        Buf::new(&coeff, w_, h_, off, pad),
                    ];
                    {
                        let lfs = [lfb[0].shared(), lfb[1].shared(), lfb[2].shared()];
                        let [c0, c1, c2] = &mut cb;
                        let mut grids = [c0.grid(), c1.grid(), c2.grid()];
                        hook::transform_varblocks(
                            pa,
                            &lfs,
                            &mut grids,
                            [ChannelShift::from_shift(0); 3],
                            &info,
                        );
                    }
                    if !cb.iter().all(|b| b.canary_intact()) {
                        return Err("oob-write");
                    }
                    let out = cb[0].samples();
                    let same = |a: &[f32], b: &[f32]| {
                        a.iter().zip(b).all(|(x, y)| x.to_bits() == y.to_bits())
                    };
                    if !same(&out, &cb[1].samples()) || !same(&out, &cb[2].samples()) {
                        return Err("chan-mismatch");
                    }
                    Ok(out)
                })))
            }
            ["tr", ty, pa, off, pad, coeff] => {
                let ty = TransformType::try_from(p(ty)? as u8).ok()?;
                let pa = path(pa)?;
                let (off, pad) = (p(off)?, p(pad)?);
                let (bw, bh) = ty.dct_select_size();
                let (w_, h_) = (bw as usize * 8, bh as usize * 8);
                let coeff = parse_block(coeff, w_ * h_)?;
                Some(finish(catch(move || {
                    let mut b = Buf::new(&coeff, w_, h_, off, pad);
                    hook::transform(pa, &mut b.grid(), ty);
                    if b.canary_intact() { Ok(b.samples()) } else { Err("oob-write") }
                })))
            }
            ["dct", w_, h_, dir, pa, off, pad, data] => {
                let (w_, h_) = (p(w_)?, p(h_)?);
                if !w_.is_power_of_two() || !h_.is_power_of_two() || w_ > 256 || h_ > 256 {
                    return None;
                }
                let dir = match *dir {
                    "f" => hook::DctDirection::Forward,
                    "i" => hook::DctDirection::Inverse,
                    _ => return None,
                };
                let pa = path(pa)?;
                let (off, pad) = (p(off)?, p(pad)?);
                let data = parse_block(data, w_ * h_)?;
                Some(finish(catch(move || {
                    let mut b = Buf::new(&data, w_, h_, off, pad);
                    hook::dct_2d(pa, &mut b.grid(), dir);
                    if b.canary_intact() { Ok(b.samples()) } else { Err("oob-write") }
                })))
            }
            ["sec", n] => {
                let n = p(n)?;
                if !n.is_power_of_two() || !(4..=256).contains(&n) {
                    return None;
                }
                Some(format!("ok {}", hex_f32(hook::sec_half(n).iter().copied())))
            }
            ["scalef", c, logb] => {
                let (c, logb) = (p(c)?, p(logb)?);
                if logb > 5 || (c << logb) >= 32 {
                    return None;
                }
                Some(format!("ok {}", hex_f32([hook::scale_f(c, logb)])))
            }
            ["afv"] => Some(format!(
                "ok {}",
                hex_f32(hook::afv_basis().iter().flat_map(|r| r.iter().copied()))
            )),
            _ => None,
        })();
        res.unwrap_or_else(|| "bad-op".into())
    });
}
