//! C10 correspondence: the public `jxl_bitstream::ContainerParser` behind a line protocol.
//!
//! ops (one per line, one answer line each):
//!   `new`          fresh parser                          -> `ok`
//!   `feed <hex>`   one `feed_bytes(buf)` call, events drained until the first error
//!                  -> `consumed=<n> kind=<k> <event>*`
//!   `push <hex>`   what a streaming caller does: append the chunk to the bytes left over from
//!                  the previous call, `feed_bytes(leftover ++ chunk)`, keep the unconsumed tail
//!                  -> same answer as `feed`
//!   `finish`       nothing more will be fed              -> `kind=<k> pending=<n>`
//! events: `K:<kind>` `CS:<hex>` `NOMORE` `START:<ty>:<brotli 0|1>:<last 0|1>` `DATA:<ty>:<hex>`
//! `END:<ty>` `ERR:<invalid-box|validation|other>`; after an error every `feed` answers `dead`.
//! The caller (tools/props/c10.py) re-offers the bytes that were not consumed.
use jxl_bitstream::{BitstreamKind, ContainerParser, Error, ParseEvent};
use verif_harness::*;

struct St {
    parser: ContainerParser,
    dead: bool,
    pending: Vec<u8>,
}

impl St {
    fn new() -> Self {
        St { parser: ContainerParser::new(), dead: false, pending: Vec::new() }
    }
}

fn kind(k: BitstreamKind) -> &'static str {
    match k {
        BitstreamKind::Unknown => "unknown",
        BitstreamKind::BareCodestream => "bare",
        BitstreamKind::Container => "container",
        BitstreamKind::Invalid => "invalid",
    }
}

fn feed(st: &mut St, buf: &[u8]) -> String {
    let mut words: Vec<String> = Vec::new();
    for ev in st.parser.feed_bytes(buf) {
        match ev {
            Ok(ParseEvent::BitstreamKind(k)) => words.push(format!("K:{}", kind(k))),
            Ok(ParseEvent::Codestream(d)) => words.push(format!("CS:{}", hex(d))),
            Ok(ParseEvent::NoMoreAuxBox) => words.push("NOMORE".into()),
            Ok(ParseEvent::AuxBoxStart { ty, brotli_compressed, last_box }) => words.push(format!(
                "START:{}:{}:{}",
                hex(&ty.0),
                brotli_compressed as u8,
                last_box as u8
            )),
            Ok(ParseEvent::AuxBoxData(ty, d)) => words.push(format!("DATA:{}:{}", hex(&ty.0), hex(d))),
            Ok(ParseEvent::AuxBoxEnd(ty)) => words.push(format!("END:{}", hex(&ty.0))),
            Err(e) => {
                words.push(
                    match e {
                        Error::InvalidBox => "ERR:invalid-box",
                        Error::ValidationFailed(_) => "ERR:validation",
                        _ => "ERR:other",
                    }
                    .into(),
                );
                st.dead = true;
                break;
            }
        }
    }
    let mut o = format!(
        "consumed={} kind={}",
        st.parser.previous_consumed_bytes(),
        kind(st.parser.kind())
    );
    for w in words {
        o.push(' ');
        o.push_str(&w);
    }
    o
}

fn main() {
    install_quiet_panic_hook();
    let st = St::new();
    line_loop(st, |st, w| match w {
        ["new"] => {
            *st = St::new();
            "ok".into()
        }
        ["feed", h] => {
            if st.dead {
                return "dead".into();
            }
            let Some(buf) = unhex(h) else { return "bad-op".into() };
            match catch(|| feed(st, &buf)) {
                Ok(o) => o,
                Err(p) => {
                    st.dead = true;
                    p
                }
            }
        }
        ["push", h] => {
            if st.dead {
                return "dead".into();
            }
            let Some(chunk) = unhex(h) else { return "bad-op".into() };
            let mut buf = std::mem::take(&mut st.pending);
            buf.extend_from_slice(&chunk);
            match catch(|| feed(st, &buf)) {
                Ok(o) => {
                    let c = st.parser.previous_consumed_bytes();
                    buf.drain(..c);
                    st.pending = buf;
                    o
                }
                Err(p) => {
                    st.dead = true;
                    p
                }
            }
        }
        ["finish"] => format!("kind={} pending={}", kind(st.parser.kind()), st.pending.len()),
        _ => "bad-op".into(),
    });
}
