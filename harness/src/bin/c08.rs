//! C08 / C20 correspondence worker: operation histories on a real `JxlImage` with the
//! allocation-failure switch (H1), handle-state reader (H3) and scheduling-point trace (H4).
//!
//! Line protocol (one answer line per input line). A worker that detects a hang prints the answer
//! line (`HANG ...`) and exits with status 3, because a hung thread cannot be killed.
//!
//!   open <path> <none|rayonN>      fresh image, fresh tracker           -> ok allocs=<n> | err <kind>
//!   describe                       frame dependency structure (for the model)
//!   failfrom <n|off|+d>            H1 switch: absolute call index, relative to now, or off
//!   allocs                         -> allocs=<n>
//!   budget | leave <n> | shrink <n> | raise <n>   the tracker's real byte limit (C08: a render refused by
//!                                  the limit, then the limit given back: the next render is the clean one)
//!   render <kf>                    render_frame(kf) under the deadline  -> ok <hash> | err <kind> | HANG
//!                                  followed by ` st=<states> ev=<trace> ex=<counters>`
//!   region <l> <t> <w> <h>         set_image_region (request_image_region -> reset_cache)
//!   states                         -> st=<states>
//!   deadline <ms>
//!   stress <threads> <rounds> <kf,kf,..> <failfrom|off>   uncontrolled concurrent renders
//!   sched <threads> <kf,kf,..> <failfrom|off> <schedule>  controlled schedule (see `sched_run`)
use jxl_grid::AllocTracker;
use jxl_oxide::{CropInfo, JxlImage, JxlThreadPool};
use std::collections::HashMap;
use std::io::Write;
use std::sync::atomic::{AtomicBool, AtomicUsize, Ordering};
use std::sync::{Arc, Condvar, Mutex, mpsc};
use std::time::{Duration, Instant};
use verif_harness::*;

// ------------------------------------------------------------------------------------------------
// event trace (H4)

thread_local! {
    /// logical thread id given by the harness; usize::MAX = not a harness thread (e.g. rayon worker)
    static TID: std::cell::Cell<usize> = const { std::cell::Cell::new(usize::MAX) };
}

struct Trace {
    on: AtomicBool,
    ev: Mutex<Vec<(usize, &'static str, usize)>>,
}

static TRACE: Trace = Trace { on: AtomicBool::new(false), ev: Mutex::new(Vec::new()) };

/// short stable code of a scheduling point
fn code(point: &'static str) -> &'static str {
    match point {
        "start_render:lock" => "sr",
        "start_render_silent:lock" => "ss",
        "wait_until_render:lock" => "wl",
        "wait_until_render:before_wait" => "wb",
        "wait_until_render:after_wait" => "wa",
        "done_render:lock" => "dl",
        "done_render:notify_all" => "dn",
        "reset:lock" => "rs",
        "try_take_blended:lock" => "tt",
        "render_op:enter" => "oe",
        "render_op:exit:done" => "oxd",
        "render_op:exit:inprogress" => "oxi",
        "render_op:exit:err" => "oxe",
        "render_op:exit:other" => "oxo",
        "blend:preprocess:enter" => "pe",
        "blend:preprocess:exit:ok" => "pxo",
        "blend:preprocess:exit:skip" => "pxs",
        "blend:preprocess:exit:err" => "pxe",
        "blend:composite:enter" => "ce",
        "blend:composite:exit:ok" => "cxo",
        "blend:composite:exit:err" => "cxe",
        _ => "??",
    }
}

fn trace_take() -> Vec<(usize, &'static str, usize)> {
    std::mem::take(&mut *TRACE.ev.lock().unwrap())
}

fn fmt_trace(ev: &[(usize, &'static str, usize)], with_tid: bool) -> String {
    if ev.is_empty() {
        return "-".into();
    }
    let mut s = String::new();
    for (i, (tid, p, idx)) in ev.iter().enumerate() {
        if i > 0 {
            s.push(',');
        }
        if with_tid {
            if *tid == usize::MAX {
                s.push_str("b:");
            } else {
                s.push_str(&format!("{}:", tid));
            }
        }
        s.push_str(&format!("{}{}", code(p), idx));
    }
    s
}

// ------------------------------------------------------------------------------------------------
// controlled scheduler (H4): harness threads block at every scheduling point until granted.

struct Ctl {
    m: Mutex<CtlState>,
    cv: Condvar,
}

#[derive(Default)]
struct CtlState {
    active: bool,
    /// per logical thread: Some(point) while parked at a scheduling point
    parked: Vec<Option<(&'static str, usize)>>,
    finished: Vec<bool>,
    /// thread allowed to run past its current point
    grant: Option<usize>,
    /// threads (logically) sleeping in Condvar::wait (between wb and wa), with the handle
    in_wait: Vec<Option<usize>>,
    /// sleeping threads that have been notified and are on their way to `wa`
    waking: Vec<bool>,
    /// thread that was granted last and has not parked / blocked / finished since
    running: Option<usize>,
    log: Vec<(usize, &'static str, usize)>,
}

static CTL: Ctl = Ctl {
    m: Mutex::new(CtlState {
        active: false,
        parked: Vec::new(),
        finished: Vec::new(),
        grant: None,
        in_wait: Vec::new(),
        waking: Vec::new(),
        running: None,
        log: Vec::new(),
    }),
    cv: Condvar::new(),
};

/// scheduling points at which a controlled thread parks: every lock acquisition of the handle
/// code, and the return from `Condvar::wait` (the woken thread holds the handle's mutex there)
fn is_park_point(point: &'static str) -> bool {
    matches!(
        point,
        "start_render:lock"
            | "start_render_silent:lock"
            | "wait_until_render:lock"
            | "done_render:lock"
            | "reset:lock"
            | "try_take_blended:lock"
    )
}

/// biased stress: (code, frame, n-th occurrence, milliseconds) — the n-th time any thread reaches
/// that scheduling point it sleeps first
static DELAYS: Mutex<Vec<(String, usize, usize, u64, usize)>> = Mutex::new(Vec::new());

fn apply_delays(point: &'static str, idx: usize) {
    let mut ms = 0;
    {
        let mut d = DELAYS.lock().unwrap();
        if d.is_empty() {
            return;
        }
        let c = code(point);
        for e in d.iter_mut() {
            if e.0 == c && e.1 == idx {
                e.4 += 1;
                if e.4 == e.2 {
                    ms = e.3;
                }
            }
        }
    }
    if ms > 0 {
        std::thread::sleep(Duration::from_millis(ms));
    }
}

fn sched_callback(point: &'static str, idx: usize) {
    let tid = TID.with(|t| t.get());
    apply_delays(point, idx);
    if TRACE.on.load(Ordering::SeqCst) {
        TRACE.ev.lock().unwrap().push((tid, point, idx));
    }
    if tid == usize::MAX {
        return;
    }
    let mut st = CTL.m.lock().unwrap();
    if !st.active {
        return;
    }
    if !is_park_point(point) {
        st.log.push((tid, point, idx));
    }
    if point == "wait_until_render:before_wait" {
        // about to release the mutex and sleep: from the controller's view this thread is blocked
        st.in_wait[tid] = Some(idx);
        CTL.cv.notify_all();
        return;
    }
    if point == "done_render:notify_all" {
        // everybody sleeping on this handle is about to wake up and re-check (without a grant:
        // the re-check happens inside `wait_until_render`'s loop); the controller waits for them
        for t in 0..st.in_wait.len() {
            if st.in_wait[t] == Some(idx) {
                st.waking[t] = true;
            }
        }
    }
    if point == "wait_until_render:after_wait" {
        st.in_wait[tid] = None;
        st.waking[tid] = false;
        CTL.cv.notify_all();
    }
    if !is_park_point(point) {
        return;
    }
    st.parked[tid] = Some((point, idx));
    CTL.cv.notify_all();
    while st.active && st.grant != Some(tid) {
        st = CTL.cv.wait(st).unwrap();
    }
    if st.active {
        st.grant = None;
        st.parked[tid] = None;
        st.running = Some(tid);
        // park points are logged when the thread moves on: the log is the execution order
        st.log.push((tid, point, idx));
        CTL.cv.notify_all();
    }
}

// ------------------------------------------------------------------------------------------------

fn fnv(h: &mut u64, bytes: &[u8]) {
    for b in bytes {
        *h ^= *b as u64;
        *h = h.wrapping_mul(0x100000001b3);
    }
}

fn render_hash(r: &jxl_oxide::Render) -> String {
    let fb = r.image_all_channels();
    let mut h: u64 = 0xcbf29ce484222325;
    fnv(&mut h, &(fb.width() as u64).to_le_bytes());
    fnv(&mut h, &(fb.height() as u64).to_le_bytes());
    fnv(&mut h, &(fb.channels() as u64).to_le_bytes());
    for v in fb.buf() {
        fnv(&mut h, &v.to_bits().to_le_bytes());
    }
    format!("{:016x}", h)
}

fn err_kind(e: &(dyn std::error::Error + 'static)) -> String {
    // walk the source chain looking for the allocation failure
    let mut cur: Option<&(dyn std::error::Error + 'static)> = Some(e);
    while let Some(c) = cur {
        if c.downcast_ref::<jxl_grid::OutOfMemory>().is_some() {
            return "oom".into();
        }
        if c.to_string().contains("failed to allocate") || c.to_string().contains("out of memory") {
            return "oom".into();
        }
        cur = c.source();
    }
    if let Some(r) = e.downcast_ref::<jxl_render::Error>() {
        return match r {
            jxl_render::Error::IncompleteFrame => "incomplete".into(),
            jxl_render::Error::FailedReference => "failed-ref".into(),
            jxl_render::Error::NotReady => "not-ready".into(),
            other => {
                let d = format!("{:?}", other);
                format!("other:{}", d.split(['(', ' ', '{']).next().unwrap_or("?"))
            }
        };
    }
    let d = e.to_string();
    format!("other:{}", d.split_whitespace().take(3).collect::<Vec<_>>().join("_"))
}

fn render_once(img: &JxlImage, kf: usize) -> String {
    match catch(|| img.render_frame(kf)) {
        Err(p) => p,
        Ok(Ok(r)) => {
            let h = render_hash(&r);
            drop(r);
            format!("ok {}", h)
        }
        Ok(Err(e)) => {
            if std::env::var_os("VERIF_ERR_FULL").is_some() {
                eprintln!("render_frame({}) error: {:?}", kf, e);
            }
            format!("err {}", err_kind(&*e))
        }
    }
}

struct St {
    img: Option<Arc<JxlImage>>,
    tracker: AllocTracker,
    deadline: Duration,
    pool_name: String,
}

fn make_pool(name: &str) -> Option<JxlThreadPool> {
    if name == "none" {
        Some(JxlThreadPool::none())
    } else if let Some(n) = name.strip_prefix("rayon") {
        let n: usize = n.parse().ok()?;
        Some(JxlThreadPool::rayon(Some(n)))
    } else {
        None
    }
}

fn states(img: &JxlImage) -> String {
    let v = img.verif_render_context().verif_handle_states();
    if v.is_empty() { "-".into() } else { v.join(",") }
}

fn counters(img: &JxlImage) -> String {
    let v = img.verif_render_context().verif_exec_counters();
    if v.is_empty() {
        return "-".into();
    }
    v.iter()
        .map(|c| format!("{}/{}/{}/{}", c.decode_started, c.composite_started, c.running, c.max_running))
        .collect::<Vec<_>>()
        .join(",")
}

fn hang_exit(line: String) -> ! {
    let mut out = std::io::stdout().lock();
    let _ = writeln!(out, "{}", line);
    let _ = out.flush();
    std::process::exit(3);
}

/// Runs `f` on a fresh thread with logical id `tid`; `None` if the deadline passes.
fn with_deadline<T: Send + 'static>(
    deadline: Duration,
    tid: usize,
    f: impl FnOnce() -> T + Send + 'static,
) -> Option<T> {
    let (tx, rx) = mpsc::channel();
    std::thread::spawn(move || {
        install_quiet_panic_hook_thread();
        TID.with(|t| t.set(tid));
        let _ = tx.send(f());
    });
    rx.recv_timeout(deadline).ok()
}

fn install_quiet_panic_hook_thread() {}

fn describe(img: &JxlImage) -> String {
    let ctx = img.verif_render_context();
    let infos = ctx.verif_frame_infos();
    let kfs = ctx.verif_keyframes();
    let hdr = img.image_header();
    let color_channels = if hdr.metadata.grayscale() { 1 } else { 3 };
    let opt = |o: Option<usize>| o.map(|x| x.to_string()).unwrap_or_else(|| "-".into());
    let mut s = format!(
        "ok frames={} keyframes={}",
        infos.len(),
        kfs.iter().map(|k| k.to_string()).collect::<Vec<_>>().join(",")
    );
    for info in &infos {
        let f = img.frame(info.idx).unwrap();
        let h = f.header();
        let has_extra = !h.ec_blending_info.is_empty();
        let skip = !h.frame_type.is_normal_frame() || h.resets_canvas;
        // blend(): references that are rendered first (used slots, sorted by frame index)
        let mut used = [false; 4];
        for bi in std::iter::once(&h.blending_info).chain(&h.ec_blending_info) {
            used[bi.source as usize] = true;
        }
        let mut pre: Vec<usize> =
            (0..4).filter(|s| used[*s]).filter_map(|s| info.ref_slots[s]).collect();
        pre.sort();
        // per channel: (reference frame, can_overwrite)
        let mut chans = Vec::new();
        for (cidx, bi) in std::iter::repeat_n(&h.blending_info, color_channels)
            .chain(&h.ec_blending_info)
            .enumerate()
        {
            let _ = has_extra;
            let slot = bi.source as usize;
            let mut can_overwrite = cidx < color_channels
                && (h.is_last || (h.can_reference() && slot == h.save_as_reference as usize));
            let r = info.ref_slots[slot];
            if let Some(r) = r {
                if infos[r].is_keyframe {
                    can_overwrite = false;
                }
            }
            chans.push(format!("{}{}", opt(r), if can_overwrite && r.is_some() { "!" } else { "" }));
        }
        let reset = if h.can_reference() {
            info.ref_slots[h.save_as_reference as usize].filter(|r| !infos[*r].is_keyframe)
        } else {
            None
        };
        s.push_str(&format!(
            " | f{} kf={} ro={} lf={} slots={} pre={} chans={} skip={} reset={}",
            info.idx,
            info.is_keyframe as u8,
            info.reference_only as u8,
            opt(info.lf),
            info.ref_slots.iter().map(|r| opt(*r)).collect::<Vec<_>>().join(","),
            if pre.is_empty() { "-".into() } else { pre.iter().map(|x| x.to_string()).collect::<Vec<_>>().join(",") },
            if chans.is_empty() { "-".into() } else { chans.join(",") },
            skip as u8,
            opt(reset),
        ));
    }
    s
}

fn parse_failfrom(t: &AllocTracker, w: &str) -> Option<usize> {
    if w == "off" {
        Some(usize::MAX)
    } else if let Some(d) = w.strip_prefix('+') {
        Some(t.verif_alloc_calls() + d.parse::<usize>().ok()?)
    } else {
        w.parse().ok()
    }
}

fn parse_list(w: &str) -> Option<Vec<usize>> {
    if w == "-" {
        return Some(Vec::new());
    }
    w.split(',').map(|x| x.parse().ok()).collect()
}

/// Uncontrolled stress: `threads` callers, each renders the keyframes of `kfs` (rotated by its
/// id) `rounds` times; a region reset between rounds makes every round decode again.
fn stress(st: &mut St, threads: usize, rounds: usize, kfs: &[usize], failfrom: usize) -> String {
    let Some(img) = st.img.take() else { return "bad-op".into() };
    let mut agree = true;
    let mut results: HashMap<usize, String> = HashMap::new();
    let mut n_ok = 0usize;
    let mut n_err = 0usize;
    let mut max_running = 0usize;
    let mut img = img;
    for round in 0..rounds {
        st.tracker.verif_fail_from(if failfrom == usize::MAX {
            usize::MAX
        } else {
            st.tracker.verif_alloc_calls() + failfrom
        });
        let (tx, rx) = mpsc::channel();
        let barrier = Arc::new(std::sync::Barrier::new(threads));
        let mut joins = Vec::new();
        for t in 0..threads {
            let img = Arc::clone(&img);
            let tx = tx.clone();
            let kfs = kfs.to_vec();
            let barrier = Arc::clone(&barrier);
            joins.push(std::thread::spawn(move || {
                TID.with(|x| x.set(t));
                barrier.wait();
                let mut out = Vec::new();
                for i in 0..kfs.len() {
                    let kf = kfs[(i + t) % kfs.len()];
                    out.push((kf, render_once(&img, kf)));
                }
                let _ = tx.send((t, out));
            }));
        }
        drop(tx);
        let t_end = Instant::now() + st.deadline;
        let mut got = 0;
        while got < threads {
            let left = t_end.saturating_duration_since(Instant::now());
            match rx.recv_timeout(left) {
                Ok((_t, out)) => {
                    got += 1;
                    for (kf, r) in out {
                        if r.starts_with("ok ") {
                            n_ok += 1;
                            match results.get(&kf) {
                                Some(prev) if *prev != r => agree = false,
                                Some(_) => {}
                                None => {
                                    results.insert(kf, r);
                                }
                            }
                        } else if r.starts_with("err ") {
                            n_err += 1;
                        } else {
                            return format!("PANIC round={} {}", round, r);
                        }
                    }
                }
                Err(_) => {
                    hang_exit(format!(
                        "HANG round={} returned={}/{} st={} ex={}",
                        round,
                        got,
                        threads,
                        states(&img),
                        counters(&img)
                    ));
                }
            }
        }
        st.tracker.verif_fail_from(usize::MAX);
        for j in joins {
            let _ = j.join();
        }
        // background renders of a rayon pool may still be running: wait until nobody runs
        let mut calm = 0;
        loop {
            let busy = img
                .verif_render_context()
                .verif_handle_states()
                .iter()
                .any(|s| *s == "Rendering" || *s == "Locked");
            let running: usize =
                img.verif_render_context().verif_exec_counters().iter().map(|c| c.running).sum();
            if !busy && running == 0 {
                calm += 1;
                if calm >= 3 {
                    break;
                }
            } else {
                calm = 0;
            }
            if Instant::now() >= t_end {
                return format!("STUCK round={} st={} ex={}", round, states(&img), counters(&img));
            }
            std::thread::sleep(Duration::from_millis(2));
        }
        for c in img.verif_render_context().verif_exec_counters() {
            max_running = max_running.max(c.max_running);
        }
        // fresh handles for the next round
        match Arc::get_mut(&mut img) {
            Some(i) => {
                let (w, h) = (i.width(), i.height());
                i.set_image_region(CropInfo { width: w, height: h, left: 0, top: 0 });
            }
            None => return "bad-op image still shared".into(),
        }
    }
    st.img = Some(img);
    let mut res: Vec<_> = results.into_iter().collect();
    res.sort();
    format!(
        "ok agree={} max_running={} n_ok={} n_err={} values={}",
        agree as u8,
        max_running,
        n_ok,
        n_err,
        if res.is_empty() {
            "-".into()
        } else {
            res.iter().map(|(k, v)| format!("{}:{}", k, &v[3..])).collect::<Vec<_>>().join(",")
        }
    )
}

/// Controlled schedule. `threads` callers, caller t renders keyframe kfs[t % len]. `schedule` is
/// a list of thread ids: entry i names the thread that is granted the i-th step (a step = run
/// from one scheduling point to the next). A named thread that is finished or sleeping in the
/// condvar is skipped in favour of the lowest runnable thread. After the list is exhausted the
/// lowest runnable thread runs (so the schedule = a prefix with pre-emptions, then run to
/// completion). Answer: per-thread results, the executed step log and the final states.
fn sched_run(st: &mut St, threads: usize, kfs: &[usize], failfrom: usize, schedule: &[usize]) -> String {
    let Some(img) = st.img.clone() else { return "bad-op".into() };
    {
        let mut c = CTL.m.lock().unwrap();
        *c = CtlState {
            active: true,
            parked: vec![None; threads],
            finished: vec![false; threads],
            grant: None,
            in_wait: vec![None; threads],
            waking: vec![false; threads],
            running: None,
            log: Vec::new(),
        };
    }
    st.tracker.verif_fail_from(if failfrom == usize::MAX {
        usize::MAX
    } else {
        st.tracker.verif_alloc_calls() + failfrom
    });
    let (tx, rx) = mpsc::channel();
    for t in 0..threads {
        let img = Arc::clone(&img);
        let tx = tx.clone();
        let kf = kfs[t % kfs.len()];
        std::thread::spawn(move || {
            TID.with(|x| x.set(t));
            let r = render_once(&img, kf);
            {
                let mut c = CTL.m.lock().unwrap();
                if c.active {
                    c.finished[t] = true;
                    CTL.cv.notify_all();
                }
            }
            let _ = tx.send((t, r));
        });
    }
    drop(tx);
    let t_end = Instant::now() + st.deadline;
    let mut pos = 0usize;
    let mut deadlock = false;
    let mut timed_out = false;
    loop {
        let mut c = CTL.m.lock().unwrap();
        // wait until every unfinished thread is parked at a point or sleeping in the condvar
        loop {
            let settled = (0..threads)
                .all(|t| c.finished[t] || c.parked[t].is_some() || (c.in_wait[t].is_some() && !c.waking[t]));
            if settled && c.grant.is_none() {
                break;
            }
            let left = t_end.saturating_duration_since(Instant::now());
            if left.is_zero() {
                timed_out = true;
                break;
            }
            let (g, _) = CTL.cv.wait_timeout(c, left.min(Duration::from_millis(50))).unwrap();
            c = g;
        }
        if timed_out {
            break;
        }
        if (0..threads).all(|t| c.finished[t]) {
            break;
        }
        let runnable: Vec<usize> = (0..threads).filter(|t| !c.finished[*t] && c.parked[*t].is_some()).collect();
        if runnable.is_empty() {
            // everybody left is asleep in Condvar::wait and nobody can notify: give the real
            // condvar a moment (a notify may be in flight), then call it a deadlock
            drop(c);
            std::thread::sleep(Duration::from_millis(300));
            let c2 = CTL.m.lock().unwrap();
            let still = (0..threads).all(|t| c2.finished[t] || (c2.in_wait[t].is_some() && c2.parked[t].is_none()));
            if still {
                deadlock = true;
                break;
            }
            continue;
        }
        let want = if pos < schedule.len() { schedule[pos] } else { usize::MAX };
        pos += 1;
        let pick = if runnable.contains(&want) { want } else { runnable[0] };
        c.grant = Some(pick);
        CTL.cv.notify_all();
    }
    let (log, waiting) = {
        let mut c = CTL.m.lock().unwrap();
        c.active = false;
        CTL.cv.notify_all();
        (std::mem::take(&mut c.log), c.in_wait.clone())
    };
    if deadlock || timed_out {
        hang_exit(format!(
            "HANG {} waiting={:?} st={} log={}",
            if deadlock { "deadlock" } else { "timeout" },
            waiting,
            states(&img),
            fmt_trace(&log, true)
        ));
    }
    let mut res = vec![String::new(); threads];
    for _ in 0..threads {
        match rx.recv_timeout(st.deadline) {
            Ok((t, r)) => res[t] = r.replace(' ', ":"),
            Err(_) => hang_exit(format!("HANG post-schedule st={}", states(&img))),
        }
    }
    st.tracker.verif_fail_from(usize::MAX);
    format!(
        "ok res={} st={} ex={} steps={} log={}",
        res.join(","),
        states(&img),
        counters(&img),
        log.len(),
        fmt_trace(&log, true)
    )
}

fn main() {
    install_quiet_panic_hook();
    jxl_render::verif::set_sched(Some(Arc::new(sched_callback)));
    let st = St {
        img: None,
        tracker: AllocTracker::with_limit(usize::MAX),
        deadline: Duration::from_millis(10_000),
        pool_name: "none".into(),
    };
    static OPS: AtomicUsize = AtomicUsize::new(0);
    line_loop_flush(st, |st, w| {
        OPS.fetch_add(1, Ordering::SeqCst);
        let res: Option<String> = (|| match w {
            ["open", path, pool] => {
                st.img = None;
                st.tracker = AllocTracker::with_limit(usize::MAX);
                st.pool_name = pool.to_string();
                let pool = make_pool(pool)?;
                let tracker = st.tracker.clone();
                let path = path.to_string();
                let r = catch(move || {
                    JxlImage::builder().alloc_tracker(tracker).pool(pool).open(path)
                });
                Some(match r {
                    Err(p) => p,
                    Ok(Err(e)) => format!("err {}", err_kind(&*e)),
                    Ok(Ok(img)) => {
                        st.img = Some(Arc::new(img));
                        format!("ok allocs={}", st.tracker.verif_alloc_calls())
                    }
                })
            }
            ["openfail", path, pool, k] => {
                // open with the failure switch already set (faults during parsing)
                st.img = None;
                st.tracker = AllocTracker::with_limit(usize::MAX);
                st.tracker.verif_fail_from(k.parse().ok()?);
                let pool = make_pool(pool)?;
                let tracker = st.tracker.clone();
                let path = path.to_string();
                let r = catch(move || {
                    JxlImage::builder().alloc_tracker(tracker).pool(pool).open(path)
                });
                Some(match r {
                    Err(p) => p,
                    Ok(Err(e)) => format!("err {}", err_kind(&*e)),
                    Ok(Ok(img)) => {
                        st.img = Some(Arc::new(img));
                        format!("ok allocs={}", st.tracker.verif_alloc_calls())
                    }
                })
            }
            ["describe"] => Some(describe(st.img.as_ref()?)),
            ["failfrom", n] => {
                let n = parse_failfrom(&st.tracker, n)?;
                st.tracker.verif_fail_from(n);
                Some("ok".into())
            }
            ["allocs"] => Some(format!("allocs={}", st.tracker.verif_alloc_calls())),
            // the real limit (not the H1 switch): what the tracker holds and what is left
            ["budget"] => Some(format!(
                "outstanding={} peak={} left={}",
                st.tracker.verif_outstanding(),
                st.tracker.verif_peak_outstanding(),
                st.tracker.verif_bytes_left()
            )),
            ["leave", n] => {
                let n: usize = n.parse().ok()?;
                let left = st.tracker.verif_bytes_left();
                if left >= n {
                    Some(match st.tracker.shrink_limit(left - n) { Ok(()) => "ok".into(), Err(_) => "err oom".into() })
                } else {
                    st.tracker.expand_limit(n - left);
                    Some("ok".into())
                }
            }
            ["shrink", n] => {
                let n: usize = n.parse().ok()?;
                Some(match st.tracker.shrink_limit(n) { Ok(()) => "ok".into(), Err(_) => "err oom".into() })
            }
            ["raise", n] => {
                st.tracker.expand_limit(n.parse().ok()?);
                Some("ok".into())
            }
            ["deadline", ms] => {
                st.deadline = Duration::from_millis(ms.parse().ok()?);
                Some("ok".into())
            }
            ["delays", spec] => {
                // code:frame:nth:ms,...   ("-" clears)
                let mut v = Vec::new();
                if *spec != "-" {
                    for e in spec.split(',') {
                        let f: Vec<&str> = e.split(':').collect();
                        if f.len() != 4 {
                            return None;
                        }
                        v.push((f[0].to_string(), f[1].parse().ok()?, f[2].parse().ok()?, f[3].parse().ok()?, 0usize));
                    }
                }
                *DELAYS.lock().unwrap() = v;
                Some("ok".into())
            }
            ["states"] => Some(format!("st={}", states(st.img.as_ref()?))),
            ["settle"] => {
                // wait until background renders (rayon pool) are over: nobody running and no
                // handle Rendering/Locked on 3 consecutive polls; gives up at the deadline
                let img = st.img.as_ref()?;
                let t_end = Instant::now() + st.deadline;
                let mut calm = 0;
                let mut settled = true;
                loop {
                    let busy = img
                        .verif_render_context()
                        .verif_handle_states()
                        .iter()
                        .any(|s| *s == "Rendering" || *s == "Locked");
                    let running: usize =
                        img.verif_render_context().verif_exec_counters().iter().map(|c| c.running).sum();
                    if !busy && running == 0 {
                        calm += 1;
                        if calm >= 3 {
                            break;
                        }
                    } else {
                        calm = 0;
                    }
                    if Instant::now() >= t_end {
                        settled = false;
                        break;
                    }
                    std::thread::sleep(Duration::from_millis(2));
                }
                Some(format!(
                    "{} st={} ex={}",
                    if settled { "ok" } else { "STUCK" },
                    states(img),
                    counters(img)
                ))
            }
            ["render", kf] => {
                let kf: usize = kf.parse().ok()?;
                let img = Arc::clone(st.img.as_ref()?);
                trace_take();
                TRACE.on.store(true, Ordering::SeqCst);
                let img2 = Arc::clone(&img);
                let r = with_deadline(st.deadline, 0, move || render_once(&img2, kf));
                TRACE.on.store(false, Ordering::SeqCst);
                let ev = trace_take();
                let tail = format!(
                    "st={} ev={} ex={} allocs={}",
                    states(&img),
                    fmt_trace(&ev, st.pool_name != "none"),
                    counters(&img),
                    st.tracker.verif_alloc_calls()
                );
                match r {
                    Some(r) => Some(format!("{} {}", r, tail)),
                    None => hang_exit(format!("HANG {}", tail)),
                }
            }
            ["region", l, t, wd, h] => {
                let img = Arc::get_mut(st.img.as_mut()?)?;
                let crop = CropInfo {
                    left: l.parse().ok()?,
                    top: t.parse().ok()?,
                    width: wd.parse().ok()?,
                    height: h.parse().ok()?,
                };
                img.set_image_region(crop);
                Some(format!("ok st={}", states(img)))
            }
            ["size"] => {
                let img = st.img.as_ref()?;
                Some(format!("ok {} {}", img.width(), img.height()))
            }
            ["stress", threads, rounds, kfs, ff] => {
                let kfs = parse_list(kfs)?;
                let ff = if *ff == "off" { usize::MAX } else { ff.parse().ok()? };
                Some(stress(st, threads.parse().ok()?, rounds.parse().ok()?, &kfs, ff))
            }
            ["sched", threads, kfs, ff, schedule] => {
                let kfs = parse_list(kfs)?;
                let schedule = parse_list(schedule)?;
                let ff = if *ff == "off" { usize::MAX } else { ff.parse().ok()? };
                Some(sched_run(st, threads.parse().ok()?, &kfs, ff, &schedule))
            }
            _ => None,
        })();
        res.unwrap_or_else(|| "bad-op".into())
    });
}

/// like `line_loop` but flushes after every line (the parent must see everything written
/// before a hang makes the worker exit)
fn line_loop_flush<S>(mut state: S, mut f: impl FnMut(&mut S, &[&str]) -> String) {
    use std::io::BufRead;
    let stdin = std::io::stdin();
    for line in stdin.lock().lines() {
        let line = line.expect("stdin");
        let words: Vec<&str> = line.split_whitespace().collect();
        let o = f(&mut state, &words);
        let mut out = std::io::stdout().lock();
        writeln!(out, "{}", o).unwrap();
        out.flush().unwrap();
    }
}
