//! C05: keyframes of a multi-frame image through the public `JxlImage` API, requested in a given
//! order (with repetitions), on one reused image or on a fresh image per request.
//!
//! `render <hex | @file> <fresh 0|1> <threads> <k>*` answers
//! `ok <num_keyframes> <n> { k <idx> <nch> { <w> <h> <f32 bits>* }*nch | kerr <class> }*n`.
//! Channels come from `Render::image_planar()` (image rectangle, orientation applied), i.e. what a
//! caller of the library receives; integer buffers the renderer kept are converted there by the
//! same `parse_integer_sample` the blender uses.
use jxl_oxide::{JxlImage, JxlThreadPool};
use verif_harness::*;

fn open(bytes: &[u8], threads: usize) -> Result<JxlImage, String> {
    let pool = if threads == 0 {
        JxlThreadPool::none()
    } else {
        JxlThreadPool::rayon(Some(threads))
    };
    JxlImage::builder()
        .pool(pool)
        .alloc_tracker(jxl_oxide::AllocTracker::with_limit(1 << 30))
        .read(std::io::Cursor::new(bytes))
        .map_err(|e| format!("err read {}", err_class(&*e)))
}

fn dump(image: &JxlImage, k: usize, out: &mut String) {
    use std::fmt::Write;
    match image.render_frame(k) {
        Err(e) => {
            write!(out, " kerr {}", err_class(&*e)).unwrap();
        }
        Ok(r) => {
            let planes = r.image_planar();
            write!(out, " k {} {}", k, planes.len()).unwrap();
            for p in &planes {
                write!(out, " {} {}", p.width(), p.height()).unwrap();
                for v in p.buf() {
                    write!(out, " {}", v.to_bits()).unwrap();
                }
            }
        }
    }
}

fn render(bytes: &[u8], fresh: bool, threads: usize, order: &[usize]) -> String {
    let image = match open(bytes, threads) {
        Ok(i) => i,
        Err(e) => return e,
    };
    let mut out = format!("ok {} {}", image.num_loaded_keyframes(), order.len());
    for &k in order {
        if fresh {
            match open(bytes, threads) {
                Ok(i) => dump(&i, k, &mut out),
                Err(e) => return e,
            }
        } else {
            dump(&image, k, &mut out);
        }
    }
    out
}

fn main() {
    install_quiet_panic_hook();
    line_loop((), |_, w| match w {
        ["render", hexs, fresh, threads, order @ ..] => {
            let bytes = if let Some(path) = hexs.strip_prefix('@') {
                match std::fs::read(path) {
                    Ok(b) => b,
                    Err(_) => return "bad-op".into(),
                }
            } else {
                let Some(b) = unhex(hexs) else { return "bad-op".into() };
                b
            };
            let Ok(threads) = threads.parse::<usize>() else { return "bad-op".into() };
            let Some(order) = order.iter().map(|s| s.parse::<usize>().ok()).collect::<Option<Vec<_>>>() else {
                return "bad-op".into();
            };
            match catch(|| render(&bytes, *fresh == "1", threads, &order)) {
                Ok(s) => s,
                Err(p) => p,
            }
        }
        ["patch", rest @ ..] => match catch(|| patch_op(rest)) {
            Ok(Some(s)) => s,
            Ok(None) => "bad-op".into(),
            Err(p) => p,
        },
        _ => "bad-op".into(),
    });
}

/// `patch CC NEC {AA}*NEC NPIX {MODE ALPHA CLAMP}*(1+NEC) base.. ref..` (values as f32 bit
/// patterns, channel by channel): the real `blend::patch` through hook H2.
fn patch_op(w: &[&str]) -> Option<String> {
    use jxl_frame::data::{BlendingModeInformation, PatchBlendMode, PatchRef, PatchTarget};
    use jxl_image::{ExtraChannelInfo, ExtraChannelType, ImageHeader, ImageMetadata, SizeHeader};
    use jxl_oxide_common::BundleDefault;
    let mut it = w.iter();
    let mut num = || it.next()?.parse::<i64>().ok();
    let cc = num()? as usize;
    let nec = num()? as usize;
    let mut ec_info = Vec::new();
    for _ in 0..nec {
        let aa = num()?;
        let ty = if aa < 0 {
            ExtraChannelType::Depth
        } else {
            ExtraChannelType::Alpha { alpha_associated: aa != 0 }
        };
        ec_info.push(ExtraChannelInfo { ty, ..Default::default() });
    }
    let npix = num()? as usize;
    let mut blending = Vec::new();
    for _ in 0..1 + nec {
        let mode = PatchBlendMode::try_from(num()? as u32).ok()?;
        let alpha_channel = num()? as u32;
        let clamp = num()? != 0;
        blending.push(BlendingModeInformation { mode, alpha_channel, clamp });
    }
    let mut grids = Vec::new();
    for _ in 0..2 {
        let mut chans = Vec::new();
        for _ in 0..cc + nec {
            let mut v = Vec::new();
            for _ in 0..npix {
                v.push(f32::from_bits(num()? as u32));
            }
            chans.push(v);
        }
        grids.push(chans);
    }
    let mut size = SizeHeader::default_with_context(());
    size.width = npix as u32;
    size.height = 1;
    let mut metadata = ImageMetadata::default_with_context(());
    metadata.xyb_encoded = false;
    metadata.ec_info = ec_info;
    let image = ImageHeader { size, metadata };
    let patch_ref = PatchRef {
        ref_idx: 0,
        x0: 0,
        y0: 0,
        width: npix as u32,
        height: 1,
        patch_targets: vec![PatchTarget { x: 0, y: 0, blending }],
    };
    let out = jxl_render::verif_region::patch_values_probe(&image, cc, &grids[0], &grids[1], &patch_ref).ok()?;
    let chans: Vec<String> = out
        .iter()
        .map(|ch| ch.iter().map(|v| v.to_bits().to_string()).collect::<Vec<_>>().join(" "))
        .collect();
    Some(format!("ok {}", chans.join(" | ")))
}
