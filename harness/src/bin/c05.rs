//! C05: keyframes of a multi-frame image through the public `JxlImage` API, requested in a given
//! order (with repetitions), on one reused image or on a fresh image per request.
//!
//! `render <hex | @file> <fresh 0|1> <threads> <k>*` answers
//! `ok <num_keyframes> <n> { k <idx> <nch> { <w> <h> <f32 bits>* }*nch | kerr <class> }*n`.
//! Channels come from `Render::image_planar()` (image rectangle, orientation applied), i.e. what a
//! caller of the library receives; integer buffers the renderer kept are converted there by the
//! same `parse_integer_sample` the blender uses.
use jxl_oxide::{JxlImage, JxlThreadPool};
use verif_harness::*;

fn open(bytes: &[u8], threads: usize) -> Result<JxlImage, String> {
    let pool = if threads == 0 {
        JxlThreadPool::none()
    } else {
        JxlThreadPool::rayon(Some(threads))
    };
    JxlImage::builder()
        .pool(pool)
        .alloc_tracker(jxl_oxide::AllocTracker::with_limit(1 << 30))
        .read(std::io::Cursor::new(bytes))
        .map_err(|e| format!("err read {}", err_class(&*e)))
}

fn dump(image: &JxlImage, k: usize, out: &mut String) {
    use std::fmt::Write;
    match image.render_frame(k) {
        Err(e) => {
            write!(out, " kerr {}", err_class(&*e)).unwrap();
        }
        Ok(r) => {
            let planes = r.image_planar();
            write!(out, " k {} {}", k, planes.len()).unwrap();
            for p in &planes {
                write!(out, " {} {}", p.width(), p.height()).unwrap();
                for v in p.buf() {
                    write!(out, " {}", v.to_bits()).unwrap();
                }
            }
        }
    }
}

fn render(bytes: &[u8], fresh: bool, threads: usize, order: &[usize]) -> String {
    let image = match open(bytes, threads) {
        Ok(i) => i,
        Err(e) => return e,
    };
    let mut out = format!("ok {} {}", image.num_loaded_keyframes(), order.len());
    for &k in order {
        if fresh {
            match open(bytes, threads) {
                Ok(i) => dump(&i, k, &mut out),
                Err(e) => return e,
            }
        } else {
            dump(&image, k, &mut out);
        }
    }
    out
}

fn main() {
    install_quiet_panic_hook();
    line_loop((), |_, w| match w {
        ["render", hexs, fresh, threads, order @ ..] => {
            let bytes = if let Some(path) = hexs.strip_prefix('@') {
                match std::fs::read(path) {
                    Ok(b) => b,
                    Err(_) => return "bad-op".into(),
                }
            } else {
                let Some(b) = unhex(hexs) else { return "bad-op".into() };
                b
            };
            let Ok(threads) = threads.parse::<usize>() else { return "bad-op".into() };
            let Some(order) = order.iter().map(|s| s.parse::<usize>().ok()).collect::<Option<Vec<_>>>() else {
                return "bad-op".into();
            };
            match catch(|| render(&bytes, *fresh == "1", threads, &order)) {
                Ok(s) => s,
                Err(p) => p,
            }
        }
        _ => "bad-op".into(),
    });
}
