//! Whole-image decoding through `JxlImage`: per-keyframe channel dumps (integer grids when the
//! renderer kept them, otherwise f32 bit patterns).
use std::fmt::Write as _;
use jxl_oxide::{JxlImage, JxlThreadPool};
use jxl_render::ImageBuffer;
use verif_harness::*;

fn dump_buf(b: &ImageBuffer, out: &mut String) {
    use std::fmt::Write;
    match b {
        ImageBuffer::I32(g) => {
            write!(out, " i {} {}", g.width(), g.height()).unwrap();
            for v in g.buf() {
                write!(out, " {}", v).unwrap();
            }
        }
        ImageBuffer::I16(g) => {
            write!(out, " i {} {}", g.width(), g.height()).unwrap();
            for v in g.buf() {
                write!(out, " {}", v).unwrap();
            }
        }
        ImageBuffer::F32(g) => {
            write!(out, " f {} {}", g.width(), g.height()).unwrap();
            for v in g.buf() {
                write!(out, " {}", v.to_bits()).unwrap();
            }
        }
    }
}

fn decode(bytes: &[u8], wide: bool, threads: usize, region: Option<jxl_oxide::CropInfo>, streams: bool) -> String {
    let pool = if threads == 0 {
        JxlThreadPool::none()
    } else {
        JxlThreadPool::rayon(Some(threads))
    };
    let image = JxlImage::builder()
        .pool(pool)
        .force_wide_buffers(wide)
        .alloc_tracker(jxl_oxide::AllocTracker::with_limit(1 << 30))
        .read(std::io::Cursor::new(bytes));
    let mut image = match image {
        Ok(i) => i,
        Err(e) => return format!("err read {}", err_class(&*e)),
    };
    let mut out = format!("ok {}", image.num_loaded_keyframes());
    if let Some(c) = region {
        // a region request after loading (the render handles are rebuilt): the interleaved f32 picture
        image.set_image_region(c);
        for k in 0..image.num_loaded_keyframes() {
            match image.render_frame(k) {
                Err(e) => out.push_str(&format!(" kerr {}", err_class(&*e))),
                Ok(r) => {
                    let fb = r.image_all_channels();
                    write!(out, " fb {} {} {}", fb.width(), fb.height(), fb.channels()).unwrap();
                    for v in fb.buf() {
                        write!(out, " {}", v.to_bits()).unwrap();
                    }
                }
            }
        }
        return out;
    }
    if streams {
        // the integer output forms (8- and 16-bit sample streams, with alpha) of every keyframe: what a
        // caller gets must not depend on the width of the Modular buffers either
        for k in 0..image.num_loaded_keyframes() {
            match image.render_frame(k) {
                Err(e) => out.push_str(&format!(" kerr {}", err_class(&*e))),
                Ok(r) => {
                    let mut st = r.stream();
                    let n = st.width() as usize * st.height() as usize * st.channels() as usize;
                    let mut b8 = vec![0u8; n];
                    let got = st.write_to_buffer(&mut b8);
                    write!(out, " s8 {} {}", got, verif_harness::hex(&b8)).unwrap();
                    let mut st = r.stream();
                    let mut b16 = vec![0u16; n];
                    let got = st.write_to_buffer(&mut b16);
                    write!(out, " s16 {}", got).unwrap();
                    for v in &b16 {
                        write!(out, " {}", v).unwrap();
                    }
                }
            }
        }
        return out;
    }
    for k in 0..image.num_loaded_keyframes() {
        match image.render_frame(k) {
            Err(e) => {
                out.push_str(&format!(" kerr {}", err_class(&*e)));
            }
            Ok(r) => {
                let (_, ec) = r.extra_channels();
                let cc = r.color_channels();
                out.push_str(&format!(" k {}", cc.len() + ec.len()));
                for b in cc.iter().chain(ec.iter()) {
                    dump_buf(b, &mut out);
                }
            }
        }
    }
    out
}

fn main() {
    install_quiet_panic_hook();
    line_loop((), |_, w| match w {
        ["decode", hexs, rest @ ..] => {
            let Some(bytes) = unhex(hexs) else { return "bad-op".into() };
            let mut wide = false;
            let mut threads = 0usize;
            let mut region = None;
            let mut streams = false;
            for r in rest {
                if *r == "streams=1" {
                    streams = true;
                }
                if let Some(v) = r.strip_prefix("region=") {
                    let p: Vec<u32> = v.split(',').filter_map(|x| x.parse().ok()).collect();
                    if p.len() == 4 {
                        region = Some(jxl_oxide::CropInfo { left: p[0], top: p[1], width: p[2], height: p[3] });
                    }
                }
                if let Some(v) = r.strip_prefix("wide=") {
                    wide = v == "1";
                }
                if let Some(v) = r.strip_prefix("threads=") {
                    threads = v.parse().unwrap_or(0);
                }
            }
            match catch(|| decode(&bytes, wide, threads, region, streams)) {
                Ok(s) => s,
                Err(p) => p,
            }
        }
        ["icc", hexs] => {
            let Some(bytes) = unhex(hexs) else { return "bad-op".into() };
            match catch(|| {
                let image = JxlImage::builder()
                    .pool(JxlThreadPool::none())
                    .read(std::io::Cursor::new(&bytes[..]));
                match image {
                    Ok(i) => match i.original_icc() {
                        Some(p) => format!("ok {}", hex(p)),
                        None => "none".to_string(),
                    },
                    Err(e) => {
                        let msg = e.to_string();
                        let why = if msg.contains("Color channel mismatch") { "channel-mismatch" } else { "other" };
                        format!("err {} {}", err_class(&*e), why)
                    }
                }
            }) {
                Ok(s) => s,
                Err(p) => p,
            }
        }
        _ => "bad-op".into(),
    });
}
