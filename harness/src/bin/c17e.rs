//! C17 end to end: a baseline JPEG written by an independent textbook encoder (`synth::write_jpeg`,
//! the ORIGINAL), the same coefficients carried losslessly in a JPEG XL container with a `jbrd` box
//! (`synth::write_container`), and `JxlImage::reconstruct_jpeg`, which must return the original
//! bytes. One case per line:
//!   `jpeg <seed> <bw> <bh> <scans> <pad> <ezr> <meta> <feed>`
//!  scans: `i` one interleaved scan | `s` one scan per component | `m` {0,1},{2} | `r` {2},{0},{1}
//!  pad:   `d` default (ones) | `z` zeros | `a` alternating per flush | `r` seeded random per flush | `n` seeded per bit
//!  ezr:   number of extra zero-run entries (on seeded blocks; only blocks whose last coefficients are zero)
//!  meta:  `-` none | `e` Exif in JPEG + box | `E` Exif box only | `x` xml box only | `c` comment | `ec`
//!  feed:  `w` read whole | `<n>` feed in chunks of n bytes | `emit` print the container and the JPEG as hex
//! Answer: `ok <jpeg bytes>` | `diff at=<i> got=<len> want=<len>` | `status <s>` | `err <class>` | `panic…`
//! Further ops: `pjpeg` (progressive scripts, restart intervals, seeded tables; see `pcase`), `sjpeg` (the same
//! with chroma subsampling / one component and sizes in pixels; see `scase`, its answers end in facts about the
//! input: `mcu=… pad=… lesser-scans=…`), `hjbrd` (damaged reconstruction data; see `hcase`).
use jxl_oxide::{InitializeResult, JpegReconstructionStatus, JxlImage, JxlThreadPool};
use verif_harness::synth::*;
use verif_harness::*;

struct Rng(u64);
impl Rng {
    fn next(&mut self) -> u64 {
        self.0 ^= self.0 << 13;
        self.0 ^= self.0 >> 7;
        self.0 ^= self.0 << 17;
        self.0
    }
}

fn open(container: &[u8], feed: &str) -> Result<JxlImage, String> {
    if feed == "w" {
        return JxlImage::builder()
            .pool(JxlThreadPool::none())
            .read(std::io::Cursor::new(container))
            .map_err(|e| format!("err {}", err_class(&*e)));
    }
    let n: usize = feed.parse().map_err(|_| "bad-op".to_string())?;
    let mut uninit = Some(JxlImage::builder().pool(JxlThreadPool::none()).build_uninit());
    let mut image: Option<JxlImage> = None;
    let mut pending: Vec<u8> = Vec::new();
    for c in container.chunks(n.max(1)) {
        pending.extend_from_slice(c);
        if let Some(img) = image.as_mut() {
            let k = img.feed_bytes(&pending).map_err(|e| format!("err {}", err_class(&*e)))?;
            pending.drain(..k.min(pending.len()));
        } else if let Some(mut u) = uninit.take() {
            let k = u.feed_bytes(&pending).map_err(|e| format!("err {}", err_class(&*e)))?;
            pending.drain(..k.min(pending.len()));
            match u.try_init().map_err(|e| format!("err {}", err_class(&*e)))? {
                InitializeResult::NeedMoreData(u) => uninit = Some(u),
                InitializeResult::Initialized(img) => image = Some(img),
            }
        }
    }
    let mut image = image.ok_or_else(|| "err uninit".to_string())?;
    image.finalize().map_err(|e| format!("err {}", err_class(&*e)))?;
    Ok(image)
}

fn case(w: &[&str]) -> Option<String> {
    let [seed, bw, bh, scans, pad, ezr, meta, feed] = w else { return None };
    let seed: u64 = seed.parse().ok()?;
    let (bw, bh): (usize, usize) = (bw.parse().ok()?, bh.parse().ok()?);
    if bw == 0 || bh == 0 || bw > 64 || bh > 64 {
        return None;
    }
    let n = bw * bh;
    let scans: Vec<Vec<usize>> = match *scans {
        "i" => vec![vec![0, 1, 2]],
        "s" => vec![vec![0], vec![1], vec![2]],
        "m" => vec![vec![0, 1], vec![2]],
        "r" => vec![vec![2], vec![0], vec![1]],
        _ => return None,
    };
    let mut blocks = [random_blocks(seed, n), random_blocks(seed + 100, n), random_blocks(seed + 200, n)];
    let mut rng = Rng(seed.wrapping_mul(0x9e3779b97f4a7c15) | 1);
    // some blocks without any AC coefficient (flat areas)
    for comp in blocks.iter_mut() {
        for b in comp.iter_mut() {
            if rng.next() % 5 == 0 {
                for v in b[1..].iter_mut() {
                    *v = 0;
                }
            }
        }
    }
    // extra zero runs: (block index within the scan, number of ZRL symbols) on blocks that end in zeros
    let nezr: usize = ezr.parse().ok()?;
    let mut extra_zero_runs = vec![Vec::new(); scans.len()];
    for _ in 0..nezr {
        let s = (rng.next() % scans.len() as u64) as usize;
        let blocks_in_scan = n * scans[s].len();
        let b = (rng.next() % blocks_in_scan as u64) as u32;
        // the block this index names (4:4:4: an interleaved scan goes MCU by MCU, component by component)
        let nc = scans[s].len();
        let (comp, bi) = (scans[s][b as usize % nc], b as usize / nc);
        let last_nz = blocks[comp][bi].iter().rposition(|&v| v != 0).unwrap_or(0);
        let room = ((63 - last_nz) / 16) as u32;
        if room == 0 {
            continue;
        }
        let runs = 1 + (rng.next() % room as u64) as u32;
        if !extra_zero_runs[s].iter().any(|&(x, _)| x == b) {
            extra_zero_runs[s].push((b, runs));
        }
    }
    for v in &mut extra_zero_runs {
        v.sort();
    }
    let tiff: Vec<u8> = vec![b'I', b'I', 42, 0, 8, 0, 0, 0, 0, 0, 0, 0, 0, 0];
    let spec = JpegSpec {
        width: bw * 8,
        height: bh * 8,
        quant: default_quant(),
        blocks,
        sampling: S444,
        gray: false,
        scans,
        extra_zero_runs,
        padding: None,
        jfif: rng.next() % 4 != 0,
        exif_app1: if meta.contains('e') { Some(tiff.clone()) } else { None },
        comment: if meta.contains('c') { Some(b"verif c17".to_vec()) } else { None },
        progressive: false,
        scan_params: Vec::new(),
        restart_interval: 0,
        tables: None,
        dht_split: false,
        forced_resets: Vec::new(),
    };
    finish(spec, rng, pad, meta, feed)
}

/// padding bits, container, decode, compare
fn finish(mut spec: JpegSpec, mut rng: Rng, pad: &str, meta: &str, feed: &str) -> Option<String> {
    let tiff: Vec<u8> = vec![b'I', b'I', 42, 0, 8, 0, 0, 0, 0, 0, 0, 0, 0, 0];
    let xmp: &[u8] = b"<x:xmpmeta xmlns:x=\"adobe:ns:meta/\"></x:xmpmeta>";
    // padding: needs per flush come from a first pass with default padding
    let (_, needs) = write_jpeg(&spec);
    spec.padding = match pad {
        "d" => None,
        "z" => Some(needs.iter().flat_map(|&k| std::iter::repeat_n(0u8, k as usize)).collect()),
        "a" => Some(
            needs
                .iter()
                .enumerate()
                .flat_map(|(i, &k)| std::iter::repeat_n((i % 2) as u8, k as usize))
                .collect(),
        ),
        // every bit seeded: the order of the bits inside one flush matters
        "n" => Some(needs.iter().flat_map(|&k| (0..k).map(|_| (rng.next() >> 17 & 1) as u8).collect::<Vec<_>>()).collect()),
        "r" => Some(
            needs
                .iter()
                .flat_map(|&k| {
                    let v = (rng.next() & 1) as u8;
                    std::iter::repeat_n(v, k as usize)
                })
                .collect(),
        ),
        _ => return None,
    };
    let (expected, _) = write_jpeg(&spec);
    let exif_box = (meta.contains('e') || meta.contains('E')).then_some(&tiff[..]);
    let xml_box = meta.contains('x').then_some(xmp);
    let container = write_container(&spec, exif_box, xml_box);
    if feed == "emit" {
        // the files themselves, for other checks: `emit <container hex> <jpeg hex>`
        return Some(format!("emit {} {}", hex(&container), hex(&expected)));
    }
    let image = match open(&container, feed) {
        Ok(i) => i,
        Err(e) => return Some(e),
    };
    let status = image.jpeg_reconstruction_status();
    if status != JpegReconstructionStatus::Available {
        return Some(format!("status {:?}", status));
    }
    let mut out = Vec::new();
    if let Err(e) = image.reconstruct_jpeg(&mut out) {
        return Some(format!("err reconstruct-{}", err_class(&*e)));
    }
    if out == expected {
        let j = write_jpeg_ex(&spec);
        Some(format!(
            "ok {} scans={} flushes={} early-run-ends={}",
            out.len(),
            spec.scans.len(),
            j.pad_needs.len(),
            j.reset_points.iter().map(|r| r.len()).sum::<usize>()
        ))
    } else {
        let at = out.iter().zip(&expected).position(|(a, b)| a != b).unwrap_or(out.len().min(expected.len()));
        Some(format!("diff at={} got={} want={}", at, out.len(), expected.len()))
    }
}

/// A seeded progressive scan script: `(components, ss, se, ah, al)` in a valid order, every bit of
/// every coefficient sent exactly once.
fn random_script(rng: &mut Rng) -> Vec<(Vec<usize>, u8, u8, u8, u8)> {
    // per "lane" (DC of some components, or an AC band of one component) the scans top down
    let mut lanes: Vec<Vec<(Vec<usize>, u8, u8, u8, u8)>> = Vec::new();
    let dc_al = (rng.next() % 3) as u8;
    let dc_groups: Vec<Vec<usize>> = match rng.next() % 3 {
        0 => vec![vec![0, 1, 2]],
        1 => vec![vec![0], vec![1, 2]],
        _ => vec![vec![0], vec![1], vec![2]],
    };
    let mut first: Vec<(Vec<usize>, u8, u8, u8, u8)> = Vec::new();
    for g in &dc_groups {
        first.push((g.clone(), 0, 0, 0, dc_al));
        let mut lane = Vec::new();
        for al in (0..dc_al).rev() {
            lane.push((g.clone(), 0, 0, al + 1, al));
        }
        lanes.push(lane);
    }
    for c in 0..3usize {
        // cut 1..=63 into 1..3 bands
        let mut cuts = vec![1u8, 64];
        for _ in 0..rng.next() % 3 {
            let k = 2 + (rng.next() % 62) as u8;
            if !cuts.contains(&k) {
                cuts.push(k);
            }
        }
        cuts.sort();
        for w in cuts.windows(2) {
            let (ss, se) = (w[0], w[1] - 1);
            let al0 = (rng.next() % 4) as u8;
            let mut lane = vec![(vec![c], ss, se, 0, al0)];
            for al in (0..al0).rev() {
                lane.push((vec![c], ss, se, al + 1, al));
            }
            lanes.push(lane);
        }
    }
    // DC first scans first, then a seeded merge of the lanes
    let mut out = first;
    let mut pos = vec![0usize; lanes.len()];
    loop {
        let open: Vec<usize> = (0..lanes.len()).filter(|&i| pos[i] < lanes[i].len()).collect();
        if open.is_empty() {
            break;
        }
        let i = open[(rng.next() % open.len() as u64) as usize];
        out.push(lanes[i][pos[i]].clone());
        pos[i] += 1;
    }
    out
}

/// `pjpeg <seed> <bw> <bh> <script> <ri> <tables> <style> <resets> <pad> <feed>`
///  script: `b` baseline interleaved | `bs` baseline, one scan per component | `A` progressive, spectral
///          selection only | `B` progressive with successive approximation (the IJG default script) |
///          `R` seeded progressive script
///  ri: restart interval in MCUs (0: none) · tables: `k` Annex K (baseline only) | `c` seeded | `cs` seeded, one DHT each
///  style: `n` photo-like | `e` hardly any AC coefficient (end-of-band runs beyond 32767 in large images) | `q` dense blocks of multiples of 4 (long correction-bit runs) | `z` mostly empty blocks (long end-of-band runs)
///  resets: number of blocks before which the original encoder ended an end-of-band run early
fn pcase(w: &[&str]) -> Option<String> {
    let [.., pad, feed] = w else { return None };
    let (spec, rng) = pspec(w)?;
    finish(spec, rng, pad, "-", feed)
}

/// `hjbrd <hseed> <the ten words of pjpeg>`: the same transcode with seeded structural damage to the
/// reconstruction data (`synth::hostile`). Anything but a panic or a hang is fine.
/// Answer: `ok <len> <damage>` | `status <s> <damage>` | `err <class> <damage>` | `panic…`
fn hcase(w: &[&str]) -> Option<String> {
    let [hseed, rest @ ..] = w else { return None };
    let hseed: u64 = hseed.parse().ok()?;
    let [.., pad, feed] = rest else { return None };
    let (mut spec, mut rng) = pspec(rest)?;
    let needs = write_jpeg_ex(&spec).pad_needs;
    if *pad == "n" {
        spec.padding = Some(needs.iter().flat_map(|&k| (0..k).map(|_| (rng.next() >> 17 & 1) as u8).collect::<Vec<_>>()).collect());
    }
    let mut fields = JbrdFields::from_spec(&spec);
    let damage = hostile(&mut fields, hseed).join("+");
    let container = write_container_with(&spec, &fields.serialize(), None, None);
    if *feed == "emit" {
        return Some(format!("emit {} -", hex(&container)));
    }
    let image = match open(&container, feed) {
        Ok(i) => i,
        Err(e) => return Some(format!("{e} {damage}")),
    };
    let status = image.jpeg_reconstruction_status();
    if status != JpegReconstructionStatus::Available {
        return Some(format!("status {:?} {damage}", status));
    }
    let mut out = Vec::new();
    match image.reconstruct_jpeg(&mut out) {
        Ok(()) => Some(format!("ok {} {damage}", out.len())),
        Err(e) => Some(format!("err reconstruct-{} {damage}", err_class(&*e))),
    }
}

fn pspec(w: &[&str]) -> Option<(JpegSpec, Rng)> {
    let [seed, bw, bh, script, ri, tables, style, resets, _pad, _feed] = w else { return None };
    let seed: u64 = seed.parse().ok()?;
    let (bw, bh): (usize, usize) = (bw.parse().ok()?, bh.parse().ok()?);
    if bw == 0 || bh == 0 || bw > 256 || bh > 256 {
        return None;
    }
    build_spec(seed, bw * 8, bh * 8, S444, false, script, ri, tables, style, resets, 0)
}

/// Sampling factors by name: `444` | `420` | `422` | `440` (luma factor 2 in both / the horizontal /
/// the vertical direction, chroma 1x1) | `g` one component | `x<H0><V0><H1><V1><H2><V2>` anything else.
fn sampling_of(name: &str) -> Option<([(usize, usize); 3], bool)> {
    Some(match name {
        "444" => (S444, false),
        "420" => ([(2, 2), (1, 1), (1, 1)], false),
        "422" => ([(2, 1), (1, 1), (1, 1)], false),
        "440" => ([(1, 2), (1, 1), (1, 1)], false),
        "g" => (S444, true),
        _ => {
            let d: Vec<usize> = name.strip_prefix('x')?.chars().map(|c| c.to_digit(10).unwrap_or(0) as usize).collect();
            if d.len() != 6 || d.iter().any(|&v| v != 1 && v != 2) {
                return None;
            }
            ([(d[0], d[1]), (d[2], d[3]), (d[4], d[5])], false)
        }
    })
}

/// `sjpeg <seed> <width> <height> <sampling> <script> <ri> <tables> <style> <resets> <ezr> <pad> <feed>`
///  width, height in pixels (1..=2048), need not be multiples of 8 or of the MCU
///  sampling: see `sampling_of` · script: as `pjpeg`, and `bm` baseline {0,1},{2} | `bc` baseline {0},{1,2} |
///  `br` baseline {2},{0},{1} · ezr: number of extra zero-run entries (baseline scripts only)
///  everything else as `pjpeg`; a grey image keeps component 0 of every scan of the script
fn scase(w: &[&str]) -> Option<String> {
    let [seed, width, height, samp, script, ri, tables, style, resets, ezr, pad, feed] = w else { return None };
    let seed: u64 = seed.parse().ok()?;
    let (width, height): (usize, usize) = (width.parse().ok()?, height.parse().ok()?);
    if width == 0 || height == 0 || width > 2048 || height > 2048 {
        return None;
    }
    let (sampling, gray) = sampling_of(samp)?;
    let (spec, rng) = build_spec(seed, width, height, sampling, gray, script, ri, tables, style, resets, ezr.parse().ok()?)?;
    finish(spec, rng, pad, "-", feed)
}

/// Facts about the input of an `sjpeg` line, appended to its answer whatever the decoder did:
/// `mcu=<Hmax>x<Vmax> pad=<blocks of MCU padding> lesser-scans=<scans none of whose components has the
/// frame's largest factor in some direction>` (such a scan still counts its MCUs by the frame's factors)
fn sfacts(w: &[&str]) -> Option<String> {
    let [seed, width, height, samp, script, ri, tables, style, resets, ezr, _pad, _feed] = w else { return None };
    let (sampling, gray) = sampling_of(samp)?;
    let (spec, _) = build_spec(seed.parse().ok()?, width.parse().ok()?, height.parse().ok()?, sampling, gray, script, ri, tables, style, resets, ezr.parse().ok()?)?;
    let (hm, vm) = spec.max_sampling();
    let lesser = spec
        .scans
        .iter()
        .filter(|sc| sc.iter().all(|&c| spec.sampling[c].0 < hm) || sc.iter().all(|&c| spec.sampling[c].1 < vm))
        .count();
    let pad: usize = (0..spec.ncomp())
        .map(|c| {
            let ((gw, gh), (ow, oh)) = (spec.grid(c), spec.own_grid(c));
            gw * gh - ow * oh
        })
        .sum();
    Some(format!("mcu={hm}x{vm} pad={pad} lesser-scans={lesser}"))
}

#[allow(clippy::too_many_arguments)]
fn build_spec(
    seed: u64,
    width: usize,
    height: usize,
    sampling: [(usize, usize); 3],
    gray: bool,
    script: &str,
    ri: &str,
    tables: &str,
    style: &str,
    resets: &str,
    nezr: usize,
) -> Option<(JpegSpec, Rng)> {
    let (script, tables, style) = (&script, &tables, &style);
    // geometry first: the padded grids say how many blocks a component has
    let geo = JpegSpec {
        width,
        height,
        quant: default_quant(),
        blocks: [Vec::new(), Vec::new(), Vec::new()],
        sampling,
        gray,
        scans: Vec::new(),
        extra_zero_runs: Vec::new(),
        padding: None,
        jfif: false,
        exif_app1: None,
        comment: None,
        progressive: false,
        scan_params: Vec::new(),
        restart_interval: 0,
        tables: None,
        dht_split: false,
        forced_resets: Vec::new(),
    };
    let ncomp = geo.ncomp();
    let nb = |c: usize| if c < ncomp { geo.nblocks(c) } else { 0 };
    let mut rng = Rng(seed.wrapping_mul(0x9e3779b97f4a7c15) | 1);
    let mut blocks = [random_blocks(seed, nb(0)), random_blocks(seed + 100, nb(1)), random_blocks(seed + 200, nb(2))];
    match *style {
        "n" => {}
        "q" => {
            for comp in blocks.iter_mut() {
                for b in comp.iter_mut() {
                    for (k, v) in b.iter_mut().enumerate().skip(1) {
                        let r = rng.next();
                        let mag = 4 * (1 + (r >> 8) % 6) as i16;
                        *v = if k > 60 && r % 7 == 0 { 0 } else if r >> 40 & 1 == 0 { mag } else { -mag };
                    }
                }
            }
        }
        "e" => {
            // no AC coefficient at all but in a few blocks: end-of-band runs longer than 32767
            for comp in blocks.iter_mut() {
                for (i, b) in comp.iter_mut().enumerate() {
                    if i % 34000 != 33999 {
                        for v in b[1..].iter_mut() {
                            *v = 0;
                        }
                    }
                }
            }
        }
        "z" => {
            for comp in blocks.iter_mut() {
                for b in comp.iter_mut() {
                    if rng.next() % 16 != 0 {
                        for v in b[1..].iter_mut() {
                            *v = 0;
                        }
                    }
                }
            }
        }
        _ => return None,
    }
    let script: Vec<(Vec<usize>, u8, u8, u8, u8)> = match *script {
        "b" => vec![(vec![0, 1, 2], 0, 63, 0, 0)],
        "bs" => vec![(vec![0], 0, 63, 0, 0), (vec![1], 0, 63, 0, 0), (vec![2], 0, 63, 0, 0)],
        "A" => {
            let mut v = vec![(vec![0, 1, 2], 0, 0, 0, 0)];
            for c in 0..3 {
                v.push((vec![c], 1, 5, 0, 0));
            }
            for c in [2, 0, 1] {
                v.push((vec![c], 6, 63, 0, 0));
            }
            v
        }
        "B" => vec![
            (vec![0, 1, 2], 0, 0, 0, 1),
            (vec![0], 1, 5, 0, 2),
            (vec![2], 1, 63, 0, 1),
            (vec![1], 1, 63, 0, 1),
            (vec![0], 6, 63, 0, 2),
            (vec![0], 1, 63, 2, 1),
            (vec![0, 1, 2], 0, 0, 1, 0),
            (vec![2], 1, 63, 1, 0),
            (vec![1], 1, 63, 1, 0),
            (vec![0], 1, 63, 1, 0),
        ],
        "R" => random_script(&mut rng),
        "bm" => vec![(vec![0, 1], 0, 63, 0, 0), (vec![2], 0, 63, 0, 0)],
        "bc" => vec![(vec![0], 0, 63, 0, 0), (vec![1, 2], 0, 63, 0, 0)],
        "br" => vec![(vec![2], 0, 63, 0, 0), (vec![0], 0, 63, 0, 0), (vec![1], 0, 63, 0, 0)],
        _ => return None,
    };
    let was_ten = script.len() == 10;
    let script: Vec<(Vec<usize>, u8, u8, u8, u8)> = script
        .into_iter()
        .map(|mut s| {
            s.0.retain(|&c| c < ncomp);
            s
        })
        .filter(|s| !s.0.is_empty())
        .collect();
    let progressive = !script.iter().all(|s| (s.1, s.2, s.3, s.4) == (0, 63, 0, 0)) || was_ten;
    let tables_spec = match *tables {
        "k" if !progressive => None,
        "c" | "cs" => Some(custom_tables(seed)),
        _ => return None,
    };
    let nresets: usize = resets.parse().ok()?;
    let mut forced_resets = vec![Vec::new(); script.len()];
    let orders: Vec<Vec<(usize, usize)>> = script.iter().map(|s| geo.scan_order(&s.0).0).collect();
    for _ in 0..nresets {
        let s = (rng.next() % script.len() as u64) as usize;
        let blocks_in_scan = orders[s].len() as u64;
        forced_resets[s].push((rng.next() % blocks_in_scan) as u32);
    }
    let jfif = rng.next() % 4 != 0;
    // extra zero runs: (block index within the scan, number of ZRL symbols) on blocks that end in zeros
    let mut extra_zero_runs = vec![Vec::new(); script.len()];
    if nezr > 0 && progressive {
        return None;
    }
    for _ in 0..nezr {
        let s = (rng.next() % script.len() as u64) as usize;
        let b = (rng.next() % orders[s].len() as u64) as usize;
        let (comp, bi) = orders[s][b];
        let last_nz = blocks[comp][bi].iter().rposition(|&v| v != 0).unwrap_or(0);
        let room = ((63 - last_nz) / 16) as u32;
        if room == 0 {
            continue;
        }
        let runs = 1 + (rng.next() % room as u64) as u32;
        if !extra_zero_runs[s].iter().any(|&(x, _)| x == b as u32) {
            extra_zero_runs[s].push((b as u32, runs));
        }
    }
    for v in &mut extra_zero_runs {
        v.sort();
    }
    let spec = JpegSpec {
        width,
        height,
        quant: default_quant(),
        blocks,
        sampling,
        gray,
        scans: script.iter().map(|s| s.0.clone()).collect(),
        extra_zero_runs,
        padding: None,
        jfif,
        exif_app1: None,
        comment: None,
        progressive,
        scan_params: script.iter().map(|s| (s.1, s.2, s.3, s.4)).collect(),
        restart_interval: ri.parse().ok()?,
        tables: tables_spec,
        dht_split: *tables == "cs",
        forced_resets,
    };
    Some((spec, rng))
}

fn main() {
    install_quiet_panic_hook();
    line_loop((), |_, w| match w {
        ["jpeg", rest @ ..] => {
            let rest: Vec<String> = rest.iter().map(|s| s.to_string()).collect();
            match catch(move || {
                let r: Vec<&str> = rest.iter().map(|s| s.as_str()).collect();
                case(&r)
            }) {
                Ok(Some(s)) => s,
                Ok(None) => "bad-op".into(),
                Err(p) => p,
            }
        }
        ["hjbrd", rest @ ..] => {
            let rest: Vec<String> = rest.iter().map(|s| s.to_string()).collect();
            match catch(move || {
                let r: Vec<&str> = rest.iter().map(|s| s.as_str()).collect();
                hcase(&r)
            }) {
                Ok(Some(s)) => s,
                Ok(None) => "bad-op".into(),
                Err(p) => p,
            }
        }
        ["sjpeg", rest @ ..] => {
            let rest: Vec<String> = rest.iter().map(|s| s.to_string()).collect();
            match catch(move || {
                let r: Vec<&str> = rest.iter().map(|s| s.as_str()).collect();
                scase(&r).map(|a| (a, sfacts(&r).unwrap_or_default()))
            }) {
                Ok(Some((a, _))) if a.starts_with("emit ") => a,
                Ok(Some((a, f))) => format!("{a} {f}"),
                Ok(None) => "bad-op".into(),
                Err(p) => {
                    let r: Vec<&str> = w[1..].to_vec();
                    format!("{p} {}", sfacts(&r).unwrap_or_default())
                }
            }
        }
        ["pjpeg", rest @ ..] => {
            let rest: Vec<String> = rest.iter().map(|s| s.to_string()).collect();
            match catch(move || {
                let r: Vec<&str> = rest.iter().map(|s| s.as_str()).collect();
                pcase(&r)
            }) {
                Ok(Some(s)) => s,
                Ok(None) => "bad-op".into(),
                Err(p) => p,
            }
        }
        _ => "bad-op".into(),
    });
}
