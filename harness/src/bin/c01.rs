//! C01: every public decoding call on arbitrary bytes returns Ok or Err — never panics.
//! `run <hex> <script>`: script = comma separated steps
//!   F<n> feed next n bytes (F0 = all remaining)   I try_init (implicit after each feed while uninit)
//!   R<k> render_frame(k)   RA render every loaded keyframe   L render_loading_frame
//!   M metadata queries     A aux boxes      J jpeg_reconstruction_status   X reconstruct_jpeg
//!   C request_color_encoding(sRGB linear) + rendered_icc     Q request_icc(rendered icc)   Q<n> the same cut to n bytes
//!   P<l>:<t>:<w>:<h> set_image_region   Z finalize   W read() whole buffer instead of feeding
//! Answer: one word per step: ok / err / need / skip / panic_<site>
use jxl_oxide::{AllocTracker, CropInfo, InitializeResult, JxlImage, JxlThreadPool, UninitializedJxlImage};
use verif_harness::*;

enum St {
    Uninit(Option<UninitializedJxlImage>),
    Ready(Box<JxlImage>),
    Dead,
}

fn step<T>(out: &mut Vec<String>, f: impl FnOnce() -> Result<T, String>) -> Option<T> {
    match catch(f) {
        Ok(Ok(v)) => {
            out.push("ok".into());
            Some(v)
        }
        Ok(Err(e)) => {
            out.push(e);
            None
        }
        Err(p) => {
            out.push(p.replace(' ', "_"));
            None
        }
    }
}

fn run(bytes: &[u8], script: &str, limit: usize) -> String {
    let mut out = Vec::new();
    let mut pos = 0usize;
    let mk = || {
        JxlImage::builder()
            .pool(JxlThreadPool::none())
            .alloc_tracker(AllocTracker::with_limit(limit))
    };
    let mut st = St::Uninit(Some(mk().build_uninit()));
    for s in script.split(',') {
        if s.is_empty() {
            continue;
        }
        let (op, arg) = s.split_at(1);
        match op {
            "W" => {
                let r = catch(|| mk().read(std::io::Cursor::new(bytes)));
                match r {
                    Ok(Ok(img)) => {
                        out.push("ok".into());
                        st = St::Ready(Box::new(img));
                    }
                    Ok(Err(_)) => {
                        out.push("err".into());
                        st = St::Dead;
                    }
                    Err(p) => {
                        out.push(p.replace(' ', "_"));
                        st = St::Dead;
                    }
                }
            }
            "F" => {
                let n: usize = arg.parse().unwrap_or(0);
                let end = if n == 0 { bytes.len() } else { (pos + n).min(bytes.len()) };
                let mut chunk = &bytes[pos..end];
                pos = end;
                // feed with re-offer of unconsumed bytes, as the API requires
                let mut guard = 0;
                loop {
                    guard += 1;
                    let cur = std::mem::replace(&mut st, St::Dead);
                    match cur {
                        St::Uninit(Some(mut u)) => {
                            let r = catch(|| {
                                let c = u.feed_bytes(chunk).map_err(|_| "err".to_string())?;
                                Ok::<_, String>((c, u))
                            });
                            match r {
                                Ok(Ok((c, u))) => {
                                    chunk = &chunk[c.min(chunk.len())..];
                                    match catch(|| u.try_init()) {
                                        Ok(Ok(InitializeResult::NeedMoreData(u))) => {
                                            st = St::Uninit(Some(u));
                                            if chunk.is_empty() || c == 0 || guard > 64 {
                                                out.push("need".into());
                                                break;
                                            }
                                        }
                                        Ok(Ok(InitializeResult::Initialized(img))) => {
                                            st = St::Ready(Box::new(img));
                                            if chunk.is_empty() {
                                                out.push("ok".into());
                                                break;
                                            }
                                        }
                                        Ok(Err(_)) => {
                                            out.push("err".into());
                                            break;
                                        }
                                        Err(p) => {
                                            out.push(p.replace(' ', "_"));
                                            break;
                                        }
                                    }
                                }
                                Ok(Err(e)) => {
                                    out.push(e);
                                    break;
                                }
                                Err(p) => {
                                    out.push(p.replace(' ', "_"));
                                    break;
                                }
                            }
                        }
                        St::Ready(mut img) => {
                            let r = catch(|| img.feed_bytes(chunk).map_err(|_| "err".to_string()));
                            match r {
                                Ok(Ok(c)) => {
                                    chunk = &chunk[c.min(chunk.len())..];
                                    st = St::Ready(img);
                                    if chunk.is_empty() || c == 0 || guard > 64 {
                                        out.push("ok".into());
                                        break;
                                    }
                                }
                                Ok(Err(e)) => {
                                    out.push(e);
                                    st = St::Ready(img);
                                    break;
                                }
                                Err(p) => {
                                    out.push(p.replace(' ', "_"));
                                    break;
                                }
                            }
                        }
                        _ => {
                            out.push("skip".into());
                            break;
                        }
                    }
                }
            }
            _ => {
                if out.iter().any(|l| l.starts_with("panic")) {
                    // a panic may leave locks and handles in any state: the image is not used again
                    st = St::Dead;
                }
                let St::Ready(img) = &mut st else {
                    out.push("skip".into());
                    continue;
                };
                match op {
                    "R" => {
                        if arg == "A" {
                            let n = img.num_loaded_keyframes().min(8);
                            let mut res = "ok".to_string();
                            for k in 0..n {
                                match catch(|| img.render_frame(k).map(|_| ())) {
                                    Ok(Ok(())) => {}
                                    Ok(Err(_)) => res = "err".into(),
                                    Err(p) => {
                                        res = p.replace(' ', "_");
                                        break;
                                    }
                                }
                            }
                            out.push(res);
                        } else {
                            let k: usize = arg.parse().unwrap_or(0);
                            step(&mut out, || img.render_frame(k).map(|_| ()).map_err(|_| "err".into()));
                        }
                    }
                    "L" => {
                        step(&mut out, || img.render_loading_frame().map(|_| ()).map_err(|_| "err".into()));
                    }
                    "M" => {
                        step(&mut out, || {
                            let _ = img.image_header();
                            let _ = (img.width(), img.height());
                            let _ = img.original_icc().map(|x| x.len());
                            let _ = img.rendered_icc().len();
                            let _ = img.rendered_cicp();
                            let _ = img.pixel_format();
                            let _ = img.hdr_type();
                            let _ = (img.num_loaded_keyframes(), img.num_loaded_frames(), img.is_loading_done());
                            for k in 0..img.num_loaded_keyframes().min(8) {
                                let _ = img.frame_header(k).map(|h| h.is_keyframe());
                                let _ = img.frame_by_keyframe(k).is_some();
                            }
                            for k in 0..img.num_loaded_frames().min(8) {
                                let _ = img.frame_offset(k);
                            }
                            let _ = img.current_image_region();
                            Ok(())
                        });
                    }
                    "A" => {
                        step(&mut out, || {
                            let a = img.aux_boxes();
                            let _ = a.first_exif().map(|e| e.map(|e| e.payload().len()));
                            let _ = a.first_xml().map(|x| x.len());
                            Ok(())
                        });
                    }
                    "J" => {
                        step(&mut out, || {
                            let _ = img.jpeg_reconstruction_status();
                            Ok(())
                        });
                    }
                    "X" => {
                        step(&mut out, || {
                            let mut v = Vec::new();
                            img.reconstruct_jpeg(&mut v).map_err(|_| "err".into())
                        });
                    }
                    "C" => {
                        step(&mut out, || {
                            img.request_color_encoding(jxl_oxide::EnumColourEncoding::srgb_linear(
                                jxl_oxide::RenderingIntent::Relative,
                            ));
                            let _ = img.rendered_icc().len();
                            let _ = img.pixel_format();
                            Ok(())
                        });
                    }
                    "Q" => {
                        step(&mut out, || {
                            // `Q<n>`: the profile cut to n bytes with its size field corrected (the caller's
                            // ICC bytes are untrusted input as well)
                            let mut icc = img.rendered_icc();
                            if let Ok(n) = arg.parse::<usize>() {
                                icc.truncate(n);
                                if icc.len() >= 4 {
                                    let l = (icc.len() as u32).to_be_bytes();
                                    icc[..4].copy_from_slice(&l);
                                }
                            }
                            img.request_icc(&icc).map_err(|_| "err".into())
                        });
                    }
                    "P" => {
                        let v: Vec<u32> = arg.split(':').filter_map(|x| x.parse().ok()).collect();
                        if v.len() == 4 {
                            step(&mut out, || {
                                img.set_image_region(CropInfo { left: v[0], top: v[1], width: v[2], height: v[3] });
                                Ok(())
                            });
                        } else {
                            out.push("skip".into());
                        }
                    }
                    "Z" => {
                        step(&mut out, || img.finalize().map_err(|_| "err".into()));
                    }
                    _ => out.push("skip".into()),
                }
            }
        }
    }
    out.join(" ")
}

fn main() {
    install_quiet_panic_hook();
    line_loop((), |_, w| match w {
        ["run", hexs, script, rest @ ..] => {
            let Some(bytes) = unhex(hexs) else { return "bad-op".into() };
            let limit = rest.first().and_then(|x| x.parse().ok()).unwrap_or(128usize << 20);
            run(&bytes, script, limit)
        }
        _ => "bad-op".into(),
    });
}
