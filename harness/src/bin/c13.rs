//! C13 correspondence: operation histories on the real `AllocTracker`.
use jxl_grid::{AllocHandle, AllocTracker};
use verif_harness::*;

struct St {
    tracker: AllocTracker,
    handles: Vec<AllocHandle>,
}

fn alloc_sized(t: &AllocTracker, count: usize, size: usize) -> Option<Result<AllocHandle, usize>> {
    let r = match size {
        1 => t.alloc::<u8>(count),
        2 => t.alloc::<u16>(count),
        4 => t.alloc::<u32>(count),
        8 => t.alloc::<u64>(count),
        16 => t.alloc::<u128>(count),
        _ => return None,
    };
    Some(r.map_err(|e| e.bytes()))
}

/// Concurrent callers on one tracker: `threads` threads, half of them only ask for more than the
/// whole limit (must always be refused), the others take and release between 1/3 and 2/3 of it
/// while a shadow counter sums the bytes of live handles. Linearizable single-RMW operations can
/// never let the shadow sum exceed the limit.
fn stress(threads: usize, iters: usize, limit: usize, seed: u64) -> String {
    use std::sync::atomic::{AtomicUsize, Ordering};
    use std::sync::Arc;
    let tracker = AllocTracker::with_limit(limit);
    let live = Arc::new(AtomicUsize::new(0));
    let max_live = Arc::new(AtomicUsize::new(0));
    let wrong_ok = Arc::new(AtomicUsize::new(0));
    let mut hs = Vec::new();
    for t in 0..threads {
        let (tr, live, max_live, wrong_ok) = (tracker.clone(), live.clone(), max_live.clone(), wrong_ok.clone());
        hs.push(std::thread::spawn(move || {
            let mut x = seed ^ ((t as u64 + 1).wrapping_mul(0x9E3779B97F4A7C15));
            for _ in 0..iters {
                x ^= x << 13; x ^= x >> 7; x ^= x << 17;
                if t % 2 == 0 {
                    let too_much = limit + 1 + (x as usize % 1024);
                    if let Ok(h) = tr.alloc::<u8>(too_much) {
                        wrong_ok.fetch_add(1, Ordering::SeqCst);
                        drop(h);
                    }
                } else {
                    let want = limit / 3 + (x as usize % (limit / 3 + 1));
                    if let Ok(h) = tr.alloc::<u8>(want) {
                        let now = live.fetch_add(want, Ordering::SeqCst) + want;
                        max_live.fetch_max(now, Ordering::SeqCst);
                        std::hint::spin_loop();
                        live.fetch_sub(want, Ordering::SeqCst);
                        drop(h);
                    }
                }
            }
        }));
    }
    for h in hs {
        let _ = h.join();
    }
    format!(
        "stress max_live={} limit={} refused_ok={} left={}",
        max_live.load(Ordering::SeqCst),
        limit,
        wrong_ok.load(Ordering::SeqCst),
        tracker.verif_bytes_left()
    )
}

fn main() {
    install_quiet_panic_hook();
    let st = St { tracker: AllocTracker::with_limit(0), handles: Vec::new() };
    line_loop(st, |st, w| {
        let p = |s: &str| s.parse::<usize>().ok();
        let res: Option<String> = (|| match w {
            ["stress", t, n, l, seed] => {
                return Some(stress(p(t)?, p(n)?, p(l)?.max(3), seed.parse().ok()?));
            }
            ["init", l] => {
                st.handles.clear();
                st.tracker = AllocTracker::with_limit(p(l)?);
                Some("ok".into())
            }
            ["alloc", c, s] => {
                let (c, s) = (p(c)?, p(s)?);
                let t = st.tracker.clone();
                match catch(move || alloc_sized(&t, c, s)) {
                    Err(_) => Some("panic-mul".into()),
                    Ok(None) => None,
                    Ok(Some(Ok(h))) => {
                        st.handles.push(h);
                        Some("ok".into())
                    }
                    Ok(Some(Err(b))) => Some(format!("oom {}", b)),
                }
            }
            ["drop", i] => {
                let i = p(i)?;
                if i < st.handles.len() {
                    drop(st.handles.remove(i));
                    Some("ok".into())
                } else {
                    None
                }
            }
            ["expand", n] => {
                st.tracker.expand_limit(p(n)?);
                Some("ok".into())
            }
            ["shrink", n] => Some(match st.tracker.shrink_limit(p(n)?) {
                Ok(()) => "ok".into(),
                Err(e) => format!("oom {}", e.bytes()),
            }),
            _ => None,
        })();
        match res {
            Some(o) => format!(
                "{} left={} live={}",
                o,
                st.tracker.verif_bytes_left(),
                st.handles.len()
            ),
            None => "bad-op".into(),
        }
    });
}
