//! C13 correspondence: operation histories on the real `AllocTracker`.
use jxl_grid::{AllocHandle, AllocTracker};
use verif_harness::*;

struct St {
    tracker: AllocTracker,
    handles: Vec<AllocHandle>,
}

fn alloc_sized(t: &AllocTracker, count: usize, size: usize) -> Option<Result<AllocHandle, usize>> {
    let r = match size {
        1 => t.alloc::<u8>(count),
        2 => t.alloc::<u16>(count),
        4 => t.alloc::<u32>(count),
        8 => t.alloc::<u64>(count),
        16 => t.alloc::<u128>(count),
        _ => return None,
    };
    Some(r.map_err(|e| e.bytes()))
}

fn main() {
    install_quiet_panic_hook();
    let st = St { tracker: AllocTracker::with_limit(0), handles: Vec::new() };
    line_loop(st, |st, w| {
        let p = |s: &str| s.parse::<usize>().ok();
        let res: Option<String> = (|| match w {
            ["init", l] => {
                st.handles.clear();
                st.tracker = AllocTracker::with_limit(p(l)?);
                Some("ok".into())
            }
            ["alloc", c, s] => {
                let (c, s) = (p(c)?, p(s)?);
                let t = st.tracker.clone();
                match catch(move || alloc_sized(&t, c, s)) {
                    Err(_) => Some("panic-mul".into()),
                    Ok(None) => None,
                    Ok(Some(Ok(h))) => {
                        st.handles.push(h);
                        Some("ok".into())
                    }
                    Ok(Some(Err(b))) => Some(format!("oom {}", b)),
                }
            }
            ["drop", i] => {
                let i = p(i)?;
                if i < st.handles.len() {
                    drop(st.handles.remove(i));
                    Some("ok".into())
                } else {
                    None
                }
            }
            ["expand", n] => {
                st.tracker.expand_limit(p(n)?);
                Some("ok".into())
            }
            ["shrink", n] => Some(match st.tracker.shrink_limit(p(n)?) {
                Ok(()) => "ok".into(),
                Err(e) => format!("oom {}", e.bytes()),
            }),
            _ => None,
        })();
        match res {
            Some(o) => format!(
                "{} left={} live={}",
                o,
                st.tracker.verif_bytes_left(),
                st.handles.len()
            ),
            None => "bad-op".into(),
        }
    });
}
