//! C19 correspondence: ICC synthesis / recognition, transfer kernels through `ColorTransform`,
//! identity conversion, and the `rendered_icc()` probe for finding F5 — all on the real crates.
//!
//! Line protocol (one answer line per input line):
//!   rt CS WP PRIM TF RI        -> `<icc hex> => <parse result>`   | `panic <site>`
//!   parse <icc hex>            -> `<parse result>`
//!   tf TF DIR IT N <bits>*     -> three f32 bit patterns (hex) per input value: lanes 0, min(8,N-1)
//!                                 and N-1 of the first channel after running the ColorTransform
//!                                 linear<->TF (DIR = enc|dec) on three equal channels holding N
//!                                 copies of the value (N = 13: 8-wide, 4-wide and scalar paths);
//!                                 IT = intensity target as f16 bit pattern (hex) or `-` = default
//!   tfg TF DIR IT N <bits>*    -> same on a one-channel grey encoding
//!   ident ENC(5 words) N <bits>* -> `noop=<0|1> same=<0|1>`
//!   identicc <icc hex> N <bits>* -> same for an ICC-described encoding (with_icc twice)
//!   jxl <file hex>             -> `ok <icc len> <parse result>` | `err <word>` | `panic <site>`
//!   jxlident <file hex>        -> `same=<0|1> n=<samples>` (render, request own encoding, render)
//! Encodings: CS rgb|gray|xyb|unknown; WP d65|e|dci|c:X:Y; PRIM srgb|bt2100|p3|c:RX:RY:GX:GY:BX:BY;
//! TF bt709|unknown|linear|srgb|pq|dci|hlg|g:G:INV; RI 0..3.
use jxl_color::{
    ColorEncodingWithProfile, ColorTransform, ColourEncoding, ColourSpace, Customxy,
    EnumColourEncoding, NullCms, Primaries, RenderingIntent, TransferFunction, WhitePoint,
};
use jxl_oxide::image::BitDepth;
use jxl_oxide_common::Bundle;
use verif_harness::{hex, install_quiet_panic_hook, line_loop, unhex};

/// `verif_harness::catch` with the panic site reduced to `<crate>/src/<file>:<line>_<message>`
/// whatever directory the working tree lives in.
fn catch<T>(f: impl FnOnce() -> T) -> Result<T, String> {
    verif_harness::catch(f).map_err(|m| match m.find("jxl-") {
        Some(i) => format!("panic {}", &m[i..]),
        None => m,
    })
}

fn p_i32(s: &str) -> Option<i32> {
    s.parse().ok()
}

fn parse_enc(w: &[&str]) -> Option<EnumColourEncoding> {
    let [cs, wp, prim, tf, ri] = w else { return None };
    let colour_space = match *cs {
        "rgb" => ColourSpace::Rgb,
        "gray" => ColourSpace::Grey,
        "xyb" => ColourSpace::Xyb,
        "unknown" => ColourSpace::Unknown,
        _ => return None,
    };
    let white_point = match *wp {
        "d65" => WhitePoint::D65,
        "e" => WhitePoint::E,
        "dci" => WhitePoint::Dci,
        s => {
            let v: Vec<&str> = s.split(':').collect();
            let ["c", x, y] = v[..] else { return None };
            WhitePoint::Custom(Customxy { x: p_i32(x)?, y: p_i32(y)? })
        }
    };
    let primaries = match *prim {
        "srgb" => Primaries::Srgb,
        "bt2100" => Primaries::Bt2100,
        "p3" => Primaries::P3,
        s => {
            let v: Vec<&str> = s.split(':').collect();
            let ["c", rx, ry, gx, gy, bx, by] = v[..] else { return None };
            Primaries::Custom {
                red: Customxy { x: p_i32(rx)?, y: p_i32(ry)? },
                green: Customxy { x: p_i32(gx)?, y: p_i32(gy)? },
                blue: Customxy { x: p_i32(bx)?, y: p_i32(by)? },
            }
        }
    };
    let tf = parse_tf(tf)?;
    let rendering_intent = match *ri {
        "0" => RenderingIntent::Perceptual,
        "1" => RenderingIntent::Relative,
        "2" => RenderingIntent::Saturation,
        "3" => RenderingIntent::Absolute,
        _ => return None,
    };
    Some(EnumColourEncoding { colour_space, white_point, primaries, tf, rendering_intent })
}

fn parse_tf(s: &str) -> Option<TransferFunction> {
    Some(match s {
        "bt709" => TransferFunction::Bt709,
        "unknown" => TransferFunction::Unknown,
        "linear" => TransferFunction::Linear,
        "srgb" => TransferFunction::Srgb,
        "pq" => TransferFunction::Pq,
        "dci" => TransferFunction::Dci,
        "hlg" => TransferFunction::Hlg,
        s => {
            let v: Vec<&str> = s.split(':').collect();
            let ["g", g, inv] = v[..] else { return None };
            TransferFunction::Gamma { g: g.parse().ok()?, inverted: inv == "1" }
        }
    })
}

fn show_cs(cs: ColourSpace) -> &'static str {
    match cs {
        ColourSpace::Rgb => "rgb",
        ColourSpace::Grey => "gray",
        ColourSpace::Xyb => "xyb",
        ColourSpace::Unknown => "unknown",
    }
}

fn show_enc(e: &EnumColourEncoding) -> String {
    let wp = match e.white_point {
        WhitePoint::D65 => "d65".to_string(),
        WhitePoint::E => "e".to_string(),
        WhitePoint::Dci => "dci".to_string(),
        WhitePoint::Custom(xy) => format!("c:{}:{}", xy.x, xy.y),
    };
    let prim = match e.primaries {
        Primaries::Srgb => "srgb".to_string(),
        Primaries::Bt2100 => "bt2100".to_string(),
        Primaries::P3 => "p3".to_string(),
        Primaries::Custom { red, green, blue } => {
            format!("c:{}:{}:{}:{}:{}:{}", red.x, red.y, green.x, green.y, blue.x, blue.y)
        }
    };
    let tf = match e.tf {
        TransferFunction::Bt709 => "bt709".to_string(),
        TransferFunction::Unknown => "unknown".to_string(),
        TransferFunction::Linear => "linear".to_string(),
        TransferFunction::Srgb => "srgb".to_string(),
        TransferFunction::Pq => "pq".to_string(),
        TransferFunction::Dci => "dci".to_string(),
        TransferFunction::Hlg => "hlg".to_string(),
        TransferFunction::Gamma { g, inverted } => format!("g:{}:{}", g, inverted as u8),
    };
    format!("enum {} {} {} {} {}", show_cs(e.colour_space), wp, prim, tf, e.rendering_intent as u8)
}

fn show_err(e: &jxl_color::Error) -> String {
    use jxl_color::Error::*;
    match e {
        IccParseFailure(s) => format!("err parse:{}", s.replace(' ', "_")),
        UnsupportedIccProfile => "err unsupported".into(),
        UnsupportedColorEncoding => "err unsupported-encoding".into(),
        _ => "err other".into(),
    }
}

fn parse_result(icc: &[u8]) -> String {
    match catch(|| ColorEncodingWithProfile::with_icc(icc)) {
        Err(p) => p,
        Ok(Err(e)) => show_err(&e),
        Ok(Ok(enc)) => match enc.encoding() {
            ColourEncoding::Enum(e) => show_enc(e),
            ColourEncoding::IccProfile(cs) => format!("icc {}", show_cs(*cs)),
        },
    }
}

fn bits_in(w: &[&str]) -> Option<Vec<f32>> {
    w.iter().map(|s| u32::from_str_radix(s, 16).ok().map(f32::from_bits)).collect()
}

fn bits_out(v: &[f32]) -> String {
    v.iter().map(|x| format!("{:08x}", x.to_bits())).collect::<Vec<_>>().join(" ")
}

/// little-endian bit packer for header bundles (JPEG XL packs LSB first)
struct Bw(Vec<u8>, usize);
impl Bw {
    fn put(&mut self, v: u32, n: usize) {
        for i in 0..n {
            if self.1 % 8 == 0 {
                self.0.push(0);
            }
            if (v >> i) & 1 == 1 {
                *self.0.last_mut().unwrap() |= 1 << (self.1 % 8);
            }
            self.1 += 1;
        }
    }
}

fn tone_mapping(it: &str) -> Option<jxl_color::ToneMapping> {
    let mut bw = Bw(Vec::new(), 0);
    if it == "-" {
        bw.put(1, 1);
    } else {
        let f16 = u32::from_str_radix(it, 16).ok()?;
        bw.put(0, 1);
        bw.put(f16, 16); // intensity_target
        bw.put(0, 16); // min_nits
        bw.put(0, 1); // relative_to_max_display
        bw.put(0, 16); // linear_below
    }
    bw.0.extend_from_slice(&[0; 8]);
    let mut bs = jxl_bitstream::Bitstream::new(&bw.0);
    jxl_color::ToneMapping::parse(&mut bs, ()).ok()
}

fn oim() -> jxl_color::OpsinInverseMatrix {
    let buf = [1u8, 0, 0, 0, 0, 0, 0, 0];
    let mut bs = jxl_bitstream::Bitstream::new(&buf);
    jxl_color::OpsinInverseMatrix::parse(&mut bs, ()).unwrap()
}

fn run_tf(w: &[&str], grey: bool) -> Option<String> {
    let [tf, dir, it, n, rest @ ..] = w else { return None };
    let tf = parse_tf(tf)?;
    let n: usize = n.parse().ok()?;
    let input = bits_in(rest)?;
    if input.is_empty() || n == 0 {
        return None;
    }
    let tm = tone_mapping(it)?;
    let cs = if grey { ColourSpace::Grey } else { ColourSpace::Rgb };
    let mk = |tf| {
        ColorEncodingWithProfile::new(EnumColourEncoding {
            colour_space: cs,
            white_point: WhitePoint::D65,
            primaries: Primaries::Srgb,
            tf,
            rendering_intent: RenderingIntent::Relative,
        })
    };
    let (from, to) = match *dir {
        "enc" => (mk(TransferFunction::Linear), mk(tf)),
        "dec" => (mk(tf), mk(TransferFunction::Linear)),
        _ => return None,
    };
    let r = catch(|| {
        let t = ColorTransform::new(&from, &to, &oim(), &tm, &NullCms).map_err(|e| show_err(&e))?;
        // every input value sits at position k*n .. so with n = 1 the scalar tail handles it and
        // with n >= 8 whole vectors of the same value go through the SIMD body
        let mut out = Vec::with_capacity(input.len());
        for &v in &input {
            let mut a = vec![v; n];
            let mut b = vec![v; n];
            let mut c = vec![v; n];
            let mut chans: Vec<&mut [f32]> = vec![&mut a, &mut b, &mut c];
            t.run(&mut chans).map_err(|e| show_err(&e))?;
            // all lanes saw the same input; with n = 13 lane 0 went through the 8-wide body,
            // lane 8 through the 4-wide body and lane 12 through the scalar tail
            out.push(a[0]);
            out.push(a[8.min(n - 1)]);
            out.push(a[n - 1]);
        }
        Ok::<_, String>(out)
    });
    Some(match r {
        Err(p) => p,
        Ok(Err(e)) => e,
        Ok(Ok(v)) => bits_out(&v),
    })
}

fn run_ident(from: &ColorEncodingWithProfile, n: usize, input: &[f32]) -> String {
    let r = catch(|| {
        let tm = tone_mapping("-").unwrap();
        let t = ColorTransform::new(from, &from.clone(), &oim(), &tm, &NullCms)
            .map_err(|e| show_err(&e))?;
        let mk = |k: usize| -> Vec<f32> { (0..n).map(|i| input[(i * 3 + k) % input.len()]).collect() };
        let (a0, b0, c0) = (mk(0), mk(1), mk(2));
        let (mut a, mut b, mut c) = (a0.clone(), b0.clone(), c0.clone());
        let mut chans: Vec<&mut [f32]> = vec![&mut a, &mut b, &mut c];
        let k = t.run(&mut chans).map_err(|e| show_err(&e))?;
        let eq = |x: &[f32], y: &[f32]| x.iter().zip(y).all(|(p, q)| p.to_bits() == q.to_bits());
        let same = eq(&a, &a0) && eq(&b, &b0) && eq(&c, &c0);
        Ok::<_, String>(format!(
            "noop={} same={} ch={}/{}",
            t.is_noop() as u8,
            same as u8,
            t.input_channels(),
            k
        ))
    });
    match r {
        Err(p) => p,
        Ok(Err(e)) => e,
        Ok(Ok(s)) => s,
    }
}

fn open(bytes: &[u8]) -> Result<Result<jxl_oxide::JxlImage, String>, String> {
    catch(|| {
        jxl_oxide::JxlImage::builder()
            .read(std::io::Cursor::new(bytes))
            .map_err(|e| format!("err {}", short_err(&e.to_string())))
    })
}

fn short_err(s: &str) -> String {
    let s: String = s
        .chars()
        .map(|c| if c.is_ascii_alphanumeric() { c.to_ascii_lowercase() } else { '_' })
        .collect();
    s.chars().take(60).collect()
}

fn samples_of(img: &jxl_oxide::JxlImage) -> Result<Vec<u32>, String> {
    let r = img.render_frame(0).map_err(|e| format!("err {}", short_err(&e.to_string())))?;
    let fb = r.image_all_channels();
    Ok(fb.buf().iter().map(|x| x.to_bits()).collect())
}

fn main() {
    install_quiet_panic_hook();
    let _ = BitDepth::default();
    line_loop((), |_, w| {
        let res: Option<String> = (|| match w {
            ["rt", enc @ ..] => {
                let e = parse_enc(enc)?;
                Some(match catch(|| jxl_color::icc::colour_encoding_to_icc(&e)) {
                    Err(p) => p,
                    Ok(icc) => format!("{} => {}", hex(&icc), parse_result(&icc)),
                })
            }
            ["parse", h] => Some(parse_result(&unhex(h)?)),
            ["tf", rest @ ..] => run_tf(rest, false),
            ["tfg", rest @ ..] => run_tf(rest, true),
            ["ident", a, b, c, d, e, n, bits @ ..] => {
                let enc = parse_enc(&[a, b, c, d, e])?;
                let input = bits_in(bits)?;
                if input.is_empty() {
                    return None;
                }
                Some(run_ident(&ColorEncodingWithProfile::new(enc), n.parse().ok()?, &input))
            }
            ["identicc", h, n, bits @ ..] => {
                let icc = unhex(h)?;
                let input = bits_in(bits)?;
                if input.is_empty() {
                    return None;
                }
                Some(match catch(|| ColorEncodingWithProfile::with_icc(&icc)) {
                    Err(p) => p,
                    Ok(Err(e)) => show_err(&e),
                    Ok(Ok(enc)) => run_ident(&enc, n.parse().ok()?, &input),
                })
            }
            ["jxl", h] => {
                let bytes = unhex(h)?;
                Some(match open(&bytes) {
                    Err(p) => p,
                    Ok(Err(e)) => e,
                    Ok(Ok(img)) => match catch(|| img.rendered_icc()) {
                        Err(p) => p,
                        Ok(icc) => format!("ok {} {}", icc.len(), parse_result(&icc)),
                    },
                })
            }
            ["jxlident", h] => {
                let bytes = unhex(h)?;
                Some(match open(&bytes) {
                    Err(p) => p,
                    Ok(Err(e)) => e,
                    Ok(Ok(mut img)) => {
                        let r = catch(move || {
                            let first = samples_of(&img)?;
                            let enc = match img.image_header().metadata.colour_encoding.clone() {
                                ColourEncoding::Enum(e) => e,
                                ColourEncoding::IccProfile(_) => return Err("err has-icc".to_string()),
                            };
                            img.request_color_encoding(enc);
                            let second = samples_of(&img)?;
                            Ok(format!("same={} n={}", (first == second) as u8, first.len()))
                        });
                        match r {
                            Err(p) => p,
                            Ok(Err(e)) => e,
                            Ok(Ok(s)) => s,
                        }
                    }
                })
            }
            _ => None,
        })();
        res.unwrap_or_else(|| "bad-op".into())
    });
}
