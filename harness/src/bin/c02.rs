//! C02 correspondence and implementation-side oracles.
//!
//! (a) `buf/from/sub/splith/...`: operation sequences on real `MutableSubgrid<u32>`s over a real
//!     buffer. After every operation a unique tag is written through every live sub-grid and the
//!     whole underlying buffer is read back (run-length encoded in the output line).
//! (b) `sq`/`rct`: the squeeze and RCT kernels (hook H7) on a grid embedded in a larger allocation
//!     whose every other element is a canary.
//! (d) `vec`: `as_vectored` (the f32 -> SIMD-vector view of a sub-grid) by its definition.
//! (c) `bs`: the geometry of `Bitstream` (bytes left / bits buffered), read from its `Debug` output.
//!
//! Nothing printed depends on addresses. Panics are mapped to a site word derived from the source
//! line the panic points at.
use jxl_bitstream::Bitstream;
use jxl_grid::MutableSubgrid;
use jxl_modular::verif as h7;
use std::collections::HashMap;
use std::ops::Bound;
use verif_harness::*;

type G = MutableSubgrid<'static, u32>;

struct St {
    buf: Vec<u32>,
    cursor: usize,
    live: Vec<Option<G>>,
    step: u64,
    src: HashMap<String, Vec<String>>,
    bs: Option<Bitstream<'static>>,
}

/// panic → site word (from the message, else from the text of the source line it points at)
fn site(st: &mut St, m: &str) -> String {
    // m = "<file>:<line> <message>"
    let (loc, msg) = m.split_once(' ').unwrap_or((m, ""));
    if msg.contains("with overflow") {
        return "arith".into();
    }
    if msg.starts_with("coordinate out of range") {
        return "coord".into();
    }
    if msg.starts_with("row index out of range") {
        return "row".into();
    }
    if msg.starts_with("expected group width and height to be nonzero") {
        return "groups-zero".into();
    }
    let (file, line) = loc.rsplit_once(':').unwrap_or((loc, "0"));
    let line: usize = line.parse().unwrap_or(0);
    let lines = st.src.entry(file.to_string()).or_insert_with(|| {
        std::fs::read_to_string(file)
            .map(|s| s.lines().map(|l| l.trim().to_string()).collect())
            .unwrap_or_default()
    });
    let text = lines.get(line.wrapping_sub(1)).cloned().unwrap_or_default();
    let w = match text.as_str() {
        "assert!(width == 0 || width <= stride);" => "new-width-stride",
        "assert!(width <= stride);" => "frombuf-width-stride",
        "assert_eq!(buf.len(), 0);" => "frombuf-empty-len",
        "assert!(buf.len() >= stride * (height - 1) + width);" => "frombuf-len",
        "assert!(left <= right);" => "subgrid-left-right",
        "assert!(top <= bottom);" => "subgrid-top-bottom",
        "assert!(right <= self.width);" => "subgrid-right",
        "assert!(bottom <= self.height);" => "subgrid-bottom",
        "assert!(x <= self.width);" => "split-x",
        "assert!(y <= self.height);" => "split-y",
        "assert!(self.split_base.is_some());" => "merge-no-base",
        "assert_eq!(self.split_base, right.split_base);"
        | "assert_eq!(self.split_base, bottom.split_base);" => "merge-base",
        "assert_eq!(self.stride, right.stride);" | "assert_eq!(self.stride, bottom.stride);" => {
            "merge-stride"
        }
        "assert_eq!(self.height, right.height);" => "merge-height",
        "assert_eq!(self.width, bottom.width);" => "merge-width",
        "assert!(self.stride >= self.width + right.width);" => "merge-stride-sum",
        "assert!(std::ptr::eq(" => "merge-adjacent",
        _ => "",
    };
    if w.is_empty() {
        let f = file.rsplit('/').next().unwrap_or(file);
        format!("other:{}:{}", f, msg.split_whitespace().collect::<Vec<_>>().join("_"))
    } else {
        w.into()
    }
}

/// like `verif_harness::catch` but keeps "<file>:<line> <message>" unprocessed
fn catch_raw<T>(f: impl FnOnce() -> T) -> Result<T, String> {
    LAST_PANIC.with(|p| *p.borrow_mut() = None);
    match std::panic::catch_unwind(std::panic::AssertUnwindSafe(f)) {
        Ok(v) => Ok(v),
        Err(_) => Err(LAST_PANIC.with(|p| p.borrow_mut().take()).unwrap_or_else(|| "? ?".into())),
    }
}

fn rle(v: impl Iterator<Item = u32>) -> String {
    let mut out = String::new();
    let mut cur: Option<(u32, usize)> = None;
    for x in v {
        match cur {
            Some((c, n)) if c == x => cur = Some((c, n + 1)),
            Some((c, n)) => {
                out.push_str(&format!("{}*{},", c, n));
                cur = Some((x, 1));
            }
            None => cur = Some((x, 1)),
        }
    }
    if let Some((c, n)) = cur {
        out.push_str(&format!("{}*{}", c, n));
    }
    if out.is_empty() { "-".into() } else { out }
}

fn snapshot(st: &St) -> String {
    let p = st.buf.as_ptr();
    rle((0..st.buf.len()).map(|i| unsafe { std::ptr::read_volatile(p.add(i)) }))
}

/// write `tag` through every cell of `g`; `by_row` selects `get_row_mut` or `get_mut`
fn paint(g: &mut MutableSubgrid<'_, u32>, tag: u32, by_row: bool) {
    let (w, h) = (g.width(), g.height());
    for y in 0..h {
        if by_row {
            for v in g.get_row_mut(y) {
                *v = tag;
            }
        } else {
            for x in 0..w {
                *g.get_mut(x, y) = tag;
            }
        }
    }
}

/// read every cell of `g` through the shared view; first cell that does not hold `tag`
fn verify(g: &MutableSubgrid<'_, u32>, tag: u32) -> Option<(usize, usize, u32)> {
    let s = g.as_shared();
    for y in 0..s.height() {
        let row = s.get_row(y);
        for x in 0..s.width() {
            let a = s.get(x, y);
            if a != tag || row[x] != tag {
                return Some((x, y, a));
            }
        }
    }
    None
}

fn tag_of(step: u64, k: u64) -> u32 {
    (step * 4096 + k) as u32
}

/// tag every live grid (id order), then re-read every live grid; append live dims + snapshot
fn finish(st: &mut St, res: String) -> String {
    let step = st.step;
    let mut overlap = String::new();
    let r = catch_raw(|| {
        for (id, g) in st.live.iter_mut().enumerate() {
            if let Some(g) = g {
                paint(g, tag_of(step, id as u64 + 1), (step + id as u64) % 2 == 0);
            }
        }
        for (id, g) in st.live.iter().enumerate() {
            if let Some(g) = g
                && let Some((x, y, a)) = verify(g, tag_of(step, id as u64 + 1))
            {
                overlap.push_str(&format!(" OVERLAP id={} x={} y={} holds={}", id, x, y, a));
                break;
            }
        }
    });
    if let Err(m) = r {
        overlap.push_str(&format!(" TAG-PANIC {}", site(st, &m)));
    }
    let dims: Vec<String> = st
        .live
        .iter()
        .enumerate()
        .filter_map(|(id, g)| g.as_ref().map(|g| format!("{}:{}x{}", id, g.width(), g.height())))
        .collect();
    let dims = if dims.is_empty() { "-".to_string() } else { dims.join(",") };
    format!("{}{} | {} | {}", res, overlap, dims, snapshot(st))
}

fn bound(s: &str, start: bool) -> Option<Bound<usize>> {
    let _ = start;
    if s == "u" {
        return Some(Bound::Unbounded);
    }
    let v: usize = s.get(1..)?.parse().ok()?;
    match s.as_bytes()[0] {
        b'i' => Some(Bound::Included(v)),
        b'e' => Some(Bound::Excluded(v)),
        _ => None,
    }
}

fn take(st: &mut St, id: usize) -> Option<G> {
    st.live.get_mut(id)?.take()
}

fn grid_op(st: &mut St, w: &[&str]) -> Option<String> {
    let p = |s: &str| s.parse::<usize>().ok();
    st.step += 1;
    let step = st.step;
    let res: String = match w {
        ["from", gap, len, gw, gh, stride] => {
            let (gap, len, gw, gh, stride) = (p(gap)?, p(len)?, p(gw)?, p(gh)?, p(stride)?);
            let start = st.cursor.checked_add(gap)?;
            if start.checked_add(len)? > st.buf.len() {
                return None;
            }
            st.cursor = start + len;
            let slice: &'static mut [u32] =
                unsafe { std::slice::from_raw_parts_mut(st.buf.as_mut_ptr().add(start), len) };
            match catch_raw(move || G::from_buf(slice, gw, gh, stride)) {
                Ok(g) => {
                    st.live.push(Some(g));
                    format!("ok new={}", st.live.len() - 1)
                }
                Err(m) => format!("panic {}", site(st, &m)),
            }
        }
        // from_buf only: report acceptance and dimensions, never touch a cell (wrap-around witness)
        ["fromprobe", len, gw, gh, stride] => {
            let (len, gw, gh, stride) = (p(len)?, p(gw)?, p(gh)?, p(stride)?);
            if len > st.buf.len() {
                return None;
            }
            let slice: &'static mut [u32] =
                unsafe { std::slice::from_raw_parts_mut(st.buf.as_mut_ptr(), len) };
            match catch_raw(move || {
                let g = G::from_buf(slice, gw, gh, stride);
                (g.width(), g.height())
            }) {
                Ok((a, b)) => format!("ok accepted {}x{}", a, b),
                Err(m) => format!("panic {}", site(st, &m)),
            }
        }
        ["sub", id, xs, xe, ys, ye] => {
            let id = p(id)?;
            let (xs, xe, ys, ye) = (bound(xs, true)?, bound(xe, false)?, bound(ys, true)?, bound(ye, false)?);
            let g = take(st, id)?;
            match catch_raw(move || g.subgrid((xs, xe), (ys, ye))) {
                Ok(g) => {
                    st.live.push(Some(g));
                    format!("ok new={}", st.live.len() - 1)
                }
                Err(m) => format!("panic {}", site(st, &m)),
            }
        }
        [op @ ("splith" | "splitv"), id, at] => {
            let (id, at) = (p(id)?, p(at)?);
            let horizontal = *op == "splith";
            let g = st.live.get_mut(id)?.as_mut()?;
            match catch_raw(move || {
                if horizontal { g.split_horizontal_in_place(at) } else { g.split_vertical_in_place(at) }
            }) {
                Ok(g) => {
                    st.live.push(Some(g));
                    format!("ok new={}", st.live.len() - 1)
                }
                Err(m) => format!("panic {}", site(st, &m)),
            }
        }
        // scoped (non in-place) split: children are painted, the buffer is read back, the children
        // are merged again; the parent stays live
        [op @ ("ssplith" | "ssplitv"), id, at] => {
            let (id, at) = (p(id)?, p(at)?);
            let horizontal = *op == "ssplith";
            let base = st.buf.as_ptr();
            let n = st.buf.len();
            let g = st.live.get_mut(id)?.as_mut()?;
            match catch_raw(move || {
                let (mut a, mut b) =
                    if horizontal { g.split_horizontal(at) } else { g.split_vertical(at) };
                let da = (a.width(), a.height());
                let db = (b.width(), b.height());
                paint(&mut a, tag_of(step, 4001), true);
                paint(&mut b, tag_of(step, 4002), false);
                let bad = verify(&a, tag_of(step, 4001)).is_some()
                    || verify(&b, tag_of(step, 4002)).is_some();
                let snap = rle((0..n).map(|i| unsafe { std::ptr::read_volatile(base.add(i)) }));
                if horizontal { a.merge_horizontal_in_place(b) } else { a.merge_vertical_in_place(b) }
                (da, db, (a.width(), a.height()), bad, snap)
            }) {
                Ok((da, db, dm, bad, snap)) => format!(
                    "ok a={}x{} b={}x{} m={}x{}{} in-scope={}",
                    da.0, da.1, db.0, db.1, dm.0, dm.1,
                    if bad { " OVERLAP children" } else { "" },
                    snap
                ),
                Err(m) => format!("panic {}", site(st, &m)),
            }
        }
        [op @ ("mergeh" | "mergev"), a, b] => {
            let (a, b) = (p(a)?, p(b)?);
            if a == b || st.live.get(a)?.is_none() {
                return None;
            }
            let horizontal = *op == "mergeh";
            let gb = take(st, b)?;
            let ga = st.live.get_mut(a)?.as_mut()?;
            match catch_raw(move || {
                if horizontal { ga.merge_horizontal_in_place(gb) } else { ga.merge_vertical_in_place(gb) }
            }) {
                Ok(()) => "ok".into(),
                Err(m) => format!("panic {}", site(st, &m)),
            }
        }
        ["groups", id, gw, gh] => {
            let (id, gw, gh) = (p(id)?, p(gw)?, p(gh)?);
            let g = take(st, id)?;
            match catch_raw(move || g.into_groups(gw, gh)) {
                Ok(v) => {
                    let first = st.live.len();
                    let n = v.len();
                    st.live.extend(v.into_iter().map(Some));
                    format!("ok new={}+{}", first, n)
                }
                Err(m) => format!("panic {}", site(st, &m)),
            }
        }
        ["groupsf", id, gw, gh, nc, nr] => {
            let (id, gw, gh, nc, nr) = (p(id)?, p(gw)?, p(gh)?, p(nc)?, p(nr)?);
            if nc.checked_mul(nr)? > 4096 {
                return None;
            }
            let g = take(st, id)?;
            match catch_raw(move || g.into_groups_with_fixed_count(gw, gh, nc, nr)) {
                Ok(v) => {
                    let first = st.live.len();
                    let n = v.len();
                    st.live.extend(v.into_iter().map(Some));
                    format!("ok new={}+{}", first, n)
                }
                Err(m) => format!("panic {}", site(st, &m)),
            }
        }
        ["borrow", id] => {
            let id = p(id)?;
            let base = st.buf.as_ptr();
            let n = st.buf.len();
            let g = st.live.get_mut(id)?.as_mut()?;
            match catch_raw(move || {
                let mut b = g.borrow_mut();
                paint(&mut b, tag_of(step, 4003), false);
                let bad = verify(&b, tag_of(step, 4003)).is_some();
                let snap = rle((0..n).map(|i| unsafe { std::ptr::read_volatile(base.add(i)) }));
                (b.width(), b.height(), bad, snap)
            }) {
                Ok((a, b, bad, snap)) => format!(
                    "ok b={}x{}{} in-scope={}",
                    a, b, if bad { " OVERLAP borrow" } else { "" }, snap
                ),
                Err(m) => format!("panic {}", site(st, &m)),
            }
        }
        ["get", id, x, y] => {
            let (id, x, y) = (p(id)?, p(x)?, p(y)?);
            let g = st.live.get(id)?.as_ref()?;
            match catch_raw(|| (g.get(x, y), *g.as_shared().get_ref(x, y))) {
                Ok((v, v2)) if v == v2 => format!("ok {}", v),
                Ok((v, v2)) => format!("ok {} SHARED-DIFFERS {}", v, v2),
                Err(m) => format!("panic {}", site(st, &m)),
            }
        }
        ["set", id, x, y] => {
            let (id, x, y) = (p(id)?, p(x)?, p(y)?);
            let base = st.buf.as_ptr();
            let n = st.buf.len();
            let g = st.live.get_mut(id)?.as_mut()?;
            match catch_raw(move || {
                *g.get_mut(x, y) = tag_of(step, 4004);
                rle((0..n).map(|i| unsafe { std::ptr::read_volatile(base.add(i)) }))
            }) {
                Ok(snap) => format!("ok in-scope={}", snap),
                Err(m) => format!("panic {}", site(st, &m)),
            }
        }
        ["row", id, y] => {
            let (id, y) = (p(id)?, p(y)?);
            let base = st.buf.as_ptr();
            let n = st.buf.len();
            let g = st.live.get_mut(id)?.as_mut()?;
            match catch_raw(move || {
                let r = g.get_row_mut(y);
                let l = r.len();
                r.fill(tag_of(step, 4005));
                (l, rle((0..n).map(|i| unsafe { std::ptr::read_volatile(base.add(i)) })))
            }) {
                Ok((l, snap)) => format!("ok len={} in-scope={}", l, snap),
                Err(m) => format!("panic {}", site(st, &m)),
            }
        }
        ["swap", id, ax, ay, bx, by] => {
            let (id, ax, ay, bx, by) = (p(id)?, p(ax)?, p(ay)?, p(bx)?, p(by)?);
            let base = st.buf.as_ptr();
            let n = st.buf.len();
            let g = st.live.get_mut(id)?.as_mut()?;
            match catch_raw(move || {
                g.swap((ax, ay), (bx, by));
                rle((0..n).map(|i| unsafe { std::ptr::read_volatile(base.add(i)) }))
            }) {
                Ok(snap) => format!("ok in-scope={}", snap),
                Err(m) => format!("panic {}", site(st, &m)),
            }
        }
        ["drop", id] => {
            let id = p(id)?;
            drop(take(st, id)?);
            "ok".into()
        }
        _ => return None,
    };
    Some(finish(st, res))
}

// ---------------------------------------------------------------------------------------------
// kernels

struct Rng(u64);
impl Rng {
    fn next(&mut self) -> u64 {
        // splitmix64
        self.0 = self.0.wrapping_add(0x9e3779b97f4a7c15);
        let mut z = self.0;
        z = (z ^ (z >> 30)).wrapping_mul(0xbf58476d1ce4e5b9);
        z = (z ^ (z >> 27)).wrapping_mul(0x94d049bb133111eb);
        z ^ (z >> 31)
    }
    /// sample values: mostly small, some at the extremes of the type
    fn sample(&mut self, bits: u32, tame: u32) -> i64 {
        let r = self.next();
        if tame > 0 {
            // values of magnitude < 2^tame: the range in which no intermediate of the 16-bit
            // kernels wraps, so SIMD and scalar kernels are expected to agree exactly
            let m = 1i64 << tame;
            return match r % 8 {
                0 => m - 1,
                1 => -m + 1,
                _ => ((r >> 8) as i64 % (2 * m - 1)) - (m - 1),
            };
        }
        let kind = r % 16;
        let v = (r >> 8) as i64;
        let max = (1i64 << (bits - 1)) - 1;
        match kind {
            0 => max,
            1 => -max - 1,
            2 => max - (v % 4),
            3 => -max - 1 + (v % 4),
            4..=6 => (v % (1 << (bits - 2))) - (1 << (bits - 3)),
            _ => (v % 512) - 256,
        }
    }
}

trait Elem: Copy + PartialEq + std::fmt::Debug + Default + 'static {
    const BITS: u32;
    fn from_i64(v: i64) -> Self;
    fn to_i64(self) -> i64;
}
impl Elem for i16 {
    const BITS: u32 = 16;
    fn from_i64(v: i64) -> Self { v as i16 }
    fn to_i64(self) -> i64 { self as i64 }
}
impl Elem for i32 {
    const BITS: u32 = 32;
    fn from_i64(v: i64) -> Self { v as i32 }
    fn to_i64(self) -> i64 { self as i64 }
}

fn canary<T: Elem>(i: usize) -> T {
    T::from_i64(((i as i64).wrapping_mul(0x5bd1) ^ 0x2f6b) | 0x4001)
}

/// A grid of `w`x`h` with stride `w + pad`, embedded at `guard` in an allocation of
/// `guard + (stride*(h-1)+w) + guard` elements. Everything that is not a cell holds a canary.
struct Arena<T: Elem> {
    mem: Vec<T>,
    guard: usize,
    w: usize,
    h: usize,
    stride: usize,
}

impl<T: Elem> Arena<T> {
    fn new(w: usize, h: usize, pad: usize, guard: usize, rng: &mut Rng, tame: u32) -> Self {
        let stride = w + pad;
        let inner = stride * (h - 1) + w;
        let mut mem: Vec<T> = (0..guard + inner + guard).map(canary::<T>).collect();
        for y in 0..h {
            for x in 0..w {
                mem[guard + y * stride + x] = T::from_i64(rng.sample(T::BITS, tame));
            }
        }
        Self { mem, guard, w, h, stride }
    }
    fn inner_len(&self) -> usize {
        self.stride * (self.h - 1) + self.w
    }
    fn grid(&mut self) -> MutableSubgrid<'_, T> {
        let (g, n) = (self.guard, self.inner_len());
        MutableSubgrid::from_buf(&mut self.mem[g..g + n], self.w, self.h, self.stride)
    }
    fn is_cell(&self, i: usize) -> bool {
        if i < self.guard || i >= self.guard + self.inner_len() {
            return false;
        }
        (i - self.guard) % self.stride < self.w
    }
    /// (number of damaged canaries, first damaged index relative to the grid start)
    fn damaged(&self) -> (usize, i64) {
        let mut n = 0;
        let mut first = 0i64;
        for i in 0..self.mem.len() {
            if !self.is_cell(i) && self.mem[i] != canary::<T>(i) {
                if n == 0 {
                    first = i as i64 - self.guard as i64;
                }
                n += 1;
            }
        }
        (n, first)
    }
    fn cell(&self, x: usize, y: usize) -> T {
        self.mem[self.guard + y * self.stride + x]
    }
    fn clone_arena(&self) -> Self {
        Self { mem: self.mem.clone(), guard: self.guard, w: self.w, h: self.h, stride: self.stride }
    }
    fn hash(&self) -> u64 {
        let mut hsh = 0xcbf29ce484222325u64;
        for y in 0..self.h {
            for x in 0..self.w {
                hsh = (hsh ^ (self.cell(x, y).to_i64() as u64)).wrapping_mul(0x100000001b3);
            }
        }
        hsh
    }
    fn first_diff(&self, o: &Self) -> Option<(usize, usize, i64, i64)> {
        for y in 0..self.h {
            for x in 0..self.w {
                if self.cell(x, y) != o.cell(x, y) {
                    return Some((x, y, self.cell(x, y).to_i64(), o.cell(x, y).to_i64()));
                }
            }
        }
        None
    }
}

fn report<T: Elem>(
    st: &mut St,
    got: Result<bool, String>,
    a: &Arena<T>,
    r: Option<&Arena<T>>,
    must_equal: bool,
) -> String {
    match got {
        Err(m) => return format!("panic {}", site(st, &m)),
        Ok(false) => return "skip".into(),
        Ok(true) => {}
    }
    let (n, first) = a.damaged();
    if n > 0 {
        return format!("CANARY damaged={} first-offset={}", n, first);
    }
    if let Some(r) = r {
        let (n, first) = r.damaged();
        if n > 0 {
            return format!("CANARY-REF damaged={} first-offset={}", n, first);
        }
        if let Some((x, y, g, w)) = a.first_diff(r) {
            if must_equal {
                return format!("MISMATCH x={} y={} got={} scalar={}", x, y, g, w);
            }
            // wild data: the 16-bit SIMD and scalar kernels may wrap differently (C12's subject)
            return format!("ok-differs {:016x}", a.hash());
        }
    }
    format!("ok {:016x}", a.hash())
}

fn sq_op(st: &mut St, w: &[&str]) -> Option<String> {
    let p = |s: &str| s.parse::<usize>().ok();
    let [kernel, gw, gh, pad, guard, seed, tame] = w else { return None };
    let (gw, gh, pad, guard, seed, tame) =
        (p(gw)?, p(gh)?, p(pad)?, p(guard)?, p(seed)?, p(tame)? as u32);
    if tame > 14 {
        return None;
    }
    if gw == 0 || gh == 0 {
        return None;
    }
    let mut rng = Rng(seed as u64 ^ ((gw as u64) << 32) ^ ((gh as u64) << 48));
    use h7::squeeze as k;
    type F16 = fn(&mut MutableSubgrid<'_, i16>) -> bool;
    type F32 = fn(&mut MutableSubgrid<'_, i32>) -> bool;
    fn t16(f: fn(&mut MutableSubgrid<'_, i16>)) -> impl Fn(&mut MutableSubgrid<'_, i16>) -> bool {
        move |g| {
            f(g);
            true
        }
    }
    let _ = (None::<F16>, None::<F32>);
    if kernel.contains("16") {
        let mut a = Arena::<i16>::new(gw, gh, pad, guard, &mut rng, tame);
        let mut r = a.clone_arena();
        let horizontal = kernel.starts_with('h');
        let got = catch_raw(|| {
            let mut g = a.grid();
            match *kernel {
                "h16" => t16(k::inverse_h_i16)(&mut g),
                "v16" => t16(k::inverse_v_i16)(&mut g),
                "h16_generic" => {
                    h7::inverse_h::<i16>(&mut g);
                    true
                }
                "v16_generic" => {
                    h7::inverse_v::<i16>(&mut g);
                    true
                }
                "h16_base" => t16(k::inverse_h_i16_base)(&mut g),
                "v16_base" => t16(k::inverse_v_i16_base)(&mut g),
                #[cfg(target_arch = "x86_64")]
                "h16_avx2" => k::inverse_h_i16_x86_64_avx2(&mut g),
                #[cfg(target_arch = "x86_64")]
                "h16_sse41" => k::inverse_h_i16_x86_64_sse41(&mut g),
                #[cfg(target_arch = "x86_64")]
                "v16_avx2" => k::inverse_v_i16_x86_64_avx2(&mut g),
                #[cfg(target_arch = "x86_64")]
                "v16_sse41" => k::inverse_v_i16_x86_64_sse41(&mut g),
                _ => false,
            }
        });
        let rr = catch_raw(|| {
            let mut g = r.grid();
            if horizontal { k::inverse_h_i16_base(&mut g) } else { k::inverse_v_i16_base(&mut g) }
        });
        if let (Ok(_), Err(m)) = (&got, &rr) {
            return Some(format!("panic-ref {}", site(st, m)));
        }
        Some(report(st, got, &a, Some(&r), tame > 0))
    } else {
        let mut a = Arena::<i32>::new(gw, gh, pad, guard, &mut rng, tame);
        let mut r = a.clone_arena();
        let horizontal = kernel.starts_with('h');
        let got = catch_raw(|| {
            let mut g = a.grid();
            match *kernel {
                "h32" => k::inverse_h_i32(&mut g),
                "v32" => k::inverse_v_i32(&mut g),
                "h32_generic" => h7::inverse_h::<i32>(&mut g),
                "v32_generic" => h7::inverse_v::<i32>(&mut g),
                "h32_base" => k::inverse_h_i32_base(&mut g),
                "v32_base" => k::inverse_v_i32_base(&mut g),
                _ => return false,
            }
            true
        });
        let rr = catch_raw(|| {
            let mut g = r.grid();
            if horizontal { k::inverse_h_i32_base(&mut g) } else { k::inverse_v_i32_base(&mut g) }
        });
        if let (Ok(_), Err(m)) = (&got, &rr) {
            return Some(format!("panic-ref {}", site(st, m)));
        }
        Some(report(st, got, &a, Some(&r), tame > 0))
    }
}

fn rct_run<T: Elem + jxl_modular::Sample>(
    st: &mut St,
    ty: u32,
    perm: u32,
    gw: usize,
    gh: usize,
    pad: usize,
    guard: usize,
    seed: usize,
    base: fn(u32, &mut [&mut [T]; 3]) -> bool,
) -> String {
    let mut rng = Rng(seed as u64 ^ ((gw as u64) << 32) ^ ((gh as u64) << 48) ^ ((ty as u64) << 20));
    let mut a: Vec<Arena<T>> = (0..3).map(|_| Arena::<T>::new(gw, gh, pad, guard, &mut rng, 0)).collect();
    let mut r: Vec<Arena<T>> = a.iter().map(|x| x.clone_arena()).collect();
    let pool = jxl_threadpool::JxlThreadPool::none();
    let got = catch_raw(|| {
        let [a0, a1, a2] = &mut a[..] else { unreachable!() };
        let (mut g0, mut g1, mut g2) = (a0.grid(), a1.grid(), a2.grid());
        h7::rct::inverse_rct::<T>(ty, perm, [&mut g0, &mut g1, &mut g2], &pool)
    });
    // reference: the scalar row kernel and the permutation, row by row, on private row copies
    let rr = catch_raw(|| {
        for y in 0..gh {
            let mut rows: Vec<Vec<T>> =
                r.iter().map(|ar| (0..gw).map(|x| ar.cell(x, y)).collect()).collect();
            {
                let [r0, r1, r2] = &mut rows[..] else { unreachable!() };
                let mut refs: [&mut [T]; 3] = [&mut r0[..], &mut r1[..], &mut r2[..]];
                base(ty, &mut refs);
                h7::rct::inverse_permute::<T>(perm, refs);
            }
            for (c, ar) in r.iter_mut().enumerate() {
                for x in 0..gw {
                    let i = ar.guard + y * ar.stride + x;
                    ar.mem[i] = rows[c][x];
                }
            }
        }
    });
    if let (Ok(_), Err(m)) = (&got, &rr) {
        return format!("panic-ref {}", site(st, m));
    }
    match got {
        Err(m) => return format!("panic {}", site(st, &m)),
        Ok(false) => return "skip".into(),
        Ok(true) => {}
    }
    let mut h = 0u64;
    for c in 0..3 {
        let (n, first) = a[c].damaged();
        if n > 0 {
            return format!("CANARY channel={} damaged={} first-offset={}", c, n, first);
        }
        if let Some((x, y, g, w)) = a[c].first_diff(&r[c]) {
            return format!("MISMATCH channel={} x={} y={} got={} scalar={}", c, x, y, g, w);
        }
        h = h.rotate_left(21) ^ a[c].hash();
    }
    format!("ok {:016x}", h)
}

fn rct_op(st: &mut St, w: &[&str]) -> Option<String> {
    let p = |s: &str| s.parse::<usize>().ok();
    let [bits, ty, perm, gw, gh, pad, guard, seed] = w else { return None };
    let (ty, perm, gw, gh, pad, guard, seed) =
        (p(ty)? as u32, p(perm)? as u32, p(gw)?, p(gh)?, p(pad)?, p(guard)?, p(seed)?);
    if gw == 0 || gh == 0 {
        return None;
    }
    Some(match *bits {
        "16" => rct_run::<i16>(st, ty, perm, gw, gh, pad, guard, seed, h7::rct::inverse_row_i16_base),
        "32" => rct_run::<i32>(st, ty, perm, gw, gh, pad, guard, seed, h7::rct::inverse_row_i32_base),
        _ => return None,
    })
}

// ---------------------------------------------------------------------------------------------
// bit reader geometry

fn bs_state(b: &Bitstream) -> String {
    // Debug: Bitstream { bytes: (N bytes left), buf: 0x…, num_read_bits: A, remaining_buf_bits: B }
    let d = format!("{:?}", b);
    let num = |key: &str| -> String {
        d.split(key)
            .nth(1)
            .map(|s| s.chars().take_while(|c| c.is_ascii_digit()).collect::<String>())
            .unwrap_or_default()
    };
    format!("left={} rem={} read={}", num("bytes: ("), num("remaining_buf_bits: "), num("num_read_bits: "))
}

fn bs_op(st: &mut St, w: &[&str]) -> Option<String> {
    let p = |s: &str| s.parse::<usize>().ok();
    let eof = |r: Result<(), jxl_bitstream::Error>| match r {
        Err(jxl_bitstream::Error::Io(e)) if e.kind() == std::io::ErrorKind::UnexpectedEof => "eof",
        _ => "ok",
    };
    let res: String = match w {
        ["new", hex] => {
            let bytes: &'static [u8] = Box::leak(unhex(hex)?.into_boxed_slice());
            st.bs = Some(Bitstream::new(bytes));
            "ok".into()
        }
        [op, n] => {
            let n = p(n)?;
            let b = st.bs.as_mut()?;
            let r = match *op {
                "read" if n <= 32 => catch_raw(|| eof(b.read_bits(n).map(|_| ()))),
                "peek" if n <= 32 => catch_raw(|| {
                    b.peek_bits(n);
                    "ok"
                }),
                "consume" => catch_raw(|| eof(b.consume_bits(n))),
                "skip" => catch_raw(|| eof(b.skip_bits(n))),
                _ => return None,
            };
            match r {
                Ok(s) => s.into(),
                Err(m) => format!("panic {}", site(st, &m)),
            }
        }
        ["pad"] => {
            let b = st.bs.as_mut()?;
            match catch_raw(|| eof(b.zero_pad_to_byte())) {
                Ok(s) => s.into(),
                Err(m) => format!("panic {}", site(st, &m)),
            }
        }
        _ => return None,
    };
    Some(format!("{} {}", res, bs_state(st.bs.as_ref()?)))
}

/// (d) `vec <lanes 4|8> <off> <w> <h> <stride>`: `MutableSubgrid::<f32>::as_vectored` on a `w x h`
/// sub-grid with the given row stride that starts `off` elements into a 32-byte aligned buffer.
/// Answer `none`, or `some <vw> <vh> | <the whole buffer as integers>` after every vector cell
/// `(vx, vy)` of the view was overwritten with the splat of `1000 * vy + vx + 1`.
#[cfg(target_arch = "x86_64")]
fn vec_op(w: &[&str]) -> Option<String> {
    use jxl_grid::SimdVector;
    let [lanes, off, gw, gh, stride] = w else { return None };
    let lanes: usize = lanes.parse().ok()?;
    let (off, gw, gh, stride): (usize, usize, usize, usize) =
        (off.parse().ok()?, gw.parse().ok()?, gh.parse().ok()?, stride.parse().ok()?);
    if gw == 0 || gh == 0 || stride < gw || gw > 256 || gh > 64 || stride > 512 || off > 64 {
        return None;
    }
    let need = off + stride * (gh - 1) + gw;
    // slack: a wrong stride must land inside the allocation
    let total = need + 4 * gh + 64 + 8;
    let mut store = vec![0f32; total + 8];
    let mis = (store.as_ptr() as usize % 32) / 4;
    let base = (8 - mis) % 8;
    let buf = &mut store[base..base + total];
    assert_eq!(buf.as_ptr() as usize % 32, 0);
    let answer;
    {
        let mut g = MutableSubgrid::from_buf(&mut buf[off..off + need], gw, gh, stride);
        fn fill<V: SimdVector>(g: &mut MutableSubgrid<'_, f32>) -> Option<(usize, usize)> {
            let mut v = g.as_vectored::<V>()?;
            let (vw, vh) = (v.width(), v.height());
            for vy in 0..vh {
                for vx in 0..vw {
                    // SAFETY: `as_vectored` checked that the CPU has the vector type
                    *v.get_mut(vx, vy) = unsafe { V::splat_f32((1000 * vy + vx + 1) as f32) };
                }
            }
            Some((vw, vh))
        }
        answer = match lanes {
            4 => fill::<std::arch::x86_64::__m128>(&mut g),
            8 if std::arch::x86_64::__m256::available() => fill::<std::arch::x86_64::__m256>(&mut g),
            8 => return Some("unsupported".into()),
            _ => return None,
        };
    }
    Some(match answer {
        None => "none".into(),
        Some((vw, vh)) => format!(
            "some {} {} | {}",
            vw,
            vh,
            buf.iter().map(|v| (*v as i64).to_string()).collect::<Vec<_>>().join(" ")
        ),
    })
}

#[cfg(not(target_arch = "x86_64"))]
fn vec_op(_: &[&str]) -> Option<String> {
    Some("unsupported".into())
}

fn main() {
    install_quiet_panic_hook();
    let st = St { buf: Vec::new(), cursor: 0, live: Vec::new(), step: 0, src: HashMap::new(), bs: None };
    // own loop (not `line_loop`): flush after every line so that a generator can react to answers
    use std::io::{BufRead, Write};
    let mut st = st;
    let stdin = std::io::stdin();
    let stdout = std::io::stdout();
    let mut out = stdout.lock();
    for line in stdin.lock().lines() {
        let line = line.expect("stdin");
        let w: Vec<&str> = line.split_whitespace().collect();
        let o = handle(&mut st, &w);
        writeln!(out, "{}", o).unwrap();
        out.flush().unwrap();
    }
}

fn handle(st: &mut St, w: &[&str]) -> String {
    let out = match w {
        ["ttype"] => {
            // every byte `TransformType::try_from` lets through (the Ok value is never inspected:
            // for a byte that is not a variant it would not be a valid enum value)
            let acc: Vec<String> = (0u16..256)
                .filter(|v| matches!(jxl_vardct::TransformType::try_from(*v as u8), Ok(_)))
                .map(|v| v.to_string())
                .collect();
            Some(format!("ttype accepted={}", acc.join(",")))
        }
        ["ttype1", v] => v.parse::<u8>().ok().map(|v| {
            match jxl_vardct::TransformType::try_from(v) {
                Ok(_) => "ttype1 ok".to_string(),
                Err(_) => "ttype1 err".to_string(),
            }
        }),
        ["cpu"] => {
            let f: Vec<String> = h7::squeeze::cpu_features()
                .into_iter()
                .map(|(n, b)| format!("{}={}", n, b as u8))
                .collect();
            Some(format!(
                "cpu arch={} {} profile={}",
                std::env::consts::ARCH,
                f.join(" "),
                if cfg!(debug_assertions) { "checked" } else { "release" }
            ))
        }
        ["buf", n] => n.parse::<usize>().ok().filter(|n| *n <= 1 << 20).map(|n| {
            st.live.clear();
            st.buf = vec![0u32; n];
            st.cursor = 0;
            st.step = 0;
            format!("ok | - | {}", snapshot(st))
        }),
        ["sq", rest @ ..] => sq_op(st, rest),
        ["vec", rest @ ..] => vec_op(rest),
        ["rct", rest @ ..] => rct_op(st, rest),
        ["bs", rest @ ..] => bs_op(st, rest),
        _ => grid_op(st, w),
    };
    out.unwrap_or_else(|| "bad-op".into())
}
