//! C13, `image` integration: `JxlDecoder::set_limits` sequences against the tracker it owns.
//! One script per line: `dec <hex> <op> <op> ...`, answers joined with ` | `. Ops:
//!   `set:<n>` / `set:none`   `ImageDecoder::set_limits(max_alloc = n / None)`:
//!                            `ok|refused|err total=<left+outstanding> out=<outstanding> cur=<bookkeeping>`
//!   `decode`                 `read_image` into a buffer: `ok|err-limits|err-other total= out= cur=`
//! The first answer is `new total= out= cur=` (state after `JxlDecoder::new`).
use image::ImageDecoder;
use jxl_oxide::integration::JxlDecoder;
use verif_harness::*;

fn obs<R>(d: &JxlDecoder<R>) -> String {
    let ctx = d.verif_image().verif_render_context();
    match ctx.alloc_tracker() {
        Some(t) => format!(
            "total={} out={} cur={}",
            t.verif_bytes_left().wrapping_add(t.verif_outstanding()),
            t.verif_outstanding(),
            d.verif_current_memory_limit()
        ),
        None => "no-tracker".into(),
    }
}

fn main() {
    install_quiet_panic_hook();
    line_loop((), |_, w| match w {
        ["dec", hexs, ops @ ..] => {
            let Some(bytes) = unhex(hexs) else { return "bad-op".into() };
            let ops: Vec<String> = ops.iter().map(|s| s.to_string()).collect();
            match catch(move || {
                let mut out = Vec::new();
                let mut dec = match JxlDecoder::new(std::io::Cursor::new(bytes)) {
                    Ok(d) => d,
                    Err(_) => return "new-err".to_string(),
                };
                out.push(format!("new {}", obs(&dec)));
                let mut ops = ops.into_iter().peekable();
                while let Some(op) = ops.next() {
                    if let Some(v) = op.strip_prefix("set:") {
                        let mut limits = image::Limits::no_limits();
                        if v != "none" {
                            let Ok(n) = v.parse::<u64>() else { return "bad-op".into() };
                            limits.max_alloc = Some(n);
                        }
                        let r = match dec.set_limits(limits) {
                            Ok(()) => "ok",
                            Err(image::ImageError::Limits(_)) => "refused",
                            Err(_) => "err",
                        };
                        out.push(format!("{} {}", r, obs(&dec)));
                    } else if op == "decode" {
                        let n = dec.total_bytes() as usize;
                        let mut buf = vec![0u8; n];
                        // read_image consumes the decoder: it is the last op of a script
                        let ctx_obs;
                        let r = {
                            let t = dec.verif_image().verif_render_context().alloc_tracker().cloned();
                            let cur = dec.verif_current_memory_limit();
                            let r = match dec.read_image(&mut buf) {
                                Ok(()) => "ok",
                                Err(image::ImageError::Limits(_)) => "err-limits",
                                Err(_) => "err-other",
                            };
                            ctx_obs = match t {
                                Some(t) => format!(
                                    "total={} out={} cur={} peak={}",
                                    t.verif_bytes_left().wrapping_add(t.verif_outstanding()),
                                    t.verif_outstanding(),
                                    cur,
                                    t.verif_peak_outstanding()
                                ),
                                None => "no-tracker".into(),
                            };
                            r
                        };
                        out.push(format!("{} {}", r, ctx_obs));
                        break;
                    } else {
                        return "bad-op".into();
                    }
                }
                out.join(" | ")
            }) {
                Ok(s) => s,
                Err(p) => p,
            }
        }
        _ => "bad-op".into(),
    });
}
