//! C14 correspondence: the real header parsers, same line protocol as `jxlmodel c14`.
//!   img <hex> | frame <imghex> <hex> | ftoc <imghex> <hex> | sub <Name> <hex>
//! Output: `ok <bits read> | <canonical dump>` or `err eof` / `err invalid <kind>`.
use jxl_bitstream::Bitstream;
use jxl_frame::data::{Toc, TocGroupKind};
use jxl_frame::filter::{EdgePreservingFilter, Gabor};
use jxl_frame::header::{BlendingInfo, Encoding, Passes, RestorationFilter};
use jxl_frame::FrameHeader;
use jxl_image::color::*;
use jxl_image::{
    AnimationHeader, BitDepth, ExtraChannelInfo, ExtraChannelType, Extensions, ImageHeader,
    PreviewHeader, SizeHeader,
};
use jxl_oxide_common::{Bundle, Name};
use verif_harness::*;

fn berr(e: &jxl_bitstream::Error) -> String {
    use jxl_bitstream::Error as E;
    if e.unexpected_eof() {
        return "err eof".into();
    }
    match e {
        E::NonZeroPadding => "err invalid padding".into(),
        E::InvalidFloat => "err invalid float".into(),
        E::InvalidEnum { .. } => "err invalid enum".into(),
        E::ValidationFailed(_) => "err invalid validation".into(),
        E::ProfileConformance(_) => "err invalid profile".into(),
        _ => "err invalid other".into(),
    }
}

fn ferr(e: &jxl_frame::Error) -> String {
    match e {
        jxl_frame::Error::Bitstream(b) => berr(b),
        jxl_frame::Error::Decoder(jxl_coding::Error::Bitstream(b)) => berr(b),
        jxl_frame::Error::Decoder(_) => "err invalid decoder".into(),
        _ => "err invalid other".into(),
    }
}

fn f(x: f32) -> String {
    format!("{:08x}", x.to_bits())
}
fn fl(xs: &[f32]) -> String {
    xs.iter().map(|x| f(*x)).collect::<Vec<_>>().join(",")
}
fn b01(b: bool) -> &'static str {
    if b { "1" } else { "0" }
}
fn nats(xs: &[u32]) -> String {
    xs.iter().map(|x| x.to_string()).collect::<Vec<_>>().join(",")
}

fn dump_bit_depth(b: &BitDepth) -> String {
    match b {
        BitDepth::IntegerSample { bits_per_sample } => format!("i{}", bits_per_sample),
        BitDepth::FloatSample { bits_per_sample, exp_bits } => format!("f{}e{}", bits_per_sample, exp_bits),
    }
}

fn dump_name(n: &Name) -> String {
    hex(n.as_bytes())
}

fn dump_xy(c: &Customxy) -> String {
    format!("{},{}", c.x, c.y)
}

fn dump_ce(c: &ColourEncoding) -> String {
    match c {
        ColourEncoding::IccProfile(cs) => format!("icc:{}", *cs as u8),
        ColourEncoding::Enum(e) => {
            let wp = match &e.white_point {
                WhitePoint::D65 => "1".to_string(),
                WhitePoint::Custom(c) => format!("2({})", dump_xy(c)),
                WhitePoint::E => "10".to_string(),
                WhitePoint::Dci => "11".to_string(),
            };
            let pr = match &e.primaries {
                Primaries::Srgb => "1".to_string(),
                Primaries::Custom { red, green, blue } => {
                    format!("2({},{},{})", dump_xy(red), dump_xy(green), dump_xy(blue))
                }
                Primaries::Bt2100 => "9".to_string(),
                Primaries::P3 => "11".to_string(),
            };
            let tf = match &e.tf {
                TransferFunction::Gamma { g, inverted } => {
                    if *inverted { format!("g{}", g) } else { format!("G{}", g) }
                }
                TransferFunction::Bt709 => "1".into(),
                TransferFunction::Unknown => "2".into(),
                TransferFunction::Linear => "8".into(),
                TransferFunction::Srgb => "13".into(),
                TransferFunction::Pq => "16".into(),
                TransferFunction::Dci => "17".into(),
                TransferFunction::Hlg => "18".into(),
            };
            format!("enum:{}:{}:{}:{}:{}", e.colour_space as u8, wp, pr, tf, e.rendering_intent as u8)
        }
    }
}

fn dump_ec(e: &ExtraChannelInfo) -> String {
    let (ty, spec) = match &e.ty {
        ExtraChannelType::Alpha { alpha_associated } => (0, format!("a{}", b01(*alpha_associated))),
        ExtraChannelType::Depth => (1, "-".into()),
        ExtraChannelType::SpotColour { red, green, blue, solidity } => {
            (2, fl(&[*red, *green, *blue, *solidity]))
        }
        ExtraChannelType::SelectionMask => (3, "-".into()),
        ExtraChannelType::Black => (4, "-".into()),
        ExtraChannelType::Cfa { cfa_channel } => (5, format!("c{}", cfa_channel)),
        ExtraChannelType::Thermal => (6, "-".into()),
        ExtraChannelType::NonOptional => (15, "-".into()),
        ExtraChannelType::Optional => (16, "-".into()),
    };
    format!("({};{};{};{};{})", ty, dump_bit_depth(&e.bit_depth), e.dim_shift, dump_name(&e.name), spec)
}

fn dump_ext(e: &Extensions) -> String {
    // the field is private; its Debug form is `Extensions { extension_bits: N }`
    let s = format!("{:?}", e);
    s.chars().filter(|c| c.is_ascii_digit()).collect()
}

fn dump_tm(t: &ToneMapping) -> String {
    format!("{},{},{},{}", f(t.intensity_target), f(t.min_nits), b01(t.relative_to_max_display), f(t.linear_below))
}

fn dump_opsin(o: &OpsinInverseMatrix) -> String {
    format!(
        "{};{};{};{}",
        o.inv_mat.iter().map(|r| fl(r)).collect::<Vec<_>>().join(","),
        fl(&o.opsin_bias),
        fl(&o.quant_bias),
        f(o.quant_bias_numerator)
    )
}

fn dump_anim(a: &AnimationHeader) -> String {
    format!("{}/{}/{}/{}", a.tps_numerator, a.tps_denominator, a.num_loops, b01(a.have_timecodes))
}

fn dump_image(h: &ImageHeader) -> String {
    let m = &h.metadata;
    let wh_s = |s: &Option<SizeHeader>| match s {
        None => "none".to_string(),
        Some(s) => format!("{}x{}", s.width, s.height),
    };
    let wh_p = |s: &Option<PreviewHeader>| match s {
        None => "none".to_string(),
        Some(s) => format!("{}x{}", s.width, s.height),
    };
    let anim = match &m.animation {
        None => "none".to_string(),
        Some(a) => dump_anim(a),
    };
    [
        format!("w={}", h.size.width),
        format!("h={}", h.size.height),
        format!("ow={}", opt_panic(catch(|| h.width_with_orientation()))),
        format!("oh={}", opt_panic(catch(|| h.height_with_orientation()))),
        format!("orient={}", m.orientation),
        format!("intr={}", wh_s(&m.intrinsic_size)),
        format!("preview={}", wh_p(&m.preview)),
        format!("anim={}", anim),
        format!("bd={}", dump_bit_depth(&m.bit_depth)),
        format!("m16={}", b01(m.modular_16bit_buffers)),
        format!("ec=[{}]", m.ec_info.iter().map(dump_ec).collect::<Vec<_>>().join("")),
        format!("xyb={}", b01(m.xyb_encoded)),
        format!("ce={}", dump_ce(&m.colour_encoding)),
        format!("tm={}", dump_tm(&m.tone_mapping)),
        format!("ext={}", dump_ext(&m.extensions)),
        format!("opsin={}", dump_opsin(&m.opsin_inverse_matrix)),
        format!("up2={}", fl(&m.up2_weight)),
        format!("up4={}", fl(&m.up4_weight)),
        format!("up8={}", fl(&m.up8_weight)),
    ]
    .join(" ")
}

fn dump_blend(b: &BlendingInfo) -> String {
    format!("{};{};{};{}", b.mode as u8, b.alpha_channel, b01(b.clamp), b.source)
}

fn dump_gabor(g: &Gabor) -> String {
    match g {
        Gabor::Disabled => "off".into(),
        Gabor::Enabled(w) => w.iter().map(|c| fl(c)).collect::<Vec<_>>().join(","),
    }
}

fn dump_epf(e: &EdgePreservingFilter) -> String {
    match e {
        EdgePreservingFilter::Disabled => "off".into(),
        EdgePreservingFilter::Enabled(p) => format!(
            "{};{};{};{},{},{},{};{}",
            p.iters,
            fl(&p.sharp_lut),
            fl(&p.channel_scale),
            f(p.sigma.quant_mul),
            f(p.sigma.pass0_sigma_scale),
            f(p.sigma.pass2_sigma_scale),
            f(p.sigma.border_sad_mul),
            f(p.sigma_for_modular)
        ),
    }
}

fn dump_passes(p: &Passes) -> String {
    format!("{};{};{};{};{}", p.num_passes, p.num_ds, nats(&p.shift), nats(&p.downsample), nats(&p.last_pass))
}

fn dump_rf(r: &RestorationFilter) -> String {
    format!("gab={} epf={} rfext={}", dump_gabor(&r.gab), dump_epf(&r.epf), dump_ext(&r.extensions))
}

fn opt_panic(r: Result<u32, String>) -> String {
    match r {
        Ok(v) => v.to_string(),
        Err(_) => "panic".into(),
    }
}

fn dump_frame(h: &FrameHeader) -> String {
    let flags: String = format!("{:?}", h.flags).chars().filter(|c| c.is_ascii_digit()).collect();
    [
        format!("type={}", h.frame_type as u8),
        format!("enc={}", h.encoding as u8),
        format!("flags={}", flags),
        format!("ycbcr={}", b01(h.do_ycbcr)),
        format!("ecc={}", h.encoded_color_channels()),
        format!("jpegup={}", nats(&h.jpeg_upsampling)),
        format!("up={}", h.upsampling),
        format!("ecup={}", nats(&h.ec_upsampling)),
        format!("gss={}", h.group_size_shift),
        format!("xqm={}", h.x_qm_scale),
        format!("bqm={}", h.b_qm_scale),
        format!("passes={}", dump_passes(&h.passes)),
        format!("lf={}", h.lf_level),
        format!("crop={}", b01(h.have_crop)),
        format!("x0={}", h.x0),
        format!("y0={}", h.y0),
        format!("w={}", h.width),
        format!("h={}", h.height),
        format!("blend={}", dump_blend(&h.blending_info)),
        format!("ecblend=[{}]", h.ec_blending_info.iter().map(dump_blend).collect::<Vec<_>>().join("|")),
        format!("dur={}", h.duration),
        format!("tc={}", h.timecode),
        format!("last={}", b01(h.is_last)),
        format!("sar={}", h.save_as_reference),
        format!("reset={}", b01(h.resets_canvas)),
        format!("sbct={}", b01(h.save_before_ct)),
        format!("name={}", dump_name(&h.name)),
        dump_rf(&h.restoration_filter),
        format!("ext={}", dump_ext(&h.extensions)),
        format!("bd={}", dump_bit_depth(&h.bit_depth)),
        format!("kf={}", b01(h.is_keyframe())),
        format!("canref={}", b01(h.can_reference())),
        format!("sw={}", h.color_sample_width()),
        format!("sh={}", h.color_sample_height()),
        format!("ng={}", opt_panic(catch(|| h.num_groups()))),
        format!("nlg={}", opt_panic(catch(|| h.num_lf_groups()))),
    ]
    .join(" ")
}

fn kind_name(k: TocGroupKind) -> String {
    match k {
        TocGroupKind::All => "all".into(),
        TocGroupKind::LfGlobal => "lfg".into(),
        TocGroupKind::LfGroup(i) => format!("lf{}", i),
        TocGroupKind::HfGlobal => "hfg".into(),
        TocGroupKind::GroupPass { pass_idx, group_idx } => format!("p{}g{}", pass_idx, group_idx),
    }
}

fn dump_toc(t: &Toc, h: &FrameHeader) -> String {
    let groups: Vec<_> = t.iter_bitstream_order().collect();
    let n = groups.len();
    let mut kinds = Vec::new();
    if n == 1 {
        kinds.push(TocGroupKind::All);
    } else {
        kinds.push(TocGroupKind::LfGlobal);
        for i in 0..h.num_lf_groups() {
            kinds.push(TocGroupKind::LfGroup(i));
        }
        kinds.push(TocGroupKind::HfGlobal);
        for p in 0..h.passes.num_passes {
            for g in 0..h.num_groups() {
                kinds.push(TocGroupKind::GroupPass { pass_idx: p, group_idx: g });
            }
        }
    }
    [
        format!("n={}", n),
        format!("total={}", t.total_byte_size()),
        format!("bookmark={}", t.bookmark()),
        format!(
            "bs={}",
            groups.iter().map(|g| format!("{}:{}:{}", kind_name(g.kind), g.offset, g.size)).collect::<Vec<_>>().join(",")
        ),
        format!(
            "order={}",
            kinds.iter().map(|k| t.group_index_bitstream_order(*k).to_string()).collect::<Vec<_>>().join(",")
        ),
    ]
    .join(" ")
}

fn parse_img(bytes: &[u8]) -> Result<(ImageHeader, usize), String> {
    let mut bs = Bitstream::new(bytes);
    match ImageHeader::parse(&mut bs, ()) {
        Ok(h) => Ok((h, bs.num_read_bits())),
        Err(e) => Err(berr(&e)),
    }
}

fn sub(name: &str, bytes: &[u8]) -> Option<String> {
    let mut bs = Bitstream::new(bytes);
    macro_rules! go {
        ($t:ty, $ctx:expr, $dump:expr, $err:expr) => {
            match <$t>::parse(&mut bs, $ctx) {
                Ok(v) => format!("ok {} | {}", bs.num_read_bits(), $dump(&v)),
                Err(e) => $err(&e),
            }
        };
    }
    Some(match name {
        "SizeHeader" => go!(SizeHeader, (), |s: &SizeHeader| format!("{}x{}", s.width, s.height), berr),
        "PreviewHeader" => go!(PreviewHeader, (), |s: &PreviewHeader| format!("{}x{}", s.width, s.height), berr),
        "AnimationHeader" => go!(AnimationHeader, (), dump_anim, berr),
        "BitDepth" => go!(BitDepth, (), dump_bit_depth, berr),
        "ExtraChannelInfo" => go!(ExtraChannelInfo, (), dump_ec, berr),
        "ColourEncoding" => go!(ColourEncoding, (), dump_ce, berr),
        "ToneMapping" => go!(ToneMapping, (), dump_tm, berr),
        "OpsinInverseMatrix" => go!(OpsinInverseMatrix, (), dump_opsin, berr),
        "Customxy" => go!(Customxy, (), dump_xy, berr),
        "Passes" => go!(Passes, (), dump_passes, ferr),
        "Name" => go!(Name, (), dump_name, berr),
        "Extensions" => go!(Extensions, (), dump_ext, berr),
        "RestorationFilterVarDct" => go!(RestorationFilter, Encoding::VarDct, dump_rf, ferr),
        "RestorationFilterModular" => go!(RestorationFilter, Encoding::Modular, dump_rf, ferr),
        _ => return None,
    })
}

fn main() {
    install_quiet_panic_hook();
    line_loop((), |_, w| {
        let r = catch(|| -> Option<String> {
            Some(match w {
                ["img", h] => {
                    let bytes = unhex(h)?;
                    match parse_img(&bytes) {
                        Ok((hdr, n)) => format!("ok {} | {}", n, dump_image(&hdr)),
                        Err(e) => e,
                    }
                }
                ["frame", ih, h] | ["ftoc", ih, h] => {
                    let ib = unhex(ih)?;
                    let bytes = unhex(h)?;
                    let img = match parse_img(&ib) {
                        Ok((hdr, _)) => hdr,
                        Err(e) => return Some(format!("img{}", e)),
                    };
                    let mut bs = Bitstream::new(&bytes);
                    let fh = match FrameHeader::parse(&mut bs, &img) {
                        Ok(x) => x,
                        Err(e) => return Some(ferr(&e)),
                    };
                    let n = bs.num_read_bits();
                    if w[0] == "frame" {
                        format!("ok {} | {}", n, dump_frame(&fh))
                    } else {
                        let toc = match catch(|| Toc::parse(&mut bs, &fh)) {
                            Err(_) => return Some("tocpanic".into()),
                            Ok(Err(e)) => return Some(format!("toc{}", ferr(&e))),
                            Ok(Ok(t)) => t,
                        };
                        format!("ok {} {} | {} | {}", n, bs.num_read_bits(), dump_frame(&fh), dump_toc(&toc, &fh))
                    }
                }
                ["sub", name, h] => {
                    let bytes = unhex(h)?;
                    sub(name, &bytes)?
                }
                _ => return None,
            })
        });
        match r {
            Ok(Some(s)) => s,
            Ok(None) => "bad-op".into(),
            Err(p) => p,
        }
    });
}
