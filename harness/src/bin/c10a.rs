//! C10, layer above the container parser: `AuxBoxList` (crates/jxl-oxide/src/aux_box.rs) observed
//! through the public API of `JxlImage` (the list itself is `pub(super)`).
//!
//! One session per input line (a crash or hang costs one case only), one answer line:
//!
//! * `sess <file hex> <l1,l2,..|->`  the streaming caller of the API documentation:
//!       `JxlImage::builder().build_uninit()`, then for every chunk (lengths `l1,l2,..` of the
//!       file bytes, `-` = the whole file in one chunk; the lengths may cover a prefix only)
//!       `feed_bytes(leftover ++ chunk)` + `try_init()` while uninitialised,
//!       `JxlImage::feed_bytes(leftover ++ chunk)` afterwards; then `finalize()`.
//!       Answer: one word per chunk, `fin:<ok|E:class|uninit>`, one word for the final state.
//! * `read <file hex>`               `JxlImage::builder().read(Cursor)`:
//!       `read:<ok|E:class>` and (ok) the state word.
//!
//! word per chunk: `u` (not initialised yet: `aux_boxes()` is not reachable),
//!   `r/<exif>/<xml>/<jbrd>` (initialised), `E:<class>` (the call failed; the session stops),
//!   `=` (same word as after the previous chunk).
//! `<exif>` = `D:<tiff offset>:<payload hex>` | `dec` | `nf` | `inv` (`first_exif()` is `Err`);
//! `<xml>`  = `D:<hex>` | `dec` | `nf`;
//! `<jbrd>` = `nf` if `jpeg_reconstruction_status()` is `Unavailable` (the only answer that is a
//!            function of `AuxBoxList::jbrd()` alone), `x` otherwise.
//! error classes: `invalid-box`, `validation` (container parser), `io` (Brotli), `eof` (`read()`:
//! the reader ended before the image header was complete), `jbrd` (jxl_jbr), `other` (anything
//! else, i.e. the codestream decoder).
use jxl_oxide::{AuxBoxData, InitializeResult, JpegReconstructionStatus, JxlImage, JxlThreadPool};
use verif_harness::*;

fn class(e: &(dyn std::error::Error + 'static)) -> &'static str {
    if let Some(b) = e.downcast_ref::<jxl_bitstream::Error>() {
        return match b {
            jxl_bitstream::Error::InvalidBox => "invalid-box",
            // the one validation error of the container parser; the codestream parsers use the
            // same variant with other messages
            jxl_bitstream::Error::ValidationFailed(m) if m.contains("Brotli-compressed") => "validation",
            _ => "other",
        };
    }
    if let Some(io) = e.downcast_ref::<std::io::Error>() {
        // `read()`: "reader ended before parsing image header"; Brotli errors are InvalidData / WriteZero
        return if io.kind() == std::io::ErrorKind::UnexpectedEof { "eof" } else { "io" };
    }
    if e.downcast_ref::<jxl_jbr::Error>().is_some() {
        return "jbrd";
    }
    "other"
}

fn state_word(img: &JxlImage) -> String {
    let exif = match img.aux_boxes().first_exif() {
        Ok(AuxBoxData::Data(e)) => format!("D:{}:{}", e.tiff_header_offset(), hex(e.payload())),
        Ok(AuxBoxData::Decoding) => "dec".into(),
        Ok(AuxBoxData::NotFound) => "nf".into(),
        Err(_) => "inv".into(),
    };
    let xml = match img.aux_boxes().first_xml() {
        AuxBoxData::Data(x) => format!("D:{}", hex(x)),
        AuxBoxData::Decoding => "dec".into(),
        AuxBoxData::NotFound => "nf".into(),
    };
    let jbrd = match img.jpeg_reconstruction_status() {
        JpegReconstructionStatus::Unavailable => "nf",
        _ => "x",
    };
    format!("r/{}/{}/{}", exif, xml, jbrd)
}

fn builder() -> jxl_oxide::JxlImageBuilder {
    JxlImage::builder()
        .pool(JxlThreadPool::none())
        .alloc_tracker(jxl_oxide::AllocTracker::with_limit(1 << 28))
}

fn sess(file: &[u8], lens: &[usize]) -> String {
    let mut words: Vec<String> = Vec::new();
    let mut uninit = Some(builder().build_uninit());
    let mut image: Option<JxlImage> = None;
    let mut pending: Vec<u8> = Vec::new();
    let mut pos = 0usize;
    let mut last = String::new();
    let mut push = |words: &mut Vec<String>, w: String| {
        if w == last && w != "u" {
            words.push("=".into());
        } else {
            last = w.clone();
            words.push(w);
        }
    };
    for &n in lens {
        let end = (pos + n).min(file.len());
        pending.extend_from_slice(&file[pos..end]);
        pos = end;
        if let Some(mut u) = uninit.take() {
            let consumed = match u.feed_bytes(&pending) {
                Ok(c) => c,
                Err(e) => {
                    words.push(format!("E:{}", class(&*e)));
                    return words.join(" ");
                }
            };
            pending.drain(..consumed.min(pending.len()));
            match u.try_init() {
                Ok(InitializeResult::NeedMoreData(u)) => {
                    uninit = Some(u);
                    words.push("u".into());
                }
                Ok(InitializeResult::Initialized(img)) => {
                    let w = state_word(&img);
                    image = Some(img);
                    push(&mut words, w);
                }
                Err(e) => {
                    words.push(format!("E:init-{}", class(&*e)));
                    return words.join(" ");
                }
            }
        } else if let Some(img) = image.as_mut() {
            match img.feed_bytes(&pending) {
                Ok(consumed) => {
                    pending.drain(..consumed.min(pending.len()));
                    let w = state_word(img);
                    push(&mut words, w);
                }
                Err(e) => {
                    words.push(format!("E:{}", class(&*e)));
                    return words.join(" ");
                }
            }
        }
    }
    match image.as_mut() {
        None => words.push("fin:uninit".into()),
        Some(img) => {
            match img.finalize() {
                Ok(()) => words.push("fin:ok".into()),
                Err(e) => words.push(format!("fin:E:{}", class(&*e))),
            }
            words.push(state_word(img));
        }
    }
    words.join(" ")
}

fn read(file: &[u8]) -> String {
    match builder().read(std::io::Cursor::new(file)) {
        Ok(img) => format!("read:ok {}", state_word(&img)),
        Err(e) => format!("read:E:{}", class(&*e)),
    }
}

fn main() {
    install_quiet_panic_hook();
    line_loop((), |_, w| match w {
        ["sess", h, l] => {
            let Some(file) = unhex(h) else { return "bad-op".into() };
            let lens: Vec<usize> = if *l == "-" {
                vec![file.len()]
            } else {
                match l.split(',').map(|x| x.parse::<usize>()).collect::<Result<Vec<_>, _>>() {
                    Ok(v) => v,
                    Err(_) => return "bad-op".into(),
                }
            };
            match catch(|| sess(&file, &lens)) {
                Ok(o) => o,
                Err(p) => p,
            }
        }
        ["read", h] => {
            let Some(file) = unhex(h) else { return "bad-op".into() };
            match catch(|| read(&file)) {
                Ok(o) => o,
                Err(p) => p,
            }
        }
        _ => "bad-op".into(),
    });
}
