//! C07 correspondence: the same stream decoded and rendered under `JxlThreadPool::none()` and rayon
//! pools of several sizes, repeatedly, re-rendered on one image, and from several caller threads
//! at once; all sample dumps must be bit-identical. Success/failure under injected allocation
//! failures (hook H1) or a byte limit must not depend on the configuration.
//!
//! Ops (one line each, one answer line each):
//! * `cmp <hex> wide=0|1 reps=R rr=N conc=C dl=<seconds> pools=0,1,2,..` (`dl`: a run that takes
//!   longer is the outcome `hang`; its thread is left behind)
//!   -> `ok kf=<n> <cfg>=<hash>.. rr:<cfg>=<hash>.. conc:<cfg>=<hash>.. [| mismatch <where>]`
//! * `inject <hex> wide=0|1 mode=clean|failfrom|limit v=<n> reps=R pools=..`
//!   -> `ok <cfg>=<outcomes>:<calls lo>-<hi>:<peak lo>-<hi>:<dump hashes> ..`  (outcome letters: O all keyframes
//!   rendered, E read or render error, P panic, H no answer within `dl` seconds)
//! * `cms <hex> fail=<n> reps=R pools=..` custom CMS whose transform fails on chunk content
//! * `groups w h gw gh` ownership map of `MutableSubgrid::into_groups(gw, gh)` on a real w*h buffer
use jxl_oxide::{AllocTracker, JxlImage, JxlThreadPool};
use jxl_render::ImageBuffer;
use std::sync::Arc;
use verif_harness::*;

#[derive(Clone, PartialEq, Eq)]
struct Chan {
    kind: char,
    w: usize,
    h: usize,
    data: Vec<u32>,
}

#[derive(Clone, PartialEq, Eq)]
enum Kf {
    Err(&'static str),
    Ok(Vec<Chan>),
}

/// `Err(read error class)` or one entry per keyframe
type Dump = Result<Vec<Kf>, String>;

fn chan_of(b: &ImageBuffer) -> Chan {
    match b {
        ImageBuffer::I32(g) => Chan { kind: 'i', w: g.width(), h: g.height(), data: g.buf().iter().map(|v| *v as u32).collect() },
        ImageBuffer::I16(g) => Chan { kind: 's', w: g.width(), h: g.height(), data: g.buf().iter().map(|v| *v as i32 as u32).collect() },
        ImageBuffer::F32(g) => Chan { kind: 'f', w: g.width(), h: g.height(), data: g.buf().iter().map(|v| v.to_bits()).collect() },
    }
}

fn dump_kf(image: &JxlImage, k: usize) -> Kf {
    match image.render_frame(k) {
        Err(e) => Kf::Err(err_class(&*e)),
        Ok(r) => {
            let (_, ec) = r.extra_channels();
            let mut v: Vec<Chan> = r.color_channels().iter().chain(ec.iter()).map(chan_of).collect();
            // what a caller reads: interleaved f32 with orientation applied
            let fb = r.image_all_channels();
            v.push(Chan { kind: 'o', w: fb.width() * fb.channels(), h: fb.height(), data: fb.buf().iter().map(|x| x.to_bits()).collect() });
            Kf::Ok(v)
        }
    }
}

fn make_pool(spec: usize) -> JxlThreadPool {
    if spec == 0 { JxlThreadPool::none() } else { JxlThreadPool::rayon(Some(spec)) }
}

fn cfg_name(spec: usize) -> String {
    if spec == 0 { "none".into() } else { format!("r{}", spec) }
}

fn open(bytes: &[u8], wide: bool, pool: &JxlThreadPool, tracker: AllocTracker) -> Result<JxlImage, String> {
    JxlImage::builder()
        .pool(pool.clone())
        .force_wide_buffers(wide)
        .alloc_tracker(tracker)
        .read(std::io::Cursor::new(bytes))
        .map_err(|e| err_class(&*e).to_string())
}

fn dump_all(image: &JxlImage) -> Vec<Kf> {
    (0..image.num_loaded_keyframes()).map(|k| dump_kf(image, k)).collect()
}

/// Runs `f` on a thread of its own; `None` when it does not finish in time. The thread cannot be
/// killed: it is left behind (blocked, in the case this exists for: a render waiting on a frame
/// handle that nobody will ever complete) and dies with the process.
fn with_deadline<T: Send + 'static>(secs: u64, f: impl FnOnce() -> T + Send + 'static) -> Option<T> {
    let (tx, rx) = std::sync::mpsc::channel();
    std::thread::Builder::new()
        .stack_size(16 << 20)
        .spawn(move || {
            let _ = tx.send(f());
        })
        .ok()?;
    rx.recv_timeout(std::time::Duration::from_secs(secs)).ok()
}

/// deadline for the runs of one line: 200 x what the reference run took, at least 5 s, at most `dl`
fn effective_deadline(dl: u64, reference_took: std::time::Duration) -> u64 {
    let want = (reference_took.as_secs_f64() * 200.0).ceil() as u64;
    want.clamp(5.min(dl), dl)
}

/// a fresh image decoded and every keyframe rendered; a panic and a hang are outcomes of their own
fn fresh(bytes: &Arc<Vec<u8>>, wide: bool, pool: &JxlThreadPool, tracker: AllocTracker, dl: u64) -> (Dump, Option<Arc<JxlImage>>) {
    let (bytes, pool) = (Arc::clone(bytes), pool.clone());
    let r = with_deadline(dl, move || {
        match catch(|| {
            let img = open(&bytes, wide, &pool, tracker);
            match img {
                Ok(i) => {
                    let d = dump_all(&i);
                    (Ok(d), Some(Arc::new(i)))
                }
                Err(e) => (Err(e), None),
            }
        }) {
            Ok(r) => r,
            Err(_) => (Err("panic".into()), None),
        }
    });
    r.unwrap_or((Err("hang".into()), None))
}

fn fnv(d: &Dump) -> u64 {
    let mut h: u64 = 0xcbf29ce484222325;
    let mut eat = |x: u64| {
        for b in x.to_le_bytes() {
            h ^= b as u64;
            h = h.wrapping_mul(0x100000001b3);
        }
    };
    match d {
        Err(e) => {
            eat(1);
            if abnormal(e) {
                for b in e.bytes() { eat(b as u64) }
            }
        }
        Ok(kfs) => {
            eat(2);
            eat(kfs.len() as u64);
            for k in kfs {
                match k {
                    Kf::Err(e) => {
                        eat(3);
                        if abnormal(e) {
                            for b in e.bytes() { eat(b as u64) }
                        }
                    }
                    Kf::Ok(chs) => {
                        eat(4);
                        eat(chs.len() as u64);
                        for c in chs {
                            eat(c.kind as u64);
                            eat(c.w as u64);
                            eat(c.h as u64);
                            for v in &c.data { eat(*v as u64) }
                        }
                    }
                }
            }
        }
    }
    h
}

fn abnormal(e: &str) -> bool {
    e.starts_with("hang") || e.starts_with("panic")
}

/// first difference between two dumps, as words without spaces
fn first_diff(a: &Dump, b: &Dump) -> Option<String> {
    match (a, b) {
        // the error VALUE may differ between schedules (the slot is last-writer-wins:
        // C07_error_value_depends_on_schedule_witness); hang / panic are outcomes of their own
        (Err(x), Err(y)) => if x == y || !(abnormal(x) || abnormal(y)) { None } else { Some(format!("read-error-class:{}/{}", x, y)) },
        (Err(x), Ok(_)) => Some(format!("outcome:read-err-{}/ok", x)),
        (Ok(_), Err(y)) => Some(format!("outcome:ok/read-err-{}", y)),
        (Ok(x), Ok(y)) => {
            if x.len() != y.len() {
                return Some(format!("keyframes:{}/{}", x.len(), y.len()));
            }
            for (k, (p, q)) in x.iter().zip(y).enumerate() {
                match (p, q) {
                    (Kf::Err(e), Kf::Err(f)) => if e != f && (abnormal(e) || abnormal(f)) { return Some(format!("kf={},error-class:{}/{}", k, e, f)) },
                    (Kf::Err(e), Kf::Ok(_)) => return Some(format!("kf={},outcome:err-{}/ok", k, e)),
                    (Kf::Ok(_), Kf::Err(f)) => return Some(format!("kf={},outcome:ok/err-{}", k, f)),
                    (Kf::Ok(c), Kf::Ok(d)) => {
                        if c.len() != d.len() {
                            return Some(format!("kf={},channels:{}/{}", k, c.len(), d.len()));
                        }
                        for (ci, (u, v)) in c.iter().zip(d).enumerate() {
                            if u.kind != v.kind || u.w != v.w || u.h != v.h {
                                return Some(format!("kf={},ch={},shape:{}{}x{}/{}{}x{}", k, ci, u.kind, u.w, u.h, v.kind, v.w, v.h));
                            }
                            if let Some(i) = (0..u.data.len()).find(|&i| u.data[i] != v.data[i]) {
                                let n = (0..u.data.len()).filter(|&i| u.data[i] != v.data[i]).count();
                                return Some(format!("kf={},ch={}({}),x={},y={},ref={},got={},differing={}",
                                    k, ci, u.kind, i % u.w.max(1), i / u.w.max(1), u.data[i], v.data[i], n));
                            }
                        }
                    }
                }
            }
            None
        }
    }
}

struct Args {
    bytes: Arc<Vec<u8>>,
    dl: u64,
    wide: bool,
    reps: usize,
    rr: usize,
    conc: usize,
    pools: Vec<usize>,
    mode: String,
    v: usize,
    fail: usize,
}

fn parse(hexs: &str, rest: &[&str]) -> Option<Args> {
    let bytes = if let Some(p) = hexs.strip_prefix('@') { std::fs::read(p).ok()? } else { unhex(hexs)? };
    let mut a = Args { bytes: Arc::new(bytes), dl: 120, wide: false, reps: 1, rr: 0, conc: 0, pools: vec![0], mode: "clean".into(), v: usize::MAX, fail: 0 };
    for r in rest {
        let (k, v) = r.split_once('=')?;
        match k {
            "wide" => a.wide = v == "1",
            "dl" => a.dl = v.parse().ok()?,
            "reps" => a.reps = v.parse().ok()?,
            "rr" => a.rr = v.parse().ok()?,
            "conc" => a.conc = v.parse().ok()?,
            "pools" => a.pools = v.split(',').map(|x| x.parse().ok()).collect::<Option<Vec<_>>>()?,
            "mode" => a.mode = v.into(),
            "v" => a.v = if v == "max" { usize::MAX } else { v.parse().ok()? },
            "fail" => a.fail = v.parse().ok()?,
            _ => return None,
        }
    }
    Some(a)
}

fn assert_sync<T: Sync + Send>() {}

fn cmp(a: &Args) -> String {
    assert_sync::<JxlImage>();
    let big = || AllocTracker::with_limit(1 << 32);
    let none = JxlThreadPool::none();
    let t0 = std::time::Instant::now();
    let reference: Dump = fresh(&a.bytes, a.wide, &none, big(), a.dl).0;
    let ref_hangs = matches!(&reference, Err(e) if e == "hang");
    let dl = if ref_hangs { a.dl } else { effective_deadline(a.dl, t0.elapsed()) };
    let nkf = reference.as_ref().map(|k| k.len()).unwrap_or(0);
    let refkind = match &reference {
        Err(e) if e == "panic" => "panic",
        Err(e) if e == "hang" => "hang",
        Err(_) => "read-error",
        Ok(k) if k.iter().all(|x| matches!(x, Kf::Ok(_))) => "rendered",
        Ok(_) => "render-error",
    };
    let mut out = format!("ok kf={} refkind={} ref={:016x}", nkf, refkind, fnv(&reference));
    // re-render and concurrent callers only make sense on an image that renders: what a failed or
    // panicked render leaves behind in the handle is the subject of C08 / C20
    let renders = matches!(&reference, Ok(k) if k.iter().all(|x| matches!(x, Kf::Ok(_))));
    let mut mismatch: Option<String> = None;
    let note = |what: String, d: &Dump, mismatch: &mut Option<String>| {
        if mismatch.is_none()
            && let Some(diff) = first_diff(&reference, d) {
            *mismatch = Some(format!("{} {}", what, diff));
        }
    };
    for &spec in &a.pools {
        let pool = make_pool(spec);
        let name = cfg_name(spec);
        let mut hashes: Vec<u64> = Vec::new();
        let mut last: Option<Arc<JxlImage>> = None;
        for rep in 0..a.reps {
            if rep > 0 && ref_hangs {
                break;                                  // one deadline per configuration is enough
            }
            let (d, img) = fresh(&a.bytes, a.wide, &pool, big(), dl);
            note(format!("cfg={} kind=fresh rep={}", name, rep), &d, &mut mismatch);
            let h = fnv(&d);
            if !hashes.contains(&h) { hashes.push(h) }
            last = img;
        }
        out.push_str(&format!(" {}={}", name, hashes.iter().map(|h| format!("{:016x}", h)).collect::<Vec<_>>().join("/")));
        // repeated render_frame on one image
        if renders && a.rr > 0 && let Some(img) = &last {
            let mut hashes: Vec<u64> = Vec::new();
            for rep in 0..a.rr {
                let img2 = Arc::clone(img);
                let d: Dump = with_deadline(dl, move || catch(|| dump_all(&img2)).map_err(|_| "panic".to_string()))
                    .unwrap_or(Err("hang".into()));
                note(format!("cfg={} kind=rerender rep={}", name, rep), &d, &mut mismatch);
                let h = fnv(&d);
                if !hashes.contains(&h) { hashes.push(h) }
            }
            out.push_str(&format!(" rr:{}={}", name, hashes.iter().map(|h| format!("{:016x}", h)).collect::<Vec<_>>().join("/")));
        }
        // several caller threads on one fresh image
        if renders && a.conc > 0 && (spec == 0 || spec == 4 || a.pools.len() <= 2) {
            let (bytes, pool2, wide, conc) = (Arc::clone(&a.bytes), pool.clone(), a.wide, a.conc);
            let opened = with_deadline(dl, move || catch(|| open(&bytes, wide, &pool2, AllocTracker::with_limit(1 << 32))));
            if let Some(Ok(Ok(img))) = opened {
                let dumps: Vec<Dump> = with_deadline(dl, move || {
                    let img = &img;
                    std::thread::scope(|s| {
                        let hs: Vec<_> = (0..conc)
                            .map(|t| s.spawn(move || {
                                // half of the callers walk the keyframes backwards
                                let n = img.num_loaded_keyframes();
                                catch(|| {
                                    let mut v: Vec<(usize, Kf)> = if t % 2 == 0 {
                                        (0..n).map(|k| (k, dump_kf(img, k))).collect()
                                    } else {
                                        (0..n).rev().map(|k| (k, dump_kf(img, k))).collect()
                                    };
                                    v.sort_by_key(|x| x.0);
                                    v.into_iter().map(|x| x.1).collect::<Vec<_>>()
                                })
                                .map_err(|_| "panic".to_string())
                            }))
                            .collect();
                        hs.into_iter().map(|h| h.join().unwrap_or_else(|_| Err("caller-panicked".into()))).collect()
                    })
                })
                .unwrap_or_else(|| vec![Err("hang".into())]);
                let mut hashes: Vec<u64> = Vec::new();
                for (t, d) in dumps.iter().enumerate() {
                    note(format!("cfg={} kind=concurrent caller={}", name, t), d, &mut mismatch);
                    let h = fnv(d);
                    if !hashes.contains(&h) { hashes.push(h) }
                }
                out.push_str(&format!(" conc:{}={}", name, hashes.iter().map(|h| format!("{:016x}", h)).collect::<Vec<_>>().join("/")));
            }
        }
    }
    if let Some(m) = mismatch {
        out.push_str(" | mismatch ");
        out.push_str(&m);
    }
    out
}

/// O = every keyframe rendered, E = read error or some keyframe failed, Z = no keyframe at all
fn outcome(d: &Dump) -> char {
    match d {
        Err(_) => 'E',
        Ok(k) if k.is_empty() => 'Z',
        Ok(k) => if k.iter().all(|x| matches!(x, Kf::Ok(_))) { 'O' } else { 'E' },
    }
}

fn inject(a: &Args) -> String {
    // allocations made by `read` alone (sequential in every configuration)
    let rd = {
        let t = AllocTracker::with_limit(1 << 32);
        let (t2, bytes, wide) = (t.clone(), Arc::clone(&a.bytes), a.wide);
        let _ = with_deadline(a.dl, move || catch(|| open(&bytes, wide, &JxlThreadPool::none(), t2).map(|_| ())));
        t.verif_alloc_calls()
    };
    let t0 = std::time::Instant::now();
    let clean = fresh(&a.bytes, a.wide, &JxlThreadPool::none(), AllocTracker::with_limit(1 << 32), a.dl).0;
    let dl = if matches!(&clean, Err(e) if e == "hang") { a.dl } else { effective_deadline(a.dl, t0.elapsed()) };
    let mut out = format!("ok read={}", rd);
    for &spec in &a.pools {
        let pool = make_pool(spec);
        let mut outcomes = String::new();
        let mut hashes: Vec<u64> = Vec::new();
        let (mut clo, mut chi, mut plo, mut phi) = (usize::MAX, 0usize, usize::MAX, 0usize);
        for _ in 0..a.reps {
            let tracker = match a.mode.as_str() {
                "limit" => AllocTracker::with_limit(a.v),
                _ => AllocTracker::with_limit(1 << 32),
            };
            if a.mode == "failfrom" {
                tracker.verif_fail_from(a.v);
            }
            if outcomes.ends_with('H') {
                break;                                  // one deadline per configuration is enough
            }
            let (d, _) = fresh(&a.bytes, a.wide, &pool, tracker.clone(), dl);
            match &d {
                Err(e) if e == "panic" => outcomes.push('P'),
                Err(e) if e == "hang" => outcomes.push('H'),
                _ => {
                    outcomes.push(outcome(&d));
                    let h = fnv(&d);
                    if !hashes.contains(&h) { hashes.push(h) }
                }
            }
            let c = tracker.verif_alloc_calls();
            let p = tracker.verif_peak_outstanding();
            clo = clo.min(c);
            chi = chi.max(c);
            plo = plo.min(p);
            phi = phi.max(p);
        }
        out.push_str(&format!(" {}={}:{}-{}:{}-{}:{}", cfg_name(spec), outcomes, clo, chi, plo, phi,
            hashes.iter().map(|h| format!("{:016x}", h)).collect::<Vec<_>>().join("/")));
    }
    out
}

// ---- a deterministic CMS whose transform fails on some chunks -----------------------------------
struct ChunkCms { fail: usize }
struct ChunkTransform { fail: usize, from_ch: usize }

impl jxl_oxide::ColorManagementSystem for ChunkCms {
    fn prepare_transform(
        &self,
        from_icc: &[u8],
        _to_icc: &[u8],
        _intent: jxl_oxide::color::RenderingIntent,
    ) -> Result<Box<dyn jxl_oxide::PreparedTransform>, Box<dyn std::error::Error + Send + Sync + 'static>> {
        // colour space signature at byte 16: 'CMYK' has 4 channels, 'GRAY' 1, else 3
        let from_ch = match from_icc.get(16..20) { Some(b"CMYK") => 4, Some(b"GRAY") => 1, _ => 3 };
        Ok(Box::new(ChunkTransform { fail: self.fail, from_ch }))
    }
}

impl jxl_oxide::PreparedTransform for ChunkTransform {
    fn num_input_channels(&self) -> usize { self.from_ch }
    fn num_output_channels(&self) -> usize { 3 }
    fn transform(&self, channels: &mut [&mut [f32]]) -> Result<(), Box<dyn std::error::Error + Send + Sync + 'static>> {
        // a pure function of the chunk contents: the position of the chunk is recognised by the
        // marker the harness cannot plant, so use the content hash class instead
        let mut h: u32 = 0x811c9dc5;
        for v in channels[0].iter().take(4096) {
            h = (h ^ v.to_bits()).wrapping_mul(0x01000193);
        }
        let class = (h >> 7) as usize % 4;
        if self.fail & (1 << class) != 0 {
            return Err(format!("chunk class {} rejected", class).into());
        }
        for ch in channels.iter_mut() {
            for v in ch.iter_mut() {
                *v = 1.0 - *v;
            }
        }
        Ok(())
    }
}

fn cms(a: &Args) -> String {
    let mut out = String::from("ok");
    for &spec in &a.pools {
        let pool = make_pool(spec);
        let mut outcomes = String::new();
        let mut hashes: Vec<u64> = Vec::new();
        for _ in 0..a.reps {
            let d: Dump = open(&a.bytes, a.wide, &pool, AllocTracker::with_limit(1 << 32)).map(|mut img| {
                img.set_cms(ChunkCms { fail: a.fail });
                img.request_color_encoding(jxl_oxide::EnumColourEncoding::srgb(jxl_oxide::color::RenderingIntent::Relative));
                dump_all(&img)
            });
            outcomes.push(outcome(&d));
            let h = fnv(&d);
            if !hashes.contains(&h) { hashes.push(h) }
        }
        out.push_str(&format!(" {}={}:{}", cfg_name(spec), outcomes, hashes.iter().map(|h| format!("{:016x}", h)).collect::<Vec<_>>().join("/")));
    }
    out
}

/// frame structure of a stream (for the evidence / diagnosis)
fn info(a: &Args) -> String {
    let t = AllocTracker::with_limit(1 << 32);
    let img = match open(&a.bytes, a.wide, &JxlThreadPool::none(), t.clone()) {
        Ok(i) => i,
        Err(e) => return format!("err read {}", e),
    };
    let mut out = format!("ok {}x{} frames={} keyframes={} read_allocs={}", img.width(), img.height(),
        img.num_loaded_frames(), img.num_loaded_keyframes(), t.verif_alloc_calls());
    for i in 0..img.num_loaded_frames() {
        if let Some(f) = img.frame(i) {
            let h = f.header();
            out.push_str(&format!(" off={} secs={}", img.frame_offset(i).unwrap_or(0),
                f.toc().iter_bitstream_order().map(|g| g.size.to_string()).collect::<Vec<_>>().join(",")));
            out.push_str(&format!(" [{} {:?} {}x{}@{},{} last={} dur={} save={} blend={:?}/src{} ecblend={}]",
                i, h.frame_type, h.width, h.height, h.x0, h.y0, h.is_last as u8, h.duration, h.save_as_reference,
                h.blending_info.mode, h.blending_info.source,
                h.ec_blending_info.iter().map(|b| format!("{:?}/src{}", b.mode, b.source)).collect::<Vec<_>>().join(",")));
        }
    }
    out
}

fn groups(w: usize, h: usize, gw: usize, gh: usize) -> String {
    let mut buf = vec![0u32; w * h];
    {
        let g = jxl_grid::MutableSubgrid::from_buf(&mut buf, w, h, w);
        let gs = g.into_groups(gw, gh);
        for (k, mut sg) in gs.into_iter().enumerate() {
            for y in 0..sg.height() {
                for x in 0..sg.width() {
                    *sg.get_mut(x, y) += k as u32 + 1;
                }
            }
        }
    }
    // run-length encoded owner map
    let mut out = String::from("own");
    let mut i = 0;
    while i < buf.len() {
        let mut j = i;
        while j < buf.len() && buf[j] == buf[i] { j += 1 }
        out.push_str(&format!(" {}*{}", buf[i], j - i));
        i = j;
    }
    out
}

fn main() {
    install_quiet_panic_hook();
    line_loop((), |_, w| match w {
        [op @ ("cmp" | "inject" | "cms" | "info"), hexs, rest @ ..] => {
            let Some(a) = parse(hexs, rest) else { return "bad-op".into() };
            let r = match *op {
                "cmp" => catch(|| cmp(&a)),
                "inject" => catch(|| inject(&a)),
                "info" => catch(|| info(&a)),
                _ => catch(|| cms(&a)),
            };
            match r { Ok(s) => s, Err(p) => p }
        }
        // natorder[p] IDX.. : the natural-order tables in the order asked (natorderp: one thread each,
        // started together), `idx=len:fnv1a64`
        [op @ ("natorder" | "natorderp"), idxs @ ..] => {
            let Some(is) = idxs.iter().map(|s| s.parse::<usize>().ok().filter(|i| *i < 13)).collect::<Option<Vec<_>>>() else {
                return "bad-op".into();
            };
            let par = *op == "natorderp";
            let word = |i: usize| {
                let t = jxl_vardct::verif_natural_order(i);
                let mut h: u64 = 0xcbf29ce484222325;
                for (x, y) in t {
                    for b in [x.to_le_bytes(), y.to_le_bytes()].concat() {
                        h ^= b as u64;
                        h = h.wrapping_mul(0x100000001b3);
                    }
                }
                format!("{}={}:{}", i, t.len(), h)
            };
            match catch(move || {
                if par {
                    let barrier = std::sync::Arc::new(std::sync::Barrier::new(is.len().max(1)));
                    let hs: Vec<_> = is
                        .iter()
                        .map(|&i| {
                            let b = barrier.clone();
                            std::thread::spawn(move || {
                                b.wait();
                                word(i)
                            })
                        })
                        .collect();
                    hs.into_iter().map(|h| h.join().unwrap_or_else(|_| "panic".into())).collect::<Vec<_>>()
                } else {
                    is.iter().map(|&i| word(i)).collect::<Vec<_>>()
                }
            }) {
                Ok(v) => format!("ok {}", v.join(" ")),
                Err(p) => p,
            }
        }
        ["groups", w, h, gw, gh] => {
            let p = |s: &str| s.parse::<usize>().ok();
            let (Some(w), Some(h), Some(gw), Some(gh)) = (p(w), p(h), p(gw), p(gh)) else { return "bad-op".into() };
            match catch(|| groups(w, h, gw, gh)) { Ok(s) => s, Err(p) => p }
        }
        _ => "bad-op".into(),
    });
}
