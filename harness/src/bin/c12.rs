//! C12 kernel level: the real squeeze / RCT kernels (hook H7) at `i16` (dispatching entry point =
//! what the decoder calls, scalar base, and on x86-64 the AVX2 and SSE4.1 kernels called directly)
//! and at `i32`, on the same explicit data. Line protocol mirrors `lean/JxlModel/Driver/C12.lean`:
//!
//! * `features` → `ok name=0|1 …`
//! * `sq h|v W H v…` → `ok d <W*H> b R a R s R w R` where `d` = dispatching `i16` kernel,
//!   `b` = scalar `i16`, `a` = AVX2 `i16`, `s` = SSE4.1 `i16`, `w` = `i32`; `R` is `same` (equal
//!   to `d`), `skip` (CPU lacks the feature) or the values.
//! * `rct TY PERM W H a… b… c…` → `ok d <3*W*H> b R w R wb R` (`d` = `inverse_rct::<i16>`,
//!   `b` = scalar `i16` row kernel + permutation, `w` = `inverse_rct::<i32>`, `wb` = scalar `i32`).
//! * `tend a b c` → `ok <tendency_i16> <tendency_i32>`.
//!
//! Grids are embedded with a row padding whose cells must stay untouched (`CANARY` otherwise).
use jxl_grid::MutableSubgrid;
use jxl_modular::verif as h7;
use verif_harness::*;

const SENTINEL16: i16 = 0x5a5a;
const SENTINEL32: i32 = 0x5a5a_5a5a;

trait Elem: Copy + PartialEq + std::fmt::Display + jxl_modular::Sample {
    const SENTINEL: Self;
    fn from_i64(v: i64) -> Self;
}
impl Elem for i16 {
    const SENTINEL: Self = SENTINEL16;
    fn from_i64(v: i64) -> Self {
        v as i16
    }
}
impl Elem for i32 {
    const SENTINEL: Self = SENTINEL32;
    fn from_i64(v: i64) -> Self {
        v as i32
    }
}

struct Arena<T: Elem> {
    mem: Vec<T>,
    w: usize,
    h: usize,
    stride: usize,
}

impl<T: Elem> Arena<T> {
    fn new(w: usize, h: usize, vals: &[i64]) -> Self {
        let pad = (w * 7 + h) % 4;
        let stride = w + pad;
        let mut mem = vec![T::SENTINEL; stride * h];
        for y in 0..h {
            for x in 0..w {
                mem[y * stride + x] = T::from_i64(vals[y * w + x]);
            }
        }
        Self { mem, w, h, stride }
    }
    fn grid(&mut self) -> MutableSubgrid<'_, T> {
        let n = self.stride * (self.h - 1) + self.w;
        MutableSubgrid::from_buf(&mut self.mem[..n], self.w, self.h, self.stride)
    }
    fn intact(&self) -> bool {
        (0..self.h).all(|y| (self.w..self.stride).all(|x| self.mem[y * self.stride + x] == T::SENTINEL))
    }
    fn vals(&self) -> Vec<i64>
    where
        T: Into<i64>,
    {
        let mut v = Vec::with_capacity(self.w * self.h);
        for y in 0..self.h {
            for x in 0..self.w {
                v.push(self.mem[y * self.stride + x].into());
            }
        }
        v
    }
}

fn join(v: &[i64]) -> String {
    let mut s = String::with_capacity(v.len() * 6);
    for (i, x) in v.iter().enumerate() {
        if i > 0 {
            s.push(' ');
        }
        s.push_str(&x.to_string());
    }
    s
}

fn rel(reference: &[i64], v: &Option<Vec<i64>>) -> String {
    match v {
        None => "skip".into(),
        Some(v) if v == reference => "same".into(),
        Some(v) => join(v),
    }
}

fn parse_vals(w: &[&str]) -> Option<Vec<i64>> {
    w.iter().map(|s| s.parse::<i64>().ok()).collect()
}

fn run16(gw: usize, gh: usize, vals: &[i64], f: impl FnOnce(&mut MutableSubgrid<'_, i16>) -> bool) -> Result<Option<Vec<i64>>, String> {
    let mut a = Arena::<i16>::new(gw, gh, vals);
    let ran = catch(|| {
        let mut g = a.grid();
        f(&mut g)
    })?;
    if !a.intact() {
        return Err("CANARY".into());
    }
    Ok(if ran { Some(a.vals()) } else { None })
}

fn run32(gw: usize, gh: usize, vals: &[i64], f: impl FnOnce(&mut MutableSubgrid<'_, i32>)) -> Result<Vec<i64>, String> {
    let mut a = Arena::<i32>::new(gw, gh, vals);
    catch(|| {
        let mut g = a.grid();
        f(&mut g)
    })?;
    if !a.intact() {
        return Err("CANARY".into());
    }
    Ok(a.vals())
}

fn sq_op(w: &[&str]) -> Option<Result<String, String>> {
    let [dir, gw, gh, rest @ ..] = w else { return None };
    let (gw, gh) = (gw.parse::<usize>().ok()?, gh.parse::<usize>().ok()?);
    let vals = parse_vals(rest)?;
    if gw == 0 || gh == 0 || vals.len() != gw * gh || vals.iter().any(|v| *v < -32768 || *v > 32767) {
        return None;
    }
    let horizontal = match *dir {
        "h" => true,
        "v" => false,
        _ => return None,
    };
    use h7::squeeze as k;
    Some((|| {
        let d = run16(gw, gh, &vals, |g| {
            if horizontal { k::inverse_h_i16(g) } else { k::inverse_v_i16(g) }
            true
        })?
        .unwrap();
        let b = run16(gw, gh, &vals, |g| {
            if horizontal { k::inverse_h_i16_base(g) } else { k::inverse_v_i16_base(g) }
            true
        })?;
        #[cfg(target_arch = "x86_64")]
        let (a, s) = (
            run16(gw, gh, &vals, |g| {
                if horizontal { k::inverse_h_i16_x86_64_avx2(g) } else { k::inverse_v_i16_x86_64_avx2(g) }
            })?,
            run16(gw, gh, &vals, |g| {
                if horizontal { k::inverse_h_i16_x86_64_sse41(g) } else { k::inverse_v_i16_x86_64_sse41(g) }
            })?,
        );
        #[cfg(not(target_arch = "x86_64"))]
        let (a, s): (Option<Vec<i64>>, Option<Vec<i64>>) = (None, None);
        let wd = run32(gw, gh, &vals, |g| {
            if horizontal { k::inverse_h_i32(g) } else { k::inverse_v_i32(g) }
        })?;
        Ok(format!(
            "ok d {} b {} a {} s {} w {}",
            join(&d),
            rel(&d, &b),
            rel(&d, &a),
            rel(&d, &s),
            rel(&d, &Some(wd))
        ))
    })())
}

fn rct_dispatch<T: Elem + Into<i64>>(ty: u32, perm: u32, gw: usize, gh: usize, vals: &[i64]) -> Result<Vec<i64>, String> {
    let n = gw * gh;
    let mut ar: Vec<Arena<T>> = (0..3).map(|c| Arena::<T>::new(gw, gh, &vals[c * n..(c + 1) * n])).collect();
    let pool = jxl_threadpool::JxlThreadPool::none();
    let ok = catch(|| {
        let [a0, a1, a2] = &mut ar[..] else { unreachable!() };
        let (mut g0, mut g1, mut g2) = (a0.grid(), a1.grid(), a2.grid());
        h7::rct::inverse_rct::<T>(ty, perm, [&mut g0, &mut g1, &mut g2], &pool)
    })?;
    if !ok {
        return Err("bad-type".into());
    }
    if !ar.iter().all(|a| a.intact()) {
        return Err("CANARY".into());
    }
    Ok(ar.iter().flat_map(|a| a.vals()).collect())
}

fn rct_base<T: Elem + Into<i64>>(
    ty: u32,
    perm: u32,
    gw: usize,
    gh: usize,
    vals: &[i64],
    base: fn(u32, &mut [&mut [T]; 3]) -> bool,
) -> Result<Vec<i64>, String> {
    let n = gw * gh;
    let mut ch: Vec<Vec<T>> = (0..3).map(|c| vals[c * n..(c + 1) * n].iter().map(|v| T::from_i64(*v)).collect()).collect();
    catch(|| {
        for y in 0..gh {
            let [c0, c1, c2] = &mut ch[..] else { unreachable!() };
            let mut refs: [&mut [T]; 3] =
                [&mut c0[y * gw..(y + 1) * gw], &mut c1[y * gw..(y + 1) * gw], &mut c2[y * gw..(y + 1) * gw]];
            base(ty, &mut refs);
            h7::rct::inverse_permute::<T>(perm, refs);
        }
    })?;
    Ok(ch.iter().flat_map(|c| c.iter().map(|v| (*v).into())).collect())
}

fn rct_op(w: &[&str]) -> Option<Result<String, String>> {
    let [ty, perm, gw, gh, rest @ ..] = w else { return None };
    let (ty, perm) = (ty.parse::<u32>().ok()?, perm.parse::<u32>().ok()?);
    let (gw, gh) = (gw.parse::<usize>().ok()?, gh.parse::<usize>().ok()?);
    let vals = parse_vals(rest)?;
    if gw == 0 || gh == 0 || ty > 6 || perm > 5 || vals.len() != 3 * gw * gh || vals.iter().any(|v| *v < -32768 || *v > 32767) {
        return None;
    }
    Some((|| {
        let d = rct_dispatch::<i16>(ty, perm, gw, gh, &vals)?;
        let b = rct_base::<i16>(ty, perm, gw, gh, &vals, h7::rct::inverse_row_i16_base)?;
        let wd = rct_dispatch::<i32>(ty, perm, gw, gh, &vals)?;
        let wb = rct_base::<i32>(ty, perm, gw, gh, &vals, h7::rct::inverse_row_i32_base)?;
        Ok(format!(
            "ok d {} b {} w {} wb {}",
            join(&d),
            rel(&d, &Some(b)),
            rel(&d, &Some(wd)),
            rel(&d, &Some(wb))
        ))
    })())
}

fn main() {
    install_quiet_panic_hook();
    line_loop((), |_, w| {
        let r = match w {
            ["features"] => {
                let f: Vec<String> = h7::squeeze::cpu_features()
                    .into_iter()
                    .map(|(n, v)| format!("{}={}", n, v as u8))
                    .collect();
                Some(Ok(format!("ok {}", f.join(" "))))
            }
            ["sq", rest @ ..] => sq_op(rest),
            ["rct", rest @ ..] => rct_op(rest),
            // sop <op> <a> <b> <c>: the scalar sample operation on i16 and on i32 samples
            ["sop", op, a, b, c] => (|| {
                let (a, b, c) = (a.parse::<i64>().ok()?, b.parse::<i64>().ok()?, c.parse::<i64>().ok()?);
                let op = op.to_string();
                Some(catch(move || {
                    let n = jxl_modular::verif::sample_op::<i16>(&op, a, b, c);
                    let w = jxl_modular::verif::sample_op::<i32>(&op, a, b, c);
                    match (n, w) {
                        (Some(n), Some(w)) => format!("ok {} {}", n, w),
                        _ => "bad-op".to_string(),
                    }
                }))
            })(),
            ["tend", a, b, c] => (|| {
                let (a, b, c) = (a.parse::<i64>().ok()?, b.parse::<i64>().ok()?, c.parse::<i64>().ok()?);
                if [a, b, c].iter().any(|v| *v < -32768 || *v > 32767) {
                    return None;
                }
                Some(
                    catch(|| {
                        format!(
                            "ok {} {}",
                            h7::squeeze::tendency_i16(a as i16, b as i16, c as i16),
                            h7::squeeze::tendency_i32(a as i32, b as i32, c as i32)
                        )
                    }),
                )
            })(),
            _ => None,
        };
        match r {
            None => "bad-op".into(),
            Some(Ok(s)) => s,
            Some(Err(e)) => e,
        }
    });
}
