//! C17 correspondence: the real JPEG `BitWriter`, `HuffmanCode::build` (hook H6) and hostile /
//! truncated `jbrd` boxes through `JxlImage` (public API only).
//!
//! Line protocol (one answer line per input line):
//!   bw new | bw h <hex16> <len> | bw r <hex16> <len> | bw pad | bw fin
//!   ff <hex16>
//!   huff <17 counts> <values...>
//!   jbrd <file-hex> <cut offsets...>      feed the file in chunks ending at the given offsets
//!   lens <jbrd-payload-hex>               expected_*_len of a jbrd header (H6 accessors)
use jxl_oxide::jpeg_bitstream as jbr;
use jxl_oxide::{InitializeResult, JpegReconstructionStatus, JxlImage, JxlThreadPool};
use verif_harness::*;

/// `panic <file:line>`: the site relative to the repository's `crates/` directory.
fn site(p: &str) -> String {
    // p = "panic <path>:<line>_<message...>"
    let body = p.strip_prefix("panic ").unwrap_or(p);
    let loc = body.split('_').next().unwrap_or(body);
    // keep `<path>:<line>`; the message may itself contain '_' so cut at the first "_" after ":<digits>"
    let mut loc = loc.to_string();
    if let Some(i) = body.find(".rs:") {
        let rest = &body[i + 4..];
        let digits: String = rest.chars().take_while(|c| c.is_ascii_digit()).collect();
        loc = format!("{}{}", &body[..i + 4], digits);
    }
    // path relative to the repository's `crates/` directory (crate dir names start with `jxl-`)
    let loc = match loc.rfind("jxl-") {
        Some(i) if loc[i..].contains("/src/") => loc[i..].to_string(),
        _ => {
            let parts: Vec<&str> = loc.rsplit('/').take(3).collect();
            parts.into_iter().rev().collect::<Vec<_>>().join("/")
        }
    };
    format!("panic {}", loc)
}

fn bw_state(w: &jbr::verif::BitWriter, seen: &mut usize) -> String {
    let (buf, valid, out) = w.verif_state();
    let new = &out[(*seen).min(out.len())..];
    let s = format!("buf={:016x} valid={} outlen={} new={}", buf, valid, out.len(), hex(new));
    *seen = out.len();
    s
}

fn status_word(s: JpegReconstructionStatus) -> &'static str {
    match s {
        JpegReconstructionStatus::Available => "A",
        JpegReconstructionStatus::Invalid => "I",
        JpegReconstructionStatus::Unavailable => "N",
        JpegReconstructionStatus::NeedMoreData => "M",
    }
}

fn err_word(e: &(dyn std::error::Error + 'static)) -> String {
    if let Some(e) = e.downcast_ref::<jbr::Error>() {
        let s = format!("{:?}", e);
        let name: String = s.chars().take_while(|c| c.is_ascii_alphanumeric()).collect();
        return format!("jbr-{}", name);
    }
    "other".into()
}

fn status_of(im: &JxlImage) -> String {
    match catch(|| im.jpeg_reconstruction_status()) {
        Ok(s) => status_word(s).to_string(),
        Err(p) => site(&p).replace(' ', "@"),
    }
}

/// The publicly observable facts the status decision looks at:
/// `<exif E|D|C|N><xml D|C|N><want_icc><has_icc>/<loaded frames>/<frame0: - or <vardct><normal>>`
fn facts(im: &JxlImage) -> String {
    let aux = |d: &jxl_oxide::AuxBoxData<&[u8]>| {
        if d.has_data() {
            'D'
        } else if d.is_decoding() {
            'C'
        } else {
            'N'
        }
    };
    let exif = match im.aux_boxes().first_exif() {
        Err(_) => 'E',
        Ok(d) => {
            if d.has_data() {
                'D'
            } else if d.is_decoding() {
                'C'
            } else {
                'N'
            }
        }
    };
    let xml = aux(&im.aux_boxes().first_xml());
    let want = im.image_header().metadata.colour_encoding.want_icc() as u8;
    let has = im.original_icc().is_some() as u8;
    let frame0 = match im.frame(0) {
        None => "-".to_string(),
        Some(f) => {
            let h = f.header();
            format!(
                "{}{}",
                (h.encoding == jxl_oxide::frame::Encoding::VarDct) as u8,
                h.frame_type.is_normal_frame() as u8
            )
        }
    };
    format!("{}{}{}{}/{}/{}", exif, xml, want, has, im.num_loaded_frames(), frame0)
}

enum Img {
    Uninit(Option<jxl_oxide::UninitializedJxlImage>),
    Init(Box<JxlImage>),
    Dead,
}

/// Feeds `file` in chunks; after every chunk queries the status (panics caught per call).
fn run_jbrd(file: &[u8], cuts: &[usize]) -> String {
    let mut img = Img::Uninit(Some(
        JxlImage::builder().pool(JxlThreadPool::none()).build_uninit(),
    ));
    let mut pending: Vec<u8> = Vec::new();
    let mut steps: Vec<String> = Vec::new();
    let mut prev = 0usize;
    let mut feed_err: Option<String> = None;
    let mut all_cuts: Vec<usize> = cuts.iter().copied().filter(|&c| c <= file.len()).collect();
    if all_cuts.last() != Some(&file.len()) {
        all_cuts.push(file.len());
    }
    for &cut in &all_cuts {
        if cut < prev {
            continue;
        }
        pending.extend_from_slice(&file[prev..cut]);
        prev = cut;
        // feed
        let r = match &mut img {
            Img::Uninit(u) => {
                let mut un = u.take().unwrap();
                let r = catch(|| {
                    let c = un.feed_bytes(&pending).map_err(|e| err_word(&*e))?;
                    Ok::<_, String>((c, un))
                });
                match r {
                    Err(p) => Err(site(&p)),
                    Ok(Err(e)) => Err(format!("feed-err:{}", e)),
                    Ok(Ok((c, un))) => {
                        pending.drain(..c);
                        match catch(|| un.try_init()) {
                            Err(p) => Err(site(&p)),
                            Ok(Err(_)) => Err("init-err".into()),
                            Ok(Ok(InitializeResult::NeedMoreData(un))) => {
                                *u = Some(un);
                                Ok(())
                            }
                            Ok(Ok(InitializeResult::Initialized(im))) => {
                                img = Img::Init(Box::new(im));
                                Ok(())
                            }
                        }
                    }
                }
            }
            Img::Init(im) => match catch(|| im.feed_bytes(&pending).map_err(|e| err_word(&*e))) {
                Err(p) => Err(site(&p)),
                Ok(Err(e)) => Err(format!("feed-err:{}", e)),
                Ok(Ok(c)) => {
                    pending.drain(..c);
                    Ok(())
                }
            },
            Img::Dead => Ok(()),
        };
        if let Err(e) = r {
            feed_err = Some(e);
            // an error from feed_bytes ends the session for a careful caller; we still query the
            // status once more below if the image object survived
            if matches!(img, Img::Uninit(None)) {
                img = Img::Dead;
            }
            steps.push(format!("{}:E", cut));
            break;
        }
        let st = match &img {
            Img::Uninit(_) => "U".to_string(),
            Img::Init(im) => format!("{}:{}", status_of(im), facts(im)),
            Img::Dead => "D".into(),
        };
        steps.push(format!("{}:{}", cut, st));
    }
    let mut out = format!("steps={}", steps.join(","));
    out.push_str(&format!(" feed={}", feed_err.clone().unwrap_or_else(|| "ok".into()).replace(' ', "@")));
    match &mut img {
        Img::Init(im) => {
            let fin = match catch(|| im.finalize().map_err(|e| err_word(&*e))) {
                Ok(Ok(())) => "ok".to_string(),
                Ok(Err(e)) => format!("err:{}", e),
                Err(p) => site(&p).replace(' ', "@"),
            };
            let st = format!("{}:{}", status_of(im), facts(im));
            let frames = im.num_loaded_frames();
            let mut jpeg = Vec::new();
            let rec = match catch(|| im.reconstruct_jpeg(&mut jpeg).map_err(|e| err_word(&*e))) {
                Ok(Ok(())) => format!("ok:{}", jpeg.len()),
                Ok(Err(e)) => format!("err:{}", e),
                Err(p) => site(&p).replace(' ', "@"),
            };
            out.push_str(&format!(" fin={} status={} frames={} recon={}", fin, st, frames, rec));
        }
        _ => out.push_str(" fin=- status=U frames=0 recon=-"),
    }
    out
}

fn main() {
    install_quiet_panic_hook();
    let st = (jbr::verif::BitWriter::new(), 0usize);
    line_loop(st, |st, w| {
        let res: Option<String> = (|| match w {
            ["bw", "new"] => {
                *st = (jbr::verif::BitWriter::new(), 0);
                Some(format!("ok {}", bw_state(&st.0, &mut st.1)))
            }
            ["bw", k @ ("h" | "r"), bits, len] => {
                let bits = u64::from_str_radix(bits, 16).ok()?;
                let len: u8 = len.parse().ok()?;
                let wr = &mut st.0;
                let r = catch(|| {
                    if *k == "h" {
                        wr.write_huffman(bits, len)
                    } else {
                        wr.write_raw(bits, len)
                    }
                });
                match r {
                    Ok(()) => Some(format!("ok {}", bw_state(&st.0, &mut st.1))),
                    Err(_) => {
                        // a panicking write leaves the writer half-updated; both sides restart
                        *st = (jbr::verif::BitWriter::new(), 0);
                        Some("panic".into())
                    }
                }
            }
            ["bw", "pad"] => Some(format!("ok {}", st.0.padding_bits())),
            ["bw", "fin"] => {
                let wr = std::mem::replace(&mut st.0, jbr::verif::BitWriter::new());
                st.1 = 0;
                match catch(move || wr.finalize()) {
                    Ok(v) => Some(format!("ok {}", hex(&v))),
                    Err(_) => Some("panic".into()),
                }
            }
            ["ff", v] => {
                let v = u64::from_str_radix(v, 16).ok()?;
                Some(format!("{}", jbr::verif::has_ff_byte(v)))
            }
            ["huff", rest @ ..] => {
                if rest.len() < 17 {
                    return None;
                }
                let nums: Option<Vec<u8>> = rest.iter().map(|s| s.parse::<u8>().ok()).collect();
                let nums = nums?;
                let mut counts = [0u8; 17];
                counts.copy_from_slice(&nums[..17]);
                let values = nums[17..].to_vec();
                match catch(move || {
                    let t = jbr::verif::HuffmanTable::build(counts, values);
                    let mut s = String::from("ok");
                    for sym in 0..=255u8 {
                        if let Some((len, bits)) = t.lookup(sym) {
                            s.push_str(&format!(" {}:{}:{:016x}", sym, len, bits));
                        }
                    }
                    s
                }) {
                    Ok(s) => Some(s),
                    Err(_) => Some("panic".into()),
                }
            }
            ["jbrd", file, cuts @ ..] => {
                let file = unhex(file)?;
                let cuts: Option<Vec<usize>> = cuts.iter().map(|s| s.parse().ok()).collect();
                Some(run_jbrd(&file, &cuts?))
            }
            ["lens", payload] => {
                let payload = unhex(payload)?;
                match catch(|| match jbr::JpegBitstreamData::try_parse(&payload) {
                    Ok(Some(d)) => {
                        let h = d.header();
                        let am = jbr::verif::app_markers(h);
                        let ams: Vec<String> =
                            am.iter().map(|(t, l)| format!("{}:{}", t, l)).collect();
                        let lens = catch(|| jbr::verif::expected_lens(h));
                        let lens = match lens {
                            Ok((d, i, e, x)) => format!("data={} icc={} exif={} xmp={}", d, i, e, x),
                            Err(p) => site(&p).replace(' ', "@"),
                        };
                        format!("ok app={} {}", if ams.is_empty() { "-".into() } else { ams.join(",") }, lens)
                    }
                    Ok(None) => "need-more".into(),
                    Err(e) => format!("err:{}", err_word(&e)),
                }) {
                    Ok(s) => Some(s),
                    Err(p) => Some(site(&p).replace(' ', "@")),
                }
            }
            _ => None,
        })();
        res.unwrap_or_else(|| "bad-op".into())
    });
}
