//! C13 end to end: decode + render under an allocation limit, then drop everything and look at
//! the tracker: budget fully restored, tracked peak never above the limit, exhaustion is an Err.
//! `sweep <hex> <limit> [fail_from]` -> `<outcome> peak=<n> left=<n> outstanding=<n> allocs=<n>`
use jxl_oxide::{AllocTracker, JxlImage, JxlThreadPool};
use verif_harness::*;

fn sweep(bytes: &[u8], limit: usize, fail_from: usize) -> String {
    let tracker = AllocTracker::with_limit(limit);
    tracker.verif_fail_from(fail_from);
    let t2 = tracker.clone();
    let outcome = catch(move || {
        let image = JxlImage::builder()
            .pool(JxlThreadPool::none())
            .alloc_tracker(t2)
            .read(std::io::Cursor::new(bytes));
        let image = match image {
            Ok(i) => i,
            Err(e) => return format!("read-err-{}", err_class(&*e)),
        };
        let mut res = String::from("ok");
        let mut renders = Vec::new();
        for k in 0..image.num_loaded_keyframes() {
            match image.render_frame(k) {
                Ok(r) => renders.push(r),
                Err(e) => {
                    res = format!("render-err-{}", err_class(&*e));
                }
            }
        }
        drop(renders);
        drop(image);
        res
    });
    let outcome = match outcome {
        Ok(s) => s,
        Err(p) => p.replace(' ', "_"),
    };
    tracker.verif_fail_from(usize::MAX);
    format!(
        "{} peak={} left={} outstanding={} allocs={}",
        outcome,
        tracker.verif_peak_outstanding(),
        tracker.verif_bytes_left(),
        tracker.verif_outstanding(),
        tracker.verif_alloc_calls()
    )
}

fn main() {
    install_quiet_panic_hook();
    line_loop((), |_, w| match w {
        ["sweep", hexs, limit, rest @ ..] => {
            let Some(bytes) = unhex(hexs) else { return "bad-op".into() };
            let Ok(limit) = limit.parse::<usize>() else { return "bad-op".into() };
            let ff = rest.first().and_then(|x| x.parse().ok()).unwrap_or(usize::MAX);
            sweep(&bytes, limit, ff)
        }
        _ => "bad-op".into(),
    });
}
