//! C13 end to end: decode + render under an allocation limit, then drop everything and look at
//! the tracker: budget fully restored, tracked peak never above the limit, exhaustion is an Err.
//! `sweep <hex> <limit> [fail_from]` -> `<outcome> peak=<n> left=<n> outstanding=<n> allocs=<n>`
//! `feeds <hex> <limit> <chunk> [fail_from]`: the same through incremental feeding in chunks of
//! `chunk` bytes; after an error the caller KEEPS feeding the remaining chunks (errors counted),
//! then renders whatever keyframes are there and drops everything.
//! `retry <hex> <limit> <chunk> [fail_from]`: `feeds`, but a refused `JxlImage::feed_bytes` call is
//! repeated (same bytes) up to two more times; the answer ends ` held=<n> accepted=<0|1>`.
use jxl_oxide::{AllocTracker, InitializeResult, JxlImage, JxlThreadPool};
use verif_harness::*;

fn sweep(bytes: &[u8], limit: usize, fail_from: usize) -> String {
    let tracker = AllocTracker::with_limit(limit);
    tracker.verif_fail_from(fail_from);
    let t2 = tracker.clone();
    let outcome = catch(move || {
        let image = JxlImage::builder()
            .pool(JxlThreadPool::none())
            .alloc_tracker(t2)
            .read(std::io::Cursor::new(bytes));
        let image = match image {
            Ok(i) => i,
            Err(e) => return format!("read-err-{}", err_class(&*e)),
        };
        let mut res = String::from("ok");
        let mut renders = Vec::new();
        for k in 0..image.num_loaded_keyframes() {
            match image.render_frame(k) {
                Ok(r) => renders.push(r),
                Err(e) => {
                    res = format!("render-err-{}", err_class(&*e));
                }
            }
        }
        drop(renders);
        drop(image);
        res
    });
    let outcome = match outcome {
        Ok(s) => s,
        Err(p) => p.replace(' ', "_"),
    };
    tracker.verif_fail_from(usize::MAX);
    format!(
        "{} peak={} left={} outstanding={} allocs={}",
        outcome,
        tracker.verif_peak_outstanding(),
        tracker.verif_bytes_left(),
        tracker.verif_outstanding(),
        tracker.verif_alloc_calls()
    )
}

fn feeds(bytes: &[u8], limit: usize, chunk: usize, fail_from: usize) -> String {
    feeds_retry(bytes, limit, chunk, fail_from, 0).0
}

/// `retry`: the caller repeats a refused `feed_bytes` call (same bytes) up to `retries` times before
/// it gives the chunk up. Second component: ` held=<tracked bytes after feeding, nothing rendered
/// yet> accepted=<1 if the last attempt of every call succeeded>`.
fn feeds_retry(bytes: &[u8], limit: usize, chunk: usize, fail_from: usize, retries: usize) -> (String, String) {
    let tracker = AllocTracker::with_limit(limit);
    tracker.verif_fail_from(fail_from);
    let t2 = tracker.clone();
    let t3 = tracker.clone();
    let held = std::sync::Mutex::new(String::new());
    let held_ref = &held;
    let outcome = catch(move || {
        let mut uninit = Some(
            JxlImage::builder()
                .pool(JxlThreadPool::none())
                .alloc_tracker(t2)
                .build_uninit(),
        );
        let mut image: Option<JxlImage> = None;
        let mut errs = 0usize;
        let mut gave_up = false;
        let mut first = String::new();
        let mut pending: Vec<u8> = Vec::new();
        for c in bytes.chunks(chunk.max(1)) {
            pending.extend_from_slice(c);
            if let Some(img) = image.as_mut() {
                let mut attempt = 0;
                loop {
                    match img.feed_bytes(&pending) {
                        Ok(n) => {
                            pending.drain(..n.min(pending.len()));
                            break;
                        }
                        Err(e) => {
                            errs += 1;
                            if first.is_empty() {
                                first = format!("feed-err-{}", err_class(&*e));
                            }
                            if attempt < retries {
                                attempt += 1;
                                continue;
                            }
                            gave_up = true;
                            pending.clear();
                            break;
                        }
                    }
                }
            } else if let Some(mut u) = uninit.take() {
                match u.feed_bytes(&pending) {
                    Ok(n) => {
                        pending.drain(..n.min(pending.len()));
                    }
                    Err(e) => {
                        errs += 1;
                        gave_up = true;
                        if first.is_empty() {
                            first = format!("feed-err-{}", err_class(&*e));
                        }
                        pending.clear();
                    }
                }
                match u.try_init() {
                    Ok(InitializeResult::NeedMoreData(u)) => uninit = Some(u),
                    Ok(InitializeResult::Initialized(img)) => image = Some(img),
                    Err(e) => {
                        if first.is_empty() {
                            first = format!("init-err-{}", err_class(&*e));
                        }
                        return first;
                    }
                }
            }
        }
        let Some(image) = image else {
            return if first.is_empty() { "uninit".into() } else { first };
        };
        *held_ref.lock().unwrap() = format!(" held={} accepted={}", t3.verif_outstanding(), !gave_up as u8);
        let mut renders = Vec::new();
        for k in 0..image.num_loaded_keyframes() {
            match image.render_frame(k) {
                Ok(r) => renders.push(r),
                Err(e) => {
                    if first.is_empty() {
                        first = format!("render-err-{}", err_class(&*e));
                    }
                }
            }
        }
        drop(renders);
        drop(image);
        if first.is_empty() { "ok".into() } else { format!("{}-x{}", first, errs) }
    });
    let outcome = match outcome {
        Ok(s) => s,
        Err(p) => p.replace(' ', "_"),
    };
    tracker.verif_fail_from(usize::MAX);
    let held = held.lock().unwrap().clone();
    (
        format!(
            "{} peak={} left={} outstanding={} allocs={}",
            outcome,
            tracker.verif_peak_outstanding(),
            tracker.verif_bytes_left(),
            tracker.verif_outstanding(),
            tracker.verif_alloc_calls()
        ),
        held,
    )
}

fn main() {
    install_quiet_panic_hook();
    line_loop((), |_, w| match w {
        ["sweep", hexs, limit, rest @ ..] => {
            let Some(bytes) = unhex(hexs) else { return "bad-op".into() };
            let Ok(limit) = limit.parse::<usize>() else { return "bad-op".into() };
            let ff = rest.first().and_then(|x| x.parse().ok()).unwrap_or(usize::MAX);
            sweep(&bytes, limit, ff)
        }
        ["feeds", hexs, limit, chunk, rest @ ..] => {
            let Some(bytes) = unhex(hexs) else { return "bad-op".into() };
            let Ok(limit) = limit.parse::<usize>() else { return "bad-op".into() };
            let Ok(chunk) = chunk.parse::<usize>() else { return "bad-op".into() };
            let ff = rest.first().and_then(|x| x.parse().ok()).unwrap_or(usize::MAX);
            feeds(&bytes, limit, chunk, ff)
        }
        ["retry", hexs, limit, chunk, rest @ ..] => {
            let Some(bytes) = unhex(hexs) else { return "bad-op".into() };
            let Ok(limit) = limit.parse::<usize>() else { return "bad-op".into() };
            let Ok(chunk) = chunk.parse::<usize>() else { return "bad-op".into() };
            let ff = rest.first().and_then(|x| x.parse().ok()).unwrap_or(usize::MAX);
            let (a, b) = feeds_retry(&bytes, limit, chunk, ff, 2);
            a + &b
        }
        _ => "bad-op".into(),
    });
}
