//! C15 correspondence: every output form of a rendered keyframe.
//!
//! `render <hex> region=full|L,T,W,H spot=0|1 chunks=<spec>;<spec>.. [wide=0|1]`
//!   `<spec>`: `W` (one buffer larger than the image), `R` (one row per call) or a comma list of
//!   buffer sizes that is cycled.
//! Answer (one line):
//! ```text
//! ok IW IH ORIENT PFCH PFBLACK PFALPHA K
//!   { U N { i BITS|f BITS  TY [R G B S]  W H data.. }*N | U kerr CLASS | U panic SITE }*K     unoriented, full region
//!   { K IL.. PL.. ST.. | K kerr CLASS }*K                                                   requested region
//! GR N {W H}*N               sizes of the grids held by the render (coverage information only)
//! IL W H CH data..           image_all_channels   (f32 bit patterns)
//! PL N { W H CH data.. }*N   image_planar
//! ST A T S W H CH NCALLS counts.. DIRTY TOTAL data..   stream (A=1) / stream_no_alpha (A=0), T = f|h|b, S = spec index
//! ```
//! Any record body may be `panic <site>` instead.
//! `loading <hex> cut=<n> region=.. chunks=..`: the same for `render_loading_frame()` after the
//! first `n` bytes (one keyframe record; `skip <why>` when nothing can be rendered yet).
use jxl_oxide::{CropInfo, ExtraChannelType, FrameBufferSample, ImageStream, JxlImage, JxlThreadPool, Render};
use jxl_render::ImageBuffer;
use std::fmt::Write;
use verif_harness::*;

#[derive(Clone)]
enum Spec {
    Whole,
    Rows,
    List(Vec<usize>),
}

fn dump_unoriented(r: &Render, color_bits: u32, ec_bits: &[u32], out: &mut String) {
    let (ecs, ecb) = r.extra_channels();
    let cc = r.color_channels();
    write!(out, " U {}", cc.len() + ecb.len()).unwrap();
    let one = |b: &ImageBuffer, bits: u32, ty: String, out: &mut String| match b {
        ImageBuffer::I32(g) => {
            write!(out, " i {} {} {} {}", bits, ty, g.width(), g.height()).unwrap();
            for v in g.buf() {
                write!(out, " {}", v).unwrap();
            }
        }
        ImageBuffer::I16(g) => {
            write!(out, " i {} {} {} {}", bits, ty, g.width(), g.height()).unwrap();
            for v in g.buf() {
                write!(out, " {}", v).unwrap();
            }
        }
        ImageBuffer::F32(g) => {
            write!(out, " f {} {} {} {}", bits, ty, g.width(), g.height()).unwrap();
            for v in g.buf() {
                write!(out, " {}", v.to_bits()).unwrap();
            }
        }
    };
    for b in cc {
        one(b, color_bits, "c".into(), out);
    }
    for (i, b) in ecb.iter().enumerate() {
        let ty = match ecs.get(i).map(|e| e.ty()) {
            Some(ExtraChannelType::Alpha { .. }) => "0".to_string(),
            Some(ExtraChannelType::Depth) => "1".into(),
            Some(ExtraChannelType::SpotColour { red, green, blue, solidity }) => format!(
                "2 {} {} {} {}",
                red.to_bits(),
                green.to_bits(),
                blue.to_bits(),
                solidity.to_bits()
            ),
            Some(ExtraChannelType::SelectionMask) => "3".into(),
            Some(ExtraChannelType::Black) => "4".into(),
            Some(ExtraChannelType::Cfa { .. }) => "5".into(),
            Some(ExtraChannelType::Thermal) => "6".into(),
            Some(ExtraChannelType::NonOptional) => "15".into(),
            Some(ExtraChannelType::Optional) => "16".into(),
            None => "?".into(),
        };
        one(b, ec_bits.get(i).copied().unwrap_or(0), ty, out);
    }
}

fn run_stream<S: FrameBufferSample + Clone>(
    mut st: ImageStream<'_>,
    spec: &Spec,
    sentinel: S,
    conv: fn(&S) -> u32,
    out: &mut String,
) {
    let (w, h, ch) = (st.width() as usize, st.height() as usize, st.channels() as usize);
    let total = w * h * ch;
    let mut counts = Vec::new();
    let mut data: Vec<u32> = Vec::new();
    let mut dirty = 0u32;
    let mut k = 0usize;
    let max_calls = total + 24;
    loop {
        let size = match spec {
            Spec::Whole => total + 5,
            Spec::Rows => (w * ch).max(1),
            Spec::List(l) => l[k % l.len()],
        };
        k += 1;
        let mut buf = vec![sentinel.clone(); size];
        let n = st.write_to_buffer(&mut buf);
        counts.push(n);
        if n > size {
            dirty |= 2;
        }
        for v in buf.iter().take(n.min(size)) {
            data.push(conv(v));
        }
        // (for f32 the sentinel is a NaN: compare by bits)
        if buf.iter().skip(n.min(size)).any(|v| conv(v) != conv(&sentinel)) {
            dirty |= 1;
        }
        let nonzero = counts.iter().filter(|c| **c > 0).count();
        if (size > 0 && n < size) || nonzero >= max_calls || counts.len() >= 8 * total + 64 {
            break;
        }
    }
    // one more call after the end: must write nothing
    let mut buf = vec![sentinel.clone(); 2];
    let n = st.write_to_buffer(&mut buf);
    counts.push(n);
    if buf.iter().any(|v| conv(v) != conv(&sentinel)) {
        dirty |= 4;
    }
    write!(out, " {} {} {} {}", w, h, ch, counts.len()).unwrap();
    for c in &counts {
        write!(out, " {}", c).unwrap();
    }
    write!(out, " {} {}", dirty, data.len()).unwrap();
    for v in &data {
        write!(out, " {}", v).unwrap();
    }
}

fn dump_forms(r: &Render, specs: &[Spec], out: &mut String) {
    // interleaved
    match catch(|| {
        let fb = r.image_all_channels();
        let mut s = format!(" {} {} {}", fb.width(), fb.height(), fb.channels());
        for v in fb.buf() {
            write!(s, " {}", v.to_bits()).unwrap();
        }
        s
    }) {
        Ok(s) => {
            out.push_str(" IL");
            out.push_str(&s)
        }
        Err(p) => write!(out, " IL {}", p).unwrap(),
    }
    match catch(|| {
        let v = r.image_planar();
        let mut s = format!(" {}", v.len());
        for fb in &v {
            write!(s, " {} {} {}", fb.width(), fb.height(), fb.channels()).unwrap();
            for v in fb.buf() {
                write!(s, " {}", v.to_bits()).unwrap();
            }
        }
        s
    }) {
        Ok(s) => {
            out.push_str(" PL");
            out.push_str(&s)
        }
        Err(p) => write!(out, " PL {}", p).unwrap(),
    }
    for alpha in [1u32, 0] {
        for ty in ['f', 'h', 'b'] {
            for (si, spec) in specs.iter().enumerate() {
                let res = catch(|| {
                    let st = if alpha == 1 { r.stream() } else { r.stream_no_alpha() };
                    let mut s = String::new();
                    match ty {
                        'f' => run_stream::<f32>(st, spec, f32::from_bits(0x7fc0_1234), |v| v.to_bits(), &mut s),
                        'h' => run_stream::<u16>(st, spec, 0xabcd, |v| *v as u32, &mut s),
                        _ => run_stream::<u8>(st, spec, 0xab, |v| *v as u32, &mut s),
                    }
                    s
                });
                write!(out, " ST {} {} {}", alpha, ty, si).unwrap();
                match res {
                    Ok(s) => out.push_str(&s),
                    Err(p) => write!(out, " {}", p).unwrap(),
                }
            }
        }
    }
}

fn render(bytes: &[u8], region: Option<CropInfo>, spot: Option<bool>, specs: &[Spec], wide: bool) -> String {
    let image = JxlImage::builder()
        .pool(JxlThreadPool::none())
        .force_wide_buffers(wide)
        .alloc_tracker(jxl_oxide::AllocTracker::with_limit(1 << 30))
        .read(std::io::Cursor::new(bytes));
    let mut image = match image {
        Ok(i) => i,
        Err(e) => return format!("err read {}", err_class(&*e)),
    };
    if let Some(s) = spot {
        image.set_render_spot_color(s);
    }
    let pf = image.pixel_format();
    let nk = image.num_loaded_keyframes();
    let color_bits = image.image_header().metadata.bit_depth.bits_per_sample();
    // ExtraChannel does not expose its bit depth: read it from the header
    let ec_bits: Vec<u32> =
        image.image_header().metadata.ec_info.iter().map(|e| e.bit_depth.bits_per_sample()).collect();
    let mut out = format!(
        "ok {} {} {} {} {} {} {}",
        image.width(),
        image.height(),
        image.image_header().metadata.orientation,
        pf.channels(),
        pf.has_black() as u32,
        pf.has_alpha() as u32,
        nk
    );
    // a render that panicked can leave its frame handle wedged (finding F2): never render it again
    let mut wedged: Vec<Option<String>> = vec![None; nk];
    for k in 0..nk {
        match catch(|| image.render_frame(k)) {
            Err(p) => {
                write!(out, " U {}", p).unwrap();
                wedged[k] = Some(p);
            }
            Ok(Err(e)) => write!(out, " U kerr {}", err_class(&*e)).unwrap(),
            Ok(Ok(r)) => {
                dump_unoriented(&r, color_bits, &ec_bits, &mut out);
            }
        }
    }
    if let Some(c) = region {
        image.set_image_region(c);
    }
    for k in 0..nk {
        if let Some(p) = &wedged[k] {
            write!(out, " K {}", p).unwrap();
            continue;
        }
        if wedged.iter().any(|w| w.is_some()) && region.is_none() {
            // other keyframes may depend on the wedged one
            write!(out, " K kerr skipped").unwrap();
            continue;
        }
        match catch(|| image.render_frame(k)) {
            Err(p) => write!(out, " K {}", p).unwrap(),
            Ok(Err(e)) => write!(out, " K kerr {}", err_class(&*e)).unwrap(),
            Ok(Ok(r)) => {
                write!(out, " K {}", r.orientation()).unwrap();
                // sizes of the grids this (possibly cropped) render holds: coverage information
                let (_, ecb) = r.extra_channels();
                write!(out, " GR {}", r.color_channels().len() + ecb.len()).unwrap();
                for b in r.color_channels().iter().chain(ecb.iter()) {
                    let (w, h) = match b {
                        ImageBuffer::F32(g) => (g.width(), g.height()),
                        ImageBuffer::I32(g) => (g.width(), g.height()),
                        ImageBuffer::I16(g) => (g.width(), g.height()),
                    };
                    write!(out, " {} {}", w, h).unwrap();
                }
                dump_forms(&r, specs, &mut out);
            }
        }
    }
    out
}

/// `loading <hex> cut=<n> region=.. chunks=.. [wide=]`: the first `n` bytes are fed, then
/// `render_loading_frame()` is asked twice: with the full image as region (its grids are the
/// unoriented reference, record `U`) and with the requested region (record `K`, all output forms).
/// Same answer format as `render` with one keyframe; `skip <why>` when there is nothing to render.
fn loading(bytes: &[u8], cut: usize, region: Option<CropInfo>, specs: &[Spec], wide: bool) -> String {
    let mut uninit = JxlImage::builder()
        .pool(JxlThreadPool::none())
        .force_wide_buffers(wide)
        .alloc_tracker(jxl_oxide::AllocTracker::with_limit(1 << 30))
        .build_uninit();
    let cut = cut.min(bytes.len());
    if let Err(e) = uninit.feed_bytes(&bytes[..cut]) {
        return format!("skip feed-{}", err_class(&*e));
    }
    let mut image = match uninit.try_init() {
        Ok(jxl_oxide::InitializeResult::Initialized(i)) => i,
        Ok(jxl_oxide::InitializeResult::NeedMoreData(_)) => return "skip uninit".into(),
        Err(e) => return format!("skip init-{}", err_class(&*e)),
    };
    let pf = image.pixel_format();
    let color_bits = image.image_header().metadata.bit_depth.bits_per_sample();
    let ec_bits: Vec<u32> =
        image.image_header().metadata.ec_info.iter().map(|e| e.bit_depth.bits_per_sample()).collect();
    let mut out = format!(
        "ok {} {} {} {} {} {} 1",
        image.width(),
        image.height(),
        image.image_header().metadata.orientation,
        pf.channels(),
        pf.has_black() as u32,
        pf.has_alpha() as u32,
    );
    match catch(std::panic::AssertUnwindSafe(|| image.render_loading_frame())) {
        Err(p) => return format!("{} U {}", out, p),
        Ok(Err(e)) => return format!("skip loading-{}", err_class(&*e)),
        Ok(Ok(r)) => dump_unoriented(&r, color_bits, &ec_bits, &mut out),
    }
    if let Some(c) = region {
        image.set_image_region(c);
    }
    match catch(std::panic::AssertUnwindSafe(|| image.render_loading_frame())) {
        Err(p) => write!(out, " K {}", p).unwrap(),
        Ok(Err(e)) => write!(out, " K kerr {}", err_class(&*e)).unwrap(),
        Ok(Ok(r)) => {
            write!(out, " K {}", r.orientation()).unwrap();
            let (_, ecb) = r.extra_channels();
            write!(out, " GR {}", r.color_channels().len() + ecb.len()).unwrap();
            for b in r.color_channels().iter().chain(ecb.iter()) {
                let (w, h) = match b {
                    ImageBuffer::F32(g) => (g.width(), g.height()),
                    ImageBuffer::I32(g) => (g.width(), g.height()),
                    ImageBuffer::I16(g) => (g.width(), g.height()),
                };
                write!(out, " {} {}", w, h).unwrap();
            }
            dump_forms(&r, specs, &mut out);
        }
    }
    out
}

fn parse_specs(s: &str) -> Option<Vec<Spec>> {
    s.split(';')
        .map(|p| match p {
            "W" => Some(Spec::Whole),
            "R" => Some(Spec::Rows),
            l => {
                let v: Option<Vec<usize>> = l.split(',').map(|x| x.parse().ok()).collect();
                let v = v?;
                if v.is_empty() || v.iter().all(|x| *x == 0) {
                    return None;
                }
                Some(Spec::List(v))
            }
        })
        .collect()
}

fn main() {
    install_quiet_panic_hook();
    line_loop((), |_, w| match w {
        [op @ ("render" | "loading"), hexs, rest @ ..] => {
            let Some(bytes) = unhex(hexs) else { return "bad-op".into() };
            let mut cut = usize::MAX;
            let mut region = None;
            let mut spot = None;
            let mut specs = vec![Spec::Whole];
            let mut wide = false;
            for r in rest {
                if let Some(v) = r.strip_prefix("region=") {
                    if v != "full" {
                        let p: Vec<u32> = v.split(',').filter_map(|x| x.parse().ok()).collect();
                        if p.len() != 4 {
                            return "bad-op".into();
                        }
                        region = Some(CropInfo { left: p[0], top: p[1], width: p[2], height: p[3] });
                    }
                } else if let Some(v) = r.strip_prefix("spot=") {
                    spot = Some(v == "1");
                } else if let Some(v) = r.strip_prefix("chunks=") {
                    match parse_specs(v) {
                        Some(s) => specs = s,
                        None => return "bad-op".into(),
                    }
                } else if let Some(v) = r.strip_prefix("wide=") {
                    wide = v == "1";
                } else if let Some(v) = r.strip_prefix("cut=") {
                    cut = v.parse().unwrap_or(usize::MAX);
                }
            }
            if *op == "loading" {
                return match catch(|| loading(&bytes, cut, region, &specs, wide)) {
                    Ok(s) => s,
                    Err(p) => p,
                };
            }
            match catch(|| render(&bytes, region, spot, &specs, wide)) {
                Ok(s) => s,
                Err(p) => p,
            }
        }
        _ => "bad-op".into(),
    });
}
