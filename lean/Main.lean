import JxlModel.Driver.C13
import JxlModel.Driver.Enc
import JxlModel.Driver.C10
import JxlModel.Driver.C02
import JxlModel.Driver.C19
import JxlModel.Driver.C17
import JxlModel.Driver.C14
import JxlModel.Driver.C18
import JxlModel.Driver.C16
import JxlModel.Driver.C06
import JxlModel.Driver.C04
import JxlModel.Driver.C15
import JxlModel.Driver.C05
import JxlModel.Driver.C12
import JxlModel.Driver.C08
import JxlModel.Driver.C09
import JxlModel.Driver.C07

def main (args : List String) : IO UInt32 := do
  match args with
  | ["c13"] => Jxl.Driver.C13.main; return 0
  | ["enc"] => Jxl.Driver.Enc.main; return 0
  | ["c10"] => Jxl.Driver.C10.main; return 0
  | ["c02"] => Jxl.Driver.C02.main .checked; return 0
  | ["c02", "wrapping"] => Jxl.Driver.C02.main .wrapping; return 0
  | ["c19"] => Jxl.Driver.C19.main; return 0
  | ["c17"] => Jxl.Driver.C17.main; return 0
  | ["c14"] => Jxl.Driver.C14.main; return 0
  | ["hdrenc"] => Jxl.Driver.C14.mainEnc; return 0
  | ["c18"] => Jxl.Driver.C18.main; return 0
  | ["c16"] => Jxl.Driver.C16.main false; return 0
  | ["c16", "alg"] => Jxl.Driver.C16.main true; return 0
  | ["c06"] => Jxl.Driver.C06.main; return 0
  | ["c04"] => Jxl.Driver.C04.main; return 0
  | ["c04enc"] => Jxl.Driver.C04.mainEnc; return 0
  | ["c15"] => Jxl.Driver.C15.main; return 0
  | ["c05"] => Jxl.Driver.C05.main; return 0
  | ["c12"] => Jxl.Driver.C12.main; return 0
  | ["c08"] => Jxl.Driver.C08.main; return 0
  | ["c20"] => Jxl.Driver.C08.main; return 0
  | ["c09"] => Jxl.Driver.C09.main; return 0
  | ["c11"] => Jxl.Driver.C09.mainC11; return 0
  | ["c07"] => Jxl.Driver.C07.main; return 0
  | _ => IO.eprintln "usage: jxlmodel <component>"; return 2
