/-!
# JPEG bit writer, Huffman table builder and reconstruction status (`jxl-jbr`, `jxl-oxide`)

Mirrors `crates/jxl-jbr/src/bit_writer.rs`, `crates/jxl-jbr/src/huffman.rs`
(`HuffmanCode::build`, `BuiltHuffmanTable::lookup`), the `expected_*_len` accessors of
`crates/jxl-jbr/src/lib.rs` and the decision logic of
`JxlImage::jpeg_reconstruction_status` / `AuxBoxList::jbrd` in `crates/jxl-oxide`.

Checked-build semantics: a shift by `>= 64`, a `u8`/`usize` subtraction below zero or an
out-of-range index is a panic and is modelled as `none`.
-/
namespace Jxl.JpegBits

abbrev Byte := BitVec 8

/-! ## `bit_writer.rs` -/

/-- `fn has_ff_byte(val: u64) -> bool`:
`((!val).wrapping_sub(0x0101..01) & val & 0x8080..80) != 0`. -/
def hasFFByte (v : BitVec 64) : Bool :=
  ((~~~v - 0x0101010101010101#64) &&& v &&& 0x8080808080808080#64) != 0#64

/-- `struct BitWriter { output, buf, valid_buf_bits }` -/
structure BW where
  output : List Byte
  buf : BitVec 64
  valid : Nat
  deriving Repr, DecidableEq

/-- `BitWriter::new` -/
def BW.new : BW := { output := [], buf := 0#64, valid := 0 }

/-- `fn emit_byte`: push the byte, then a zero after `0xff`. -/
def emitByte (out : List Byte) (b : Byte) : List Byte :=
  if b = 0xFF#8 then out ++ [b, 0#8] else out ++ [b]

/-- `(out >> ((7 - idx) * 8)) as u8` -/
def byteOf (v : BitVec 64) (idx : Nat) : Byte := (v >>> ((7 - idx) * 8)).setWidth 8

/-- `out.to_be_bytes()` -/
def beBytes (v : BitVec 64) : List Byte := (List.range 8).map (byteOf v)

/-- `fn flush_buf(&mut self, next_buf)`; the caller has already added to `valid_buf_bits`. -/
def flushBuf (s : BW) (next : BitVec 64) : BW :=
  let out := s.buf
  { output :=
      if !hasFFByte out then s.output ++ beBytes out
      else (beBytes out).foldl emitByte s.output
    buf := next
    valid := s.valid - 64 }

/-- `fn write_huffman(&mut self, bits: u64, len: u8)`; `bits` is left-aligned.
`none` = panic of a checked build: `bits >> valid_buf_bits` with `valid_buf_bits >= 64`
(never, by the invariant), `bits << (len - extra)` with `len - extra = 64`
(exactly when `len = 64` is written into an empty accumulator). -/
def writeHuffman (s : BW) (bits : BitVec 64) (len : Nat) : Option BW :=
  if s.valid ≥ 64 then none
  else
    let buf := s.buf ||| (bits >>> s.valid)
    let valid := s.valid + len
    if valid ≥ 64 then
      let extra := valid - 64
      if extra > len then none
      else
        let sh := len - extra
        if sh ≥ 64 then none
        else some (flushBuf { s with buf := buf, valid := valid } (bits <<< sh))
    else some { s with buf := buf, valid := valid }

/-- `fn write_raw(&mut self, bits: u64, len: u8)`; `bits` is right-aligned. `64 - len` on `u8`
panics for `len > 64`. -/
def writeRaw (s : BW) (bits : BitVec 64) (len : Nat) : Option BW :=
  if len = 0 then some s
  else if len > 64 then none
  else writeHuffman s (bits <<< (64 - len)) len

/-- `fn padding_bits(&self)` -/
def paddingBits (s : BW) : Nat := (8 - s.valid % 8) % 8

/-- `fn finalize(self) -> Vec<u8>` -/
def finalize (s : BW) : List Byte :=
  let validBytes := (s.valid + 7) / 8
  if validBytes = 0 then s.output
  else if !hasFFByte s.buf then s.output ++ (beBytes s.buf).take validBytes
  else ((List.range validBytes).map (byteOf s.buf)).foldl emitByte s.output

/-- One call on the writer. -/
inductive Op where
  /-- `write_huffman(bits, len)` -/
  | huff (bits : BitVec 64) (len : Nat)
  /-- `write_raw(bits, len)` -/
  | raw (bits : BitVec 64) (len : Nat)
  deriving Repr, DecidableEq

def Op.len : Op → Nat
  | .huff _ l => l
  | .raw _ l => l

def step (s : BW) : Op → Option BW
  | .huff bits len => writeHuffman s bits len
  | .raw bits len => writeRaw s bits len

/-- A sequence of calls starting from a given writer; `none` as soon as one call panics. -/
def runFrom (s : BW) : List Op → Option BW
  | [] => some s
  | op :: ops =>
    match step s op with
    | none => none
    | some s' => runFrom s' ops

def run (ops : List Op) : Option BW := runFrom BW.new ops

/-! ### Spec: what the writer is for

The bit string of a call is the code word MSB first; the file content is the concatenation of
the bit strings, padded with zero bits to a whole byte, packed big-endian into bytes, with a
`0x00` stuffed after every `0xFF` (ITU-T T.81 F.1.2.3). -/

/-- Bits contributed by one call, first-written first. -/
def opBits : Op → List Bool
  | .huff bits len => (List.range len).map (fun i => bits.getMsbD i)
  | .raw bits len => (List.range len).map (fun i => bits.getLsbD (len - 1 - i))

def specBits (ops : List Op) : List Bool := ops.flatMap opBits

def padZero (l : List Bool) : List Bool := l ++ List.replicate ((8 - l.length % 8) % 8) false

/-- The byte whose bit `j` (counted from the most significant) is `f j`. -/
def bitsToByte (f : Nat → Bool) : Byte :=
  BitVec.ofNat 8 ((List.range 8).foldl (fun acc j => 2 * acc + (f j).toNat) 0)

/-- Big-endian packing of whole bytes (a trailing partial byte is dropped; `padZero` first). -/
def packBE (l : List Bool) : List Byte :=
  (List.range (l.length / 8)).map (fun k => bitsToByte (fun j => l.getD (8 * k + j) false))

def stuff (bs : List Byte) : List Byte := bs.flatMap (fun b => if b = 0xFF#8 then [b, 0#8] else [b])

def spec (ops : List Op) : List Byte := stuff (packBE (padZero (specBits ops)))

/-- Precondition of `write_huffman` that its callers maintain (`HuffmanCode::build` shifts every
code to the top): nothing below the top `len` bits. `write_raw` needs nothing. -/
def Op.WF : Op → Prop
  | .huff bits len => len ≤ 64 ∧ ∀ i, len ≤ i → bits.getMsbD i = false
  | .raw _ _ => True

/-! ## `huffman.rs` -/

/-- The `lengths` vector after the fill loop: `counts[len]` entries of value `len` for
`len = 0..16` in order, the rest of the `values.len()` slots stay `0`.
`split_at_mut(count)` panics when the counts exceed the slots. -/
def fillLengths (counts : List Nat) (n : Nat) : Option (List Nat) :=
  let filled := (List.range counts.length).flatMap (fun len => List.replicate (counts.getD len 0) len)
  if filled.length > n then none else some (filled ++ List.replicate (n - filled.length) 0)

/-- The code-assignment loop: `(left-aligned bits)` per entry; `none` = panic
(`64 - len` is a shift by 64 for `len = 0`; `len - prev_len` underflows on `u8`). -/
def assignCodes : (lengths : List Nat) → (nextCode prevLen : Nat) → Option (List (BitVec 64))
  | [], _, _ => some []
  | len :: rest, nextCode, prevLen =>
    if len = 0 ∨ len > 64 then none
    else if len < prevLen then none
    else
      let nextCode := if len ≠ prevLen then nextCode <<< (len - prevLen) else nextCode
      match assignCodes rest (nextCode + 1) len with
      | none => none
      | some bits => some (BitVec.ofNat 64 nextCode <<< (64 - len) :: bits)

structure Table where
  /-- `reordered_lengths`, 256 entries -/
  lengths : List Nat
  /-- `reordered_bits`, 256 entries -/
  bits : List (BitVec 64)
  deriving Repr, DecidableEq

/-- the scatter loop `reordered_*[value] = ..` over `zip(values, zip(lengths, bits))` -/
def scatter : List Nat → List Nat → List (BitVec 64) → Table → Table
  | v :: vs, l :: ls, b :: bs, t =>
    scatter vs ls bs { lengths := t.lengths.set v l, bits := t.bits.set v b }
  | _, _, _, t => t

/-- `HuffmanCode::build` on `(counts[0..17], values)`; `none` = panic. (`HuffmanCode::parse` rejects
`counts[0] ≠ 0` and an empty value list since /repo cbf2128; `build` itself is reached with anything
only through hook H6.) -/
def build (counts values : List Nat) : Option Table :=
  match fillLengths counts values.length with
  | none => none
  | some lengths =>
    let lengths := lengths.dropLast          -- `lengths.pop()`
    match lengths with
    | [] =>                                   -- no code besides the end marker: an empty table
      some { lengths := List.replicate 256 0, bits := List.replicate 256 0#64 }
    | l0 :: _ =>
      match assignCodes lengths 0 l0 with
      | none => none
      | some bits =>
        some (scatter values lengths bits
          { lengths := List.replicate 256 0, bits := List.replicate 256 0#64 })

/-- `BuiltHuffmanTable::lookup` (`none` = `Err(HuffmanLookup)`) -/
def lookup (t : Table) (sym : Nat) : Option (Nat × BitVec 64) :=
  let len := t.lengths.getD sym 0
  if len = 0 then none else some (len, t.bits.getD sym 0#64)

/-! ### Spec: canonical JPEG code (ITU-T T.81 Annex C)

With code lengths `ls` in non-decreasing order, entry `k` gets the `ls[k]`-bit code whose value is
`Σ_{j<k} 2^(ls[k] - ls[j])`: the smallest value not having an earlier code as a prefix. -/

def canonCode (ls : List Nat) (k : Nat) : Nat :=
  ((ls.take k).map (fun lj => 2 ^ (ls.getD k 0 - lj))).sum

/-- sorted code lengths of a `counts` table (entry `len` of `counts` = number of codes of that
length, `len = 0..16`), without the final sentinel entry -/
def codeLengths (counts : List Nat) : List Nat :=
  ((List.range counts.length).flatMap (fun len => List.replicate (counts.getD len 0) len)).dropLast

/-- `2^16 · Σ 2^(-len)` over all entries including the sentinel -/
def kraftSum (counts : List Nat) : Nat :=
  ((List.range counts.length).map (fun len => counts.getD len 0 * 2 ^ (16 - len))).sum

/-- A table the jbrd format means to describe: 17 counts, none of length 0, as many values as
counts say (the last one being the sentinel), at least one real symbol, Kraft's inequality
(the sentinel included, so the all-ones code stays free), byte-sized distinct symbols. -/
structure ValidTable (counts values : List Nat) : Prop where
  len17 : counts.length = 17
  zero0 : counts.getD 0 0 = 0
  total : ((List.range 17).map (fun l => counts.getD l 0)).sum = values.length
  two : 2 ≤ values.length
  kraft : kraftSum counts ≤ 2 ^ 16
  bytes : ∀ v ∈ values, v < 256
  nodup : values.dropLast.Nodup

/-! ## `expected_*_len` and the status decision -/

/-- `AppMarker { ty, length }` -/
structure AppMarker where
  ty : Nat
  length : Nat
  deriving Repr, DecidableEq

def headerIccLen : Nat := 12   -- b"ICC_PROFILE\0"
def headerExifLen : Nat := 6   -- b"Exif\0\0"
def headerXmpLen : Nat := 29   -- b"http://ns.adobe.com/xap/1.0/\0"

/-- `usize` subtraction of a checked build -/
def subChk (a b : Nat) : Option Nat := if b ≤ a then some (a - b) else none

/-- `expected_icc_len`: sum of `length - 5 - 12` over markers of type 1 (`none` = underflow panic) -/
def expectedIccLen : List AppMarker → Option Nat
  | [] => some 0
  | am :: rest =>
    if am.ty = 1 then
      match subChk am.length (5 + headerIccLen), expectedIccLen rest with
      | some a, some b => some (a + b)
      | _, _ => none
    else expectedIccLen rest

/-- `expected_exif_len` / `expected_xmp_len`: first marker of the type, `length - 3 - header` -/
def expectedFirstLen (ty hdr : Nat) (ams : List AppMarker) : Option Nat :=
  match ams.find? (fun am => am.ty = ty) with
  | none => some 0
  | some am => subChk am.length (3 + hdr)

def expectedExifLen := expectedFirstLen 2 headerExifLen
def expectedXmpLen := expectedFirstLen 3 headerXmpLen

/-- The check `AppMarker::parse` makes after repair F4: a typed marker is at least as long as the
fixed part that is re-inserted for it; otherwise the header is rejected (`ValidationFailed`). -/
def appMarkerOk (am : AppMarker) : Bool :=
  match am.ty with
  | 1 => decide (5 + headerIccLen ≤ am.length)
  | 2 => decide (3 + headerExifLen ≤ am.length)
  | 3 => decide (3 + headerXmpLen ≤ am.length)
  | _ => true

/-- `AuxBoxData<_>` with the payload abstracted away -/
inductive Aux where
  | data | decoding | notFound
  deriving Repr, DecidableEq

/-- `JpegReconstructionStatus` -/
inductive Status where
  | available | invalid | unavailable | needMoreData
  /-- the status query itself panicked (`expected_*_len` underflow, F4) -/
  | panic
  deriving Repr, DecidableEq

/-- What `AuxBoxList::jbrd()` looks at (after repair: `Data` only once the box has ended and
`Jbrd::finalize` accepted the decompressed length). -/
structure JbrdArrival where
  headerParsed : Bool
  finalizedOk : Bool
  lastBox : Bool
  currentIsJbrd : Bool
  deriving Repr, DecidableEq

/-- `AuxBoxList::jbrd()` as repaired -/
def jbrdState (a : JbrdArrival) : Aux :=
  if a.headerParsed && a.finalizedOk then .data
  else if a.lastBox && !a.currentIsJbrd then .notFound
  else .decoding

/-- `AuxBoxList::jbrd()` as found: `Data` as soon as the header has been parsed -/
def jbrdStateOrig (a : JbrdArrival) : Aux :=
  if a.headerParsed then .data
  else if a.lastBox && !a.currentIsJbrd then .notFound
  else .decoding

/-- Everything `jpeg_reconstruction_status` inspects. -/
structure Facts where
  jbrd : Aux
  /-- APP markers of the parsed jbrd header (meaningful when `jbrd = data`) -/
  app : List AppMarker
  /-- `first_exif()` returned `Err` (Exif box shorter than its 4-byte offset field) -/
  exifErr : Bool
  exif : Aux
  xml : Aux
  /-- `colour_encoding.want_icc()` -/
  wantIcc : Bool
  /-- `original_icc().is_some()` -/
  hasIcc : Bool
  /-- `num_loaded_frames()` -/
  loadedFrames : Nat
  /-- `frame(0)`: `(encoding == VarDct, frame_type.is_normal_frame())` -/
  frame0 : Option (Bool × Bool)
  deriving Repr, DecidableEq

/-- `JxlImage::jpeg_reconstruction_frame_status` (the frame checks, shared by both branches after
repair; `available` = nothing wrong with the first frame as far as it is known) -/
def frameStatus (f : Facts) : Status :=
  if f.loadedFrames ≥ 2 then .invalid
  else
    match f.frame0 with
    | none => .needMoreData
    | some (isVarDct, isNormal) =>
      if !isVarDct then .invalid
      else if !isNormal then .invalid
      else .available

/-- `JxlImage::jpeg_reconstruction_status` -/
def status (f : Facts) : Status :=
  match f.jbrd with
  | .data =>
    if f.exifErr then .invalid
    else
      match expectedIccLen f.app with
      | none => .panic
      | some icc =>
        if icc > 0 && !f.wantIcc then .invalid
        else if icc > 0 && !f.hasIcc then .needMoreData
        else
          match expectedExifLen f.app with
          | none => .panic
          | some exif =>
            if exif > 0 && f.exif = .decoding then .needMoreData
            else if exif > 0 && f.exif = .notFound then .invalid
            else
              match expectedXmpLen f.app with
              | none => .panic
              | some xmp =>
                if xmp > 0 && f.xml = .decoding then .needMoreData
                else if xmp > 0 && f.xml = .notFound then .invalid
                else
                  match frameStatus f with
                  | .available => if f.loadedFrames = 0 then .needMoreData else .available
                  | s => s
  | .decoding =>
    match frameStatus f with
    | .available => .needMoreData
    | s => s
  | .notFound => .unavailable

end Jxl.JpegBits
