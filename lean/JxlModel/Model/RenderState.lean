/-!
# The frame render-handle protocol (C08, C20)

Model of `jxl-render/src/state.rs` (`FrameRenderHandle`: `start_render`, `start_render_silent`,
`wait_until_render`, `done_render`, `run_with_image`, `run`, `reset`), `jxl-render/src/image.rs`
(`RenderedImage::blend`, `try_take_blended`), the reference walks of `jxl-render/src/blend.rs`
(`blend`) and `jxl-render/src/render.rs` (`render_frame`: LF fallback and patches), and of the
`RenderContext` entry points in `jxl-render/src/lib.rs` (`render_keyframe`,
`render_loading_keyframe`, `request_image_region` → `reset_cache`, `do_render`'s spawned
reference renders).

## Granularity

Every handle is a `Mutex<FrameRender>` plus a `Condvar`. In the code each critical section is
short and never nests another lock, so one *atomic step* of the model is: acquire one handle's
lock, do what the code does while holding it, release (or, for `Condvar::wait`, atomically release
and sleep). Lock-free work between two critical sections (the decode itself, compositing
arithmetic, tracked allocations) only touches thread-local data; it is merged into the adjacent
step, except that its possible *failure* is kept as an explicit `mayFail` item so that an
adversarial oracle can fail the operation between any two critical sections.

A thread is a stack of *activations* (`Act`), innermost first. An activation is the Rust stack
frame of something that has to finish with a handler: `run_with_image`/`run` between
`start_render*` and `done_render` (`Handler.op`), `RenderedImage::blend` between "mark
`Rendering`" and `done_render(Blended)` (`Handler.comp`), the direct render of the frame that is
still loading (`Handler.loadOp`, `Handler.loadComp`, no handle involved), or the caller itself
(`Handler.top`). `body` is what is left to do inside it. The `?` operator is `Thread.fail`:
drop the rest of the innermost body and hand the error to its handler.

Two semantics use the same step function `stepThread`:
* sequential (`runThread`, `runOp`, `runHist`): one caller, spawned reference renders run in place
  (`JxlThreadPool::none`), failures injected by an arbitrary oracle — C08;
* interleaving (`Sys`, `sysStep`, `sysWake`, `Reachable`): any number of threads, each either a
  `render_keyframe` caller or a background `run` spawned by `do_render` — C20.

## What is abstracted

* Pixel values are `Val := Nat`; the decode of frame `i` is `Codec.dec i ws` (a deterministic
  function of the frame and of the values `ws` it read from references inside `render_op`),
  `composite_preprocess` is `Codec.pre`, `composite` is `Codec.comp i v ws`.
* A frame refers only to earlier frames: `preserve_current_frame` captures
  `self.reference`/`self.lf_frame`, which hold indices of frames already pushed
  (`WF`, the model invariant all theorems assume).
* `FrameRenderHandle::reset` (blend.rs frees the reference whose slot is overwritten): the ghost
  flag `StepOut.clob` / `Sys.clobbered` records that a `reset` overwrote a `Rendering` handle —
  possible only in the `old` variant.
* `try_take_blended`: in the code `Arc::into_inner` is called on a clone while the original `Arc`
  is still alive, so it never succeeds; the model lets an oracle decide (`Choice.taken`), which
  covers both the present behaviour (`taken = false`) and a repaired optimisation.
-/
namespace Jxl.RenderState

abbrev Val := Nat

/-- `jxl_render::Error`, as far as the protocol distinguishes it. -/
inductive ErrK where
  | oom | incomplete | failedRef | other
  deriving DecidableEq, Repr, Inhabited

/-- `state.rs` `FrameRender<S>`. -/
inductive HState where
  | none
  | rendering
  | inProgress (c : Nat)
  | done (v : Val)
  | blended (v : Val)
  | err (e : ErrK)
  | errTaken
  deriving DecidableEq, Repr, Inhabited

/-- What the caller of `RenderedImage::blend` does with the returned image. -/
inductive Cont where
  | discard | collect | ret
  deriving DecidableEq, Repr, Inhabited

/-- Static description of one frame, as the protocol sees it. -/
structure Frame where
  /-- `do_render`: `pool.spawn(run)` for the LF frame and every reference slot -/
  spawn : List Nat := []
  /-- `render.rs`: `run_with_image()?.blend()?` inside `render_op` (LF fallback, patches) -/
  opRefs : List Nat := []
  /-- `blend.rs` `blend`: used reference slots, rendered first, sorted by index -/
  pre : List Nat := []
  /-- `blend.rs` `blend`: per channel the reference and `can_overwrite` (→ `try_take_blended`) -/
  chans : List (Option Nat × Bool) := []
  /-- `blend.rs` `blend`: `grid.image.reset()` of the overwritten non-keyframe slot -/
  reset : Option Nat := none
  /-- `composite_preprocess` returns `Ok(true)` (not a normal frame, or resets the canvas) -/
  skip : Bool := false
  /-- `frame.is_loading_done()`; otherwise `do_render` answers `InProgress` -/
  complete : Bool := true
  /-- `FrameType::ReferenceOnly`: `reset_cache` keeps the handle -/
  refOnly : Bool := false
  deriving DecidableEq, Repr, Inhabited

structure Config where
  frames : List Frame
  /-- `RenderContext::keyframes` -/
  keyframes : List Nat := []
  /-- `!pool.is_multithreaded()`: `pool.spawn` runs the closure in place -/
  inline : Bool := true
  /-- `RenderContext::loading_frame` (not yet in `frames`) -/
  loading : Option Frame := none
  /-- `RenderContext::keyframe_in_progress` -/
  inProgressKf : Option Nat := none
  deriving Repr, Inhabited

/-- The deterministic pixel functions. -/
structure Codec where
  dec : Nat → List Val → Val
  pre : Nat → Val → Val
  comp : Nat → Val → List Val → Val

/-- Which version of the code. `old`: `RenderedImage::blend` leaves through `composite(..)?`
(finding F2) and `FrameRenderHandle::reset` stores `None` unconditionally. `fixed`: `blend` stores
`ErrTaken` through `done_render` before returning the error, and `reset` leaves a handle alone
while it is `Rendering`. -/
inductive Variant where
  | old | fixed
  deriving DecidableEq, Repr

inductive Item where
  /-- `run_with_image`: about to `start_render` -/
  | rwi (i : Nat)
  /-- `run_with_image`: in `wait_until_render` (taken when the handle was busy) -/
  | waitRwi (i : Nat)
  /-- `RenderedImage::blend`: `wait_until_render` + everything done under that lock -/
  | blend (i : Nat) (k : Cont)
  /-- `run`: about to `start_render_silent` -/
  | bg (i : Nat)
  /-- a fallible lock-free computation (tracked allocation, colour conversion, …) -/
  | mayFail
  | tryTake (i : Nat)
  | reset (i : Nat)
  /-- `render_loading_keyframe`: start of `render_loading_frame` -/
  | loadFrame
  deriving DecidableEq, Repr, Inhabited

inductive Handler where
  | top
  | op (i : Nat) (silent : Bool) (cache : Option Nat)
  | comp (i : Nat) (v : Val) (k : Cont)
  | loadOp
  | loadComp (v : Val)
  deriving DecidableEq, Repr, Inhabited

structure Act where
  h : Handler
  /-- reference images read so far inside this activation -/
  ws : List Val := []
  body : List Item
  deriving DecidableEq, Repr, Inhabited

inductive Res where
  | ok (v : Val)
  | err (e : ErrK)
  deriving DecidableEq, Repr, Inhabited

structure Thread where
  /-- innermost activation first; `[]` = returned -/
  acts : List Act
  /-- error on its way to the innermost handler -/
  err : Option ErrK := none
  /-- sleeping in `Condvar::wait` of this handle -/
  asleep : Option Nat := none
  result : Option Res := none
  deriving DecidableEq, Repr, Inhabited

/-- One adversarial decision per step. -/
structure Choice where
  /-- the fallible computation of this step fails with this error -/
  fail : Option ErrK := none
  /-- `try_take_blended` finds the `Arc` unique -/
  taken : Bool := false
  /-- cache content when `do_render` answers `InProgress` -/
  progress : Nat := 0
  deriving DecidableEq, Repr, Inhabited

/-- Scheduling-point codes of hook H4 (for the correspondence run only). -/
inductive EvK where
  | sr | ss | wl | wb | dl | dn | rs | tt | oe | oxd | oxi | oxe | pe | pxo | pxs | pxe | ce | cxo | cxe
  deriving DecidableEq, Repr, Inhabited

structure StepOut where
  hs : List HState
  th : Thread
  /-- `notify_all` on this handle's condition variable -/
  notify : Option Nat := none
  /-- ghost: a `reset` overwrote a handle that was `Rendering` -/
  clob : Bool := false
  ev : List (EvK × Nat) := []
  deriving Repr, Inhabited

def getH (hs : List HState) (i : Nat) : HState := hs.getD i .none

def frameOf (cfg : Config) (i : Nat) : Frame := cfg.frames.getD i {}

/-! ## Program text: what an activation has to do -/

def refCall (k : Cont) (r : Nat) : List Item := [.rwi r, .blend r k]

/-- `do_render` + `render::render_frame` up to the decode proper. -/
def opBody (inline : Bool) (f : Frame) : List Item :=
  (if inline then f.spawn.map Item.bg else []) ++ f.opRefs.flatMap (refCall .collect)

def chanItems : Option Nat × Bool → List Item
  | (some r, take) =>
    refCall .collect r ++ [.mayFail] ++ (if take then [.tryTake r] else []) ++ [.mayFail]
  | (none, _) => [.mayFail]

def resetItems : Option Nat → List Item
  | some r => [.reset r]
  | none => []

/-- `image::composite` → `blend::blend`. -/
def compBody (f : Frame) : List Item :=
  f.pre.flatMap (refCall .discard) ++ f.chans.flatMap chanItems ++ resetItems f.reset

/-- `render_loading_keyframe`: what follows `Err(IncompleteFrame)` of `render_loading_frame`. -/
def fallbackBody (cfg : Config) : Option (List Item) :=
  match cfg.inProgressKf with
  | some idx => some [.rwi idx, .blend idx .ret, .mayFail]
  | none => none

/-! ## Thread-local plumbing -/

/-- the `?` operator: abandon the innermost body, hand `e` to its handler -/
def Thread.fail (th : Thread) (e : ErrK) : Thread :=
  match th.acts with
  | [] => th
  | a :: as => { th with acts := { a with body := [] } :: as, err := some e }

def Thread.setBody (th : Thread) (b : List Item) : Thread :=
  match th.acts with
  | [] => th
  | a :: as => { th with acts := { a with body := b } :: as }

def Thread.push (th : Thread) (rest : List Item) (a : Act) : Thread :=
  match th.acts with
  | [] => th
  | p :: as => { th with acts := a :: { p with body := rest } :: as }

/-- give the image returned by `blend` to the innermost activation -/
def Thread.deliver (th : Thread) (k : Cont) (v : Val) : Thread :=
  match k with
  | .discard => th
  | .ret => { th with result := some (.ok v) }
  | .collect =>
    match th.acts with
    | [] => th
    | a :: as => { th with acts := { a with ws := a.ws ++ [v] } :: as }

/-- leave the innermost activation -/
def Thread.pop (th : Thread) : Thread :=
  { th with acts := th.acts.tail, err := none }

/-! ## One atomic step -/

/-- `wait_until_render` on a state that is neither `Rendering` nor `Done`/`Blended`:
the state is replaced by `None` and the call fails. -/
def waitErr : HState → Option ErrK
  | .none => some .incomplete
  | .inProgress _ => some .incomplete
  | .err e => some e
  | .errTaken => some .failedRef
  | _ => none

def stepItem (cfg : Config) (cd : Codec) (var : Variant) (ch : Choice) (hs : List HState)
    (th : Thread) (it : Item) (rest : List Item) : StepOut :=
  match it with
  | .rwi i =>
    -- `start_render`
    match getH hs i with
    | .none =>
      { hs := hs.set i .rendering, ev := [(.sr, i), (.oe, i)],
        th := th.push rest { h := .op i false none, body := opBody cfg.inline (frameOf cfg i) } }
    | .inProgress c =>
      { hs := hs.set i .rendering, ev := [(.sr, i), (.oe, i)],
        th := th.push rest { h := .op i false (some c), body := opBody cfg.inline (frameOf cfg i) } }
    | .err e => { hs := hs.set i .errTaken, th := th.fail e, ev := [(.sr, i)] }
    | .errTaken => { hs := hs, th := th.fail .failedRef, ev := [(.sr, i)] }
    | _ => { hs := hs, th := th.setBody (.waitRwi i :: rest), ev := [(.sr, i)] }
  | .waitRwi i =>
    match getH hs i with
    | .rendering => { hs := hs, th := { th with asleep := some i }, ev := [(.wl, i), (.wb, i)] }
    | .done _ => { hs := hs, th := th.setBody rest, ev := [(.wl, i)] }
    | .blended _ => { hs := hs, th := th.setBody rest, ev := [(.wl, i)] }
    | s =>
      { hs := hs.set i .none, th := th.fail ((waitErr s).getD .other), ev := [(.wl, i)] }
  | .blend i k =>
    match getH hs i with
    | .rendering => { hs := hs, th := { th with asleep := some i }, ev := [(.wl, i), (.wb, i)] }
    | .blended v => { hs := hs, th := (th.setBody rest).deliver k v, ev := [(.wl, i)] }
    | .done v =>
      -- `mem::replace(.., ErrTaken)`, `composite_preprocess(..)?` with the lock held
      match ch.fail with
      | some e =>
        { hs := hs.set i .errTaken, th := th.fail e, ev := [(.wl, i), (.pe, i), (.pxe, i)] }
      | none =>
        if (frameOf cfg i).skip then
          { hs := hs.set i (.blended (cd.pre i v)),
            th := (th.setBody rest).deliver k (cd.pre i v), ev := [(.wl, i), (.pe, i), (.pxs, i)] }
        else
          { hs := hs.set i .rendering, ev := [(.wl, i), (.pe, i), (.pxo, i), (.ce, i)],
            th := th.push rest { h := .comp i (cd.pre i v) k, body := compBody (frameOf cfg i) } }
    | s =>
      { hs := hs.set i .none, th := th.fail ((waitErr s).getD .other), ev := [(.wl, i)] }
  | .bg i =>
    -- `start_render_silent`
    match getH hs i with
    | .none =>
      { hs := hs.set i .rendering, ev := [(.ss, i), (.oe, i)],
        th := th.push rest { h := .op i true none, body := opBody cfg.inline (frameOf cfg i) } }
    | .inProgress c =>
      { hs := hs.set i .rendering, ev := [(.ss, i), (.oe, i)],
        th := th.push rest { h := .op i true (some c), body := opBody cfg.inline (frameOf cfg i) } }
    | _ => { hs := hs, th := th.setBody rest, ev := [(.ss, i)] }
  | .mayFail =>
    match ch.fail with
    | some e => { hs := hs, th := th.fail e }
    | none => { hs := hs, th := th.setBody rest }
  | .tryTake i =>
    match getH hs i with
    | .blended _ =>
      { hs := if ch.taken then hs.set i .none else hs, th := th.setBody rest, ev := [(.tt, i)] }
    | _ => { hs := hs, th := th.setBody rest, ev := [(.tt, i)] }
  | .reset i =>
    match var with
    | .old =>
      -- `mem::replace(.., None)` whatever the state is, nobody notified
      { hs := hs.set i .none, th := th.setBody rest, ev := [(.rs, i)],
        clob := decide (getH hs i = .rendering) }
    | .fixed =>
      if getH hs i = .rendering then { hs := hs, th := th.setBody rest, ev := [(.rs, i)] }
      else { hs := hs.set i .none, th := th.setBody rest, ev := [(.rs, i)] }
  | .loadFrame =>
    match cfg.loading with
    | none =>
      match fallbackBody cfg with
      | some b => { hs := hs, th := th.setBody b }
      | none => { hs := hs, th := th.fail .incomplete }
    | some f =>
      match ch.fail with
      | some .incomplete =>
        -- not a progressive frame / `try_parse_lf_global` not possible yet
        match fallbackBody cfg with
        | some b => { hs := hs, th := th.setBody b }
        | none => { hs := hs, th := th.fail .incomplete }
      | some e => { hs := hs, th := th.fail e }
      | none => { hs := hs, th := th.push rest { h := .loadOp, body := opBody cfg.inline f } }

/-- `IncompleteFrame` out of `render_loading_frame` falls back to `keyframe_in_progress`. -/
def loadFail (cfg : Config) (th : Thread) (e : ErrK) : Thread :=
  if e = .incomplete then
    match fallbackBody cfg with
    | some b => th.pop.setBody b
    | none => th.pop.fail .incomplete
  else th.pop.fail e

/-- The innermost body is empty: run the handler (`done_render` and return). -/
def stepDone (cfg : Config) (cd : Codec) (var : Variant) (ch : Choice) (hs : List HState)
    (th : Thread) (a : Act) : StepOut :=
  match a.h with
  | .top =>
    { hs := hs,
      th := { th.pop with result := match th.err with
                                    | some e => some (.err e)
                                    | none => th.result } }
  | .op i silent _ =>
    let failure : Option ErrK := match th.err with
      | some e => some e
      | none => ch.fail
    match failure with
    | some e =>
      -- `FrameRender::Err(e)`
      if silent then
        { hs := hs.set i (.err e), th := th.pop, notify := some i,
          ev := [(.oxe, i), (.dl, i), (.dn, i)] }
      else
        { hs := hs.set i .errTaken, th := th.pop.fail e, notify := some i,
          ev := [(.oxe, i), (.dl, i), (.dn, i)] }
    | none =>
      if (frameOf cfg i).complete then
        { hs := hs.set i (.done (cd.dec i a.ws)), th := th.pop, notify := some i,
          ev := [(.oxd, i), (.dl, i), (.dn, i)] }
      else if silent then
        { hs := hs.set i (.inProgress ch.progress), th := th.pop, notify := some i,
          ev := [(.oxi, i), (.dl, i), (.dn, i)] }
      else
        { hs := hs.set i (.inProgress ch.progress), th := th.pop.fail .incomplete,
          notify := some i, ev := [(.oxi, i), (.dl, i), (.dn, i)] }
  | .comp i v k =>
    match th.err with
    | some e =>
      match var with
      | .old =>
        -- `composite(..)?`: returns with the handle still `Rendering`, nobody notified
        { hs := hs, th := th.pop.fail e, ev := [(.cxe, i)] }
      | .fixed =>
        { hs := hs.set i .errTaken, th := th.pop.fail e, notify := some i,
          ev := [(.cxe, i), (.dl, i), (.dn, i)] }
    | none =>
      { hs := hs.set i (.blended (cd.comp i v a.ws)),
        th := th.pop.deliver k (cd.comp i v a.ws), notify := some i,
        ev := [(.cxo, i), (.dl, i), (.dn, i)] }
  | .loadOp =>
    let n := cfg.frames.length
    let failure : Option ErrK := match th.err with
      | some e => some e
      | none => ch.fail
    match failure with
    | some e => { hs := hs, th := loadFail cfg th e }
    | none =>
      match cfg.loading with
      | none => { hs := hs, th := loadFail cfg th .incomplete }
      | some f =>
        if !f.complete then { hs := hs, th := loadFail cfg th .incomplete }
        else
          let v := cd.pre n (cd.dec n a.ws)
          if f.skip then { hs := hs, th := th.pop.deliver .ret v }
          else
            { hs := hs,
              th := { th with acts := { h := .loadComp v, body := compBody f } :: th.acts.tail } }
  | .loadComp v =>
    match th.err with
    | some e => { hs := hs, th := loadFail cfg th e }
    | none => { hs := hs, th := th.pop.deliver .ret (cd.comp cfg.frames.length v a.ws) }

/-- One step of a thread that has not returned and is not asleep. -/
def stepThread (cfg : Config) (cd : Codec) (var : Variant) (ch : Choice) (hs : List HState)
    (th : Thread) : StepOut :=
  match th.acts with
  | [] => { hs := hs, th := th }
  | a :: _ =>
    match a.body with
    | [] => stepDone cfg cd var ch hs th a
    | it :: rest => stepItem cfg cd var ch hs th it rest

/-! ## Sequential semantics (C08) -/

inductive Op where
  | renderKeyframe (k : Nat)
  | renderLoading
  | requestRegion
  deriving DecidableEq, Repr, Inhabited

/-- `RenderContext::render_keyframe` / `render_loading_keyframe` as a thread. -/
def startThread (cfg : Config) : Op → Thread
  | .renderKeyframe k =>
    match cfg.keyframes[k]? with
    | some idx => { acts := [{ h := .top, body := [.rwi idx, .blend idx .ret, .mayFail] }] }
    | none => { acts := [{ h := .top, body := [] }], err := some .incomplete }
  | .renderLoading => { acts := [{ h := .top, body := [.loadFrame] }] }
  | .requestRegion => { acts := [] }

/-- background `run` spawned by `do_render` -/
def bgThread (r : Nat) : Thread := { acts := [{ h := .top, body := [.bg r] }] }

/-- `reset_cache`: a fresh handle for every frame that is not `ReferenceOnly`. -/
def resetCache (cfg : Config) (hs : List HState) : List HState :=
  (List.range hs.length).map fun i =>
    if (frameOf cfg i).refOnly then getH hs i else .none

inductive Outcome where
  | finished (hs : List HState) (res : Option Res)
  /-- the caller sleeps on a handle nobody will ever notify -/
  | hang (hs : List HState) (i : Nat)
  | outOfFuel
  deriving DecidableEq, Repr, Inhabited

/-- Runs one caller alone. `orc n` is the adversary's decision for step `n`. -/
def runThread (cfg : Config) (cd : Codec) (var : Variant) (orc : Nat → Choice) :
    Nat → Nat → List HState → Thread → Outcome
  | 0, _, _, _ => .outOfFuel
  | fuel + 1, n, hs, th =>
    match th.acts with
    | [] => .finished hs th.result
    | _ :: _ =>
      match th.asleep with
      | some i => .hang hs i
      | none =>
        let o := stepThread cfg cd var (orc n) hs th
        runThread cfg cd var orc fuel (n + 1) o.hs o.th

def runOp (cfg : Config) (cd : Codec) (var : Variant) (orc : Nat → Choice) (fuel : Nat)
    (hs : List HState) : Op → Outcome
  | .requestRegion => .finished (resetCache cfg hs) none
  | op => runThread cfg cd var orc fuel 0 hs (startThread cfg op)

/-- A history of completed calls; `none` as soon as one call does not return. -/
def runHist (cfg : Config) (cd : Codec) (var : Variant) (fuel : Nat) :
    List HState → List (Op × (Nat → Choice)) → Option (List HState × List (Option Res))
  | hs, [] => some (hs, [])
  | hs, (op, orc) :: rest =>
    match runOp cfg cd var orc fuel hs op with
    | .finished hs' r =>
      match runHist cfg cd var fuel hs' rest with
      | some (hs'', rs) => some (hs'', r :: rs)
      | none => none
    | _ => none

/-! ### Explicit step bound -/

def sumNat (l : List Nat) : Nat := l.foldr (· + ·) 0

/-- weight of one item given the weights `(op, comp)` of the frames it may enter -/
def wItem (look : Nat → Nat × Nat) : Item → Nat
  | .rwi i => 2 + (look i).1
  | .waitRwi _ => 1
  | .blend i _ => 1 + (look i).2
  | .bg i => 1 + (look i).1
  | .mayFail => 1
  | .tryTake _ => 1
  | .reset _ => 1
  | .loadFrame => 0

def wBody (look : Nat → Nat × Nat) (b : List Item) : Nat := sumNat (b.map (wItem look))

/-- `(weight of the op activation, weight of the comp activation)` of frame `f` -/
def wEntry (inline : Bool) (look : Nat → Nat × Nat) (f : Frame) : Nat × Nat :=
  (1 + wBody look (opBody inline f), 1 + wBody look (compBody f))

/-- weights of frames `0..i-1`, each computed from the weights of earlier frames only -/
def wTab (cfg : Config) : Nat → List (Nat × Nat)
  | 0 => []
  | i + 1 =>
    let t := wTab cfg i
    t ++ [wEntry cfg.inline (fun r => t.getD r (0, 0)) (frameOf cfg i)]

def wLook (cfg : Config) (r : Nat) : Nat × Nat := (wTab cfg cfg.frames.length).getD r (0, 0)

/-- weight of the `keyframe_in_progress` fallback of `render_loading_keyframe` -/
def wFB (cfg : Config) : Nat :=
  match fallbackBody cfg with
  | some b => wBody (wLook cfg) b
  | none => 0

/-- weight of the `loadFrame` item: the loading frame's two activations and the fallback -/
def wLoading (cfg : Config) : Nat :=
  (match cfg.loading with
   | some f => (wEntry cfg.inline (wLook cfg) f).1 + (wEntry cfg.inline (wLook cfg) f).2
   | none => 0) + wFB cfg + 3

/-- weight of an item inside an activation -/
def wIt (cfg : Config) : Item → Nat
  | .loadFrame => wLoading cfg
  | it => wItem (wLook cfg) it

/-- what a handler may still start after its body is done -/
def wExtra (cfg : Config) : Handler → Nat
  | .loadOp =>
    (match cfg.loading with
     | some f => (wEntry cfg.inline (wLook cfg) f).2
     | none => 0) + wFB cfg + 2
  | .loadComp _ => wFB cfg + 1
  | _ => 0

def wAct (cfg : Config) (a : Act) : Nat :=
  1 + sumNat (a.body.map (wIt cfg)) + wExtra cfg a.h

/-- steps a thread can still take when it never has to sleep -/
def wThread (cfg : Config) (th : Thread) : Nat := sumNat (th.acts.map (wAct cfg))

/-- the fuel that `runOp` needs: number of atomic steps of the call, plus one to observe the end -/
def opFuel (cfg : Config) (op : Op) : Nat := wThread cfg (startThread cfg op) + 1

/-! ## Interleaving semantics (C20) -/

structure Sys where
  hs : List HState
  ths : List Thread
  /-- ghost: some `reset` has overwritten a `Rendering` handle -/
  clobbered : Bool := false
  deriving Repr, Inhabited

/-- `notify_all`: every thread sleeping on handle `i` wakes up -/
def wakeAll (ths : List Thread) (i : Nat) : List Thread :=
  ths.map fun t => if t.asleep = some i then { t with asleep := none } else t

def Thread.finished (th : Thread) : Bool := th.acts.isEmpty

/-- thread `t` takes one atomic step -/
def sysStep (cfg : Config) (cd : Codec) (var : Variant) (t : Nat) (ch : Choice) (σ : Sys) :
    Option Sys :=
  match σ.ths[t]? with
  | none => none
  | some th =>
    if th.finished || th.asleep.isSome then none
    else
      let o := stepThread cfg cd var ch σ.hs th
      let ths' := σ.ths.set t o.th
      some { hs := o.hs,
             ths := match o.notify with
                    | some i => wakeAll ths' i
                    | none => ths',
             clobbered := σ.clobbered || o.clob }

/-- spurious wake-up of thread `t` (it will re-check the state in its next step) -/
def sysWake (t : Nat) (σ : Sys) : Option Sys :=
  match σ.ths[t]? with
  | none => none
  | some th =>
    if th.asleep.isSome then some { σ with ths := σ.ths.set t { th with asleep := none } }
    else none

inductive Label where
  | run (t : Nat) (ch : Choice)
  | wake (t : Nat)
  deriving Repr, Inhabited

def sysNext (cfg : Config) (cd : Codec) (var : Variant) (σ : Sys) : Label → Option Sys
  | .run t ch => sysStep cfg cd var t ch σ
  | .wake t => sysWake t σ

/-- runs a schedule; stops at the first label that is not enabled -/
def sysRun (cfg : Config) (cd : Codec) (var : Variant) : Sys → List Label → Sys
  | σ, [] => σ
  | σ, l :: ls =>
    match sysNext cfg cd var σ l with
    | some σ' => sysRun cfg cd var σ' ls
    | none => σ

inductive Reachable (cfg : Config) (cd : Codec) (var : Variant) (σ₀ : Sys) : Sys → Prop where
  | init : Reachable cfg cd var σ₀ σ₀
  | step {σ σ' : Sys} (l : Label) : Reachable cfg cd var σ₀ σ → sysNext cfg cd var σ l = some σ' →
      Reachable cfg cd var σ₀ σ'

/-- Callers of `render_keyframe` and background `run`s on fresh handles. -/
inductive Prog where
  | keyframe (k : Nat)
  | background (r : Nat)
  deriving DecidableEq, Repr, Inhabited

def progThread (cfg : Config) : Prog → Thread
  | .keyframe k => startThread cfg (.renderKeyframe k)
  | .background r => bgThread r

def initSys (cfg : Config) (progs : List Prog) : Sys :=
  { hs := List.replicate cfg.frames.length .none, ths := progs.map (progThread cfg) }

/-! ## Well-formedness, ownership, clean values -/

def Item.idx? : Item → Option Nat
  | .rwi i => some i
  | .waitRwi i => some i
  | .blend i _ => some i
  | .bg i => some i
  | .tryTake i => some i
  | .reset i => some i
  | .mayFail => none
  | .loadFrame => none

def Frame.refs (f : Frame) : List Nat :=
  f.spawn ++ f.opRefs ++ f.pre ++ f.chans.filterMap (·.1) ++ f.reset.toList

/-- all references of frame number `i` are earlier frames -/
def Frame.wfAt (f : Frame) (i : Nat) : Bool := f.refs.all (· < i)

/-- The model invariant taken from `preserve_current_frame`: references point backwards,
keyframes and the in-progress keyframe exist, the loading frame refers to loaded frames. -/
def Config.wf (cfg : Config) : Bool :=
  ((List.range cfg.frames.length).all fun i => (frameOf cfg i).wfAt i) &&
  cfg.keyframes.all (· < cfg.frames.length) &&
  (match cfg.inProgressKf with | some i => decide (i < cfg.frames.length) | none => true) &&
  (match cfg.loading with | some f => f.wfAt cfg.frames.length | none => true)

/-- the handle an activation has marked `Rendering` -/
def Handler.owns : Handler → Option Nat
  | .op i _ _ => some i
  | .comp i _ _ => some i
  | _ => none

def Thread.owned (th : Thread) : List Nat := th.acts.filterMap (·.h.owns)

/-- values of a never-failed render, frame by frame: `(Done value, Blended value)`;
`extra` is the loading frame (number `frames.length`). -/
def cleanTab (cfg : Config) (cd : Codec) : Nat → List (Val × Val)
  | 0 => []
  | i + 1 =>
    let t := cleanTab cfg cd i
    let f := frameOf cfg i
    let b (r : Nat) : Val := (t.getD r (0, 0)).2
    let d := cd.dec i (f.opRefs.map b)
    let p := cd.pre i d
    t ++ [(d, if f.skip then p else cd.comp i p ((f.chans.filterMap (·.1)).map b))]

def cleanDone (cfg : Config) (cd : Codec) (i : Nat) : Val :=
  ((cleanTab cfg cd cfg.frames.length).getD i (0, 0)).1

def cleanBlended (cfg : Config) (cd : Codec) (i : Nat) : Val :=
  ((cleanTab cfg cd cfg.frames.length).getD i (0, 0)).2

/-- what `render_loading_keyframe` returns for the loading frame when nothing fails -/
def cleanLoading (cfg : Config) (cd : Codec) : Option Val :=
  match cfg.loading with
  | none => none
  | some f =>
    let n := cfg.frames.length
    let p := cd.pre n (cd.dec n (f.opRefs.map (cleanBlended cfg cd)))
    some (if f.skip then p else cd.comp n p ((f.chans.filterMap (·.1)).map (cleanBlended cfg cd)))

end Jxl.RenderState
