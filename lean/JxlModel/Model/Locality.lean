/-!
# Pipelines of local operators evaluated on windows (specification vocabulary for C06)

Independent of any concrete kernel: an operator is a function from (window, input image) to an
output image over cells of ℤ²; locality is a hypothesis about it.
-/
namespace Jxl.Region

abbrev Cell := Int × Int
abbrev Img (V : Type) := Cell → V

/-- A pipeline stage evaluated on a window. `op W f` is the stage run on window `W` with input
`f` (whatever the implementation does at the artificial edges of `W` — mirroring, clamping,
garbage — is part of `op`); `op dom f` is the full-frame evaluation. `dep p q`: output cell `p`
reads input cell `q` (for an `r`-local operator: `‖p - q‖∞ ≤ r`; for an upsampler by `K` with a
5×5 kernel: `‖p / K - q‖∞ ≤ 2`). `dom`: the cells of the true frame at the stage's input scale
(reads outside are replaced by mirrored reads inside, so only cells of `dom` matter). -/
structure Stage (V : Type) where
  op : (Cell → Prop) → Img V → Img V
  dep : Cell → Cell → Prop
  dom : Cell → Prop

/-- Locality: the value at `p` of the stage run on any window inside the frame equals the value
of the full evaluation as soon as every in-frame cell `p` depends on lies in the window and
carries the same input. -/
def Stage.Local {V : Type} (s : Stage V) : Prop :=
  ∀ (W : Cell → Prop) (f g : Img V) (p : Cell),
    (∀ q, W q → s.dom q) →
    (∀ q, s.dep p q → s.dom q → W q ∧ f q = g q) → s.op W f p = s.op s.dom g p

def runFull {V : Type} : List (Stage V) → Img V → Img V
  | [], f => f
  | s :: ss, f => runFull ss (s.op s.dom f)

def runWin {V : Type} : List (Stage V × (Cell → Prop)) → Img V → Img V
  | [], f => f
  | (s, W) :: ss, f => runWin ss (s.op W f)

/-- the input cells the remaining stages need in order to produce the target cells `R` -/
def need {V : Type} : List (Stage V) → (Cell → Prop) → (Cell → Prop)
  | [], R => R
  | s :: ss, R => fun q => s.dom q ∧ ∃ p, need ss R p ∧ s.dep p q

/-- every stage's window lies in the frame and contains what the stage and all later stages
need -/
def Sufficient {V : Type} : List (Stage V × (Cell → Prop)) → (Cell → Prop) → Prop
  | [], _ => True
  | (s, W) :: ss, R =>
    (∀ q, need (s :: ss.map (·.1)) R q → W q) ∧ (∀ q, W q → s.dom q) ∧ Sufficient ss R

end Jxl.Region
