import JxlModel.Model.Headers
import JxlModel.Model.Entropy.Decoder
import JxlModel.Model.Enc.EntropyEnc
/-!
# The entropy-coded permutation of the table of contents (C14 meets C04)

`Toc::parse` (crates/jxl-frame/src/data/toc.rs), the `permutated_toc` branch:

```
let mut decoder = jxl_coding::Decoder::parse(bitstream, 8)?;
decoder.begin(bitstream)?;
let permutation = jxl_coding::read_permutation(bitstream, &mut decoder, entry_count, 0)?;
decoder.finalize()?;
```

`entropyPermDecoder` is that sequence on the entropy decoder model of C04
(`Model/Entropy/Decoder.lean`), in the shape `parseToc` expects of a `PermDecoder`: it returns the
Lehmer code (`read_permutation` up to, not including, the `temp.remove(idx)` loop — that loop is
`lehmerToPerm` in `Model/Headers.lean`) and the rest of the stream.
-/
namespace Jxl.Headers
open Jxl Jxl.Bundle

/-- `jxl_frame::Error::Decoder(jxl_coding::Error)` as the header model reports it: a truncated
stream stays `eof` (`Error::unexpected_eof`), every other coding error is `invalid "decoder"`
(the word `trivialPermDecoder` uses for the same failures) -/
def entropyErr : Entropy.Err → Err
  | .eof => .eof
  | _ => .invalid "decoder"

/-- `read_permutation(bitstream, decoder, size, 0)` without the final `temp.remove` loop:
`end = read_varint(get_context(size))`, `end > size` is `InvalidPermutation`, then `end` values
`read_varint(get_context(prev_val))`, each checked `val < size - idx` (`Entropy.readLehmer` with
`skip = 0`). `read_varint(ctx)` is `read_varint_with_multiplier(ctx, 0)`. -/
def readLehmerCode (d : Entropy.Decoder) (st : Entropy.DState) (size : Nat) (s : Bits) :
    Entropy.R (List Nat × Entropy.DState) :=
  match d.readVarint st (Entropy.permContext size) 0 s with
  | .error e => .error e
  | .ok ((end_, st1), s1) =>
    if end_ > size then .error .invalidPermutation
    else Entropy.readLehmer d size 0 end_ 0 0 st1 s1

/-- the `permutated_toc` branch of `Toc::parse`: `Decoder::parse(bitstream, 8)`, `begin`,
`read_permutation(.., entry_count, 0)`, `finalize`. -/
def entropyPermDecoder : PermDecoder := fun size s =>
  match Entropy.Decoder.parse 8 s with
  | .error e => .error (entropyErr e)
  | .ok (d, s1) =>
    match d.begin {} s1 with
    | .error e => .error (entropyErr e)
    | .ok (st0, s2) =>
      match readLehmerCode d st0 size s2 with
      | .error e => .error (entropyErr e)
      | .ok ((lehmer, st1), s3) =>
        match d.finalize st1 with
        | .error e => .error (entropyErr e)
        | .ok () => .ok (lehmer, s3)

/-! ## what the encoder has to code -/

/-- `(context, value)` of the Lehmer entries: the context of an entry is `get_context` of the
previous entry (`prev`, 0 for the first) -/
def lehmerSyms : Nat → List Nat → List (Nat × Nat)
  | _, [] => []
  | prev, v :: r => (Entropy.permContext prev, v) :: lehmerSyms v r

/-- `(context, value)` pairs `read_permutation(size, 0)` reads for the Lehmer code `lehmer`:
`end = lehmer.length` in context `get_context(size)`, then the entries -/
def permSyms (size : Nat) (lehmer : List Nat) : List (Nat × Nat) :=
  (Entropy.permContext size, lehmer.length) :: lehmerSyms 0 lehmer

/-- the literal items the entropy encoder must code for the TOC permutation with Lehmer code
`lehmer`: `end` first, then the entries -/
def permItems (size : Nat) (lehmer : List Nat) : List Enc.Item :=
  (permSyms size lehmer).map fun (c, v) => Enc.Item.lit c v

/-- the contexts, in reading order -/
def permCtxs (size : Nat) (lehmer : List Nat) : List Nat := (permSyms size lehmer).map (·.1)

/-- the entropy-coded permutation as the reference encoder writes it: histogram header of the
plan (8 distributions) followed by the coded items -/
def encodeTocPerm (p : Enc.EntropyPlan) (size : Nat) (lehmer : List Nat) : Bits :=
  Enc.encodeHeader p ++ Enc.encodeItems p (permItems size lehmer)

end Jxl.Headers
