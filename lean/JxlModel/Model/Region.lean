/-!
# Region arithmetic of the renderer (`jxl-render/src/region.rs`, `util.rs`, `modular.rs`,
# `render.rs`, `blend.rs`, `image.rs::composite`; `jxl-frame/src/header.rs`)

The Rust `Region` is `{ left, top : i32, width, height : u32 }`. The model uses `Int` / `Nat` and
computes the *ideal* (unbounded) result of every formula. Next to every function `f` there is a
decidable predicate `fFits` saying that every intermediate value of the Rust computation is
inside its machine type, i.e. the Rust code computes exactly the ideal result: no panic
(`+ - *` overflow in checked builds, `unwrap` of a failed `checked_*`, shift amount >= 32), no
silent wrap (`<<`, `as`, `wrapping_*`) and no saturation (`saturating_*`). Where `fFits` is false
the doc comment says what the Rust code does instead. The driver prints `unfit` for such inputs.

All functions are total and executable; nothing is imported.
-/
namespace Jxl.Region

def I32_MIN : Int := -2147483648
def I32_MAX : Int := 2147483647
def U32_MAX : Nat := 4294967295

def inI32 (x : Int) : Bool := decide (I32_MIN ≤ x) && decide (x ≤ I32_MAX)
def inU32 (x : Nat) : Bool := decide (x ≤ U32_MAX)
def intInU32 (x : Int) : Bool := decide (0 ≤ x) && decide (x ≤ (U32_MAX : Int))

/-- `struct Region` (`region.rs:4`). -/
structure Region where
  left : Int
  top : Int
  width : Nat
  height : Nat
  deriving DecidableEq, Repr, Inhabited

namespace Region

/-- `Region::empty` = `Default` (`region.rs:14`). -/
def empty : Region := ⟨0, 0, 0, 0⟩

/-- `Region::with_size` (`region.rs:19`). -/
def withSize (w h : Nat) : Region := ⟨0, 0, w, h⟩

/-- `Region::is_empty` (`region.rs:29`). -/
def isEmpty (r : Region) : Bool := r.width == 0 || r.height == 0

/-- `Region::right` (`region.rs:34`): `left.saturating_add_unsigned(width)`; ideal value.
Rust saturates to `i32::MAX` when `left + width > i32::MAX`. -/
def right (r : Region) : Int := r.left + r.width

/-- `Region::bottom` (`region.rs:39`); saturates like `right`. -/
def bottom (r : Region) : Int := r.top + r.height

/-- both `right()` and `bottom()` are exact (no saturation) -/
def edgesFit (r : Region) : Bool := inI32 r.right && inI32 r.bottom

/-- the fields themselves are representable -/
def wf (r : Region) : Bool := inI32 r.left && inI32 r.top && inU32 r.width && inU32 r.height

/-- point membership (specification vocabulary, not in the Rust code) -/
def Mem (x y : Int) (r : Region) : Prop :=
  r.left ≤ x ∧ x < r.left + r.width ∧ r.top ≤ y ∧ y < r.top + r.height

instance (x y : Int) (r : Region) : Decidable (Mem x y r) := by unfold Mem; infer_instance

/-- set inclusion of the covered cells (specification vocabulary) -/
def Subset (a b : Region) : Prop := ∀ x y, Mem x y a → Mem x y b

/-- `Region::contains` (`region.rs:43`). -/
def contains (r t : Region) : Bool :=
  if t.isEmpty then true
  else decide (r.left ≤ t.left) && decide (r.top ≤ t.top) &&
       decide (r.right ≥ t.right) && decide (r.bottom ≥ t.bottom)

def containsFits (r t : Region) : Bool := t.isEmpty || (r.edgesFit && t.edgesFit)

/-- `Region::translate` (`region.rs:54`): plain `i32` additions, panic on overflow in checked
builds (wrap in release). -/
def translate (r : Region) (x y : Int) : Region := { r with left := r.left + x, top := r.top + y }

def translateFits (r : Region) (x y : Int) : Bool := inI32 (r.left + x) && inI32 (r.top + y)

/-- `Region::intersection` (`region.rs:62`), literally: order the two spans by their left end,
empty when the first ends before the second starts. -/
def intersection (a b : Region) : Region :=
  if a.width = 0 ∨ b.width = 0 ∨ a.height = 0 ∨ b.height = 0 then empty
  else
    let ax : Int × Int := (a.left, a.right)
    let ay : Int × Int := (a.top, a.bottom)
    let bx : Int × Int := (b.left, b.right)
    let by_ : Int × Int := (b.top, b.bottom)
    let (ax, bx) := if ax.1 > bx.1 then (bx, ax) else (ax, bx)
    let (ay, by_) := if ay.1 > by_.1 then (by_, ay) else (ay, by_)
    if ax.2 ≤ bx.1 ∨ ay.2 ≤ by_.1 then empty
    else ⟨bx.1, by_.1, (min ax.2 bx.2 - bx.1).toNat, (min ay.2 by_.2 - by_.1).toNat⟩

/-- exact unless `right()`/`bottom()` of a non-empty operand saturates -/
def intersectionFits (a b : Region) : Bool :=
  (a.width == 0 || b.width == 0 || a.height == 0 || b.height == 0) || (a.edgesFit && b.edgesFit)

/-- `Region::merge` (`region.rs:104`): bounding box; `wrapping_add_unsigned` for the far edges
(silent wrap when `left + width` leaves `i32`). -/
def merge (a b : Region) : Region :=
  if b.isEmpty then a
  else if a.isEmpty then b
  else
    let left := min a.left b.left
    let top := min a.top b.top
    let right := max (a.left + a.width) (b.left + b.width)
    let bottom := max (a.top + a.height) (b.top + b.height)
    ⟨left, top, (right - left).natAbs, (bottom - top).natAbs⟩

def mergeFits (a b : Region) : Bool := a.isEmpty || b.isEmpty || (a.edgesFit && b.edgesFit)

/-- `Region::pad` (`region.rs:133`): `left.saturating_sub_unsigned(size)` (saturates at
`i32::MIN`), `width + size * 2` (both operations panic on `u32` overflow in checked builds). -/
def pad (r : Region) (n : Nat) : Region :=
  ⟨r.left - n, r.top - n, r.width + n * 2, r.height + n * 2⟩

def padFits (r : Region) (n : Nat) : Bool :=
  inI32 (r.left - n) && inI32 (r.top - n) && inU32 (n * 2) &&
  inU32 (r.width + n * 2) && inU32 (r.height + n * 2)

/-- one axis of `Region::downsample` (`region.rs:143`) with divisor `d = 2^factor`:
`new_left = left >> factor` (floor), `adj = width + |left - (new_left << factor)|`,
`width' = (adj + (d-1)) >> factor`. -/
def downAx (l : Int) (w : Nat) (d : Nat) : Int × Nat :=
  let nl := l / (d : Int)
  let adj := w + (l - nl * (d : Int)).natAbs
  (nl, (adj + (d - 1)) / d)

def downAxFits (l : Int) (w : Nat) (d : Nat) : Bool :=
  let nl := l / (d : Int)
  inU32 (w + (l - nl * (d : Int)).natAbs + (d - 1))

/-- `Region::downsample` (`region.rs:143`); `factor` is a log2. Shift amounts >= 32 panic
(`1u32 << factor`); the two `u32` additions panic on overflow. -/
def downsample (r : Region) (k : Nat) : Region :=
  if k = 0 then r
  else
    let x := downAx r.left r.width (2 ^ k)
    let y := downAx r.top r.height (2 ^ k)
    ⟨x.1, y.1, x.2, y.2⟩

def downsampleFits (r : Region) (k : Nat) : Bool :=
  k == 0 || (decide (k < 32) && downAxFits r.left r.width (2 ^ k) && downAxFits r.top r.height (2 ^ k))

/-- `Region::downsample_separate` (`region.rs:163`). -/
def downsampleSeparate (r : Region) (kx ky : Nat) : Region :=
  if kx = 0 ∧ ky = 0 then r
  else
    let x := downAx r.left r.width (2 ^ kx)
    let y := downAx r.top r.height (2 ^ ky)
    ⟨x.1, y.1, x.2, y.2⟩

def downsampleSeparateFits (r : Region) (kx ky : Nat) : Bool :=
  (kx == 0 && ky == 0) ||
  (decide (kx < 32) && decide (ky < 32) &&
    downAxFits r.left r.width (2 ^ kx) && downAxFits r.top r.height (2 ^ ky))

/-- `Region::upsample` / `upsample_separate` (`region.rs:202`, `207`): four `<<`; bits shifted
out are lost silently, shift amounts >= 32 panic in checked builds. -/
def upsample (r : Region) (k : Nat) : Region :=
  ⟨r.left * 2 ^ k, r.top * 2 ^ k, r.width * 2 ^ k, r.height * 2 ^ k⟩

def upsampleFits (r : Region) (k : Nat) : Bool :=
  decide (k < 32) && inI32 (r.left * 2 ^ k) && inI32 (r.top * 2 ^ k) &&
  inU32 (r.width * 2 ^ k) && inU32 (r.height * 2 ^ k)

/-- one axis of `Region::container_aligned` (`region.rs:216`), `g` a power of two:
`new_left = left & !(g-1)` (two's complement: floor to a multiple of `g`),
`width' = (width + |left - new_left| + (g-1)) & !(g-1)`. -/
def alignAx (l : Int) (w : Nat) (g : Nat) : Int × Nat :=
  let nl := l / (g : Int) * (g : Int)
  let diff := (l - nl).natAbs
  (nl, (w + diff + (g - 1)) / g * g)

def alignAxFits (l : Int) (w : Nat) (g : Nat) : Bool :=
  inU32 (w + (l - l / (g : Int) * (g : Int)).natAbs + (g - 1))

/-- `Region::container_aligned` (`region.rs:216`). `grid_dim` must be a power of two
(`debug_assert!`), `grid_dim - 1` panics for 0; the `u32` additions panic on overflow. -/
def containerAligned (r : Region) (g : Nat) : Region :=
  let x := alignAx r.left r.width g
  let y := alignAx r.top r.height g
  ⟨x.1, y.1, x.2, y.2⟩

def isPow2 (g : Nat) : Bool := (List.range 32).any (fun k => g == 2 ^ k)

def containerAlignedFits (r : Region) (g : Nat) : Bool :=
  isPow2 g && alignAxFits r.left r.width g && alignAxFits r.top r.height g

/-- `ImageMetadata::apply_orientation(width, height, left, top, inverse = true)`
(`jxl-image/src/lib.rs:249`): where a pixel of the oriented image lies in the coded image.
`W`, `H` are the *oriented* image dimensions. -/
def orientPoint (o : Nat) (W H : Int) (l t : Int) : Int × Int :=
  match o with
  | 1 => (l, t)
  | 2 => (W - l - 1, t)
  | 3 => (W - l - 1, H - t - 1)
  | 4 => (l, H - t - 1)
  | 5 => (t, l)
  | 6 => (t, W - l - 1)
  | 7 => (H - t - 1, W - l - 1)
  | 8 => (H - t - 1, l)
  | _ => (l, t)

/-- oriented size: `ImageHeader::width_with_orientation` / `height_with_orientation`. -/
def orientedSize (o : Nat) (w h : Nat) : Nat × Nat := if 5 ≤ o ∧ o ≤ 8 then (h, w) else (w, h)

/-- `Region::apply_orientation` (`region.rs:233`): maps both corners, re-orders them.
`imgW`, `imgH` are the coded image dimensions (`image_header.size`). -/
def applyOrientation (r : Region) (imgW imgH : Nat) (o : Nat) : Region :=
  -- an empty request stays empty (sides swapped for orientations 5..8); repaired behaviour,
  -- before it the corner arithmetic below produced a 2x2 region
  if r.width = 0 ∨ r.height = 0 then
    (if o ≥ 5 then ⟨0, 0, r.height, r.width⟩ else ⟨0, 0, r.width, r.height⟩)
  else
  let (W, H) := orientedSize o imgW imgH
  let p := orientPoint o W H r.left r.top
  let q := orientPoint o W H (r.left + r.width - 1) (r.top + r.height - 1)
  let (left, right) := if p.1 > q.1 then (q.1, p.1) else (p.1, q.1)
  let (top, bottom) := if p.2 > q.2 then (q.2, p.2) else (p.2, q.2)
  ⟨left, top, (right - left).natAbs + 1, (bottom - top).natAbs + 1⟩

/-- every `i32` operation of `apply_orientation` is exact: `width as i32` does not wrap, the
corner sums and the mirrored coordinates stay in `i32`, and the final `+ 1` stays in `u32`. -/
def applyOrientationFits (r : Region) (imgW imgH : Nat) (o : Nat) : Bool :=
  let (W, H) := orientedSize o imgW imgH
  let x2 := r.left + r.width - 1
  let y2 := r.top + r.height - 1
  decide (1 ≤ o) && decide (o ≤ 8) &&
  inI32 (W : Int) && inI32 (H : Int) && inI32 (r.width : Int) && inI32 (r.height : Int) &&
  inI32 (r.left + r.width) && inI32 (r.top + r.height) && inI32 x2 && inI32 y2 &&
  inI32 ((W : Int) - r.left) && inI32 ((W : Int) - r.left - 1) &&
  inI32 ((H : Int) - r.top) && inI32 ((H : Int) - r.top - 1) &&
  inI32 ((W : Int) - x2) && inI32 ((W : Int) - x2 - 1) &&
  inI32 ((H : Int) - y2) && inI32 ((H : Int) - y2 - 1)

end Region

open Region

/-! ## Header-driven functions -/

/-- The header fields the region arithmetic reads (`FrameHeader`, `ImageHeader`).
`upsampling`, `ecUp` are log2 (`1,2,4,8` ↦ `0..3`). -/
structure Cfg where
  imgW : Nat
  imgH : Nat
  orientation : Nat
  /-- `frame_header.x0`, `y0` -/
  x0 : Int
  y0 : Int
  /-- `frame_header.width`, `height` -/
  fw : Nat
  fh : Nat
  /-- `frame_type == ReferenceOnly` -/
  refOnly : Bool
  /-- `frame_type.is_normal_frame()` (Regular or SkipProgressive) -/
  normal : Bool
  lfLevel : Nat
  /-- log2 of `frame_header.upsampling` -/
  upsampling : Nat
  /-- per extra channel: (log2 of `ec_upsampling[i]`, `ec_info[i].dim_shift`) -/
  ec : List (Nat × Nat)
  /-- `0` = EPF disabled, else `iters` (1..3) -/
  epfIters : Nat
  gab : Bool
  ycbcr : Bool
  groupSizeShift : Nat
  deriving Repr, Inhabited

namespace Cfg

/-- what `Frame::parse` (`jxl-frame/src/lib.rs:112..215`) and the header bundles accept -/
def valid (c : Cfg) : Bool :=
  decide (1 ≤ c.imgW) && decide (c.imgW ≤ 2 ^ 30) && decide (1 ≤ c.imgH) && decide (c.imgH ≤ 2 ^ 30) &&
  decide (1 ≤ c.orientation) && decide (c.orientation ≤ 8) &&
  decide (1 ≤ c.fw) && decide (c.fw ≤ 2 ^ 30) && decide (1 ≤ c.fh) && decide (c.fh ≤ 2 ^ 30) &&
  decide (c.fw * c.fh ≤ 2 ^ 40) &&
  decide (-(2 ^ 29 + 9344 : Int) ≤ c.x0) && decide (c.x0 ≤ 2 ^ 29 + 9343) &&
  decide (-(2 ^ 29 + 9344 : Int) ≤ c.y0) && decide (c.y0 ≤ 2 ^ 29 + 9343) &&
  decide (c.lfLevel ≤ 4) && decide (c.upsampling ≤ 3) &&
  c.ec.all (fun e => decide (e.1 ≤ 3) && decide (c.upsampling ≤ e.1 + e.2) && decide (e.1 + e.2 ≤ 6)) &&
  decide (c.epfIters ≤ 3) && decide (c.groupSizeShift ≤ 3) &&
  (c.lfLevel == 0 || (c.upsampling == 0 && c.ec.all (fun e => e.1 == 0)))

/-- `FrameHeader::sample_width(upsampling)` (`header.rs:227`); `up` is the factor itself. -/
def sampleDim (c : Cfg) (dim : Nat) (up : Nat) : Nat :=
  let w := if up > 1 then (dim + up - 1) / up else dim
  if c.lfLevel > 0 then (w + 2 ^ (3 * c.lfLevel) - 1) / 2 ^ (3 * c.lfLevel) else w

def sampleWidth (c : Cfg) (up : Nat) : Nat := c.sampleDim c.fw up
def sampleHeight (c : Cfg) (up : Nat) : Nat := c.sampleDim c.fh up
/-- `color_sample_width` (`header.rs:263`) -/
def colorSampleWidth (c : Cfg) : Nat := c.sampleWidth (2 ^ c.upsampling)
def colorSampleHeight (c : Cfg) : Nat := c.sampleHeight (2 ^ c.upsampling)
/-- `group_dim` (`header.rs:299`) -/
def groupDim (c : Cfg) : Nat := 128 * 2 ^ c.groupSizeShift
def lfGroupDim (c : Cfg) : Nat := c.groupDim * 8
def groupsPerRow (c : Cfg) : Nat := (c.colorSampleWidth + c.groupDim - 1) / c.groupDim
def groupsPerCol (c : Cfg) : Nat := (c.colorSampleHeight + c.groupDim - 1) / c.groupDim
def numGroups (c : Cfg) : Nat := c.groupsPerRow * c.groupsPerCol
def lfGroupsPerRow (c : Cfg) : Nat := (c.colorSampleWidth + c.lfGroupDim - 1) / c.lfGroupDim
def lfGroupsPerCol (c : Cfg) : Nat := (c.colorSampleHeight + c.lfGroupDim - 1) / c.lfGroupDim
def numLfGroups (c : Cfg) : Nat := c.lfGroupsPerRow * c.lfGroupsPerCol

/-- the `u32` arithmetic of `sample_width/height`, `group_dim`, `lf_group_dim`, `num_groups`
(`header.rs:227..315`) is exact: `1u32 << (3 * lf_level)` and `128 << group_size_shift` do not
overflow their shift/width, `width + div - 1` stays in `u32`, the group counts multiply in `u32`. -/
def dimsFit (c : Cfg) : Bool :=
  decide (3 * c.lfLevel < 32) && decide (c.groupSizeShift ≤ 21) && decide (c.upsampling < 32) &&
  inU32 c.fw && inU32 c.fh &&
  inU32 ((c.fw + 2 ^ c.upsampling - 1) / 2 ^ c.upsampling + 2 ^ (3 * c.lfLevel) - 1) &&
  inU32 ((c.fh + 2 ^ c.upsampling - 1) / 2 ^ c.upsampling + 2 ^ (3 * c.lfLevel) - 1) &&
  inU32 (c.fw + 2 ^ (3 * c.lfLevel) - 1) && inU32 (c.fh + 2 ^ (3 * c.lfLevel) - 1) &&
  inU32 c.numGroups && inU32 c.numLfGroups

/-- `max_upsample_factor` of `pad_upsampling` (`util.rs:65..72`): the maximum of
`ilog2(ec_upsampling) + dim_shift` over the extra channels, or the colour factor when there is
no extra channel. -/
def maxUpsampleFactor (c : Cfg) : Nat :=
  match c.ec with
  | [] => c.upsampling
  | e :: es => es.foldl (fun m e => max m (e.1 + e.2)) (e.1 + e.2)

end Cfg

/-- `is_aabb_collides` (`header.rs:522`) on `u32` tuples `(x, y, w, h)`. -/
def aabbCollides (a b : Nat × Nat × Nat × Nat) : Bool :=
  let (x0, y0, w0, h0) := a
  let (x1, y1, w1, h1) := b
  decide (x0 < x1 + w1) && decide (x0 + w0 > x1) && decide (y0 < y1 + h1) && decide (y0 + h0 > y1)

def aabbFits (a b : Nat × Nat × Nat × Nat) : Bool :=
  let (x0, y0, w0, h0) := a
  let (x1, y1, w1, h1) := b
  inU32 (x1 + w1) && inU32 (x0 + w0) && inU32 (y1 + h1) && inU32 (y0 + h0)

/-- `FrameHeader::is_group_collides_region` (`header.rs:369`). -/
def groupCollides (c : Cfg) (g : Nat) (r : Nat × Nat × Nat × Nat) : Bool :=
  aabbCollides r ((g % c.groupsPerRow) * c.groupDim, (g / c.groupsPerRow) * c.groupDim, c.groupDim, c.groupDim)

def groupCollidesFits (c : Cfg) (g : Nat) (r : Nat × Nat × Nat × Nat) : Bool :=
  c.dimsFit && decide (c.groupsPerRow > 0) &&
  inU32 ((g % c.groupsPerRow) * c.groupDim) && inU32 ((g / c.groupsPerRow) * c.groupDim) &&
  aabbFits r ((g % c.groupsPerRow) * c.groupDim, (g / c.groupsPerRow) * c.groupDim, c.groupDim, c.groupDim)

/-- `FrameHeader::is_lf_group_collides_region` (`header.rs:377`). -/
def lfGroupCollides (c : Cfg) (g : Nat) (r : Nat × Nat × Nat × Nat) : Bool :=
  aabbCollides r ((g % c.lfGroupsPerRow) * c.lfGroupDim, (g / c.lfGroupsPerRow) * c.lfGroupDim, c.lfGroupDim, c.lfGroupDim)

def lfGroupCollidesFits (c : Cfg) (g : Nat) (r : Nat × Nat × Nat × Nat) : Bool :=
  c.dimsFit && decide (c.lfGroupsPerRow > 0) &&
  inU32 ((g % c.lfGroupsPerRow) * c.lfGroupDim) && inU32 ((g / c.lfGroupsPerRow) * c.lfGroupDim) &&
  aabbFits r ((g % c.lfGroupsPerRow) * c.lfGroupDim, (g / c.lfGroupsPerRow) * c.lfGroupDim, c.lfGroupDim, c.lfGroupDim)

/-- the rectangle of pass group `g` as built in `render_modular` (`modular.rs:70..80`) -/
def groupRegion (c : Cfg) (g : Nat) : Region :=
  ⟨((g % c.groupsPerRow) * c.groupDim : Nat), ((g / c.groupsPerRow) * c.groupDim : Nat), c.groupDim, c.groupDim⟩

/-- the job filter of `render_modular` (`modular.rs:81`): the group is decoded iff its rectangle
meets `modular_region`. -/
def groupSelected (c : Cfg) (modularRegion : Region) (g : Nat) : Bool :=
  !((groupRegion c g).intersection modularRegion).isEmpty

/-- the rectangle of LF group `g` at 1/8 scale as built in `load_lf_groups` (`util.rs:199..208`);
note it uses `group_dim` (not `lf_group_dim`) because the coordinates are already divided by 8 -/
def lfGroupRegion (c : Cfg) (g : Nat) : Region :=
  ⟨((g % c.lfGroupsPerRow) * c.groupDim : Nat), ((g / c.lfGroupsPerRow) * c.groupDim : Nat), c.groupDim, c.groupDim⟩

/-- the job filter of `load_lf_groups` (`util.rs:209`), `lfRegion = modular_region.downsample(3)`. -/
def lfGroupSelected (c : Cfg) (lfRegion : Region) (g : Nat) : Bool :=
  !(lfRegion.intersection (lfGroupRegion c g)).isEmpty

/-- `util::image_region_to_frame` (`util.rs:19`). -/
def imageRegionToFrame (c : Cfg) (r : Region) (ignoreLf : Bool) : Region :=
  let full := Region.withSize c.fw c.fh
  let fr :=
    if c.refOnly then full
    else ((r.applyOrientation c.imgW c.imgH c.orientation).translate (-c.x0) (-c.y0)).intersection full
  if ignoreLf then fr else fr.downsample (c.lfLevel * 3)

def imageRegionToFrameFits (c : Cfg) (r : Region) (ignoreLf : Bool) : Bool :=
  let full := Region.withSize c.fw c.fh
  let o := r.applyOrientation c.imgW c.imgH c.orientation
  let t := o.translate (-c.x0) (-c.y0)
  let fr := if c.refOnly then full else t.intersection full
  (c.refOnly ||
    (r.applyOrientationFits c.imgW c.imgH c.orientation && inI32 (-c.x0) && inI32 (-c.y0) &&
     o.translateFits (-c.x0) (-c.y0) && t.intersectionFits full)) &&
  (ignoreLf || fr.downsampleFits (c.lfLevel * 3))

/-- `util::pad_lf_region` (`util.rs:51`). -/
def padLfRegion (c : Cfg) (r : Region) : Region :=
  if c.lfLevel ≠ 0 then r.pad (4 * c.lfLevel + 32) else r

def padLfRegionFits (c : Cfg) (r : Region) : Bool :=
  c.lfLevel == 0 || r.padFits (4 * c.lfLevel + 32)

/-- `util::pad_upsampling` (`util.rs:60`). -/
def padUpsampling (c : Cfg) (r : Region) : Region :=
  let m := c.maxUpsampleFactor
  if m > 0 then ((r.downsample m).pad (2 + (m - 1) / 3)).upsample m else r

def padUpsamplingFits (c : Cfg) (r : Region) : Bool :=
  let m := c.maxUpsampleFactor
  m == 0 ||
  (r.downsampleFits m && (r.downsample m).padFits (2 + (m - 1) / 3) &&
   ((r.downsample m).pad (2 + (m - 1) / 3)).upsampleFits m)

/-- the sequence of regions `pad_color_region` goes through (`util.rs:85..120`):
after upsampling padding + downsampling, after EPF padding, after Gabor padding, after chroma
padding/alignment, after 8-alignment -/
def padColorSteps (c : Cfg) (r : Region) : List Region :=
  let s0 := (padUpsampling c r).downsample c.upsampling
  let s1 := if c.epfIters = 0 then s0
            else if c.epfIters = 1 then s0.pad 2 else if c.epfIters = 2 then s0.pad 5 else s0.pad 6
  let s2 := if c.gab then s1.pad 1 else s1
  let s3 := if c.ycbcr then (((s2.pad 1).downsample 2).upsample 2) else s2
  let s4 := if c.epfIters ≠ 0 then s3.containerAligned 8 else s3
  [s0, s1, s2, s3, s4]

/-- `util::pad_color_region` (`util.rs:85`). -/
def padColorRegion (c : Cfg) (r : Region) : Region :=
  let s0 := (padUpsampling c r).downsample c.upsampling
  let s1 := if c.epfIters = 0 then s0
            else if c.epfIters = 1 then s0.pad 2 else if c.epfIters = 2 then s0.pad 5 else s0.pad 6
  let s2 := if c.gab then s1.pad 1 else s1
  let s3 := if c.ycbcr then (((s2.pad 1).downsample 2).upsample 2) else s2
  if c.epfIters ≠ 0 then s3.containerAligned 8 else s3

def padColorRegionFits (c : Cfg) (r : Region) : Bool :=
  let pu := padUpsampling c r
  let s0 := pu.downsample c.upsampling
  let e := if c.epfIters = 1 then 2 else if c.epfIters = 2 then 5 else 6
  let s1 := if c.epfIters = 0 then s0 else s0.pad e
  let s2 := if c.gab then s1.pad 1 else s1
  let s3 := if c.ycbcr then (((s2.pad 1).downsample 2).upsample 2) else s2
  padUpsamplingFits c r && pu.downsampleFits c.upsampling &&
  (c.epfIters == 0 || s0.padFits e) &&
  (!c.gab || s1.padFits 1) &&
  (!c.ycbcr || (s2.padFits 1 && (s2.pad 1).downsampleFits 2 && ((s2.pad 1).downsample 2).upsampleFits 2)) &&
  (c.epfIters == 0 || s3.containerAlignedFits 8)

/-- `modular::compute_modular_region` (`modular.rs:150`); `forceFull` is
`has_palette() || has_squeeze()`. `region.width.checked_add_signed(region.left).unwrap()` panics
(all builds) when `left + width` is negative or exceeds `u32`. -/
def computeModularRegion (c : Cfg) (forceFull : Bool) (r : Region) (isLf : Bool) : Region :=
  if forceFull then
    let w := if isLf then (c.colorSampleWidth + 7) / 8 else c.colorSampleWidth
    let h := if isLf then (c.colorSampleHeight + 7) / 8 else c.colorSampleHeight
    Region.withSize (max w (r.left + r.width).toNat) (max h (r.top + r.height).toNat)
  else r

def computeModularRegionFits (c : Cfg) (forceFull : Bool) (r : Region) (_isLf : Bool) : Bool :=
  !forceFull || (c.dimsFit && intInU32 (r.left + r.width) && intInU32 (r.top + r.height))

/-- The regions `render::render_frame` (`render.rs:22..44`) and `modular::render_modular`
(`modular.rs:27`, `44`) derive from the requested image region. -/
structure Plumb where
  /-- `image_region_to_frame(frame, image_region, false)` (`render.rs:22`) -/
  frameRegion : Region
  /-- after `pad_lf_region` (`render.rs:32`) -/
  lfPadded : Region
  /-- `upsampling_valid_region` (`render.rs:36`) -/
  upValid : Region
  /-- `color_padded_region` (`render.rs:43`) -/
  colorPadded : Region
  /-- `compute_modular_region(.., color_padded_region, false)` (`modular.rs:27`) -/
  modularRegion : Region
  /-- `modular_region.downsample(3)` handed to `load_lf_groups` (`modular.rs:44`) -/
  lfRegion : Region
  deriving Repr, DecidableEq

def plumb (c : Cfg) (forceFull : Bool) (imageRegion : Region) : Plumb :=
  let fr := imageRegionToFrame c imageRegion false
  let lp := padLfRegion c fr
  let upFull := Region.withSize (c.sampleWidth 1) (c.sampleHeight 1)
  let uv := (padUpsampling c lp).intersection upFull
  let full := Region.withSize c.colorSampleWidth c.colorSampleHeight
  let cp := (padColorRegion c lp).intersection full
  let mr := computeModularRegion c forceFull cp false
  ⟨fr, lp, uv, cp, mr, mr.downsample 3⟩

def plumbFits (c : Cfg) (forceFull : Bool) (imageRegion : Region) : Bool :=
  let fr := imageRegionToFrame c imageRegion false
  let lp := padLfRegion c fr
  let upFull := Region.withSize (c.sampleWidth 1) (c.sampleHeight 1)
  let full := Region.withSize c.colorSampleWidth c.colorSampleHeight
  let cp := (padColorRegion c lp).intersection full
  let mr := computeModularRegion c forceFull cp false
  c.dimsFit && imageRegionToFrameFits c imageRegion false && padLfRegionFits c fr &&
  padUpsamplingFits c lp && (padUpsampling c lp).intersectionFits upFull &&
  padColorRegionFits c lp && (padColorRegion c lp).intersectionFits full &&
  computeModularRegionFits c forceFull cp false && mr.downsampleFits 3

/-- `image::composite` (`image.rs:818..842`): the frame-coordinate region handed to `blend()` as
`output_frame_region`. `oriented` is the already oriented image region. -/
def compositeRegion (c : Cfg) (oriented : Region) : Region :=
  let fr := (oriented.translate (-c.x0) (-c.y0)).downsample (c.lfLevel * 3)
  if c.normal then fr.intersection ((Region.withSize c.imgW c.imgH).translate (-c.x0) (-c.y0)) else fr

def compositeRegionFits (c : Cfg) (oriented : Region) : Bool :=
  let t := oriented.translate (-c.x0) (-c.y0)
  let d := t.downsample (c.lfLevel * 3)
  let img := (Region.withSize c.imgW c.imgH).translate (-c.x0) (-c.y0)
  inI32 (-c.x0) && inI32 (-c.y0) && oriented.translateFits (-c.x0) (-c.y0) &&
  t.downsampleFits (c.lfLevel * 3) &&
  (!c.normal || ((Region.withSize c.imgW c.imgH).translateFits (-c.x0) (-c.y0) && d.intersectionFits img))

/-! ## `blend()` / `patch()` region computation (`blend.rs:179..403`, `418..548`) -/

/-- Everything `blend()` derives from rectangles for one channel. -/
structure BlendGeom where
  /-- `original_frame_region` (`blend.rs:238`) -/
  original : Region
  /-- `clipped_original_frame_region` (`blend.rs:241`) -/
  clipped : Region
  /-- `blend_params.base_topleft` (`blend.rs:381`) -/
  baseX : Nat
  baseY : Nat
  /-- `blend_params.new_topleft` (`blend.rs:389`) -/
  newX : Nat
  newY : Nat
  /-- `blend_params.width/height` (`blend.rs:397`) -/
  w : Nat
  h : Nat
  /-- the region attached to the produced channel (`blend.rs:265`, `282`, `336`) -/
  target : Region
  /-- position of `target_subgrid` inside the target grid (`blend.rs:287..301`); `(0,0)` with the
  whole grid on the fresh-canvas path -/
  subLeft : Int
  subTop : Int
  subW : Nat
  subH : Nat
  deriving Repr, DecidableEq

/-- inputs: frame header `x0,y0,width,height` of the new frame; region of the new frame's grid
(frame coordinates); `output_frame_region`; and, if the source slot holds a frame whose grid is
not empty, that frame's `x0,y0` and the region of its blended grid (its own frame coordinates). -/
def blendGeom (x0 y0 : Int) (fw fh : Nat) (newGrid output : Region)
    (base : Option (Int × Int × Region)) : BlendGeom :=
  let full := Region.withSize fw fh
  let outImg := output.translate x0 y0
  let original := newGrid.intersection full
  let clipped := original.intersection output
  let (target, sl, st, sw, sh) :=
    match base with
    | none => (output, (0 : Int), (0 : Int), output.width, output.height)
    | some (bx0, by0, grid) =>
      if grid.isEmpty then (output, (0 : Int), (0 : Int), output.width, output.height)
      else
        let baseFrameRegion := outImg.translate (-bx0) (-by0)
        let rel := baseFrameRegion.translate (-grid.left) (-grid.top)
        (grid.translate (bx0 - x0) (by0 - y0), rel.left, rel.top, rel.width, rel.height)
  { original, clipped,
    baseX := (clipped.left - output.left).natAbs, baseY := (clipped.top - output.top).natAbs,
    newX := (clipped.left - newGrid.left).natAbs, newY := (clipped.top - newGrid.top).natAbs,
    w := clipped.width, h := clipped.height,
    target, subLeft := sl, subTop := st, subW := sw, subH := sh }

/-- no `i32` overflow in the translations; the new frame's grid is not 0×0 (`as_subgrid()` of an
empty grid asserts, `shared_subgrid.rs:47`); the sub-grid lies inside the base grid (otherwise
`subgrid()` panics); the copy loops stay inside both buffers (otherwise a slice index panics) -/
def blendGeomFits (x0 y0 : Int) (fw fh : Nat) (newGrid output : Region)
    (base : Option (Int × Int × Region)) : Bool :=
  let g := blendGeom x0 y0 fw fh newGrid output base
  let full := Region.withSize fw fh
  !newGrid.isEmpty && output.translateFits x0 y0 && newGrid.intersectionFits full &&
  (newGrid.intersection full).intersectionFits output &&
  (match base with
   | none => true
   | some (bx0, by0, grid) =>
     grid.isEmpty ||
     (inI32 (-bx0) && inI32 (-by0) && (output.translate x0 y0).translateFits (-bx0) (-by0) &&
      inI32 (-grid.left) && inI32 (-grid.top) &&
      ((output.translate x0 y0).translate (-bx0) (-by0)).translateFits (-grid.left) (-grid.top) &&
      inI32 (bx0 - x0) && inI32 (by0 - y0) && grid.translateFits (bx0 - x0) (by0 - y0) &&
      decide (0 ≤ g.subLeft) && decide (0 ≤ g.subTop) &&
      decide (g.subLeft + g.subW ≤ grid.width) && decide (g.subTop + g.subH ≤ grid.height))) &&
  (g.w == 0 || g.h == 0 ||
    (decide (g.baseX + g.w ≤ g.subW) && decide (g.baseY + g.h ≤ g.subH) &&
     decide (g.newX + g.w ≤ newGrid.width) && decide (g.newY + g.h ≤ newGrid.height)))

/-- What one cell of the produced channel holds after a `Replace` blend, as observed by the
probe: `0` fresh canvas, `-(i+1)` cell `i` of the base grid kept, `i+1` cell `i` (row-major) of
the new frame's grid copied. `(cx, cy)` is the cell index inside the target grid. -/
def blendCell (newGrid : Region) (g : BlendGeom) (hasBase : Bool) (cx cy : Nat) : Int :=
  let sx : Int := (cx : Int) - g.subLeft
  let sy : Int := (cy : Int) - g.subTop
  if (g.baseX : Int) ≤ sx ∧ sx < g.baseX + g.w ∧ (g.baseY : Int) ≤ sy ∧ sy < g.baseY + g.h then
    let nx := g.newX + (sx - g.baseX).toNat
    let ny := g.newY + (sy - g.baseY).toNat
    ((ny * newGrid.width + nx + 1 : Nat) : Int)
  else if hasBase then -((cy * g.target.width + cx + 1 : Nat) : Int)
  else 0

def blendCells (newGrid : Region) (g : BlendGeom) (hasBase : Bool) : List Int :=
  (List.range g.target.height).flatMap fun cy =>
    (List.range g.target.width).map fun cx => blendCell newGrid g hasBase cx cy

/-- Everything `patch()` derives from rectangles for one channel and one target position. -/
structure PatchGeom where
  /-- `target_patch_region` (`blend.rs:436`) -/
  targetPatch : Region
  /-- `ref_patch_region` (`blend.rs:448`) -/
  refPatch : Region
  baseX : Nat
  baseY : Nat
  newX : Nat
  newY : Nat
  w : Nat
  h : Nat
  deriving Repr, DecidableEq

/-- `baseGrid`: region of the canvas channel; `refGrid`: region of the reference channel;
`(px0, py0, pw, ph)`: `PatchRef { x0, y0, width, height }`; `(tx, ty)`: `PatchTarget { x, y }`. -/
def patchGeom (baseGrid refGrid : Region) (px0 py0 pw ph : Nat) (tx ty : Int) : PatchGeom :=
  let tp := baseGrid.intersection ⟨tx, ty, pw, ph⟩
  let left := tp.left - tx
  let top := tp.top - ty
  let rp := refGrid.intersection ⟨(px0 : Int) + left, (py0 : Int) + top, tp.width, tp.height⟩
  { targetPatch := tp, refPatch := rp,
    baseX := (tp.left - baseGrid.left).natAbs, baseY := (tp.top - baseGrid.top).natAbs,
    newX := (rp.left - refGrid.left).natAbs, newY := (rp.top - refGrid.top).natAbs,
    w := rp.width, h := rp.height }

def patchGeomFits (baseGrid refGrid : Region) (px0 py0 pw ph : Nat) (tx ty : Int) : Bool :=
  let tp := baseGrid.intersection ⟨tx, ty, pw, ph⟩
  let left := tp.left - tx
  let top := tp.top - ty
  let pr : Region := ⟨(px0 : Int) + left, (py0 : Int) + top, tp.width, tp.height⟩
  baseGrid.intersectionFits ⟨tx, ty, pw, ph⟩ && inI32 left && inI32 top &&
  inI32 (px0 : Int) && inI32 (py0 : Int) && inI32 ((px0 : Int) + left) && inI32 ((py0 : Int) + top) &&
  refGrid.intersectionFits pr

def patchCell (baseGrid refGrid : Region) (g : PatchGeom) (cx cy : Nat) : Int :=
  if g.baseX ≤ cx ∧ cx < g.baseX + g.w ∧ g.baseY ≤ cy ∧ cy < g.baseY + g.h then
    (((g.newY + (cy - g.baseY)) * refGrid.width + (g.newX + (cx - g.baseX)) + 1 : Nat) : Int)
  else -((cy * baseGrid.width + cx + 1 : Nat) : Int)

def patchCells (baseGrid refGrid : Region) (g : PatchGeom) : List Int :=
  (List.range baseGrid.height).flatMap fun cy =>
    (List.range baseGrid.width).map fun cx => patchCell baseGrid refGrid g cx cy

/-! ## Reset decision of `request_image_region` (`lib.rs:232`, `reset_cache` `lib.rs:669..721`) -/

/-- A loaded frame as far as the reset logic is concerned: `frame_type == ReferenceOnly`, and
the frame indices in `FrameDependence { lf, ref_slots }` (all smaller than its own index). -/
structure FrameInfo where
  refOnly : Bool
  deps : List Nat
  deriving Repr, DecidableEq

/-- What a render handle can observe: for itself (first entry) and for every handle it captured
directly or indirectly (`FrameRenderHandle.refs`, the `render_op` closure: `Arc`s to the handles
that were current when it was created), the frame index and the image region that handle renders
with. `none` for a `ReferenceOnly` frame: `image_region_to_frame` ignores the region there
(`util.rs:28`). A keyframe's samples are a function of the frames' data and of this view. -/
structure Handle where
  view : List (Nat × Option Region)
  deriving Repr, DecidableEq

/-- a fresh handle for frame `idx` created while `acc` holds the current handles of the frames
before it (`preserve_current_frame`, `lib.rs:329..388`; `reset_cache`, `lib.rs:680..718`) -/
def freshHandle (f : FrameInfo) (idx : Nat) (region : Region) (acc : List Handle) : Handle :=
  { view := (idx, if f.refOnly then none else some region) ::
            f.deps.flatMap fun d => ((acc[d]?).map (·.view)).getD [] }

/-- handles right after loading all frames with requested region `r0`; `acc` = handles of the
frames already loaded -/
def loadFrom (r0 : Region) : List FrameInfo → List Handle → List Handle
  | [], _ => []
  | f :: fs, acc =>
    let h := freshHandle f acc.length r0 acc
    h :: loadFrom r0 fs (acc ++ [h])

def initial (frames : List FrameInfo) (r0 : Region) : List Handle := loadFrom r0 frames []

/-- `reset_cache`: frames are visited in index order; a `ReferenceOnly` frame keeps its handle
(`lib.rs:676`), any other frame gets a fresh handle for `region` that captures the *current*
handles of its dependency frames (`acc`: already replaced, since they have smaller indices). -/
def resetFrom (region : Region) : List FrameInfo → List Handle → List Handle → List Handle
  | f :: fs, h :: hs, acc =>
    let h' : Handle := if f.refOnly then h else freshHandle f acc.length region acc
    h' :: resetFrom region fs hs (acc ++ [h'])
  | _, _, _ => []

/-- `request_image_region(region)` (`lib.rs:232`). -/
def request (frames : List FrameInfo) (hs : List Handle) (region : Region) : List Handle :=
  resetFrom region frames hs []

/-- a history of requests -/
def requests (frames : List FrameInfo) (hs : List Handle) : List Region → List Handle
  | [] => hs
  | r :: rs => requests frames (request frames hs r) rs

/-- the handles a request does not touch: those of `ReferenceOnly` frames -/
def kept : List FrameInfo → List Handle → List (Option Handle)
  | f :: fs, h :: hs => (if f.refOnly then some h else none) :: kept fs hs
  | _, _ => []

/-- the state after a request as a function of the region and the kept handles alone -/
def rebuildFrom (region : Region) : List FrameInfo → List (Option Handle) → List Handle → List Handle
  | f :: fs, k :: ks, acc =>
    let h' : Handle := match k with
      | some h => h
      | none => freshHandle f acc.length region acc
    h' :: rebuildFrom region fs ks (acc ++ [h'])
  | _, _, _ => []

/-- `ReferenceOnly` frames depend only on earlier `ReferenceOnly` frames -/
def RefClosed (frames : List FrameInfo) : Prop :=
  ∀ (i : Nat) (f : FrameInfo), frames[i]? = some f → f.refOnly = true →
    ∀ d ∈ f.deps, d < i ∧ (frames[d]?).map FrameInfo.refOnly = some true

end Jxl.Region

namespace Jxl.Region
/-! ## Specification vocabulary used by the theorems (not in the Rust code) -/

/-- box ordering: `a` lies within `b` edge by edge (no special case for empty boxes) -/
def Region.Within (a b : Region) : Prop :=
  b.left ≤ a.left ∧ a.left + a.width ≤ b.left + b.width ∧
  b.top ≤ a.top ∧ a.top + a.height ≤ b.top + b.height

instance (a b : Region) : Decidable (Region.Within a b) := by unfold Region.Within; infer_instance

/-- the box `[x0, x1) × [y0, y1)` as a predicate on cells; `Region.Mem` for explicit bounds -/
def InBox (x y : Int) (x0 x1 y0 y1 : Int) : Prop := x0 ≤ x ∧ x < x1 ∧ y0 ≤ y ∧ y < y1

/-- the set of cells `blend()` must write: the new frame's grid ∩ the frame rectangle ∩ the
output rectangle (all in the new frame's coordinates) -/
def BlendSpec (fw fh : Nat) (newGrid output : Region) (x y : Int) : Prop :=
  Region.Mem x y newGrid ∧ Region.Mem x y (Region.withSize fw fh) ∧ Region.Mem x y output

/-- what `blend_single` does with the parameters: for `dx < w`, `dy < h` it copies cell
`(newX + dx, newY + dy)` of the new frame's grid to cell `(baseX + dx, baseY + dy)` of the target
sub-grid, which sits at `(subLeft, subTop)` inside the target grid. -/
structure BlendWrite (newGrid : Region) (g : BlendGeom) (fw fh : Nat) (output : Region) (dx dy : Nat) : Prop where
  same_x : g.target.left + (g.subLeft + ((g.baseX + dx : Nat) : Int)) = newGrid.left + ((g.newX + dx : Nat) : Int)
  same_y : g.target.top + (g.subTop + ((g.baseY + dy : Nat) : Int)) = newGrid.top + ((g.newY + dy : Nat) : Int)
  in_sub_x : g.baseX + dx < g.subW
  in_sub_y : g.baseY + dy < g.subH
  in_target_x : 0 ≤ g.subLeft ∧ g.subLeft + g.subW ≤ g.target.width
  in_target_y : 0 ≤ g.subTop ∧ g.subTop + g.subH ≤ g.target.height
  in_new_x : g.newX + dx < newGrid.width
  in_new_y : g.newY + dy < newGrid.height
  in_spec : BlendSpec fw fh newGrid output (newGrid.left + ((g.newX + dx : Nat) : Int)) (newGrid.top + ((g.newY + dy : Nat) : Int))

/-- what `blend_single` does with the parameters `patch()` computes -/
structure PatchWrite (baseGrid refGrid : Region) (px0 py0 pw ph : Nat) (tx ty : Int) (g : PatchGeom) (dx dy : Nat) : Prop where
  in_base_x : g.baseX + dx < baseGrid.width
  in_base_y : g.baseY + dy < baseGrid.height
  in_ref_x : g.newX + dx < refGrid.width
  in_ref_y : g.newY + dy < refGrid.height
  in_target_x : tx ≤ baseGrid.left + ((g.baseX + dx : Nat) : Int) ∧ baseGrid.left + ((g.baseX + dx : Nat) : Int) < tx + pw
  in_target_y : ty ≤ baseGrid.top + ((g.baseY + dy : Nat) : Int) ∧ baseGrid.top + ((g.baseY + dy : Nat) : Int) < ty + ph
  same_offset_x : refGrid.left + ((g.newX + dx : Nat) : Int) - px0 = baseGrid.left + ((g.baseX + dx : Nat) : Int) - tx
  same_offset_y : refGrid.top + ((g.newY + dy : Nat) : Int) - py0 = baseGrid.top + ((g.baseY + dy : Nat) : Int) - ty

/-! ## Locality radii of the render stages, read off the kernels (specification of "what a
stage needs"; the kernels themselves are not modelled)

* Gabor-like filter: 3×3 kernel, rows `y-1..y+1` (`filter/gabor.rs:93..98`) — radius 1.
* EPF (`filter/epf.rs:263..291`): step 0 uses kernel offsets of reach 2 (`EPF_KERNEL_2`) plus
  distance offsets of reach 1: radius 3; step 1: `EPF_KERNEL_1` (reach 1) + distance offsets of
  reach 1: radius 2; step 2: reach 1 + single offset `(0,0)`: radius 1. `iters = 1` runs step 1
  (radius 2), `iters = 2` steps 1, 2 (radius 3), `iters = 3` steps 0, 1, 2 (radius 6)
  (`epf.rs:44..87`; 7 input rows `y-3..y+3` per step, `epf.rs:206..211`). The code pads 2 / 5 / 6
  (`util.rs:99..105`) and needs the window origin to be a multiple of 8 for the sigma lookup
  (`epf.rs:145..147`, `188..199`).
* chroma upsampling (`filter/ycbcr.rs:12..53`): output `2i` reads subsampled `i-1, i`, output
  `2i+1` reads `i, i+1`: radius 1 at the subsampled scale, i.e. the full-resolution need is the
  target padded by 1 and aligned to 2. The code pads 1 and aligns to 4 (`util.rs:113`).
* non-separable upsampling (`features/upsampling.rs:18..40`, `56..58`): `k / 3` passes by 8 then one
  pass by `2^(k % 3)`, each with a 5×5 kernel: radius 2 at the input scale of each pass. The code pads
  `2 + (k-1)/3` at the coarsest scale (`util.rs:78`).
* patches, splines, noise, blending: radius 0 (per-cell). -/

def epfRadius : Nat → Nat
  | 0 => 0
  | 1 => 2
  | 2 => 3
  | _ => 6

def upNeedLoop : Nat → Region → Region
  | 0, r => r
  | n + 1, r => upNeedLoop n ((r.downsample 3).pad 2)

/-- the input cells (scale `2^k`) the non-separable upsampler reads to produce the full-resolution
cells of `r` -/
def upNeed (r : Region) (k : Nat) : Region :=
  upNeedLoop (k / 3) (if k % 3 = 0 then r else (r.downsample (k % 3)).pad 2)

/-- the cells (colour-sample scale) the chain chroma upsampling → Gabor → EPF → non-separable
upsampling reads from the decoded frame in order to produce the full-resolution cells of `F` -/
def stageNeed (c : Cfg) (F : Region) : Region :=
  let n0 := upNeed F c.upsampling
  let n1 := n0.pad (epfRadius c.epfIters)
  let n2 := if c.gab then n1.pad 1 else n1
  if c.ycbcr then ((n2.pad 1).downsample 1).upsample 1 else n2

end Jxl.Region
