import JxlModel.Model.Enc.SampleCoder
import JxlModel.Model.Modular.Image
/-!
# Reference encoder: Modular sub-bitstreams

Layouts follow `MaConfig::parse` (jxl-modular/src/ma.rs), `ModularHeader`/`TransformInfo`
(lib.rs, transform.rs) and `GlobalModular::parse` (jxl-frame/src/data/lf_global.rs).
-/
namespace Jxl.Enc
open Jxl.Modular

/-- breadth-first order of the nodes (the order `MaConfig::parse` reads them in) -/
def bfs : Nat → List Tree → List Tree
  | 0, _ => []
  | _, [] => []
  | fuel + 1, t :: q =>
    match t with
    | .leaf _ => t :: bfs fuel q
    | .dec _ _ l r => t :: bfs fuel (q ++ [l, r])

def mulSplit (m : Nat) : Nat × Nat :=
  -- multiplier = (mul_bits + 1) << mul_log
  let rec tz (fuel m acc : Nat) : Nat :=
    match fuel with
    | 0 => acc
    | fuel + 1 => if m % 2 == 0 ∧ m > 0 ∧ acc < 30 then tz fuel (m / 2) (acc + 1) else acc
  let l := tz 31 m 0
  (l, m / 2 ^ l - 1)

/-- tokens of the tree stream and the leaf clusters in context order -/
def treeTokens (t : Tree) : List (Nat × Nat) × List Nat :=
  let nodes := bfs (2 * t.size + 2) [t]
  let toks := nodes.flatMap fun
    | .dec p v _ _ => [(1, p + 1), (0, packSigned v)]
    | .leaf l =>
      let (ml, mb) := mulSplit l.mul
      [(1, 0), (2, l.pred), (3, packSigned l.offset), (4, ml), (5, mb)]
  let clusters := nodes.filterMap fun
    | .leaf l => some l.ctx
    | _ => none
  (toks, clusters)

/-- contexts in reading order → leaf index: the encoder's tokens carry the leaf's *cluster* in
`Leaf.ctx`; the sample stream is written with `numCtx = #leaves` and this cluster map -/
def leafCtxIndex (t : Tree) : List Nat := (treeTokens t).2

def beginCDist : List Dist := [.bits 0 3, .bits 8 6, .bits 72 10, .bits 1096 13]

def writeTransform (w : BW) : Transform → BW
  | .rct b t =>
    ((w.u 2 0).u32 beginCDist b).u32 [.const 6, .bits 0 2, .bits 2 4, .bits 10 6] t
  | .palette b n nbc nbd dp =>
    let w := (w.u 2 1).u32 beginCDist b
    let w := w.u32 [.const 1, .const 3, .const 4, .bits 1 13] n
    let w := w.u32 [.bits 0 8, .bits 256 10, .bits 1280 12, .bits 5376 16] nbc
    let w := w.u32 [.const 0, .bits 1 8, .bits 257 10, .bits 1281 16] nbd
    w.u 4 dp
  | .squeeze ps =>
    let w := (w.u 2 2).u32 [.const 0, .bits 1 4, .bits 9 6, .bits 41 8] ps.length
    ps.foldl (fun w sp =>
      let w := (w.bool sp.horizontal).bool sp.inPlace
      (w.u32 beginCDist sp.beginC).u32 [.const 1, .const 2, .const 3, .bits 4 4] sp.numC) w

def writeWp (w : BW) (wp : Wp) : BW :=
  if wp.isDefault then w.bool true
  else
    let w := w.bool false
    let w := [wp.p1, wp.p2, wp.p3a, wp.p3b, wp.p3c, wp.p3d, wp.p3e].foldl (fun w v => w.u 5 v) w
    [wp.w0, wp.w1, wp.w2, wp.w3].foldl (fun w v => w.u 4 v) w

/-- re-tag cluster-tagged sample tokens with a context of that cluster -/
def retag (clusters : List Nat) (toks : List (Nat × Nat)) : List (Nat × Nat) :=
  toks.map fun (c, v) => ((clusters.findIdx? (· == c)).getD 0, v)

/-- `MaConfig::parse`: tree stream (6 contexts) then the sample decoder header.
`sections` = the sample tokens `(cluster, value)` of every stream that uses this tree. -/
def writeMaConfig (w : BW) (mode : EntMode) (t : Tree) (sections : List (Nat × List (Nat × Nat))) : BW × Coder :=
  let (toks, clusters) := treeTokens t
  let treeMode : EntMode := if mode == 3 ∨ mode == 5 ∨ mode == 7 then 1 else if mode == 4 ∨ mode == 6 ∨ mode == 8 then 2 else mode
  let tc := mkCoder treeMode 6 [0, 1, 2, 3, 4, 5] [(0, toks)]
  let w := tc.section (tc.header w) 0 toks
  let sc := mkCoder mode clusters.length clusters (sections.map fun (m, s) => (m, retag clusters s))
  (sc.header w, sc)

/-- `ModularHeader` -/
def writeModularHeader (w : BW) (useGlobalTree : Bool) (wp : Wp) (ts : List Transform) : BW :=
  let w := (w.bool useGlobalTree)
  let w := writeWp w wp
  let w := w.u32 [.const 0, .const 1, .bits 2 4, .bits 18 8] ts.length
  ts.foldl writeTransform w

/-- one section's sample tokens `(cluster, value)` -/
def writeSamples (w : BW) (sc : Coder) (clusters : List Nat) (mult : Nat) (toks : List (Nat × Nat)) : BW :=
  sc.section w mult (retag clusters toks)

end Jxl.Enc
