import JxlModel.Model.Entropy.Ans
import JxlModel.Model.Entropy.Cluster
import JxlModel.Model.Enc.Huffman
/-!
# Encoder: ANS histogram headers (inverse of `ans::Histogram::parse`) and the rANS encoder step
-/
namespace Jxl.Enc
open Jxl Jxl.Entropy

/-- which header form to use for an ANS distribution -/
inductive AnsForm
  | auto                          -- single / binary if possible, else general(13, rle)
  | single                        -- one symbol with probability 4096
  | binary                        -- two symbols
  | flat                          -- evenly distributed over `alphabet_size` symbols
  | general (shift : Nat) (rle : Bool)  -- log-counts; `shift ≤ 13`; precision limited by `shift`
deriving Repr, DecidableEq, Inhabited

/-- inverse of `readU8` -/
def writeU8 (v : Nat) : Bits :=
  if v = 0 then [false]
  else let n := Nat.log2 v; true :: toBits 3 n ++ toBits n (v - 2 ^ n)

/-- inverse of `readLogCount` -/
def writeLogCount : Nat → Bits
  | 10 => toBits 3 0
  | 4 => toBits 3 1 ++ [true]
  | 0 => toBits 3 1 ++ [false, true]
  | 11 => toBits 3 1 ++ [false, false, true]
  | 13 => toBits 3 1 ++ [false, false, false, true]
  | 12 => toBits 3 1 ++ [false, false, false, false]
  | 7 => toBits 3 2
  | 1 => toBits 3 3 ++ [true]
  | 3 => toBits 3 3 ++ [false]
  | 6 => toBits 3 4
  | 8 => toBits 3 5
  | 9 => toBits 3 6
  | 2 => toBits 3 7 ++ [true]
  | _ => toBits 3 7 ++ [false]      -- 5

/-- inverse of the shift field -/
def writeShift (shift : Nat) : Bits :=
  if shift = 0 then [false]
  else if shift ≤ 2 then [true, false] ++ toBits 1 (shift - 1)
  else if shift ≤ 6 then [true, true, false] ++ toBits 2 (shift - 3)
  else [true, true, true] ++ toBits 3 (shift - 7)

/-- log-count code of a probability: 0 ↦ 0, else floor(log2 d) + 1 -/
def logCount (d : Nat) : Nat := if d = 0 then 0 else Nat.log2 d + 1

/-- number of mantissa bits transmitted for log-count `code` under `shift` -/
def mantissaBits (shift code : Nat) : Nat :=
  let zeros := code - 1
  min (shift - (12 - zeros) / 2) zeros

/-- position that is omitted: first index with the maximal log-count -/
def omitPos (d : List Nat) : Nat :=
  let codes := d.map logCount
  let m := listMax codes
  codes.idxOf m

/-- round the distribution so that `general shift` can express it: every entry except the omitted
one loses the mantissa bits that are not transmitted; the omitted entry absorbs the difference -/
def quantizeForShift (shift : Nat) (d : List Nat) : List Nat :=
  let op := omitPos d
  let q := d.zipIdx.map fun (x, i) =>
    if i = op ∨ x ≤ 1 then x
    else
      let code := logCount x
      let drop := (code - 1) - mantissaBits shift code
      x / 2 ^ drop * 2 ^ drop
  let others := (q.zipIdx.foldl (fun a (x, i) => if i = op then a else a + x) 0)
  q.set op (4096 - others)

/-- runs `(start, len)` coded with the RLE marker: `len ≥ 4` entries equal to the entry before
`start` (0 at the very beginning), never containing the omitted position nor starting right after
it. Greedy, maximal, `len ≤ 255 + 4`. -/
def findRuns (op : Nat) (d : Array Nat) (n : Nat) : Nat → Nat → List (Nat × Nat) → List (Nat × Nat)
  | 0, _, acc => acc.reverse
  | fuel+1, i, acc =>
    if i ≥ n then acc.reverse
    else
      let prev := if i = 0 then 0 else d[i - 1]!
      if i = op ∨ (i ≠ 0 ∧ i - 1 = op) ∨ d[i]! ≠ prev then findRuns op d n fuel (i + 1) acc
      else
        -- extend
        let rec ext (f j : Nat) : Nat :=
          match f with
          | 0 => j
          | f+1 => if j < n ∧ j ≠ op ∧ d[j]! = prev ∧ j - i < 259 then ext f (j + 1) else j
        let j := ext 300 i
        if j - i ≥ 4 then findRuns op d n fuel j ((i, j - i) :: acc)
        else findRuns op d n fuel (i + 1) acc

/-- alphabet size declared by the general form: last used index + 1, at least 3 -/
def generalAlphabet (d : List Nat) : Nat :=
  max 3 ((trimTrailingZeros' d).length)
where trimTrailingZeros' (l : List Nat) : List Nat := (l.reverse.dropWhile (· = 0)).reverse

def writeGeneral (d : List Nat) (shift : Nat) (rle : Bool) : Bits :=
  let a := generalAlphabet d
  let arr := (d ++ List.replicate (a - d.length) 0).toArray
  let op := omitPos d
  let runs := if rle then findRuns op arr a (a + 1) 0 [] else []
  let inRun (i : Nat) : Bool := runs.any fun (s, l) => s ≤ i ∧ i < s + l
  let idxs := List.range a
  let part1 := idxs.flatMap fun i =>
    match runs.find? (fun (s, _) => s = i) with
    | some (_, l) => writeLogCount 13 ++ writeU8 (l - 4)
    | none => if inRun i then [] else writeLogCount (logCount arr[i]!)
  let part2 := idxs.flatMap fun i =>
    if inRun i ∨ i = op then []
    else
      let x := arr[i]!
      let code := logCount x
      if code > 1 then
        let zeros := code - 1
        let bc := mantissaBits shift code
        toBits bc ((x - 2 ^ zeros) / 2 ^ (zeros - bc))
      else []
  [false, false] ++ writeShift shift ++ writeU8 (a - 3) ++ part1 ++ part2

def flatDist (a : Nat) : List Nat :=
  List.replicate (4096 % a) (4096 / a + 1) ++ List.replicate (a - 4096 % a) (4096 / a)

/-- used symbols of a distribution -/
def usedSyms (d : List Nat) : List Nat := (d.zipIdx.filter fun (x, _) => x ≠ 0).map (·.2)

/-- ANS histogram header. `d` sums to 4096. If the requested form cannot express `d` exactly the
general form with full precision (`shift = 13`) is used instead (`ansFormOk` tells). -/
def ansFormOk (d : List Nat) : AnsForm → Bool
  | .auto => true
  | .single => (usedSyms d).length = 1
  | .binary => (usedSyms d).length = 2
  | .flat => let a := (usedSyms d).length; a ≥ 1 ∧ d.take a = flatDist a ∧ (d.drop a).all (· = 0)
  | .general shift _ => shift ≤ 13 ∧ (usedSyms d).length ≥ 2 ∧ quantizeForShift shift d = d

/-- the form actually written: the requested one if it can express `d`, else single / binary /
general with full precision -/
def effectiveForm (d : List Nat) (form : AnsForm) : AnsForm :=
  let u := usedSyms d
  let form : AnsForm := if ansFormOk d form then form else .auto
  match form with
  | .auto => if u.length = 1 then .single else if u.length = 2 then .binary else .general 13 true
  | f => f

def writeAns (d : List Nat) (form : AnsForm) : Bits :=
  let u := usedSyms d
  match effectiveForm d form with
  | .single => [true, false] ++ writeU8 (u.getD 0 0)
  | .binary =>
    let v0 := u.getD 0 0
    let v1 := u.getD 1 0
    [true, true] ++ writeU8 v0 ++ writeU8 v1 ++ toBits 12 (d.getD v0 0)
  | .flat => [false, true] ++ writeU8 (u.length - 1)
  | .general shift rle => writeGeneral d shift rle
  | .auto => []

/-! ## rANS encoder -/

/-- reverse alias map of a histogram: `rev[sym][offset] = idx` -/
def buildRev (h : AnsHist) (tableSize : Nat) : Array (Array Nat) :=
  let bucketsA := h.buckets.toArray
  let B := 2 ^ h.logBucketSize
  let lookupA (idx : Nat) : Nat × Nat :=
    let i := idx / B
    let pos := idx % B
    let b := bucketsA.getD i default
    if pos ≥ b.cutoff then (b.aliasSym, b.aliasOff + pos) else (i, pos)
  let init : Array (Array Nat) := (h.buckets.map fun b => Array.replicate b.dist 0).toArray
  let init := if init.size < tableSize then init ++ Array.replicate (tableSize - init.size) #[] else init
  (List.range 4096).foldl (fun rev idx =>
    let (s, o) := lookupA idx
    if s < rev.size then rev.modify s (fun a => if o < a.size then a.set! o idx else a) else rev) init

/-- probability of `sym` under `h` (the bucket with index `sym` keeps the symbol's own `dist`) -/
def symDist (h : AnsHist) (sym : Nat) : Nat := (h.buckets.getD sym default).dist

/-- index with `lookup idx = (sym, off, _)`: the fast table, checked; linear search otherwise.
Correct whenever such an index exists below 4096 (`Proofs/Entropy/AnsSeq.lean`). -/
def aliasInv (h : AnsHist) (rev : Array (Array Nat)) (sym off : Nat) : Nat :=
  let c := (rev.getD sym #[]).getD off 0
  let ok (idx : Nat) : Bool := decide (h.lookup idx = (sym, off, symDist h sym))
  if c < 4096 ∧ ok c then c else ((List.range 4096).find? ok).getD 0

/-- one encoder step (inverse of `AnsHist.readSymbol`): from the state *after* the symbol to the
state *before* it, and the 16-bit word the decoder will pull in after decoding the symbol -/
def ansEncStep (dSym : Nat) (inv : Nat → Nat) (x : Nat) : Nat × Option Nat :=
  let (x1, w) := if x / 2 ^ 20 ≥ dSym then (x / 2 ^ 16, some (x % 2 ^ 16)) else (x, none)
  ((x1 / dSym) * 4096 + inv (x1 % dSym), w)

/-- bits the encoder emits for one step -/
def stepBits : Option Nat → Bits
  | some w => toBits 16 w
  | none => []

end Jxl.Enc
