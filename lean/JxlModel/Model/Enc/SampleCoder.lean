import JxlModel.Model.Enc.EntropyV0
import JxlModel.Model.Enc.EntropyEnc
/-!
# How a Modular stream's tokens are entropy coded

Mode 0 is the fixed-length prefix code of `EntropyV0`. Modes 1–4 use the general reference
encoder of property C04 (`EntropyEnc`): prefix codes / ANS fitted to the tokens, optionally with
LZ77 where runs of equal values become copies of distance 1 — with a single-leaf gradient tree this
is exactly the shape that switches the real decoder to its RLE "fast lossless" path.
-/
namespace Jxl.Enc
open Jxl.Entropy

/-- 0 fixed prefix · 1 prefix (Huffman) · 2 ANS · 3 prefix + LZ77 runs · 4 ANS + LZ77 runs -/
abbrev EntMode := Nat

structure Coder where
  mode : EntMode
  /-- resolved plan (modes 1–4) -/
  plan : EntropyPlan
  v0 : V0Plan
  deriving Inhabited

def runItems (minLen : Nat) (toks : List (Nat × Nat)) : List Item :=
  -- greedy: a run of ≥ minLen values equal to the previous value becomes one copy (distance code 1
  -- = "previous value" under a non-zero distance multiplier: special distance (1, 0))
  let rec go (fuel : Nat) (prev : Option Nat) (l : List (Nat × Nat)) : List Item :=
    match fuel, l with
    | 0, _ => []
    | _, [] => []
    | fuel + 1, (c, v) :: rest =>
      match prev with
      | some pv =>
        if v == pv then
          let run := (((c, v) :: rest).takeWhile fun x => x.2 == pv).length
          if run ≥ minLen then .copy c run 1 :: go fuel (some pv) (((c, v) :: rest).drop run)
          else .lit c v :: go fuel (some v) rest
        else .lit c v :: go fuel (some v) rest
      | none => .lit c v :: go fuel (some v) rest
  go (toks.length + 1) none toks

def bitsFor (n : Nat) : Nat := if n ≤ 1 then 0 else Nat.log2 (n - 1) + 1

/-- items of one section for a mode (`toks` tagged by context index) -/
def sectionItems (mode : EntMode) (toks : List (Nat × Nat)) : List Item :=
  if mode == 3 ∨ mode == 4 then runItems 3 toks else toks.map fun (c, v) => .lit c v

/-- build the coder for `numCtx` contexts with cluster map `clusters`, fitted to all sections -/
def mkCoder (mode : EntMode) (numCtx : Nat) (clusters : List Nat) (sections : List (List (Nat × Nat))) : Coder :=
  let all := sections.flatMap id
  let v0 := v0PlanFor numCtx clusters all
  if mode == 0 then { mode := 0, plan := default, v0 }
  else
    let lz := mode == 3 ∨ mode == 4
    let nc := numClusters clusters
    let kind : CoderKind := if mode == 2 ∨ mode == 4 then .ans 8 else .prefix
    let cm := if lz then clusters ++ [nc] else clusters
    let ncAll := if lz then nc + 1 else nc
    let cfgs := List.replicate nc (⟨4, 1, 1⟩ : IntegerConfig) ++ (if lz then [⟨0, 0, 0⟩] else [])
    let p0 : EntropyPlan :=
      { numDist := numCtx, lz77 := if lz then some { minSymbol := 224, minLength := 3, lenConf := ⟨0, 0, 0⟩ } else none,
        clusterMap := cm, clusterNbits := bitsFor ncAll, coder := kind, configs := cfgs,
        codes := List.replicate ncAll (.auto .auto .auto) }
    let items := sections.flatMap (sectionItems mode)
    let p := p0.resolve items
    -- every section must be expressible on its own (first item of a section is never a copy)
    if ncAll ≤ 8 ∧ sections.all (fun s => p.check (sectionItems mode s)) ∧ p.check items then { mode, plan := p, v0 }
    else { mode := 0, plan := default, v0 }

def Coder.header (c : Coder) (w : BW) : BW :=
  if c.mode == 0 then v0Header w c.v0 else w.bits (encodeHeader c.plan)

def Coder.section (c : Coder) (w : BW) (toks : List (Nat × Nat)) : BW :=
  if c.mode == 0 then v0Values w c.v0 toks else w.bits (encodeItems c.plan (sectionItems c.mode toks))

end Jxl.Enc
