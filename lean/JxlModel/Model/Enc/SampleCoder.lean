import JxlModel.Model.Enc.EntropyV0
import JxlModel.Model.Enc.EntropyEnc
/-!
# How a Modular stream's tokens are entropy coded

Mode 0 is the fixed-length prefix code of `EntropyV0`. Modes 1–4 use the general reference
encoder of property C04 (`EntropyEnc`): prefix codes / ANS fitted to the tokens, optionally with
LZ77 where runs of equal values become copies of distance 1 — with a single-leaf gradient tree this
is exactly the shape that switches the real decoder to its RLE "fast lossless" path.
-/
namespace Jxl.Enc
open Jxl.Entropy

/-- 0 fixed prefix · 1 prefix (Huffman) · 2 ANS · 3 prefix + LZ77 runs · 4 ANS + LZ77 runs ·
5 prefix + general LZ77 (previous sample / previous row neighbourhood) · 6 ANS + general LZ77 ·
7 / 8 = 5 / 6 but no copy starts in a context of cluster 0 (that cluster then holds literals only: a
constant channel in it is a single-symbol histogram although LZ77 is on) -/
abbrev EntMode := Nat

structure Coder where
  mode : EntMode
  /-- resolved plan (modes 1–4) -/
  plan : EntropyPlan
  v0 : V0Plan
  /-- contexts in which no copy may start (modes 7, 8) -/
  noCopyCtx : List Nat := []
  deriving Inhabited

def runItems (minLen : Nat) (toks : List (Nat × Nat)) : List Item :=
  -- greedy: a run of ≥ minLen values equal to the previous value becomes one copy (distance code 1
  -- = "previous value" under a non-zero distance multiplier: special distance (1, 0))
  let rec go (fuel : Nat) (prev : Option Nat) (l : List (Nat × Nat)) : List Item :=
    match fuel, l with
    | 0, _ => []
    | _, [] => []
    | fuel + 1, (c, v) :: rest =>
      match prev with
      | some pv =>
        if v == pv then
          let run := (((c, v) :: rest).takeWhile fun x => x.2 == pv).length
          if run ≥ minLen then .copy c run 1 :: go fuel (some pv) (((c, v) :: rest).drop run)
          else .lit c v :: go fuel (some v) rest
        else .lit c v :: go fuel (some v) rest
      | none => .lit c v :: go fuel (some v) rest
  go (toks.length + 1) none toks

def bitsFor (n : Nat) : Nat := if n ≤ 1 then 0 else Nat.log2 (n - 1) + 1

/-- length of the match of position `i` against `i - d` (overlap allowed), capped -/
def matchLen (a : Array Nat) (i d cap : Nat) : Nat :=
  let rec go (fuel k : Nat) : Nat :=
    match fuel with
    | 0 => k
    | fuel + 1 => if i + k < a.size ∧ a.getD (i + k) 0 == a.getD (i + k - d) 1 then go fuel (k + 1) else k
  go cap 0

/-- greedy LZ77 parse with copies from the previous sample, the previous row and its neighbours
(`mult` = the distance multiplier of the sub-bitstream = its widest channel) -/
def lzItems (mult : Nat) (toks : List (Nat × Nat)) (noCopyCtx : List Nat := []) : List Item :=
  let vals := (toks.map (·.2)).toArray
  let ctxs := (toks.map (·.1)).toArray
  let cands := [1, mult, mult + 1, mult - 1, 2, 2 * mult].filter (· ≥ 1)
  let rec go (fuel i : Nat) : List Item :=
    match fuel with
    | 0 => []
    | fuel + 1 =>
      if i ≥ vals.size then []
      else
        let best := cands.foldl (fun (b : Nat × Nat) d =>
          if d ≤ i then
            let l := matchLen vals i d 300
            if l > b.1 then (l, d) else b
          else b) (0, 0)
        if best.1 ≥ 3 ∧ !(noCopyCtx.contains (ctxs.getD i 0)) then
          .copy (ctxs.getD i 0) best.1 (distCodeFor mult best.2) :: go fuel (i + best.1)
        else .lit (ctxs.getD i 0) (vals.getD i 0) :: go fuel (i + 1)
  go (vals.size + 1) 0

/-- items of one section for a mode (`toks` tagged by context index) -/
def sectionItems (mode : EntMode) (mult : Nat) (toks : List (Nat × Nat)) (noCopyCtx : List Nat := []) : List Item :=
  if mode == 3 ∨ mode == 4 then runItems 3 toks
  else if mode == 5 ∨ mode == 6 then lzItems mult toks
  else if mode == 7 ∨ mode == 8 then lzItems mult toks noCopyCtx
  else toks.map fun (c, v) => .lit c v

/-- build the coder for `numCtx` contexts with cluster map `clusters`, fitted to all sections
(each with its distance multiplier) -/
def mkCoder (mode : EntMode) (numCtx : Nat) (clusters : List Nat) (sections : List (Nat × List (Nat × Nat))) : Coder :=
  let all := sections.flatMap (·.2)
  let v0 := v0PlanFor numCtx clusters all
  if mode == 0 then { mode := 0, plan := default, v0 }
  else
    let lz := mode ≥ 3
    let rle := mode == 3 ∨ mode == 4
    let nc := numClusters clusters
    let kind : CoderKind := if mode == 2 ∨ mode == 4 ∨ mode == 6 ∨ mode == 8 then .ans 8 else .prefix
    let noCopy := if mode == 7 ∨ mode == 8 then (List.range numCtx).filter (fun c => clusters.getD c 0 == 0) else []
    let cm := if lz then clusters ++ [nc] else clusters
    let ncAll := if lz then nc + 1 else nc
    let cfgs := List.replicate nc (⟨4, 1, 1⟩ : IntegerConfig) ++
      (if lz then [if rle then ⟨0, 0, 0⟩ else ⟨4, 1, 1⟩] else [])
    let p0 : EntropyPlan :=
      { numDist := numCtx, lz77 := if lz then some { minSymbol := 224, minLength := 3, lenConf := ⟨0, 0, 0⟩ } else none,
        clusterMap := cm, clusterNbits := bitsFor ncAll, coder := kind, configs := cfgs,
        codes := List.replicate ncAll (.auto .auto .auto) }
    let secItems := sections.map fun (m, s) => (m, s, sectionItems mode m s noCopy)
    let items := secItems.flatMap (·.2.2)
    let p := p0.resolve items
    -- every section must be expressible on its own and expand back to its tokens
    if ncAll ≤ 8 ∧ secItems.all (fun (m, s, it) => p.check it ∧ expandItems m it == s.map (·.2)) then
      { mode, plan := p, v0, noCopyCtx := noCopy }
    else { mode := 0, plan := default, v0 }

def Coder.header (c : Coder) (w : BW) : BW :=
  if c.mode == 0 then v0Header w c.v0 else w.bits (encodeHeader c.plan)

def Coder.section (c : Coder) (w : BW) (mult : Nat) (toks : List (Nat × Nat)) : BW :=
  if c.mode == 0 then v0Values w c.v0 toks else w.bits (encodeItems c.plan (sectionItems c.mode mult toks c.noCopyCtx))

end Jxl.Enc
