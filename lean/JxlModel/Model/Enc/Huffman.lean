import JxlModel.Model.Entropy.Reader
/-!
# Encoder helpers: code construction from frequencies (import-free)

* `huffLengths maxLen freqs` — code lengths `≤ maxLen` with Kraft sum exactly 1 whenever at least
  two symbols are used (heuristic `⌈log2(total/f)⌉` + Kraft repair; not optimal, always valid).
  One used symbol ↦ that symbol gets length 1 (callers treat "exactly one non-zero length" as the
  zero-bit single-symbol code). No used symbol ↦ all zeros.
* `normalizeAns freqs` — distribution summing to 4096 with every used symbol ≥ 1.
-/
namespace Jxl.Enc
open Jxl.Entropy

structure HSym where
  sym : Nat
  f : Nat
  l : Nat
deriving Repr, Inhabited

def hKraft (maxLen : Nat) (l : List HSym) : Nat := l.foldl (fun a h => a + 2 ^ (maxLen - h.l)) 0

/-- lengthen (least frequent first) while over-subscribed -/
def lengthenPass (maxLen : Nat) : List HSym → Nat → List HSym × Nat
  | [], k => ([], k)
  | h :: r, k =>
    -- lengthen h as far as needed/possible
    let rec go (fuel : Nat) (l k : Nat) : Nat × Nat :=
      match fuel with
      | 0 => (l, k)
      | fuel+1 =>
        if k > 2 ^ maxLen ∧ l < maxLen then go fuel (l + 1) (k - 2 ^ (maxLen - l - 1)) else (l, k)
    let (l', k') := go maxLen h.l k
    let (r', k'') := lengthenPass maxLen r k'
    ({ h with l := l' } :: r', k'')

/-- shorten (most frequent first) while there is room; `d` = missing Kraft mass -/
def shortenPass (maxLen : Nat) : List HSym → Nat → List HSym × Nat
  | [], d => ([], d)
  | h :: r, d =>
    let rec go (fuel : Nat) (l d : Nat) : Nat × Nat :=
      match fuel with
      | 0 => (l, d)
      | fuel+1 =>
        if l > 1 ∧ 2 ^ (maxLen - l) ≤ d then go fuel (l - 1) (d - 2 ^ (maxLen - l)) else (l, d)
    let (l', d') := go maxLen h.l d
    let (r', d'') := shortenPass maxLen r d'
    ({ h with l := l' } :: r', d'')

def shortenLoop (maxLen : Nat) : Nat → List HSym → Nat → List HSym
  | 0, hs, _ => hs
  | fuel+1, hs, d =>
    if d = 0 then hs
    else
      let (hs', d') := shortenPass maxLen hs d
      if d' = d then hs' else shortenLoop maxLen fuel hs' d'

def huffLengths (maxLen : Nat) (freqs : List Nat) : List Nat :=
  let used := (freqs.zipIdx.filter fun (f, _) => f > 0)
  match used with
  | [] => freqs.map fun _ => 0
  | [(_, s)] => freqs.zipIdx.map fun (_, i) => if i = s then 1 else 0
  | _ =>
    let total := used.foldl (fun a p => a + p.1) 0
    let init : List HSym := used.map fun (f, s) =>
      ⟨s, f, max 1 (min maxLen (clog2 ((total + f - 1) / f)))⟩
    -- ascending frequency for lengthening
    let asc := init.mergeSort (fun a b => a.f ≤ b.f)
    let (asc', k) := lengthenPass maxLen asc (hKraft maxLen asc)
    let desc := asc'.reverse
    let fin := shortenLoop maxLen (maxLen * 2 + 4) desc (2 ^ maxLen - k)
    let arr : Array Nat := fin.foldl (fun a h => a.set! h.sym h.l) (Array.replicate freqs.length 0)
    arr.toList

/-- subtract `excess` from the entries, largest first, never below 1 -/
def takeFrom : List (Nat × Nat) → Nat → List (Nat × Nat)
  | [], _ => []
  | (d, i) :: r, ex =>
    let t := min ex (d - 1)
    (d - t, i) :: takeFrom r (ex - t)

def normalizeAns (freqs : List Nat) : List Nat :=
  let total := freqs.foldl (· + ·) 0
  if total = 0 then freqs.zipIdx.map fun (_, i) => if i = 0 then 4096 else 0
  else
    let d0 := freqs.map fun f => if f = 0 then 0 else max 1 (f * 4096 / total)
    let sum := d0.foldl (· + ·) 0
    let sorted := (d0.zipIdx.filter fun (d, _) => d > 0).mergeSort (fun a b => a.1 ≥ b.1)
    let fixed : List (Nat × Nat) :=
      if sum > 4096 then takeFrom sorted (sum - 4096)
      else match sorted with
        | [] => []
        | (d, i) :: r => (d + (4096 - sum), i) :: r
    let arr : Array Nat := fixed.foldl (fun a p => a.set! p.2 p.1) (Array.replicate freqs.length 0)
    arr.toList

/-- frequencies of values `< n` in a list -/
def histogram (n : Nat) (l : List Nat) : List Nat :=
  (l.foldl (fun (a : Array Nat) v => if v < a.size then a.set! v (a[v]! + 1) else a)
    (Array.replicate n 0)).toList

end Jxl.Enc
