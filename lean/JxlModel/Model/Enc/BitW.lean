import JxlModel.Model.Bits
/-!
# Bit writer for the reference encoder

Bits are appended to an `Array Bool` in stream order (LSB-first inside bytes).
`U32` fields are written with the first selector able to represent the value unless a selector is
forced.
-/
namespace Jxl.Enc

abbrev BW := Array Bool

def BW.u (w : BW) (n v : Nat) : BW := (toBits n v).foldl (fun w b => w.push b) w
def BW.bool (w : BW) (b : Bool) : BW := w.push b
def BW.bits (w : BW) (bs : List Bool) : BW := bs.foldl (fun w b => w.push b) w
def BW.append (w : BW) (o : BW) : BW := w ++ o
def BW.padByte (w : BW) : BW := w.bits (List.replicate (padLen w.size) false)
/-- pack into bytes, LSB first, zero padded (same function as `bitsToBytes`, linear time) -/
def BW.toBytes (w : BW) : List Nat :=
  (List.range ((w.size + 7) / 8)).map fun i =>
    (List.range 8).foldl (fun acc j => if w.getD (8 * i + j) false then acc + 2 ^ j else acc) 0

/-- one distribution of a `U32(d0, d1, d2, d3)` field -/
inductive Dist where
  | const (c : Nat)
  | bits (off n : Nat)
  deriving Repr, BEq

def Dist.canWrite (d : Dist) (v : Nat) : Bool :=
  match d with
  | .const c => v == c
  | .bits off n => off ≤ v && v - off < 2 ^ n

def BW.dist (w : BW) (d : Dist) (v : Nat) : BW :=
  match d with
  | .const _ => w
  | .bits off n => w.u n (v - off)

/-- write `v` with the first selector that can represent it (`none` if none can) -/
def BW.u32? (w : BW) (ds : List Dist) (v : Nat) : Option BW :=
  match (List.range ds.length).find? fun k => (ds.getD k (.const 0)).canWrite v with
  | none => none
  | some k => some ((w.u 2 k).dist (ds.getD k (.const 0)) v)

/-- as `u32?` but a value that does not fit is written with the last selector, truncated
(only used by generators of deliberately odd streams) -/
def BW.u32 (w : BW) (ds : List Dist) (v : Nat) : BW :=
  match w.u32? ds v with
  | some w' => w'
  | none => (w.u 2 3).dist (ds.getD 3 (.const 0)) v

/-- `U64` -/
def BW.u64 (w : BW) (v : Nat) : BW :=
  if v == 0 then w.u 2 0
  else if v ≤ 16 then (w.u 2 1).u 4 (v - 1)
  else if v ≤ 272 then (w.u 2 2).u 8 (v - 17)
  else
    let w := (w.u 2 3).u 12 (v % 4096)
    let rec go (fuel : Nat) (w : BW) (rest : Nat) (shift : Nat) : BW :=
      match fuel with
      | 0 => w
      | fuel + 1 =>
        if rest == 0 then w.u 1 0
        else if shift == 60 then (w.u 1 1).u 4 (rest % 16)
        else go fuel ((w.u 1 1).u 8 (rest % 256)) (rest / 256) (shift + 8)
    go 8 w (v / 4096) 12

/-- enum: `U32(0, 1, 2 + u(4), 18 + u(6))` -/
def BW.enum (w : BW) (v : Nat) : BW := w.u32 [.const 0, .const 1, .bits 2 4, .bits 18 6] v

/-- `Name`: `U32(0, u(4), 16 + u(5), 48 + u(10))` then bytes -/
def BW.name (w : BW) (bytes : List Nat) : BW :=
  let w := w.u32 [.const 0, .bits 0 4, .bits 16 5, .bits 48 10] bytes.length
  bytes.foldl (fun w b => w.u 8 b) w

end Jxl.Enc
