import JxlModel.Model.Entropy.Decoder
import JxlModel.Model.Enc.PrefixEnc
import JxlModel.Model.Enc.AnsEnc
/-!
# Reference entropy ENCODER (import-free; links into `jxlmodel`)

## API (namespace `Jxl.Enc`; decoder-side types from `Jxl.Entropy`)

* `structure EntropyPlan` — everything the header says, for `numDist` contexts:
  `lz77 : Option Lz77Params` (`minSymbol`, `minLength`, `lenConf`; adds one distance context at
  index `numDist`), `clusterMap : List Nat` (`numDist` entries, `+1` with LZ77; values
  `0..numClusters-1`, no holes), `clusterNbits` / `clusterInner` (how the map is coded: simple with
  `clusterNbits ≤ 3` bits per entry, or `some (mtf, innerPlan)` = entropy coded by a nested
  `numDist = 1` plan, optionally move-to-front; nesting depth ≤ `planDepth = 3` as in the format),
  `coder : CoderKind` (`.prefix` or `.ans logAlphabetSize`, 5..8), `configs : List IntegerConfig`
  and `codes : List CodeSpec`, one per cluster.
* `CodeSpec`: `.lengths count lens form` (prefix code: alphabet size, length vector — Kraft sum 1,
  or exactly one non-zero entry for the zero-bit single-symbol code — and `PrefixForm`
  `.auto | .simple | .complex rle hskip`), `.dist d form` (ANS: probabilities summing to 4096 and
  `AnsForm` `.auto | .single | .binary | .flat | .general shift rle`), or `.auto pform aform`
  ("build it from the observed token frequencies": `huffLengths 15` / `normalizeAns`,
  `quantizeForShift` for `general shift`).
* `Item`: `.lit ctx value` or `.copy ctx len distCode` (LZ77 copy of `len ≥ minLength` values;
  `distCode` is the *coded* distance value, see `distCodeFor mult distance`).
* `EntropyPlan.resolve items` — replaces every `.auto` by an explicit code fitted to `items`
  (idempotent on explicit plans; also resolves nested cluster-map plans).
  `encodeHeader` / `encodeItems` expect a resolved plan.
* `encodeHeader : EntropyPlan → Bits` — what `Decoder::parse(numDist)` reads
  (`writeLz77 ++ encodeClusterMap ++ encodeCodes`); `encodeClusterMap` alone is what
  `read_clusters(totalDist)` reads.
* `encodeItems : EntropyPlan → List Item → Bits`, `encodeSymbols : EntropyPlan → List (ctx × value)
  → Bits` — the symbol stream. For ANS it starts with the 32-bit initial state (the decoder reads
  it in `begin` / before its first symbol) and is produced by the usual reverse pass so that the
  decoder ends in state `0x130000`.
* `encode plan items = (resolved plan, header ++ stream)`.
  `EntropyPlan.check items : Bool` — can the (resolved) plan express `items`? (tokens inside the
  alphabets, non-zero probabilities / lengths, literals below `minSymbol`, valid configs, cluster
  map without holes, …). `Props/C04.lean: C04_entropy_roundtrip_checked` proves that `check = true`
  suffices for the stream to decode back.
* `planDecoder p : Jxl.Entropy.Decoder` — the decoder the header of `p` denotes (for driving the
  model decoder without parsing).
* Ready-made plans: `prefixPlan numDist items`, `ansPlan numDist items` ("prefix codes please" /
  "ANS please"; one cluster per context up to 8, simple cluster map, `IntegerConfig ⟨4,1,1⟩`,
  ANS tokens must stay below 256), `autoPlan kind numDist lz cfg` (unresolved template).
* `encodePermutation plan size skip perm : Bits` — the symbols `read_permutation` reads (`plan`
  must cover contexts 0..7); `permItems` gives them as `Item`s for custom assembly.
* `expandItems mult items` — the value sequence the decoder must return (LZ77 expansion);
  `lzStep` is its one-item step.
* Helpers: `huffLengths maxLen freqs` (length-limited, Kraft-complete), `normalizeAns freqs`,
  `quantizeForShift`, `histogram`, `writePrefix`, `writeAns`, `writeConfig`, `writeLz77`.
-/
namespace Jxl.Enc
open Jxl Jxl.Entropy

inductive CoderKind
  | prefix
  | ans (logAlpha : Nat)
deriving Repr, DecidableEq, Inhabited

inductive CodeSpec
  | lengths (count : Nat) (lens : List Nat) (form : PrefixForm)
  | dist (d : List Nat) (form : AnsForm)
  | auto (pform : PrefixForm) (aform : AnsForm)
deriving Repr, Inhabited

structure EntropyPlan where
  numDist : Nat
  lz77 : Option Lz77Params := none
  clusterMap : List Nat
  clusterNbits : Nat := 3
  clusterInner : Option (Bool × EntropyPlan) := none
  coder : CoderKind := .prefix
  configs : List IntegerConfig
  codes : List CodeSpec
deriving Repr, Inhabited

inductive Item
  | lit (ctx v : Nat)
  | copy (ctx len distCode : Nat)
deriving Repr, DecidableEq, Inhabited

/-- one coded token in decoding order -/
structure Tok where
  cluster : Nat
  sym : Nat
  extra : Bits
deriving Repr, Inhabited

namespace EntropyPlan

def logAlpha (p : EntropyPlan) : Nat :=
  match p.coder with | .prefix => 15 | .ans la => la

def numClusters (p : EntropyPlan) : Nat := listMax p.clusterMap + 1

def totalDist (p : EntropyPlan) : Nat := if p.lz77.isSome then p.numDist + 1 else p.numDist

def clusterOf (p : EntropyPlan) (ctx : Nat) : Nat := p.clusterMap.getD ctx 0

def config (p : EntropyPlan) (cluster : Nat) : IntegerConfig := p.configs.getD cluster default

def lzCluster (p : EntropyPlan) : Nat := p.clusterMap.getLastD 0

/-- tokens of one item -/
def itemToks (p : EntropyPlan) : Item → List Tok
  | .lit ctx v =>
    let c := p.clusterOf ctx
    [⟨c, tokenOf (p.config c) v, uintBits (p.config c) v⟩]
  | .copy ctx len dc =>
    match p.lz77 with
    | none => []
    | some lz =>
      let c := p.clusterOf ctx
      let n := len - lz.minLength
      [⟨c, lz.minSymbol + tokenOf lz.lenConf n, uintBits lz.lenConf n⟩,
       ⟨p.lzCluster, tokenOf (p.config p.lzCluster) dc, uintBits (p.config p.lzCluster) dc⟩]

def toks (p : EntropyPlan) (items : List Item) : List Tok := items.flatMap p.itemToks

end EntropyPlan

/-- the code a `CodeSpec` denotes on the decoder side (prefix) -/
def CodeSpec.prefixCode : CodeSpec → PrefixCode
  | .lengths count lens _ => if count ≤ 1 then .single 0 else codeOfLens lens
  | _ => .single 0

/-- padded distribution and alphabet size the decoder derives for an ANS spec -/
def ansAlphabet (d : List Nat) (form : AnsForm) : Nat :=
  let u := usedSyms d
  match effectiveForm d form with
  | .single => u.getD 0 0 + 1
  | .binary => max (u.getD 0 0) (u.getD 1 0) + 1
  | .flat => u.length
  | .general _ _ => generalAlphabet d
  | .auto => 0

def CodeSpec.ansHist (la : Nat) : CodeSpec → AnsHist
  | .dist d form =>
    AnsHist.build la ⟨d ++ List.replicate (2 ^ la - d.length) 0, ansAlphabet d form⟩
  | _ => default

/-- the `Coder` a (resolved) plan's histograms denote -/
def planCode (p : EntropyPlan) : Code :=
  match p.coder with
  | .prefix => .prefix (p.codes.map CodeSpec.prefixCode)
  | .ans la => .ans (p.codes.map (CodeSpec.ansHist la))

/-- the decoder that `Decoder::parse` builds from `encodeHeader p` (for a resolved, checked plan;
tied by the correspondence run and, piecewise, by the header round-trip theorems) -/
def planDecoder (p : EntropyPlan) : Decoder := ⟨p.lz77, p.clusterMap, p.configs, planCode p⟩

/-! ## Resolving `.auto` codes from observed tokens -/

def resolveCode (kind : CoderKind) (tokens : List Nat) : CodeSpec → CodeSpec
  | .auto pform aform =>
    let n := listMax tokens + 1
    let n := if tokens.isEmpty then 1 else n
    let freqs := histogram n tokens
    match kind with
    | .prefix => .lengths n (huffLengths 15 freqs) pform
    | .ans _ =>
      let used := (freqs.filter (· ≠ 0)).length
      match aform with
      | .flat => .dist (flatDist n) .flat
      | .general shift rle =>
        if used ≥ 2 then .dist (quantizeForShift (min shift 13) (normalizeAns freqs)) (.general (min shift 13) rle)
        else .dist (normalizeAns freqs) .auto
      | .single => .dist (normalizeAns freqs) (if used ≤ 1 then .single else .auto)
      | .binary => .dist (normalizeAns freqs) (if used = 2 then .binary else .auto)
      | .auto => .dist (normalizeAns freqs) .auto
  | c => c

/-- the ids the nested cluster-map decoder has to produce -/
def clusterIds (mtf : Bool) (cm : List Nat) : List Nat := if mtf then mtfEncode cm else cm

/-- nesting depth that the format allows for cluster-map plans (see `parseDecoder`) -/
def planDepth : Nat := 3

def EntropyPlan.resolveD : Nat → EntropyPlan → List Item → EntropyPlan
  | depth, p, items =>
    let ts := p.toks items
    let codes := p.codes.zipIdx.map fun (c, i) =>
      resolveCode p.coder ((ts.filter fun t => t.cluster = i).map (·.sym)) c
    let inner := match depth, p.clusterInner with
      | d+1, some (mtf, ip) =>
        some (mtf, resolveD d ip ((clusterIds mtf p.clusterMap).map fun v => .lit 0 v))
      | _, _ => none
    { p with codes := codes, clusterInner := inner }

def EntropyPlan.resolve (p : EntropyPlan) (items : List Item) : EntropyPlan :=
  p.resolveD planDepth items

/-! ## Header -/

def writeConfig (la : Nat) (c : IntegerConfig) : Bits :=
  toBits (addLog2Ceil la) c.splitExponent ++
  (if c.splitExponent ≠ la then
     toBits (addLog2Ceil c.splitExponent) c.msbInToken ++
     toBits (addLog2Ceil (c.splitExponent - c.msbInToken)) c.lsbInToken
   else [])

def writeLz77 : Option Lz77Params → Bits
  | none => [false]
  | some lz =>
    let ms := if lz.minSymbol = 224 then toBits 2 0 else if lz.minSymbol = 512 then toBits 2 1
      else if lz.minSymbol = 4096 then toBits 2 2 else toBits 2 3 ++ toBits 15 (lz.minSymbol - 8)
    let ml := if lz.minLength = 3 then toBits 2 0 else if lz.minLength = 4 then toBits 2 1
      else if lz.minLength ≤ 8 then toBits 2 2 ++ toBits 2 (lz.minLength - 5)
      else toBits 2 3 ++ toBits 8 (lz.minLength - 9)
    [true] ++ ms ++ ml ++ writeConfig 8 lz.lenConf

/-- inverse of `readPrefixCount` -/
def writePrefixCount (count : Nat) : Bits :=
  if count ≤ 1 then [false]
  else let n := Nat.log2 (count - 1); [true] ++ toBits 4 n ++ toBits n (count - 1 - 2 ^ n)

/-- prefix-coded token stream -/
def encodeToksPrefix (codes : List PrefixCode) : List Tok → Bits
  | [] => []
  | t :: r => (codes.getD t.cluster default).encode t.sym ++ (t.extra ++ encodeToksPrefix codes r)

/-- rANS token stream, built backwards: returns the state the decoder must start from and the
bits that follow the 32-bit state. A token with probability 0 is skipped (`check` reports it). -/
def encodeToksAns (hists : List AnsHist) (revs : List (Array (Array Nat))) : List Tok → Nat × Bits
  | [] => (ansFinalState, [])
  | t :: r =>
    let (x, bits) := encodeToksAns hists revs r
    let h := hists.getD t.cluster default
    let dSym := symDist h t.sym
    if dSym = 0 then (x, t.extra ++ bits)
    else
      let (x', w) := ansEncStep dSym (aliasInv h (revs.getD t.cluster #[]) t.sym) x
      (x', stepBits w ++ (t.extra ++ bits))

/-- symbol stream of a resolved plan -/
def encodeToks (p : EntropyPlan) (ts : List Tok) : Bits :=
  match p.coder with
  | .prefix => encodeToksPrefix (p.codes.map CodeSpec.prefixCode) ts
  | .ans la =>
    let hists := p.codes.map (CodeSpec.ansHist la)
    let revs := hists.map fun h => buildRev h (2 ^ la)
    let (x, bits) := encodeToksAns hists revs ts
    toBits 32 x ++ bits

def encodeItems (p : EntropyPlan) (items : List Item) : Bits := encodeToks p (p.toks items)

def encodeSymbols (p : EntropyPlan) (syms : List (Nat × Nat)) : Bits :=
  encodeItems p (syms.map fun (c, v) => .lit c v)

/-- alphabet-size field of a prefix histogram -/
def CodeSpec.countBits : CodeSpec → Bits
  | .lengths count _ _ => writePrefixCount count
  | _ => [false]

/-- alphabet size of a prefix histogram -/
def CodeSpec.count : CodeSpec → Nat
  | .lengths count _ _ => count
  | _ => 1

/-- prefix histogram header -/
def CodeSpec.prefixHeader : CodeSpec → Bits
  | .lengths count lens form => writePrefix count lens form
  | _ => []

/-- ANS histogram header -/
def CodeSpec.ansHeader : CodeSpec → Bits
  | .dist d form => writeAns d form
  | _ => [true, false, false]

/-- everything after the cluster map: coder kind, configs, histograms -/
def encodeCodes (p : EntropyPlan) : Bits :=
  let nc := p.numClusters
  let la := p.logAlpha
  let kind : Bits := match p.coder with | .prefix => [true] | .ans la => [false] ++ toBits 2 (la - 5)
  let cfgs := (p.configs.take nc).flatMap (writeConfig la)
  let codes : Bits := match p.coder with
    | .prefix =>
      (p.codes.take nc).flatMap CodeSpec.countBits ++ (p.codes.take nc).flatMap CodeSpec.prefixHeader
    | .ans _ => (p.codes.take nc).flatMap CodeSpec.ansHeader
  kind ++ cfgs ++ codes

/-- what `read_clusters(totalDist)` reads -/
def encodeClusterMapD : Nat → EntropyPlan → Bits
  | 0, p =>
    if p.totalDist = 1 then []
    else [true] ++ toBits 2 p.clusterNbits ++ p.clusterMap.flatMap (toBits p.clusterNbits)
  | d+1, p =>
    if p.totalDist = 1 then []
    else match p.clusterInner with
      | some (mtf, ip) =>
        [false, mtf] ++ (writeLz77 ip.lz77 ++ encodeClusterMapD d ip ++ encodeCodes ip) ++
          encodeSymbols ip ((clusterIds mtf p.clusterMap).map fun v => (0, v))
      | none => [true] ++ toBits 2 p.clusterNbits ++ p.clusterMap.flatMap (toBits p.clusterNbits)

def encodeHeaderD (depth : Nat) (p : EntropyPlan) : Bits :=
  writeLz77 p.lz77 ++ encodeClusterMapD depth p ++ encodeCodes p

def encodeClusterMap (p : EntropyPlan) : Bits := encodeClusterMapD planDepth p

def encodeHeader (p : EntropyPlan) : Bits := encodeHeaderD planDepth p

/-- resolve, then header and stream -/
def encode (p : EntropyPlan) (items : List Item) : EntropyPlan × Bits :=
  let r := p.resolve items
  (r, encodeHeader r ++ encodeItems r items)

/-! ## Validity of a resolved plan for a sequence -/

def codeOk (kind : CoderKind) (tokens : List Nat) : CodeSpec → Bool
  | .lengths count lens _ =>
    kind == .prefix && decide (1 ≤ count) && decide (count ≤ 2 ^ 15) && lens.length == count &&
    lens.all (· ≤ 15) &&
    (if count = 1 then tokens.all (· = 0)
     else
       match codeOfLens lens with
       | .single s => tokens.all (· = s)
       | .table _ => kraft lens == 2 ^ 15 && tokens.all fun t => lens.getD t 0 ≠ 0)
  | .dist d _ =>
    match kind with
    | .prefix => false
    | .ans la => decide (5 ≤ la) && decide (la ≤ 8) && decide (d.length ≤ 2 ^ la) &&
        d.foldl (· + ·) 0 == 4096 && tokens.all fun t => d.getD t 0 ≠ 0
  | .auto _ _ => false

def EntropyPlan.checkD : Nat → EntropyPlan → List Item → Bool
  | depth, p, items =>
  let ts := p.toks items
  let nc := p.numClusters
  p.clusterMap.length == p.totalDist && decide (p.totalDist ≥ 1) && decide (nc ≤ 256) &&
  distinctCount p.clusterMap == nc &&
  decide (p.configs.length ≥ nc) && decide (p.codes.length ≥ nc) &&
  (p.configs.take nc).all (fun c => c.valid p.logAlpha) &&
  (match depth, p.clusterInner with
   | d+1, some (mtf, ip) =>
     ip.numDist == 1 && (decide (p.totalDist > 2) || ip.lz77.isNone) &&
     checkD d ip ((clusterIds mtf p.clusterMap).map fun v => .lit 0 v)
   | _, some _ => false
   | _, none => p.totalDist == 1 || (decide (p.clusterNbits ≤ 3) && p.clusterMap.all (· < 2 ^ p.clusterNbits))) &&
  (match p.lz77 with
   | none => items.all (fun i => match i with | .lit c _ => decide (c < p.numDist) | .copy .. => false)
   | some lz =>
     lz.lenConf.valid 8 && decide (lz.minLength ≥ 3) && decide (lz.minLength ≤ 264) &&
     (lz.minSymbol == 224 || lz.minSymbol == 512 || lz.minSymbol == 4096 ||
       (decide (8 ≤ lz.minSymbol) && decide (lz.minSymbol < 8 + 2 ^ 15))) &&
     (match items with | .copy .. :: _ => false | _ => true) &&
     items.all (fun i => match i with
       | .lit c v => decide (c < p.numDist) && decide (tokenOf (p.config (p.clusterOf c)) v < lz.minSymbol)
       | .copy c len _ => decide (c < p.numDist) && decide (len ≥ lz.minLength) &&
           decide (len - lz.minLength < 2 ^ 32))) &&
  items.all (fun i => match i with | .lit _ v => decide (v < 2 ^ 32) | .copy _ _ dc => decide (dc < 2 ^ 32)) &&
  (p.codes.take nc).zipIdx.all fun (c, i) =>
    codeOk p.coder ((ts.filter fun t => t.cluster = i).map (·.sym)) c

def EntropyPlan.check (p : EntropyPlan) (items : List Item) : Bool := p.checkD planDepth items

/-! ## LZ77 helpers -/

/-- a coded distance value that makes the decoder copy from `distance ≥ 1` back (given the
multiplier): a special-distance code if one matches, else the plain code. -/
def distCodeFor (mult distance : Nat) : Nat :=
  if mult = 0 then distance - 1
  else
    match (List.range 120).find? (fun k => lzRawDistance mult k + 1 = distance) with
    | some k => k
    | none => distance - 1 + 120

/-- history (most recent first) after one item -/
def lzStep (mult : Nat) (hist : List Nat) : Item → List Nat
  | .lit _ v => v :: hist
  | .copy _ len dc => copyBack (lzCopyDistance mult dc hist.length) len hist

/-- what the decoder returns for `items` (numDecoded-clamped distances as in the decoder) -/
def expandItems (mult : Nat) (items : List Item) : List Nat :=
  (items.foldl (lzStep mult) []).reverse

/-! ## Ready-made plans -/

/-- one cluster per context (at most 8 clusters; contexts beyond share the last), all codes
`.auto`, simple cluster map -/
def autoPlan (kind : CoderKind) (numDist : Nat) (lz : Option Lz77Params := none)
    (cfg : IntegerConfig := ⟨4, 1, 1⟩) : EntropyPlan :=
  let total := if lz.isSome then numDist + 1 else numDist
  let cm := (List.range total).map fun i => min i 7
  let nc := listMax cm + 1
  { numDist := numDist, lz77 := lz, clusterMap := cm, clusterNbits := 3, coder := kind,
    configs := List.replicate nc cfg, codes := List.replicate nc (.auto .auto .auto) }

/-- "prefix codes please" -/
def prefixPlan (numDist : Nat) (items : List Item) : EntropyPlan :=
  (autoPlan .prefix numDist).resolve items

/-- "ANS please" (`log_alphabet_size = 8`; tokens must stay below 256) -/
def ansPlan (numDist : Nat) (items : List Item) : EntropyPlan :=
  (autoPlan (.ans 8) numDist).resolve items

/-! ## Permutations -/

/-- the symbols `read_permutation(size, skip)` reads for `perm` -/
def permItems (size skip : Nat) (perm : List Nat) : List Item :=
  let lehmer := lehmerEncode size skip perm
  let ctxs := (0 :: lehmer).map permContext   -- context of entry i is that of entry i-1 (0 first)
  .lit (permContext size) lehmer.length :: (lehmer.zip ctxs).map fun (v, c) => .lit c v

def encodePermutation (p : EntropyPlan) (size skip : Nat) (perm : List Nat) : Bits :=
  encodeItems p (permItems size skip perm)

end Jxl.Enc
