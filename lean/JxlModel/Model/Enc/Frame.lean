import JxlModel.Model.Enc.Stream
/-!
# Reference encoder: one Modular frame (sections) and the expected decoded channels

`GlobalModular::parse` (lf_global.rs), `prepare_gmodular` / `prepare_groups`
(jxl-modular/src/image.rs), `decode_pass_group_modular` (pass_group.rs), stream indices.
-/
namespace Jxl.Enc
open Jxl.Modular

structure FramePlan where
  hdr : FrameHdr
  /-- original channels (colour then extra), or coded channels when `coded` -/
  chans : List Chan
  transforms : List Transform := []
  /-- palette tables, one per palette transform (orig mode) -/
  pals : List Chan := []
  tree : Tree := .leaf { ctx := 0, pred := 0, offset := 0, mul := 1 }
  wp : Wp := {}
  coded : Bool := false
  /-- entropy coding mode of the sample and tree streams (see `SampleCoder`) -/
  ent : Nat := 0
  /-- `some seed`: write a permuted TOC -/
  tocSeed : Option Nat := none
  deriving Inhabited

structure FrameOut where
  bytes : List Nat
  /-- what a correct decoder must produce for every channel (frame coordinates, unblended) -/
  expected : List Chan
  /-- what the decoder *model* (flattened trees, as the Rust does it) produces from the tokens -/
  modelDecoded : Option (List Chan)
  /-- statistics for coverage accounting -/
  paths : List String
  numGroups : Nat
  entUsed : Nat := 0
  deriving Inhabited

def ceilDiv (a b : Nat) : Nat := (a + b - 1) / b

def frameDims (img : ImgHdr) (f : FrameHdr) : Nat × Nat :=
  let w := if f.haveCrop then f.w else img.w
  let h := if f.haveCrop then f.h else img.h
  (ceilDiv w f.upsampling, ceilDiv h f.upsampling)

def log2Exact (n : Nat) : Nat := Nat.log2 n

/-- pre-transform channel infos of the frame's GlobalModular image -/
def frameChanInfos (img : ImgHdr) (f : FrameHdr) : List ChanInfo :=
  let (cw, ch) := frameDims img f
  let nColor := if img.gray then 1 else 3
  let color := List.replicate nColor ({ w := cw, h := ch, hshift := 0, vshift := 0 } : ChanInfo)
  let upShift := log2Exact f.upsampling
  let ecs := (List.range img.ecs.length).map fun i =>
    let e := img.ecs.getD i {}
    let s := log2Exact (f.ecUpsampling.getD i 1) + e.dimShift - upShift
    ({ w := ceilDiv cw (2 ^ s), h := ceilDiv ch (2 ^ s), hshift := s, vshift := s } : ChanInfo)
  color ++ ecs

/-- crop a rectangle out of a channel -/
def _root_.Jxl.Modular.Chan.crop (c : Chan) (x0 y0 w h : Nat) : Chan :=
  Chan.ofFn w h fun x y => c.get (x0 + x) (y0 + y)

structure GroupPiece where
  stream : Nat
  chans : List (ChanInfo × Chan)

/-- the sub-channels of group `g` (`prepare_groups` / `decode_pass_group_modular`): every
non-global channel contributes the rectangle of its grid that lies in the group — group
dimensions divided by the channel's shifts, clipped at the channel's right and bottom edge —
unless that rectangle is empty -/
def groupPieceChans (groupDim gcols : Nat) (restCh : List (ChanInfo × Chan)) (g : Nat) :
    List (ChanInfo × Chan) :=
  restCh.filterMap fun (inf, c) =>
    if min (groupDim / 2 ^ inf.hshift.toNat) (inf.w - g % gcols * (groupDim / 2 ^ inf.hshift.toNat)) == 0 ∨
        min (groupDim / 2 ^ inf.vshift.toNat) (inf.h - g / gcols * (groupDim / 2 ^ inf.vshift.toNat)) == 0 then none
    else some
      ({ inf with
          w := min (groupDim / 2 ^ inf.hshift.toNat) (inf.w - g % gcols * (groupDim / 2 ^ inf.hshift.toNat)),
          h := min (groupDim / 2 ^ inf.vshift.toNat) (inf.h - g / gcols * (groupDim / 2 ^ inf.vshift.toNat)) },
        c.crop (g % gcols * (groupDim / 2 ^ inf.hshift.toNat)) (g / gcols * (groupDim / 2 ^ inf.vshift.toNat))
          (min (groupDim / 2 ^ inf.hshift.toNat) (inf.w - g % gcols * (groupDim / 2 ^ inf.hshift.toNat)))
          (min (groupDim / 2 ^ inf.vshift.toNat) (inf.h - g / gcols * (groupDim / 2 ^ inf.vshift.toNat))))

/-- is the rectangle of a channel with info `inf` in group `g` non-empty? (the channels of a
group's sub-image are the non-empty ones, in order) -/
def groupPieceNonEmpty (groupDim gcols : Nat) (inf : ChanInfo) (g : Nat) : Bool :=
  min (groupDim / 2 ^ inf.hshift.toNat) (inf.w - g % gcols * (groupDim / 2 ^ inf.hshift.toNat)) != 0 &&
    min (groupDim / 2 ^ inf.vshift.toNat) (inf.h - g / gcols * (groupDim / 2 ^ inf.vshift.toNat)) != 0

/-- one pasted channel: `w × h` samples, group cell `gw × gh`; pixel `(x, y)` is read from the
group it lies in, at the channel's position among that group's non-empty channels -/
def pasteChan (groupDim gcols : Nat) (restInfos : List ChanInfo) (piece : Nat → Option (List Chan))
    (ci w h gw gh : Nat) : Chan :=
  Chan.ofFn w h fun x y =>
    match piece ((y / gh) * gcols + x / gw) with
    | some chs =>
      (chs.getD ((List.range ci).filter fun cj =>
          groupPieceNonEmpty groupDim gcols (restInfos.getD cj default) ((y / gh) * gcols + x / gw)).length
        default).get (x % gw) (y % gh)
    | none => 0

/-- paste the group pieces back into full channels (what the decoder does by decoding every
group's sub-image into its region of the shared grids): `piece g` = the decoded channels of
group `g` -/
def pasteGroups (groupDim gcols : Nat) (restInfos : List ChanInfo) (piece : Nat → Option (List Chan)) :
    List Chan :=
  (List.range restInfos.length).map fun ci =>
    pasteChan groupDim gcols restInfos piece ci (restInfos.getD ci default).w (restInfos.getD ci default).h
      (groupDim / 2 ^ (restInfos.getD ci default).hshift.toNat)
      (groupDim / 2 ^ (restInfos.getD ci default).vshift.toNat)

/-- encode a Modular frame; `none` when the plan cannot be expressed
(transform rejected, residual not representable, unsupported layout) -/
def encodeFrame (img : ImgHdr) (p : FramePlan) : Option FrameOut :=
  let f := p.hdr
  let sb : SBits := if img.buf16 then 16 else 32
  let infos0 := frameChanInfos img f
  match transformInfoAll { info := infos0, nbMeta := 0 } p.transforms with
  | .error _ => none
  | .ok (cl, ts) =>
    -- coded-domain channels
    let codedOpt : Option (List Chan) :=
      if p.coded then some p.chans else forwardAll 32 ts p.pals p.chans
    match codedOpt with
    | none => none
    | some coded =>
      if coded.length != cl.info.length then none
      else if !((List.range coded.length).all fun i =>
          (coded.getD i default).w == (cl.info.getD i default).w ∧
          (coded.getD i default).h == (cl.info.getD i default).h) then none
      else
        let expected := inverseAll sb img.bits p.wp ts coded
        let groupDim := 128 * 2 ^ f.groupShift
        let (cw, ch) := frameDims img f
        let gcols := ceilDiv cw groupDim
        let grows := ceilDiv ch groupDim
        let numGroups := gcols * grows
        let numLf := ceilDiv cw (groupDim * 8) * ceilDiv ch (groupDim * 8)
        let zipped := cl.info.zip coded
        -- global part: leading meta channels and channels that fit one group
        let idxs := List.range zipped.length
        let isGlobal := fun (i : Nat) =>
          let inf := cl.info.getD i default
          i < cl.nbMeta ∨ (inf.w ≤ groupDim ∧ inf.h ≤ groupDim)
        let nGlobal := (idxs.takeWhile fun i => isGlobal i).length
        let globalCh := zipped.take nGlobal
        let restCh := zipped.drop nGlobal
        if restCh.any (fun (inf, _) => inf.hshift < 0 ∨ inf.vshift < 0 ∨ (inf.hshift ≥ 3 ∧ inf.vshift ≥ 3)) then none
        else
          let pieces : List GroupPiece := (List.range numGroups).map fun g =>
            { stream := 1 + 3 * numLf + 17 + g, chans := groupPieceChans groupDim gcols restCh g }
          -- tokens of every stream
          match encodeChannels sb p.tree p.wp 0 globalCh 0 [] [] with
          | none => none
          | some gtoks =>
            let ptoks := pieces.map fun pc =>
              if pc.chans.isEmpty then some [] else encodeChannels sb p.tree p.wp pc.stream pc.chans 0 [] []
            if ptoks.any Option.isNone then none
            else
              let ptoks := ptoks.map (·.getD [])
              let clusters := leafCtxIndex p.tree
              -- LfGlobal: lf_dequant.all_default, global tree present, MaConfig, ModularHeader, data
              let w : BW := #[]
              let w := if f.patches.isEmpty then w
                else w.bits (patchBits (img.ecs.filter (·.ty == 0)).length f.patches)
              let w := match f.splines with
                | some (qa, sp) => w.bits (splineBits qa sp)
                | none => w
              let w := match f.noise with
                | some lut => (List.range 8).foldl (fun (w : BW) i => w.u 10 (lut.getD i 0)) w
                | none => w
              let w := (w.bool true).bool true
              -- LZ77 distance multiplier of a sub-bitstream: its widest channel (meta channels included)
              let multOf := fun (chs : List (ChanInfo × Chan)) => chs.foldl (fun m c => max m c.1.w) 0
              let gmult := multOf globalCh
              let pmults := pieces.map fun pc => multOf pc.chans
              let (w, plan) := writeMaConfig w p.ent p.tree ((gmult, gtoks) :: pmults.zip ptoks)
              let w := writeModularHeader w true p.wp p.transforms
              let w := writeSamples w plan clusters gmult gtoks
              let lfGlobal := w.padByte.toBytes
              let groupSecs := (pieces.zip ptoks).map fun (pc, toks) =>
                if pc.chans.isEmpty then []
                else
                  let w : BW := #[]
                  let w := writeModularHeader w true p.wp []
                  (writeSamples w plan clusters (multOf pc.chans) toks).padByte.toBytes
              let sections :=
                if numGroups == 1 then [lfGlobal]
                else [lfGlobal] ++ List.replicate numLf [] ++ [[]] ++ groupSecs
              let paths := (List.range globalCh.length).map fun i =>
                decodePath (flatten i 0 0 p.tree)
              -- decoder model on the same tokens
              let gInfos := globalCh.map (·.1)
              let mGlobal := decodeChannels sb p.tree p.wp 0 gInfos 0 [] (gtoks.map (·.2))
              let mPieces := (pieces.zip ptoks).map fun (pc, toks) =>
                decodeChannels sb p.tree p.wp pc.stream (pc.chans.map (·.1)) 0 [] (toks.map (·.2))
              let modelDecoded : Option (List Chan) :=
                match mGlobal with
                | none => none
                | some (gch, _) =>
                  if mPieces.any Option.isNone then none
                  else
                    -- paste the group pieces back into full coded channels
                    let restInfos := restCh.map (·.1)
                    let rebuilt := pasteGroups groupDim gcols restInfos
                      fun g => (mPieces.getD g none).map (·.1)
                    some (inverseAll sb img.bits p.wp ts (gch ++ rebuilt))
              some { bytes := writeFrame img f sections p.tocSeed, expected, modelDecoded, paths, numGroups, entUsed := plan.mode }

end Jxl.Enc
