import JxlModel.Model.Enc.ModularEnc
import JxlModel.Model.Icc
/-!
# Reference encoder: image header, frame header, TOC, frames, codestream

Field order and distributions follow `jxl-image/src/lib.rs` (`ImageHeader`, `SizeHeader`,
`ImageMetadata`, `ExtraChannelInfo`, `BitDepth`, `ColourEncoding`), `jxl-frame/src/header.rs`
(`FrameHeader`, `Passes`, `BlendingInfo`, `RestorationFilter`) and `data/toc.rs`.
Only Modular frames are produced.
-/
namespace Jxl.Enc
open Jxl.Modular

structure EcInfo where
  /-- 0 alpha, 1 depth, 2 spot, 3 selection mask, 4 black, 5 cfa, 6 thermal, 15, 16 -/
  ty : Nat := 0
  dimShift : Nat := 0
  bits : Nat := 8
  alphaAssoc : Bool := false
  name : List Nat := []
  /-- f16 bit patterns (spot colour: r g b solidity) -/
  spot : List Nat := [0, 0, 0, 0]
  cfa : Nat := 1
  deriving Repr, Inhabited

structure ImgHdr where
  w : Nat
  h : Nat
  bits : Nat := 8
  /-- `some e`: float samples with `e` exponent bits -/
  floatExp : Option Nat := none
  orientation : Nat := 1
  gray : Bool := false
  ecs : List EcInfo := []
  /-- animation: (tps numerator, tps denominator, loops, have_timecodes) -/
  anim : Option (Nat × Nat × Nat × Bool) := none
  buf16 : Bool := true
  /-- encoded ICC stream to embed (already entropy coded bits), `none` = enum colour encoding -/
  icc : Option (List Bool) := none
  /-- `xyb_encoded`: the Modular channels are Y, X, B-Y and the decoder converts to RGB itself -/
  xyb : Bool := false
  deriving Repr, Inhabited

/-- greedy LZ77 parse of the encoded ICC bytes (`dist_multiplier = 0`, distance = value + 1).
`overlong`: a copy from the very first symbol is written with a distance larger than the number
of symbols decoded so far (legal: the decoder clamps it to "from symbol 0"). -/
def iccLzItemsExact (overlong : Bool) (data : Array Nat) : List Item :=
  let ctxAt := fun (i : Nat) =>
    Jxl.Icc.getIccCtx i (if i ≥ 1 then data.getD (i - 1) 0 else 0) (if i ≥ 2 then data.getD (i - 2) 0 else 0)
  let rec go (fuel i : Nat) : List Item :=
    match fuel with
    | 0 => []
    | fuel + 1 =>
      if i ≥ data.size then []
      else
        let cands := [i, 1, 2, 3, 4, 6, 8, 12, 16, 24, 32, 64, 128].filter fun d => 1 ≤ d ∧ d ≤ i
        let best := cands.foldl (fun (b : Nat × Nat) d =>
          let l := matchLen data i d 200
          if l > b.1 then (l, d) else b) (0, 0)
        if best.1 ≥ 3 then
          let dc := if overlong ∧ best.2 == i then i + 6 + i % 50 else best.2 - 1
          .copy (ctxAt i) best.1 dc :: go fuel (i + best.1)
        else .lit (ctxAt i) (data.getD i 0) :: go fuel (i + 1)
  go (data.size + 1) 0

/-- `overrun > 0`: a final copy is written `overrun` symbols longer than the stream needs (legal: the
reader asks for `enc_size` symbols and stops inside the copy; all its tokens were read when it began). -/
def iccLzItems (overlong : Bool) (overrun : Nat) (data : Array Nat) : List Item :=
  let items := iccLzItemsExact overlong data
  match items.reverse with
  | .copy c len d :: rest => (.copy c (len + overrun) d :: rest).reverse
  | _ => items

/-- the ICC part of the codestream (`read_icc`, jxl-color/src/icc/decode.rs): `enc_size` as U64,
an entropy-coded stream of `enc_size` bytes over 41 contexts chosen by `get_icc_ctx`.
`encoded` is the output of the ICC command encoder (`Jxl.Icc.encodeIcc`).
`coder`: 0 prefix · 1 ANS · 2/3 the same with LZ77 · 4/5 LZ77 with over-long distances · 6/7 LZ77 whose
final copy runs past `enc_size`.
Falls back to the plain form when the LZ77 plan cannot express the items. -/
def iccStreamBits (coder : Nat) (encoded : List Nat) : List Bool :=
  let w0 : BW := #[]
  let w := w0.u64 encoded.length
  let step := fun (st : List Jxl.Enc.Item × Nat × Nat × Nat) (b : Nat) =>
    let (acc, idx, b1, b2) := st
    (.lit (Jxl.Icc.getIccCtx idx b1 b2) b :: acc, idx + 1, b, b1)
  let plain := (encoded.foldl step ([], 0, 0, 0)).1.reverse
  let kind : CoderKind := if coder % 2 == 1 then .ans 8 else .prefix
  let plainPlan := (autoPlan kind 41).resolve plain
  let plainBits := (w.bits (encodeHeader plainPlan ++ encodeItems plainPlan plain)).toList
  if coder < 2 then plainBits
  else
    let items := iccLzItems (coder == 4 || coder == 5) (if coder ≥ 6 then 1 + encoded.length % 9 else 0) encoded.toArray
    let lz : Jxl.Entropy.Lz77Params := { minSymbol := 224, minLength := 3, lenConf := ⟨0, 0, 0⟩ }
    let plan := (autoPlan kind 41 (some lz)).resolve items
    if plan.check items ∧ (expandItems 0 items).take encoded.length == encoded then
      (w.bits (encodeHeader plan ++ encodeItems plan items)).toList
    else plainBits

def sizeDist : List Dist := [.bits 1 9, .bits 1 13, .bits 1 18, .bits 1 30]

def writeBitDepth (w : BW) (bits : Nat) (floatExp : Option Nat) : BW :=
  match floatExp with
  | some e => ((w.bool true).u32 [.const 32, .const 16, .const 24, .bits 1 6] bits).u 4 (e - 1)
  | none => (w.bool false).u32 [.const 8, .const 10, .const 12, .bits 1 6] bits

def writeEc (w : BW) (e : EcInfo) : BW :=
  let w := w.bool false                 -- d_alpha: always spelled out
  let w := w.enum e.ty
  let w := writeBitDepth w e.bits none
  let w := w.u32 [.const 0, .const 3, .const 4, .bits 1 3] e.dimShift
  let w := w.name e.name
  if e.ty == 0 then w.bool e.alphaAssoc
  else if e.ty == 2 then e.spot.foldl (fun w v => w.u 16 v) w
  else if e.ty == 5 then w.u32 [.const 1, .bits 0 2, .bits 3 4, .bits 19 8] e.cfa
  else w

def writeImageHeader (h : ImgHdr) : BW :=
  let w : BW := #[]
  let w := w.u 16 0x0aff
  -- SizeHeader: div8 = 0, height, ratio = 0, width
  let w := ((w.bool false).u32 sizeDist h.h)
  let w := (w.u 3 0).u32 sizeDist h.w
  -- ImageMetadata
  let w := w.bool false                 -- all_default
  let extra := h.orientation != 1 || h.anim.isSome
  let w := w.bool extra
  let w := if extra then
      let w := w.u 3 (h.orientation - 1)
      let w := (w.bool false).bool false      -- have_intr_size, have_preview
      match h.anim with
      | none => w.bool false
      | some (num, den, loops, tc) =>
        let w := w.bool true
        let w := w.u32 [.const 100, .const 1000, .bits 1 10, .bits 1 30] num
        let w := w.u32 [.const 1, .const 1001, .bits 1 8, .bits 1 10] den
        let w := w.u32 [.const 0, .bits 0 3, .bits 0 16, .bits 0 32] loops
        w.bool tc
    else w
  let w := writeBitDepth w h.bits h.floatExp
  let w := w.bool h.buf16
  let w := w.u32 [.const 0, .const 1, .bits 2 4, .bits 1 12] h.ecs.length
  let w := h.ecs.foldl writeEc w
  let w := w.bool h.xyb                 -- xyb_encoded
  -- colour encoding
  let w :=
    match h.icc with
    | some _ => ((w.bool false).bool true).enum (if h.gray then 1 else 0)   -- want_icc, colour space
    | none =>
      if h.gray then
        -- all_default = 0, want_icc = 0, Grey, white point D65 (1), tf: no gamma, sRGB (13), intent relative (1)
        let w := ((w.bool false).bool false).enum 1
        let w := w.enum 1
        let w := (w.bool false).enum 13
        w.enum 1
      else w.bool true
  let w := if extra then w.bool true else w       -- tone_mapping all_default
  let w := w.u64 0                      -- extensions
  let w := w.bool true                  -- default_m
  let w := match h.icc with
    | some bits => w.bits bits
    | none => w
  w.padByte

structure Blend where
  mode : Nat := 0          -- 0 replace 1 add 2 blend 3 muladd 4 mul
  alpha : Nat := 0
  clamp : Bool := false
  source : Nat := 0
  deriving Repr, Inhabited

/-- one target of a patch: position in the frame, then (mode, alpha channel, clamp) for the colour
channels and for every extra channel -/
structure PatchTgt where
  x : Int := 0
  y : Int := 0
  blend : List (Nat × Nat × Bool) := []
  deriving Repr, Inhabited

/-- a rectangle of the frame in reference slot `ref` and where it goes -/
structure PatchSpec where
  ref : Nat := 0
  x0 : Nat := 0
  y0 : Nat := 0
  w : Nat := 1
  h : Nat := 1
  targets : List PatchTgt := []
  deriving Repr, Inhabited

/-- one quantised spline as coded: start point (absolute), second-order deltas of the further
control points, 3 x 32 colour DCT coefficients and 32 sigma DCT coefficients -/
structure SplineSpec where
  start : Int × Int := (0, 0)
  deltas : List (Int × Int) := []
  xyb : List (List Int) := []
  sigma : List Int := []
  deriving Repr, Inhabited

structure FrameHdr where
  ty : Nat := 0            -- 0 regular, 2 reference only, 3 skip progressive
  upsampling : Nat := 1
  ecUpsampling : List Nat := []
  groupShift : Nat := 1
  haveCrop : Bool := false
  x0 : Int := 0
  y0 : Int := 0
  w : Nat := 0
  h : Nat := 0
  blend : Blend := {}
  ecBlend : List Blend := []
  duration : Nat := 0
  isLast : Bool := true
  saveAsRef : Nat := 0
  saveBeforeCt : Bool := false
  name : List Nat := []
  /-- restoration filter: Gaborish with default weights; EPF iterations 0..3 (modular: default
  weights and sigma, `sigma_for_modular` as an f16 bit pattern) -/
  gab : Bool := false
  epfIters : Nat := 0
  epfSigmaF16 : Nat := 0x3c00
  /-- patch dictionary (frame flag `PATCHES`), coded at the start of LfGlobal -/
  patches : List PatchSpec := []
  /-- splines (frame flag `SPLINES`): `quant_adjust` and the splines; coded after the patches -/
  splines : Option (Int × List SplineSpec) := none
  /-- noise (frame flag `NOISE`): the 8 LUT entries as 10-bit numbers; coded after the splines -/
  noise : Option (List Nat) := none
  deriving Repr, Inhabited

/-- the spline dictionary as entropy-coder items over its 6 contexts (`Splines::parse`,
jxl-frame/src/data/spline.rs): count-1 (2), start points (1: the first unsigned, the others packed
deltas), quant_adjust (0), per spline the number of further control points (3), their second-order
deltas (4), 3 x 32 colour and 32 sigma coefficients (5) -/
def splineItems (qa : Int) (sp : List SplineSpec) : List Item :=
  let starts : List Item := sp.zipIdx.flatMap fun (s, i) =>
    if i == 0 then [.lit 1 s.start.1.toNat, .lit 1 s.start.2.toNat]
    else
      let prev := (sp.getD (i - 1) default).start
      [.lit 1 (packSigned (s.start.1 - prev.1)), .lit 1 (packSigned (s.start.2 - prev.2))]
  [.lit 2 (sp.length - 1)] ++ starts ++ [.lit 0 (packSigned qa)] ++
  sp.flatMap fun s =>
    [Item.lit 3 s.deltas.length] ++
    (s.deltas.flatMap fun d => [Item.lit 4 (packSigned d.1), Item.lit 4 (packSigned d.2)]) ++
    ((List.range 3).flatMap fun c => (List.range 32).map fun i => Item.lit 5 (packSigned (((s.xyb.getD c []).getD i 0)))) ++
    ((List.range 32).map fun i => Item.lit 5 (packSigned (s.sigma.getD i 0)))

def splineBits (qa : Int) (sp : List SplineSpec) : List Bool :=
  let items := splineItems qa sp
  let plan := (autoPlan .prefix 6).resolve items
  (encodeHeader plan ++ encodeItems plan items)

/-- the patch dictionary as entropy-coder items over its 10 contexts (`Patches::parse`,
jxl-frame/src/data/patch.rs): count (0); per patch ref (1), x0 y0 (3), w-1 h-1 (2), targets-1 (7);
per target the position (4, later ones as packed deltas, 6), then per channel group the mode (5),
the alpha channel (8, only for modes >= 4 with two or more alpha channels) and clamp (9, modes >= 3) -/
def patchItems (numAlpha : Nat) (ps : List PatchSpec) : List Item :=
  .lit 0 ps.length :: ps.flatMap fun p =>
    [.lit 1 p.ref, .lit 3 p.x0, .lit 3 p.y0, .lit 2 (p.w - 1), .lit 2 (p.h - 1), .lit 7 (p.targets.length - 1)] ++
    (p.targets.zipIdx.flatMap fun (t, i) =>
      let pos : List Item :=
        if i == 0 then [.lit 4 t.x.toNat, .lit 4 t.y.toNat]
        else
          let prev := p.targets.getD (i - 1) default
          [.lit 6 (packSigned (t.x - prev.x)), .lit 6 (packSigned (t.y - prev.y))]
      pos ++ t.blend.flatMap fun (mode, alpha, clamp) =>
        [Item.lit 5 mode] ++ (if mode ≥ 4 ∧ numAlpha ≥ 2 then [Item.lit 8 alpha] else []) ++
        (if mode ≥ 3 then [Item.lit 9 (if clamp then 1 else 0)] else []))

/-- the coded dictionary: `Decoder::parse(10)` header and the items, prefix coded -/
def patchBits (numAlpha : Nat) (ps : List PatchSpec) : List Bool :=
  let items := patchItems numAlpha ps
  let plan := (autoPlan .prefix 10).resolve items
  (encodeHeader plan ++ encodeItems plan items)

def cropDist : List Dist := [.bits 0 8, .bits 256 11, .bits 2304 14, .bits 18688 30]

def upsDist : List Dist := [.const 1, .const 2, .const 4, .const 8]

def FrameHdr.isNormal (f : FrameHdr) : Bool := f.ty == 0 || f.ty == 3

/-- `FrameHeader::resets_canvas` -/
def resetsCanvas (img : ImgHdr) (f : FrameHdr) (mode : Nat) : Bool :=
  mode == 0 && (!f.haveCrop ||
    (f.x0 ≤ 0 && f.y0 ≤ 0 && f.x0 + f.w ≥ img.w && f.y0 + f.h ≥ img.h))

def writeBlend (w : BW) (img : ImgHdr) (f : FrameHdr) (b : Blend) (baseMode : Option Nat) : BW :=
  let w := w.u32 [.const 0, .const 1, .const 2, .bits 3 2] b.mode
  let hasEc := !img.ecs.isEmpty
  let w := if hasEc && (b.mode == 2 || b.mode == 3) then w.u32 [.const 0, .const 1, .const 2, .bits 3 3] b.alpha else w
  let w := if (hasEc && (b.mode == 2 || b.mode == 3)) || b.mode == 4 then w.bool b.clamp else w
  if !(resetsCanvas img f (baseMode.getD b.mode)) then w.u 2 b.source else w

def writeFrameHeader (img : ImgHdr) (f : FrameHdr) : BW :=
  let w : BW := #[]
  let w := w.bool false                   -- all_default
  let w := w.u 2 f.ty
  let w := w.bool true                    -- encoding = Modular
  -- flags: NOISE = 1, PATCHES = 2, SPLINES = 16
  let w := w.u64 ((if f.patches.isEmpty then 0 else 2) + (if f.splines.isSome then 16 else 0) + (if f.noise.isSome then 1 else 0))
  let w := if img.xyb then w else w.bool false   -- do_ycbcr (coded only when the image is not XYB encoded)
  let w := w.u32 upsDist f.upsampling
  let w := (List.range img.ecs.length).foldl (fun w i => w.u32 upsDist (f.ecUpsampling.getD i 1)) w
  let w := w.u 2 f.groupShift
  let w := if f.ty != 2 then w.u32 [.const 1, .const 2, .const 3, .bits 4 3] 1 else w   -- passes: num_passes = 1
  let w := w.bool f.haveCrop
  let w := if f.haveCrop then
      let w := if f.ty != 2 then (w.u32 cropDist (packSigned f.x0)).u32 cropDist (packSigned f.y0) else w
      (w.u32 cropDist f.w).u32 cropDist f.h
    else w
  let w := if f.isNormal then
      let w := writeBlend w img f f.blend none
      let w := (List.range img.ecs.length).foldl
        (fun w i => writeBlend w img f (f.ecBlend.getD i {}) (some f.blend.mode)) w
      let w := if img.anim.isSome then w.u32 [.const 0, .const 1, .bits 0 8, .bits 0 32] f.duration else w
      let w := match img.anim with
        | some (_, _, _, true) => w.u 32 0
        | _ => w
      w.bool f.isLast
    else w
  let isLast := if f.isNormal then f.isLast else false
  let w := if !isLast then w.u 2 f.saveAsRef else w
  let resets := resetsCanvas img f f.blend.mode
  let w := if f.ty == 2 || (resets && (!isLast && (f.duration == 0 || f.saveAsRef != 0))) then w.bool f.saveBeforeCt else w
  let w := w.name f.name
  -- restoration_filter: all_default = 0 (the default would switch Gaborish and EPF on)
  let w := w.bool false
  let w := if f.gab then (w.bool true).bool false else w.bool false     -- gab_enabled, custom
  let w := w.u 2 f.epfIters
  let w := if f.epfIters != 0 then ((w.bool false).bool false).u 16 f.epfSigmaF16 else w
  let w := w.u64 0                        -- restoration_filter.extensions
  w.u64 0                                 -- extensions

def tocDist : List Dist := [.bits 0 10, .bits 1024 14, .bits 17408 22, .bits 4211712 30]

/-- a permutation of `0..n-1` derived from `seed` (Fisher–Yates with a small LCG) -/
def seededPerm (n seed : Nat) : List Nat :=
  let rec go (fuel i st : Nat) (a : Array Nat) : Array Nat :=
    match fuel with
    | 0 => a
    | fuel + 1 =>
      if i == 0 then a
      else
        let st := (st * 1103515245 + 12345) % 2147483648
        let j := (st / 65536) % (i + 1)
        let ai := a.getD i 0
        let aj := a.getD j 0
        go fuel (i - 1) st ((a.set! i aj).set! j ai)
  (go n (n - 1) (seed + 1) (Array.range n)).toList

/-- frame = header, TOC, sections (each already byte aligned). `tocSeed = none`: TOC not permuted.
`some k`: `permuted_toc = 1`; logical section `i` is stored at bitstream position `perm[i]`
(`toc.rs`: `offsets_out[i] = offsets[permutation[i]]`), the permutation written through the
entropy coder of C04 (8 contexts, prefix codes) as its Lehmer code. -/
def writeFrame (img : ImgHdr) (f : FrameHdr) (sections : List (List Nat)) (tocSeed : Option Nat := none) :
    List Nat :=
  let w := writeFrameHeader img f
  match tocSeed with
  | none =>
    let w := (w.bool false).padByte         -- permuted_toc = 0
    let w := sections.foldl (fun w s => w.u32 tocDist s.length) w
    let w := w.padByte
    w.toBytes ++ sections.flatMap id
  | some seed =>
    let n := sections.length
    let perm := seededPerm n seed
    let items := permItems n 0 perm
    let plan := (autoPlan .prefix 8).resolve items
    let w := w.bool true
    let w := w.bits (encodeHeader plan ++ encodeItems plan items)
    let w := w.padByte
    -- bitstream position p holds the logical section i with perm[i] = p
    let inv := (List.range n).map fun p => (perm.findIdx? (· == p)).getD 0
    let stored := inv.map fun i => sections.getD i []
    let w := stored.foldl (fun w s => w.u32 tocDist s.length) w
    let w := w.padByte
    w.toBytes ++ stored.flatMap id

end Jxl.Enc
