import JxlModel.Model.Entropy.Prefix
import JxlModel.Model.Enc.Huffman
/-!
# Encoder: prefix-code histogram headers (inverse of `prefix::Histogram::parse`)
-/
namespace Jxl.Enc
open Jxl Jxl.Entropy

/-- how to write a prefix-code header -/
inductive PrefixForm
  | auto                               -- simple if the shape allows, else complex with RLE
  | simple                             -- 1–4 symbols (falls back to complex if impossible)
  | complex (rle : Bool) (hskip : Nat) -- code-length code; `hskip` ∈ {0,2,3} (0 if infeasible)
deriving Repr, DecidableEq, Inhabited

/-- the decoder that a length vector denotes: exactly one non-zero entry = zero-bit code -/
def codeOfLens (lens : List Nat) : PrefixCode :=
  match (lens.zipIdx.filter fun (l, _) => l ≠ 0) with
  | [(_, s)] => .single s
  | _ => .table (sortedSyms lens)

/-- `(symbols in header order, tree selector)` if the used part of `lens` is a simple shape -/
def simpleShape (lens : List Nat) : Option (List Nat × Option Bool) :=
  let used := (lens.zipIdx.filter fun (l, _) => l ≠ 0)
  let withLen (k : Nat) := (used.filter fun (l, _) => l = k).map (·.2)
  match used.length with
  | 1 => some (used.map (·.2), none)
  | 2 => if (withLen 1).length = 2 then some (withLen 1, none) else none
  | 3 => if (withLen 1).length = 1 ∧ (withLen 2).length = 2 then some (withLen 1 ++ withLen 2, none)
         else none
  | 4 =>
    if (withLen 2).length = 4 then some (withLen 2, some false)
    else if (withLen 1).length = 1 ∧ (withLen 2).length = 1 ∧ (withLen 3).length = 2 then
      some (withLen 1 ++ withLen 2 ++ withLen 3, some true)
    else none
  | _ => none

def writeSimple (count : Nat) (syms : List Nat) (sel : Option Bool) : Bits :=
  toBits 2 1 ++ toBits 2 (syms.length - 1) ++ syms.flatMap (toBits (clog2 count))
    ++ (match sel with | some b => [b] | none => [])

/-- code-length-code length field (inverse of `readClcLen`) -/
def writeClcLen : Nat → Bits
  | 0 => [false, false]
  | 4 => [true, false]
  | 3 => [false, true]
  | 2 => [true, true, false]
  | 1 => [true, true, true, false]
  | _ => [true, true, true, true]

/-- chained repeat digits for a run of `r ≥ 3`, base `b` (4 for code 16, 8 for code 17),
most significant first -/
def chainDigits (b : Nat) : Nat → Nat → List Nat → List Nat
  | 0, _, acc => acc
  | fuel+1, reps, acc =>
    let acc := reps % b :: acc
    let reps := reps / b
    if reps = 0 then acc else chainDigits b fuel (reps - 1) acc

/-- code-length symbols `(sym, extra bit count, extra value)` for the run `(v, n)` -/
def runTokens (rle : Bool) (v n : Nat) : List (Nat × Nat × Nat) :=
  if v = 0 then
    if rle ∧ n ≥ 3 then (chainDigits 8 32 (n - 3) []).map fun d => (17, 3, d)
    else List.replicate n (0, 0, 0)
  else
    if rle ∧ n ≥ 4 then
      (v, 0, 0) :: (chainDigits 4 32 (n - 4) []).map fun d => (16, 2, d)
    else List.replicate n (v, 0, 0)

/-- run-length grouping -/
def groupRuns : List Nat → List (Nat × Nat)
  | [] => []
  | a :: r =>
    match groupRuns r with
    | (b, n) :: t => if a = b then (b, n + 1) :: t else (a, 1) :: (b, n) :: t
    | [] => [(a, 1)]

def trimTrailingZeros (l : List Nat) : List Nat := (l.reverse.dropWhile (· = 0)).reverse

def clTokens (rle : Bool) (lens : List Nat) : List (Nat × Nat × Nat) :=
  (groupRuns (trimTrailingZeros lens)).flatMap fun (v, n) => runTokens rle v n

/-- code-length-code lengths in transmission order, stopping when the space is used up -/
def writeClc : List Nat → List Nat → Nat → Bits
  | [], _, _ => []
  | idx :: r, clc, acc =>
    let l := clc.getD idx 0
    let acc' := if l = 0 then acc else acc + 32 / 2 ^ l
    writeClcLen l ++ (if acc' ≥ 32 then [] else writeClc r clc acc')

def writeComplex (lens : List Nat) (rle : Bool) (hskipReq : Option Nat) : Bits :=
  let toks := clTokens rle lens
  let clc := huffLengths 5 (histogram 18 (toks.map (·.1)))
  let feasible (h : Nat) : Bool := (codeLengthOrder.take h).all fun i => clc.getD i 0 = 0
  let hskip := match hskipReq with
    | some h => if (h = 2 ∨ h = 3) ∧ feasible h then h else 0
    | none => if feasible 3 then 3 else if feasible 2 then 2 else 0
  let code := codeOfLens clc
  toBits 2 hskip ++ writeClc (codeLengthOrder.drop hskip) clc 0
    ++ toks.flatMap fun (sym, nb, x) => code.encode sym ++ toBits nb x

/-- header of one prefix histogram with alphabet size `count` (`lens` has `count` entries) -/
def writePrefix (count : Nat) (lens : List Nat) (form : PrefixForm) : Bits :=
  if count ≤ 1 then []
  else
    match form, simpleShape lens with
    | .complex _ _, some ([s], _) => writeSimple count [s] none
    | .complex rle h, _ => writeComplex lens rle (some h)
    | _, some (syms, sel) => writeSimple count syms sel
    | _, none => writeComplex lens true none

end Jxl.Enc
