import JxlModel.Model.Enc.Frame
import JxlModel.Model.Modular.Narrow
/-!
# Is a planned frame inside the C12 hypothesis?

Runs the **wide** (`sb = 32`) decoder model on the tokens the reference encoder emits for a plan
and reports the ranges of the values that `Props/C12.lean` requires to be `i16`
(`decodeChannelsWide` per stream, `inverseAllTrace` for the transform chain).

The partition of the coded channels into the LfGlobal stream and the per-group streams repeats
`Enc.encodeFrame` (same expressions); the driver cross-checks the two by comparing the wide result
with the encoder's `expected` channels.
-/
namespace Jxl.Enc
open Jxl.Modular

structure StreamPiece where
  stream : Nat
  chans : List (ChanInfo × Chan)

/-- the coded-domain channels of a plan and their partition into streams (`encodeFrame`) -/
def frameStreams (img : ImgHdr) (p : FramePlan) : Option (List Transform × List Chan × List StreamPiece) :=
  let f := p.hdr
  let infos0 := frameChanInfos img f
  match transformInfoAll { info := infos0, nbMeta := 0 } p.transforms with
  | .error _ => none
  | .ok (cl, ts) =>
    let codedOpt : Option (List Chan) :=
      if p.coded then some p.chans else forwardAll 32 ts p.pals p.chans
    match codedOpt with
    | none => none
    | some coded =>
      if coded.length != cl.info.length then none
      else
        let groupDim := 128 * 2 ^ f.groupShift
        let (cw, ch) := frameDims img f
        let gcols := ceilDiv cw groupDim
        let grows := ceilDiv ch groupDim
        let numGroups := gcols * grows
        let numLf := ceilDiv cw (groupDim * 8) * ceilDiv ch (groupDim * 8)
        let zipped := cl.info.zip coded
        let idxs := List.range zipped.length
        let isGlobal := fun (i : Nat) =>
          let inf := cl.info.getD i default
          i < cl.nbMeta ∨ (inf.w ≤ groupDim ∧ inf.h ≤ groupDim)
        let nGlobal := (idxs.takeWhile fun i => isGlobal i).length
        let globalCh := zipped.take nGlobal
        let restCh := zipped.drop nGlobal
        if restCh.any (fun (inf, _) => inf.hshift < 0 ∨ inf.vshift < 0 ∨ (inf.hshift ≥ 3 ∧ inf.vshift ≥ 3)) then none
        else
          let pieces : List StreamPiece := (List.range numGroups).map fun g =>
            let gx := g % gcols
            let gy := g / gcols
            let chans := restCh.filterMap fun (inf, c) =>
              let gw := groupDim / 2 ^ inf.hshift.toNat
              let gh := groupDim / 2 ^ inf.vshift.toNat
              let x0 := gx * gw
              let y0 := gy * gh
              let w := min gw (inf.w - x0)
              let h := min gh (inf.h - y0)
              if w == 0 ∨ h == 0 then none
              else some ({ inf with w := w, h := h }, c.crop x0 y0 w h)
            { stream := 1 + 3 * numLf + 17 + g, chans }
          some (ts, coded, { stream := 0, chans := globalCh } :: pieces.filter (fun pc => !pc.chans.isEmpty))

structure WideReport where
  /-- every stream: the wide decoder, fed the encoder's tokens, returns the coded channels -/
  decodeSame : Bool
  /-- ranges `(min, max)`: decoded samples; unpacked tokens / residuals / predictions / samples;
  must-fit values of the transform chain; channel contents after every step (stored values) -/
  samples : Int × Int
  tokenLevel : Int × Int
  transforms : Int × Int
  stored : Int × Int
  /-- the hypothesis of `C12_subimage_narrow_eq_wide` (per stream) and `C12_inverseAll…` -/
  fits : Bool
  /-- result of the wide run of the transform chain on the coded channels -/
  wide : List Chan

def rangeUnion (a b : Int × Int) : Int × Int := (min a.1 b.1, max a.2 b.2)

def inI16 (r : Int × Int) : Bool := decide (I16 r.1) && decide (I16 r.2)

/-- token-level values of the wide decode of all channels of one stream (for the report only) -/
def decodeChannelsTrace (tree : Tree) (wp : Wp) (stream : Nat) :
    List ChanInfo → Nat → List (ChanInfo × Chan) → List Nat → List Int
  | [], _, _, _ => []
  | info :: rest, idx, done, tokens =>
    if info.w == 0 ∨ info.h == 0 then
      decodeChannelsTrace tree wp stream rest (idx + 1) (done ++ [(info, Chan.zero info.w info.h)]) tokens
    else
      let prevSame := (done.filter fun d => d.1 == info ∧ d.1.w != 0 ∧ d.1.h != 0).reverse.map (·.2)
      let flat := flatten idx stream prevSame.length tree
      let wpo := if flatUsesSC flat then some wp else none
      let prev := prevSame.take (flatMaxPrev flat)
      decodeTrace (fun props => getLeaf flat props) prev (info.w * info.h) (PState.reset info.w wpo) tokens ++
        match decodeChannel 32 tree wp idx stream info prevSame tokens with
        | none => []
        | some (c, tokens') =>
          decodeChannelsTrace tree wp stream rest (idx + 1) (done ++ [(info, c)]) tokens'

/-- stored values of the wide transform chain: channel contents before and after every step -/
def storedValues (bitDepth : Nat) (wp : Wp) (ts : List Transform) (chans : List Chan) : List Int :=
  chansValues chans ++
    foldTrace (inverseOne 32 bitDepth wp) (fun chans t => chansValues (inverseOne 32 bitDepth wp chans t))
      ts.reverse chans

def frameWide (img : ImgHdr) (p : FramePlan) : Option WideReport :=
  let sb : SBits := if img.buf16 then 16 else 32
  match frameStreams img p with
  | none => none
  | some (ts, coded, pieces) =>
    let per := pieces.map fun pc =>
      match encodeChannels sb p.tree p.wp pc.stream pc.chans 0 [] [] with
      | none => none
      | some toks =>
        let infos := pc.chans.map (·.1)
        let tokv := toks.map (·.2)
        let ws := decodeChannelsWide p.tree p.wp pc.stream infos 0 [] tokv
        let tl := decodeChannelsTrace p.tree p.wp pc.stream infos 0 [] tokv
        let same := match decodeChannels 32 p.tree p.wp pc.stream infos 0 [] tokv with
          | some (chs, rest) => rest.isEmpty && chs == pc.chans.map (·.2)
          | none => false
        some (same, rangeOf ws, rangeOf tl)
    if per.any Option.isNone then none
    else
      let per := per.map (·.getD (false, (0, 0), (0, 0)))
      let samples := per.foldl (fun r x => rangeUnion r x.2.1) (0, 0)
      let tokenLevel := per.foldl (fun r x => rangeUnion r x.2.2) (0, 0)
      let decodeSame := per.all (·.1)
      let transforms := rangeOf (inverseAllTrace img.bits p.wp ts coded)
      let stored := rangeOf (storedValues img.bits p.wp ts coded)
      some { decodeSame, samples, tokenLevel, transforms, stored,
             fits := decodeSame && inI16 samples && inI16 transforms,
             wide := inverseAll 32 img.bits p.wp ts coded }

end Jxl.Enc
