import JxlModel.Model.Enc.BitW
/-!
# Minimal entropy-coded stream writer (prefix codes, fixed-length)

Enough of `jxl_coding::Decoder::parse` to carry any token sequence: LZ77 off, simple cluster map
(≤ 8 clusters), prefix codes, one hybrid-integer configuration
(`split_exponent = 4, msb_in_token = 1, lsb_in_token = 0`), and for every cluster a *complete*
prefix code in which all `2^k` symbols have length `k` (written as a "complex" code whose
code-length code has a single used symbol, which costs zero bits per length).
The general encoder (every histogram form, ANS, LZ77) is `Model/Entropy` (property C04); this one
exists so that Modular streams can be produced independently of it.
-/
namespace Jxl.Enc

def log2Floor (v : Nat) : Nat := Nat.log2 v

/-- hybrid-integer split of `v` for config (split_exponent 4, msb 1, lsb 0):
returns `(token, nbits, bits)` -/
def hybridV0 (v : Nat) : Nat × Nat × Nat :=
  if v < 16 then (v, 0, 0)
  else
    let n := log2Floor v
    let m := v - 2 ^ n
    (16 + (n - 4) * 2 + (m >>> (n - 1)), n - 1, m % 2 ^ (n - 1))

/-- number of code bits `k` needed so that every token `< 2^k` -/
def codeBitsFor (maxTok : Nat) : Nat :=
  if maxTok == 0 then 0 else log2Floor maxTok + 1

structure V0Plan where
  numCtx : Nat
  /-- cluster of each context (must cover `0..numClusters-1`) -/
  clusterOf : List Nat
  /-- code bits per cluster (0 = single-symbol alphabet) -/
  kOf : List Nat
  deriving Repr, Inhabited

def numClusters (clusterOf : List Nat) : Nat := (clusterOf.foldl max 0) + 1

/-- build a plan from the `(ctx, value)` sequence: cluster map given, `k` from the largest token -/
def v0PlanFor (numCtx : Nat) (clusterOf : List Nat) (toks : List (Nat × Nat)) : V0Plan :=
  let nc := numClusters clusterOf
  let maxTok : List Nat := (List.range nc).map fun c =>
    toks.foldl (fun m (ctx, v) => if clusterOf.getD ctx 0 == c then max m (hybridV0 v).1 else m) 0
  { numCtx, clusterOf, kOf := maxTok.map codeBitsFor }

/-- the bits of `Decoder::parse(num_dist = numCtx)` -/
def v0Header (w : BW) (p : V0Plan) : BW :=
  let w := w.bool false                       -- lz77.enabled
  let nc := numClusters p.clusterOf
  let w :=
    if p.numCtx == 1 then w
    else
      let nbits := codeBitsFor (nc - 1)
      let w := (w.bool true).u 2 nbits        -- is_simple, nbits
      p.clusterOf.foldl (fun w c => w.u nbits c) w
  let w := w.bool true                        -- use_prefix_code
  -- per-cluster integer config: split_exponent (4 bits), msb (3 bits), lsb (2 bits)
  let w := (List.range nc).foldl (fun w _ => ((w.u 4 4).u 3 1).u 2 0) w
  -- counts
  let w := p.kOf.foldl (fun w k =>
    if k == 0 then w.bool false
    else ((w.bool true).u 4 (k - 1)).u (k - 1) (2 ^ (k - 1) - 1)) w
  -- histograms
  p.kOf.foldl (fun w k =>
    if k == 0 then w
    else
      let w := w.u 2 0                        -- hskip = 0 (complex)
      let order : List Nat := [1, 2, 3, 4, 0, 5, 17, 6, 16, 7, 8, 9, 10, 11, 12, 13, 14, 15]
      -- code-length-code lengths: 4 for symbol k (selector 1), 0 otherwise (selector 0)
      order.foldl (fun w s => if s == k then w.u 2 1 else w.u 2 0) w) w

/-- one symbol of cluster with `k` code bits: canonical code = the symbol itself, MSB first -/
def v0Symbol (w : BW) (k : Nat) (tok : Nat) : BW := w.bits (toBits k tok).reverse

def v0Value (w : BW) (p : V0Plan) (ctx v : Nat) : BW :=
  let (tok, nb, bits) := hybridV0 v
  let k := p.kOf.getD (p.clusterOf.getD ctx 0) 0
  (v0Symbol w k tok).u nb bits

def v0Values (w : BW) (p : V0Plan) (toks : List (Nat × Nat)) : BW :=
  toks.foldl (fun w (ctx, v) => v0Value w p ctx v) w

/-- header + symbols -/
def v0Stream (w : BW) (numCtx : Nat) (clusterOf : List Nat) (toks : List (Nat × Nat)) : BW :=
  let p := v0PlanFor numCtx clusterOf toks
  v0Values (v0Header w p) p toks

end Jxl.Enc
