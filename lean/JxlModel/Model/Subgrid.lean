/-!
# Sub-grid geometry (`jxl-grid/src/mutable_subgrid.rs`, `shared_subgrid.rs`)

A `MutableSubgrid<'g, V>` is a raw pointer plus `(width, height, stride)` and an optional
`split_base` pointer.  The model replaces the pointer by its element offset `off` from the start of
the underlying allocation (buffer of length `L`), so a sub-grid is `(off, w, h, stride, base)` and
the set of elements it may touch is `cells`.  Every operation is transcribed with its assertions;
an assertion failure is the outcome `panic site`.

What this model can and cannot say: it is about *index arithmetic and ownership geometry* — which
element offsets an operation hands to which sub-grid.  Rust's aliasing model, pointer provenance,
lifetimes (`PhantomData<&'g mut [V]>`) are not represented.

`usize` is 64 bit (`W = 2^64`).  Two build flavours exist for arithmetic on *caller supplied,
unbounded* numbers (`from_buf`'s length computation, the `v + 1` of range bounds,
`into_groups_with_fixed_count`'s `gy * group_height`, `gx * group_width`, `num_cols * num_rows`):
`Mode.checked` (overflow-checks on: overflow is `panic arith`) and `Mode.wrapping` (optimised
build: the result is taken mod `W`).  Offsets derived from an existing sub-grid
(`y * stride + x` with `x ≤ w`, `y ≤ h`) are plain naturals: for a sub-grid living inside a real
allocation they are bounded by the address space.
This file is import-free (it links into the `jxlmodel` executable).
-/
namespace Jxl.Subgrid

def W : Nat := 2 ^ 64

inductive Mode where
  | checked
  | wrapping
  deriving DecidableEq, Repr

/-- assertion / panic sites of `mutable_subgrid.rs` -/
inductive Site where
  /-- `new`: `assert!(width == 0 || width <= stride)` -/
  | newWidthStride
  /-- `from_buf`: `assert!(width <= stride)` -/
  | fromBufWidthStride
  /-- `from_buf`: `assert_eq!(buf.len(), 0)` for an empty grid -/
  | fromBufEmptyLen
  /-- `from_buf`: `assert!(buf.len() >= stride * (height - 1) + width)` -/
  | fromBufLen
  /-- arithmetic overflow in a build with overflow checks -/
  | arith
  | subgridLeftRight
  | subgridTopBottom
  | subgridRight
  | subgridBottom
  /-- `split_horizontal(_in_place)`: `assert!(x <= self.width)` -/
  | splitX
  /-- `split_vertical(_in_place)`: `assert!(y <= self.height)` -/
  | splitY
  /-- `merge_*`: `assert!(self.split_base.is_some())` -/
  | mergeNoBase
  /-- `merge_*`: `assert_eq!(self.split_base, other.split_base)` -/
  | mergeBase
  | mergeStride
  /-- `merge_horizontal_in_place`: `assert_eq!(self.height, right.height)` -/
  | mergeHeight
  /-- `merge_vertical_in_place`: `assert_eq!(self.width, bottom.width)` -/
  | mergeWidth
  /-- `merge_horizontal_in_place`: `assert!(self.stride >= self.width + right.width)` -/
  | mergeStrideSum
  /-- `merge_*`: the `std::ptr::eq` adjacency assertion -/
  | mergeAdjacent
  /-- `into_groups`: group width or height is zero -/
  | groupsZero
  /-- `get/get_ref/get_mut/swap`: coordinate out of range -/
  | coord
  /-- `get_row(_mut)`: row index out of range -/
  | row
  deriving DecidableEq, Repr

inductive Outcome (α : Type) where
  | ok (a : α)
  | panic (s : Site)
  deriving Repr, DecidableEq

structure SubGrid where
  /-- `ptr` as an element offset from the start of the underlying allocation -/
  off : Nat
  w : Nat
  h : Nat
  stride : Nat
  /-- `split_base`, as an element offset -/
  base : Option Nat
  deriving Repr, DecidableEq, Inhabited

/-- `get_ptr_unchecked(x, y)`: `ptr.add(y * stride + x)` -/
def index (g : SubGrid) (x y : Nat) : Nat := g.off + y * g.stride + x

/-- every element offset reachable through `get*`/`get_row*` of the sub-grid, row by row -/
def cells (g : SubGrid) : List Nat :=
  (List.range g.h).flatMap fun y => (List.range g.w).map fun x => index g x y

/-- The invariant the `unsafe` code relies on: `new`'s assertion, and every reachable element lies
inside the allocation of length `L`. -/
def Valid (L : Nat) (g : SubGrid) : Prop :=
  (g.w = 0 ∨ g.w ≤ g.stride) ∧ ∀ i ∈ cells g, i < L

/-- two sub-grids can never touch the same element -/
def Disjoint (a b : SubGrid) : Prop := ∀ i, i ∈ cells a → i ∈ cells b → False

/-! ## arithmetic on caller-supplied numbers -/

def addM (m : Mode) (a b : Nat) : Option Nat :=
  if a + b < W then some (a + b) else
    match m with
    | .checked => none
    | .wrapping => some ((a + b) % W)

def mulM (m : Mode) (a b : Nat) : Option Nat :=
  if a * b < W then some (a * b) else
    match m with
    | .checked => none
    | .wrapping => some ((a * b) % W)

/-! ## constructors -/

/-- `MutableSubgrid::new` (unsafe fn; its only check) -/
def new (off w h stride : Nat) : Outcome SubGrid :=
  if w = 0 ∨ w ≤ stride then .ok ⟨off, w, h, stride, none⟩ else .panic .newWidthStride

/-- `MutableSubgrid::from_buf(buf, width, height, stride)` where `buf` is the slice
`[off, off + len)` of the underlying allocation. -/
def fromBuf (m : Mode) (off len w h stride : Nat) : Outcome SubGrid :=
  if ¬ w ≤ stride then .panic .fromBufWidthStride
  else if w = 0 ∨ h = 0 then
    (if len = 0 then new off w h stride else .panic .fromBufEmptyLen)
  else
    match mulM m stride (h - 1) with
    | none => .panic .arith
    | some p =>
      match addM m p w with
      | none => .panic .arith
      | some need => if len ≥ need then new off w h stride else .panic .fromBufLen

/-! ## element access -/

/-- `get`, `get_ref`, `get_mut`, `try_get_*`: the element offset, or the panic -/
def get (g : SubGrid) (x y : Nat) : Outcome Nat :=
  if x ≥ g.w ∨ y ≥ g.h then .panic .coord else .ok (index g x y)

/-- `get_row(_mut)(row)`: `(start offset, length)` of the returned slice -/
def getRow (g : SubGrid) (y : Nat) : Outcome (Nat × Nat) :=
  if y ≥ g.h then .panic .row else .ok (g.off + y * g.stride, g.w)

/-- `borrow_mut`: same geometry, `split_base` reset by `new` -/
def borrowMut (g : SubGrid) : Outcome SubGrid := new g.off g.w g.h g.stride

/-- `as_shared`: `SharedSubgrid::new` has no assertion; same geometry -/
def asShared (g : SubGrid) : SubGrid := ⟨g.off, g.w, g.h, g.stride, none⟩

/-! ## `subgrid(range_x, range_y)` -/

inductive Bound where
  | incl (v : Nat)
  | excl (v : Nat)
  | unb
  deriving Repr, DecidableEq

def startOf (m : Mode) : Bound → Option Nat
  | .incl v => some v
  | .excl v => addM m v 1
  | .unb => some 0

def endOf (m : Mode) (dflt : Nat) : Bound → Option Nat
  | .incl v => addM m v 1
  | .excl v => some v
  | .unb => some dflt

/-- the part of `subgrid` after the four bounds are known -/
def subgridLRTB (g : SubGrid) (left right top bottom : Nat) : Outcome SubGrid :=
  if ¬ left ≤ right then .panic .subgridLeftRight
  else if ¬ top ≤ bottom then .panic .subgridTopBottom
  else if ¬ right ≤ g.w then .panic .subgridRight
  else if ¬ bottom ≤ g.h then .panic .subgridBottom
  else new (index g left top) (right - left) (bottom - top) g.stride

def subgrid (m : Mode) (g : SubGrid) (xs xe ys ye : Bound) : Outcome SubGrid :=
  match startOf m xs, endOf m g.w xe, startOf m ys, endOf m g.h ye with
  | some l, some r, some t, some b => subgridLRTB g l r t b
  | _, _, _, _ => .panic .arith

/-! ## splits -/

def splitBase (g : SubGrid) : Nat := g.base.getD g.off

/-- `split_horizontal(x)`: `(left, right)` -/
def splitH (g : SubGrid) (x : Nat) : Outcome (SubGrid × SubGrid) :=
  if ¬ x ≤ g.w then .panic .splitX
  else
    match new g.off x g.h g.stride, new (index g x 0) (g.w - x) g.h g.stride with
    | .ok l, .ok r =>
      .ok ({ l with base := some (splitBase g) }, { r with base := some (splitBase g) })
    | .panic s, _ => .panic s
    | _, .panic s => .panic s

/-- `split_horizontal_in_place(x)`: `(self afterwards, returned right part)`.
(`self` is updated without going through `new`.) -/
def splitHInPlace (g : SubGrid) (x : Nat) : Outcome (SubGrid × SubGrid) :=
  if ¬ x ≤ g.w then .panic .splitX
  else
    match new (index g x 0) (g.w - x) g.h g.stride with
    | .ok r =>
      .ok ({ g with w := x, base := some (splitBase g) }, { r with base := some (splitBase g) })
    | .panic s => .panic s

/-- `split_vertical(y)`: `(top, bottom)` -/
def splitV (g : SubGrid) (y : Nat) : Outcome (SubGrid × SubGrid) :=
  if ¬ y ≤ g.h then .panic .splitY
  else
    match new g.off g.w y g.stride, new (index g 0 y) g.w (g.h - y) g.stride with
    | .ok t, .ok b =>
      .ok ({ t with base := some (splitBase g) }, { b with base := some (splitBase g) })
    | .panic s, _ => .panic s
    | _, .panic s => .panic s

/-- `split_vertical_in_place(y)`: `(self afterwards, returned bottom part)` -/
def splitVInPlace (g : SubGrid) (y : Nat) : Outcome (SubGrid × SubGrid) :=
  if ¬ y ≤ g.h then .panic .splitY
  else
    match new (index g 0 y) g.w (g.h - y) g.stride with
    | .ok b =>
      .ok ({ g with h := y, base := some (splitBase g) }, { b with base := some (splitBase g) })
    | .panic s => .panic s

/-! ## merges -/

/-- `self.merge_horizontal_in_place(right)`: `self` afterwards -/
def mergeH (a b : SubGrid) : Outcome SubGrid :=
  if a.base.isNone then .panic .mergeNoBase
  else if a.base ≠ b.base then .panic .mergeBase
  else if a.stride ≠ b.stride then .panic .mergeStride
  else if a.h ≠ b.h then .panic .mergeHeight
  else if ¬ a.stride ≥ a.w + b.w then .panic .mergeStrideSum
  else if index a a.w 0 ≠ b.off then .panic .mergeAdjacent
  else .ok { a with w := a.w + b.w }

/-- `self.merge_vertical_in_place(bottom)`: `self` afterwards -/
def mergeV (a b : SubGrid) : Outcome SubGrid :=
  if a.base.isNone then .panic .mergeNoBase
  else if a.base ≠ b.base then .panic .mergeBase
  else if a.stride ≠ b.stride then .panic .mergeStride
  else if a.w ≠ b.w then .panic .mergeWidth
  else if index a 0 a.h ≠ b.off then .panic .mergeAdjacent
  else .ok { a with h := a.h + b.h }

/-! ## groups -/

/-- `k * size` as the build computes it when it does not panic -/
def mulW (m : Mode) (a b : Nat) : Nat :=
  match m with
  | .checked => a * b
  | .wrapping => (a * b) % W

/-- does `k * size` overflow for some `k < n` (the loop counter)? -/
def loopOverflows (n size : Nat) : Bool := n ≠ 0 ∧ (n - 1) * size ≥ W

/-- `(gy * group_height).min(height)` and `(height - y).min(group_height)`:
`(start, length)` of group number `k` along one axis -/
def axisCut (m : Mode) (size total k : Nat) : Nat × Nat :=
  (min (mulW m k size) total, min (total - min (mulW m k size) total) size)

/-- one group of `into_groups_with_fixed_count`, from its two axis cuts -/
def groupOf (g : SubGrid) (cy cx : Nat × Nat) : SubGrid :=
  ⟨g.off + cy.1 * g.stride + cx.1, cx.2, cy.2, g.stride, some (splitBase g)⟩

/-- the groups, row-first, when nothing panics -/
def groupsList (m : Mode) (g : SubGrid) (gw gh nc nr : Nat) : List SubGrid :=
  (List.range nr).flatMap fun gy => (List.range nc).map fun gx =>
    groupOf g (axisCut m gh g.h gy) (axisCut m gw g.w gx)

/-- `into_groups_with_fixed_count(group_width, group_height, num_cols, num_rows)`, row-first.
Panics: `num_cols * num_rows`, `gy * group_height`, `gx * group_width` overflowing in a checked
build; `new`'s assertion on a group (impossible when `g.w ≤ g.stride`). -/
def intoGroupsFixed (m : Mode) (g : SubGrid) (gw gh nc nr : Nat) : Outcome (List SubGrid) :=
  if m = .checked ∧ (nc * nr ≥ W ∨ loopOverflows nr gh ∨ (nr ≠ 0 ∧ loopOverflows nc gw)) then
    .panic .arith
  else if nr ≠ 0 ∧ (List.range nc).any (fun gx =>
      (axisCut m gw g.w gx).2 ≠ 0 ∧ g.stride < (axisCut m gw g.w gx).2) then
    .panic .newWidthStride
  else .ok (groupsList m g gw gh nc nr)

/-- no overflow of the loop products (what `Mode.checked` enforces by panicking) -/
def NoOverflow (m : Mode) (gw gh nc nr : Nat) : Prop :=
  m = .checked ∨ ((∀ k, k < nc → k * gw < W) ∧ (∀ k, k < nr → k * gh < W))

def ceilDiv (a b : Nat) : Nat := a / b + (if a % b = 0 then 0 else 1)

/-- `into_groups(group_width, group_height)` -/
def intoGroups (m : Mode) (g : SubGrid) (gw gh : Nat) : Outcome (List SubGrid) :=
  if gw = 0 ∨ gh = 0 then .panic .groupsZero
  else intoGroupsFixed m g gw gh (ceilDiv g.w gw) (ceilDiv g.h gh)

end Jxl.Subgrid
