/-!
# Container framing (C10) — executable model and specification

Mirrors `crates/jxl-bitstream/src/container.rs`, `container/parse.rs` and
`container/box_header.rs` of jxl-oxide **with the F1 repair applied** (a 64-bit box header of
which only 8..15 bytes are available asks for more data instead of failing; the behaviour of the
unrepaired code is kept as `parseHeaderOld` so that the witness can be stated).

* `parseHeader`            = `ContainerBoxHeader::parse`
* `DState`, `JxlpState`    = `DetectState`, `JxlpIndexState`
* `step`                   = one iteration of the `loop` in `ParseEvents::emit_single`
* `run` / `feed`           = draining the `ParseEvents` iterator of one `feed_bytes(buf)` call
                             until it ends or yields an error; `FeedResult.rest` is the part of
                             the buffer that was not consumed (`previous_consumed_bytes` =
                             `buf.length - rest.length`), which the caller must offer again
* `feedChunks`             = a caller that receives the file in chunks and re-offers leftovers
* `Spec.*`                 = what a container file *is*: a list of boxes, its serialisation, its
                             codestream and its auxiliary boxes.

Out of scope of the model: Brotli.  A `brob` box is delivered by this layer as the inner type
plus the *raw compressed* payload (`AuxBoxStart{brotli_compressed: true}` + data); decompression
happens in `jxl-oxide/src/aux_box.rs` with `brotli-decompressor` and is assumed to be a
chunking-independent stream function (DESIGN §2).

Machine integers: box sizes are `u64`/`usize`; every arithmetic operation the parser performs on
them is a *checked* subtraction, or a subtraction the code guards; the model uses `Nat` and has an
explicit `Err.panic*` outcome at the two sites where the Rust would panic (`unreachable!` in
`WaitingJxlpIndex`, `usize` underflow in `bytes_left -= 4` / `x as usize - 4`).  `C10_no_panic`
shows these are never reached.  The jxlp counter `*index += 1` (`u32`) cannot overflow: a stored
index is compared with a 31-bit field, so a sequence is rejected long before 2^31 boxes.

This file is import-free (it links into the `jxlmodel` executable).
-/
namespace Jxl.Container

abbrev Bytes := List UInt8

/-- big-endian value of a byte string (`u32::from_be_bytes`, `u64::from_be_bytes`) -/
def beNat (l : Bytes) : Nat := l.foldl (fun acc b => acc * 256 + b.toNat) 0

/-- `n` big-endian bytes of `v` (`to_be_bytes`), low `8n` bits -/
def beEnc : Nat → Nat → Bytes
  | 0, _ => []
  | n+1, v => beEnc n (v / 256) ++ [UInt8.ofNat (v % 256)]

/-! ## Constants (`consts.rs`, `ContainerBoxType`) -/

/-- `CODESTREAM_SIG` = `ff 0a` -/
def csSig : Bytes := [0xff, 0x0a]
/-- `CONTAINER_SIG` = `00 00 00 0c 4a 58 4c 20 0d 0a 87 0a` -/
def contSig : Bytes := [0, 0, 0, 0x0c, 0x4a, 0x58, 0x4c, 0x20, 0x0d, 0x0a, 0x87, 0x0a]

/-- `b"jxlc"` -/
def tyJxlc : Bytes := [0x6a, 0x78, 0x6c, 0x63]
/-- `b"jxlp"` -/
def tyJxlp : Bytes := [0x6a, 0x78, 0x6c, 0x70]
/-- `b"brob"` -/
def tyBrob : Bytes := [0x62, 0x72, 0x6f, 0x62]
/-- `b"jbrd"` -/
def tyJbrd : Bytes := [0x6a, 0x62, 0x72, 0x64]
/-- `b"jxl"` -/
def pfxJxl : Bytes := [0x6a, 0x78, 0x6c]

/-- `is_reserved_box_type` in the `brob` arm of `emit_single` -/
def reservedInner (ty : Bytes) : Bool :=
  ty.take 3 == pfxJxl || ty == tyBrob || ty == tyJbrd

/-! ## Box header (`box_header.rs`) -/

/-- `ContainerBoxHeader`: type and payload size (`None` = box runs to the end of the file). -/
structure Header where
  ty : Bytes
  size : Option Nat
deriving DecidableEq, Repr

/-- `Result<HeaderParseResult, Error>` -/
inductive HeaderResult
  | done (h : Header) (headerSize : Nat)
  | needMore
  | invalid
deriving DecidableEq, Repr

/-- `ContainerBoxHeader::parse` (repaired).  `buf` starts with
`size:u32be type:[u8;4]` and, if `size == 1`, `xlsize:u64be`. -/
def parseHeader (buf : Bytes) : HeaderResult :=
  if buf.length < 8 then .needMore
  else
    let sbox := beNat (buf.take 4)
    let ty := (buf.drop 4).take 4
    if sbox = 1 then
      if buf.length < 16 then .needMore            -- F1 repair: was `.invalid`
      else
        let xl := beNat ((buf.drop 8).take 8)
        if xl < 16 then .invalid else .done ⟨ty, some (xl - 16)⟩ 16
    else if sbox = 0 then .done ⟨ty, none⟩ 8
    else if sbox < 8 then .invalid
    else .done ⟨ty, some (sbox - 8)⟩ 8

/-- The code before the F1 repair: with 8..15 bytes of a 64-bit header the first pattern does
not match, the 32-bit arm sees `size == 1` and `1.checked_sub(8)` fails. -/
def parseHeaderOld (buf : Bytes) : HeaderResult :=
  if buf.length < 8 then .needMore
  else
    let sbox := beNat (buf.take 4)
    let ty := (buf.drop 4).take 4
    if sbox = 1 ∧ 16 ≤ buf.length then
      let xl := beNat ((buf.drop 8).take 8)
      if xl < 16 then .invalid else .done ⟨ty, some (xl - 16)⟩ 16
    else if sbox = 0 then .done ⟨ty, none⟩ 8
    else if sbox < 8 then .invalid
    else .done ⟨ty, some (sbox - 8)⟩ 8

/-! ## Parser state (`container.rs`) -/

/-- `BitstreamKind` -/
inductive Kind | unknown | bare | container | invalid
deriving DecidableEq, Repr

/-- `JxlpIndexState` -/
inductive JxlpState
  | initial
  | singleJxlc
  | jxlp (index : Nat)
  | finished
deriving DecidableEq, Repr

/-- `DetectState` -/
inductive DState
  | waitingSignature
  | waitingBoxHeader
  | waitingJxlpIndex (h : Header)
  | inAuxBox (h : Header) (brotliTy : Option Bytes) (left : Option Nat)
  | inCodestream (kind : Kind) (left : Option Nat) (pendingNoMoreAux : Bool)
deriving DecidableEq, Repr

/-- `ContainerParser` without `previous_consumed_bytes` (which is an output of `feed`). -/
structure PState where
  st : DState
  jx : JxlpState
deriving DecidableEq, Repr

/-- `ContainerParser::new()` -/
def init : PState := ⟨.waitingSignature, .initial⟩

/-- `ContainerParser::kind` -/
def PState.kind (s : PState) : Kind :=
  match s.st with
  | .waitingSignature => .unknown
  | .waitingBoxHeader | .waitingJxlpIndex _ | .inAuxBox .. => .container
  | .inCodestream k _ _ => k

/-- `ParseEvent` -/
inductive Event
  | kind (k : Kind)
  | codestream (d : Bytes)
  | noMoreAux
  | auxStart (ty : Bytes) (brotli : Bool) (last : Bool)
  | auxData (ty : Bytes) (d : Bytes)
  | auxEnd (ty : Bytes)
deriving DecidableEq, Repr

/-- `Error::InvalidBox`, `Error::ValidationFailed`, and the two panic sites. -/
inductive Err
  | invalidBox
  | validationFailed
  | panicUnreachable     -- `unreachable!("invalid jxlp index state in WaitingJxlpIndex")`
  | panicUnderflow       -- `x as usize - 4`, `*bytes_left -= 4` in a checked build
deriving DecidableEq, Repr

/-- What one iteration of the `loop` in `emit_single` does. -/
inductive Step
  /-- `return Ok(None)`: nothing consumed, state untouched (buffer empty or more data needed) -/
  | stop
  /-- `return Err(e)`; `rest` is the buffer at that moment (it enters the consumed count) -/
  | err (e : Err) (rest : Bytes)
  /-- `return Ok(Some(ev))` (`ev = some _`) or fall through to the next iteration (`none`) -/
  | cont (ev : Option Event) (s : PState) (rest : Bytes)
deriving DecidableEq, Repr

/-- the header arm of `emit_single` once `ContainerBoxHeader::parse` returned `Done` -/
def stepHeader (jx : JxlpState) (h : Header) (rest : Bytes) : Step :=
  if h.ty = tyJxlc then
    match jx with
    | .initial => .cont none ⟨.inCodestream .container h.size h.size.isNone, .singleJxlc⟩ rest
    | _ => .err .invalidBox rest                       -- duplicate jxlc / jxlc after jxlp
  else if h.ty = tyJxlp then
    if (match h.size with | some n => decide (n < 4) | none => false) then .err .invalidBox rest
    else
      match jx with
      | .initial => .cont none ⟨.waitingJxlpIndex h, .jxlp 0⟩ rest
      | .jxlp i => .cont none ⟨.waitingJxlpIndex h, .jxlp (i + 1)⟩ rest
      | _ => .err .invalidBox rest                     -- jxlp after jxlc / after the final jxlp
  else if h.ty = tyBrob then
    if (match h.size with | some n => decide (n < 4) | none => false) then .err .invalidBox rest
    else .cont none ⟨.inAuxBox h none h.size, jx⟩ rest
  else
    .cont (some (.auxStart h.ty false h.size.isNone)) ⟨.inAuxBox h none h.size, jx⟩ rest

/-- One iteration of the `loop` in `ParseEvents::emit_single`. -/
def step (s : PState) (buf : Bytes) : Step :=
  if buf.isEmpty then .stop
  else
    match s.st with
    | .waitingSignature =>
      if csSig.isPrefixOf buf then
        .cont (some (.kind .bare)) ⟨.inCodestream .bare none true, s.jx⟩ buf
      else if contSig.isPrefixOf buf then
        .cont (some (.kind .container)) ⟨.waitingBoxHeader, s.jx⟩ (buf.drop 12)
      else if !buf.isPrefixOf csSig && !buf.isPrefixOf contSig then
        .cont (some (.kind .invalid)) ⟨.inCodestream .invalid none true, s.jx⟩ buf
      else .stop
    | .waitingBoxHeader =>
      match parseHeader buf with
      | .invalid => .err .invalidBox buf
      | .needMore => .stop
      | .done h hs => stepHeader s.jx h (buf.drop hs)
    | .waitingJxlpIndex h =>
      if buf.length < 4 then .stop
      else
        let v := beNat (buf.take 4)
        let isLast := decide (2 ^ 31 ≤ v)
        let index := v % 2 ^ 31
        match s.jx with
        | .jxlp expected =>
          if expected = index then
            match h.size with
            | some n =>
              if n < 4 then .err .panicUnderflow (buf.drop 4)
              else .cont none ⟨.inCodestream .container (some (n - 4)) false,
                               if isLast then .finished else .jxlp expected⟩ (buf.drop 4)
            | none =>
              .cont none ⟨.inCodestream .container none true,
                          if isLast then .finished else .jxlp expected⟩ (buf.drop 4)
          else .err .invalidBox (buf.drop 4)             -- out-of-order jxlp
        | _ => .err .panicUnreachable (buf.drop 4)
    | .inCodestream k left true =>
      .cont (some .noMoreAux) ⟨.inCodestream k left false, s.jx⟩ buf
    | .inCodestream _ none false =>
      .cont (some (.codestream buf)) s []
    | .inCodestream k (some n) false =>
      if n ≤ buf.length then
        .cont (some (.codestream (buf.take n))) ⟨.waitingBoxHeader, s.jx⟩ (buf.drop n)
      else
        .cont (some (.codestream buf)) ⟨.inCodestream k (some (n - buf.length)) false, s.jx⟩ []
    | .inAuxBox h bty left =>
      if h.ty = tyBrob ∧ bty = none then
        -- read the inner type of a brob box
        if buf.length < 4 then .stop
        else
          let ty := buf.take 4
          match left with
          | some n =>
            if n < 4 then .err .panicUnderflow (buf.drop 4)
            else if reservedInner ty then .err .validationFailed (buf.drop 4)
            else .cont (some (.auxStart ty true false))
                       ⟨.inAuxBox h (some ty) (some (n - 4)), s.jx⟩ (buf.drop 4)
          | none =>
            if reservedInner ty then .err .validationFailed (buf.drop 4)
            else .cont (some (.auxStart ty true true)) ⟨.inAuxBox h (some ty) none, s.jx⟩ (buf.drop 4)
      else
        let ty := bty.getD h.ty
        match left with
        | some n =>
          if n = 0 then .cont (some (.auxEnd ty)) ⟨.waitingBoxHeader, s.jx⟩ buf
          else
            let k := min n buf.length
            .cont (some (.auxData ty (buf.take k))) ⟨.inAuxBox h bty (some (n - k)), s.jx⟩ (buf.drop k)
        | none => .cont (some (.auxData ty buf)) s []

/-- Result of one `feed_bytes(buf)` call whose iterator was drained. -/
structure FeedResult where
  events : List Event
  state : PState
  /-- unconsumed suffix of the buffer -/
  rest : Bytes
  error : Option Err
deriving DecidableEq, Repr

/-- Draining `ParseEvents` (`Iterator::next` until `None` or the first `Err`).
The fuel is `feedFuel buf` in `feed`; `C10_progress_measure` shows it is never exhausted. -/
def run : Nat → PState → Bytes → FeedResult
  | 0, s, buf => ⟨[], s, buf, none⟩
  | f+1, s, buf =>
    match step s buf with
    | .stop => ⟨[], s, buf, none⟩
    | .err e rest => ⟨[], s, rest, some e⟩
    | .cont ev s' rest =>
      let r := run f s' rest
      ⟨ev.toList ++ r.events, r.state, r.rest, r.error⟩

/-- progress measure: strictly decreases with every `Step.cont` -/
def rank : DState → Nat
  | .waitingSignature => 3
  | .inCodestream _ left pending => (if pending then 2 else 0) + (if left = some 0 then 1 else 0)
  | .inAuxBox _ _ left => if left = some 0 then 1 else 0
  | _ => 0

def measure (s : PState) (buf : Bytes) : Nat := 4 * buf.length + rank s.st

def feedFuel (buf : Bytes) : Nat := 4 * buf.length + 4

/-- `parser.feed_bytes(buf)` drained by the caller. -/
def feed (s : PState) (buf : Bytes) : FeedResult := run (feedFuel buf) s buf

/-- `previous_consumed_bytes()` after the call -/
def consumed (buf : Bytes) (r : FeedResult) : Nat := buf.length - r.rest.length

/-- Outcome of a caller that gets the file in chunks and, as the API documentation demands,
offers the unconsumed bytes again in front of the next chunk.  Stops at the first error. -/
def feedChunks (s : PState) (pending : Bytes) : List Bytes → FeedResult
  | [] => ⟨[], s, pending, none⟩
  | c :: cs =>
    let r := feed s (pending ++ c)
    match r.error with
    | some _ => r
    | none =>
      let r' := feedChunks r.state r.rest cs
      ⟨r.events ++ r'.events, r'.state, r'.rest, r'.error⟩

/-! ## Concatenation-normal form of an event stream

`Codestream` and `AuxBoxData` events carry *partial* data ("complete data is obtained by
concatenating", parse.rs doc comments).  The canonical form of an event stream therefore is its
byte-granular flattening: every data event becomes one token per byte.  Two event streams have
the same flattening iff they are equal after merging adjacent data events of the same box and
dropping empty ones (`normalize` below produces that merged form; `C10_normal_form_canonical`). -/

inductive Tok
  | kind (k : Kind)
  | cs (b : UInt8)
  | noMoreAux
  | auxStart (ty : Bytes) (brotli : Bool) (last : Bool)
  | aux (ty : Bytes) (b : UInt8)
  | auxEnd (ty : Bytes)
deriving DecidableEq, Repr

def Event.toks : Event → List Tok
  | .kind k => [.kind k]
  | .codestream d => d.map .cs
  | .noMoreAux => [.noMoreAux]
  | .auxStart ty b l => [.auxStart ty b l]
  | .auxData ty d => d.map (.aux ty)
  | .auxEnd ty => [.auxEnd ty]

def toks (evs : List Event) : List Tok := evs.flatMap Event.toks

/-- merge adjacent data events, drop empty ones -/
def normalize : List Event → List Event
  | [] => []
  | .codestream d :: rest =>
    match normalize rest with
    | .codestream d' :: r => .codestream (d ++ d') :: r
    | r => if d.isEmpty then r else .codestream d :: r
  | .auxData ty d :: rest =>
    match normalize rest with
    | .auxData ty' d' :: r =>
      if ty = ty' then .auxData ty (d ++ d') :: r
      else if d.isEmpty then .auxData ty' d' :: r else .auxData ty d :: .auxData ty' d' :: r
    | r => if d.isEmpty then r else .auxData ty d :: r
  | e :: rest => e :: normalize rest

/-- all codestream bytes delivered, in order -/
def codestreamOf : List Tok → Bytes
  | [] => []
  | .cs b :: r => b :: codestreamOf r
  | _ :: r => codestreamOf r

/-- An auxiliary box as delivered to the consumer. -/
structure AuxBox where
  ty : Bytes
  brotli : Bool
  payload : Bytes
deriving DecidableEq, Repr

/-- payload tokens directly following an `auxStart` -/
def auxPayload : List Tok → Bytes
  | .aux _ b :: r => b :: auxPayload r
  | _ => []

/-- the auxiliary boxes delivered: every `AuxBoxStart` with the data events that follow it -/
def auxOf : List Tok → List AuxBox
  | [] => []
  | .auxStart ty br _ :: r => ⟨ty, br, auxPayload r⟩ :: auxOf r
  | _ :: r => auxOf r

/-! ## Specification: what a container file is -/
namespace Spec

/-- the three ways a box states its size -/
inductive Enc
  | short     -- 32-bit size field = 8 + payload length
  | long      -- size field 1, then a 64-bit size = 16 + payload length
  | toEof     -- size field 0: the box runs to the end of the file
deriving DecidableEq, Repr

/-- box header bytes for a payload of `n` bytes -/
def serHeader (ty : Bytes) (n : Nat) : Enc → Bytes
  | .short => beEnc 4 (n + 8) ++ ty
  | .long => beEnc 4 1 ++ ty ++ beEnc 8 (n + 16)
  | .toEof => beEnc 4 0 ++ ty

/-- a box at the level of the file format -/
inductive Box
  | jxlc (data : Bytes) (enc : Enc)
  | jxlp (index : Nat) (last : Bool) (data : Bytes) (enc : Enc)
  | aux (ty : Bytes) (data : Bytes) (enc : Enc)
  /-- Brotli-compressed box of inner type `inner`; `data` is the compressed stream -/
  | brob (inner : Bytes) (data : Bytes) (enc : Enc)
deriving DecidableEq, Repr

def Box.enc : Box → Enc
  | .jxlc _ e | .jxlp _ _ _ e | .aux _ _ e | .brob _ _ e => e

def Box.ty : Box → Bytes
  | .jxlc .. => tyJxlc
  | .jxlp .. => tyJxlp
  | .aux ty .. => ty
  | .brob .. => tyBrob

/-- payload bytes as stored in the file -/
def Box.payload : Box → Bytes
  | .jxlc d _ => d
  | .jxlp i last d _ => beEnc 4 (i + if last then 2 ^ 31 else 0) ++ d
  | .aux _ d _ => d
  | .brob inner d _ => inner ++ d

def Box.ser (b : Box) : Bytes := serHeader b.ty b.payload.length b.enc ++ b.payload

def serBoxes (bs : List Box) : Bytes := bs.flatMap Box.ser

/-- a container file: signature box, then the boxes -/
def serFile (bs : List Box) : Bytes := contSig ++ serBoxes bs

/-- `codestream(file)`: payloads of `jxlc` / `jxlp` boxes in file order -/
def codestream : List Box → Bytes
  | [] => []
  | .jxlc d _ :: r => d ++ codestream r
  | .jxlp _ _ d _ :: r => d ++ codestream r
  | _ :: r => codestream r

/-- `aux(file)`: the other boxes with type and raw payload (`brob`: inner type, compressed
payload, flagged) -/
def aux : List Box → List AuxBox
  | [] => []
  | .aux ty d _ :: r => ⟨ty, false, d⟩ :: aux r
  | .brob inner d _ :: r => ⟨inner, true, d⟩ :: aux r
  | _ :: r => aux r

/-- a box on its own is representable: 4-byte types, size fits the chosen size field, aux boxes
do not use the codestream/brob types, brob does not wrap a reserved type, index is 31 bits -/
def Box.ok (b : Box) : Bool :=
  (match b.enc with
   | .short => decide (b.payload.length + 8 < 2 ^ 32)
   | .long => decide (b.payload.length + 16 < 2 ^ 64)
   | .toEof => true) &&
  (match b with
   | .jxlc .. => true
   | .jxlp i _ _ _ => decide (i < 2 ^ 31)
   | .aux ty _ _ => ty.length == 4 && ty != tyJxlc && ty != tyJxlp && ty != tyBrob
   | .brob inner _ _ => inner.length == 4 && !reservedInner inner)

/-- sequence discipline of codestream boxes (`JxlpIndexState` read as a specification):
`none` = the layout is ill-formed -/
def seqStep (jx : JxlpState) : Box → Option JxlpState
  | .jxlc .. => match jx with | .initial => some .singleJxlc | _ => none
  | .jxlp i last _ _ =>
    match jx with
    | .initial => if i = 0 then some (if last then .finished else .jxlp 0) else none
    | .jxlp e => if i = e + 1 then some (if last then .finished else .jxlp (e + 1)) else none
    | _ => none
  | _ => some jx

/-- the sequence discipline over a box list, starting in `jx` -/
def seqFrom (jx : JxlpState) : List Box → Option JxlpState
  | [] => some jx
  | b :: r =>
    match seqStep jx b with
    | some jx' => seqFrom jx' r
    | none => none

/-- every box representable and `toEof` only on the last box -/
def shapeOk : List Box → Bool
  | [] => true
  | b :: r => b.ok && (b.enc != .toEof || r.isEmpty) && shapeOk r

/-- well-formed container file -/
def wf (bs : List Box) : Bool := shapeOk bs && (seqFrom .initial bs).isSome

/-- The flattened events one box must produce; `more` = at least one byte follows the box.
`AuxBoxEnd` and `NoMoreAuxBox` are only emitted once a byte *after* that position has been
offered (`emit_single` returns on an empty buffer first). -/
def boxToks (b : Box) (more : Bool) : List Tok :=
  match b with
  | .jxlc d e => (if e = .toEof ∧ d ≠ [] then [Tok.noMoreAux] else []) ++ d.map .cs
  | .jxlp _ _ d e => (if e = .toEof ∧ d ≠ [] then [Tok.noMoreAux] else []) ++ d.map .cs
  | .aux ty d e =>
    [Tok.auxStart ty false (e = .toEof)] ++ d.map (.aux ty) ++
      (if e ≠ .toEof ∧ more then [Tok.auxEnd ty] else [])
  | .brob inner d e =>
    [Tok.auxStart inner true (e = .toEof)] ++ d.map (.aux inner) ++
      (if e ≠ .toEof ∧ more then [Tok.auxEnd inner] else [])

/-- flattened events of a box list; `more` = bytes follow after the whole list -/
def expectedM (more : Bool) : List Box → List Tok
  | [] => []
  | b :: r => boxToks b (more || !r.isEmpty) ++ expectedM more r

/-- the flattened event stream a complete well-formed file must produce after the signature -/
def expected (bs : List Box) : List Tok := expectedM false bs

end Spec

end Jxl.Container
