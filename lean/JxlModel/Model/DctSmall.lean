import JxlModel.Model.Dct
/-!
# The varblock transforms that are not plain DCTs, as definitions in `Float` (binary64)

Transcribed from the description of these transforms in the JPEG XL codestream standard
(ISO/IEC 18181-1, "DCT2x2 / DCT4x4 / DCT4x8 / DCT8x4 / IDENTITY (Hornuss) / AFV0..3"), which for these types *is*
an operation sequence (`AuxIDCT2x2`, small 2-D IDCTs of de-interleaved coefficients, the AFV
basis table), written here with the small IDCTs evaluated by their cosine-sum definition
(`idct2dDef`), never by the fast recursion. No text of the standard is available in the sandbox;
the coefficient-layout conventions (which index is the horizontal frequency, where the de-interleaved
sub-blocks go) are the ones `generic/transform.rs` and libjxl share and are therefore **not**
independently checked here — what is checked is the arithmetic given that layout, on both CPU paths.
`AFV_BASIS` is the table from `transform_common.rs` (the standard gives the same table
numerically); the correspondence run compares it with the table the real code uses (op `afv`).
There are no theorems about this file.
-/
namespace Jxl.Dct.Small
open Jxl.Dct

abbrev G := Grid Float

/-- `AuxIDCT2x2(block, S)`: the top-left `S × S` corner is replaced -/
def auxIdct2 (s : Nat) (g : G) : G :=
  let n := s / 2
  Grid.tab g.w g.h fun X Y =>
    if X < s ∧ Y < s then
      let x := X / 2
      let y := Y / 2
      let c00 := g.rd x y
      let c01 := g.rd (x + n) y
      let c10 := g.rd x (y + n)
      let c11 := g.rd (x + n) (y + n)
      if X % 2 = 0 ∧ Y % 2 = 0 then c00 + c01 + c10 + c11
      else if Y % 2 = 0 then c00 + c01 - c10 - c11
      else if X % 2 = 0 then c00 - c01 + c10 - c11
      else c00 - c01 - c10 + c11
    else g.rd X Y

/-- DCT2x2: three levels of the 2×2 pyramid -/
def dct2 (g : G) : G := auxIdct2 8 (auxIdct2 4 (auxIdct2 2 g))

/-- DCT4x4: one pyramid level on the four DCs, then a 4×4 IDCT of each de-interleaved sub-block.
Sub-block `(x, y)` has coefficient (horizontal frequency `U`, vertical `V`) at `(x + 2V, y + 2U)`. -/
def dct4 (g : G) : G :=
  let g1 := auxIdct2 2 g
  let sub (x y : Nat) : G := idct2dDef (Grid.tab 4 4 fun U V => g1.rd (x + 2 * V) (y + 2 * U))
  let subs : Array G := #[sub 0 0, sub 1 0, sub 0 1, sub 1 1]
  Grid.tab 8 8 fun X Y => (subs.getD (Y / 4 * 2 + X / 4) g).rd (X % 4) (Y % 4)

/-- IDENTITY ("Hornuss") -/
def hornuss (g : G) : G :=
  let g1 := auxIdct2 2 g
  Grid.tab 8 8 fun X Y =>
    let x := X / 4
    let y := Y / 4
    let ix := X % 4
    let iy := Y % 4
    let c (ix iy : Nat) : Float := g1.rd (x + 2 * ix) (y + 2 * iy)
    let residual : Float := (List.range 15).foldl (fun s k => s + c ((k + 1) % 4) ((k + 1) / 4)) 0.0
    let avg := c 0 0 - residual / 16.0
    if ix = 1 ∧ iy = 1 then avg
    else if ix = 0 ∧ iy = 0 then c 1 1 + avg
    else c ix iy + avg

/-- DCT4x8 (`tr = false`) and DCT8x4 (`tr = true`): two 8-wide, 4-high IDCTs of the even / odd
coefficient rows; the first two DCs come from the sum and difference of `(0,0)` and `(0,1)`. -/
def dct4x8 (tr : Bool) (g : G) : G :=
  let c0 := g.rd 0 0
  let c1 := g.rd 0 1
  let g1 : G := Grid.tab 8 8 fun x y =>
    if x = 0 ∧ y = 0 then c0 + c1 else if x = 0 ∧ y = 1 then c0 - c1 else g.rd x y
  let half (idx : Nat) : G := idct2dDef (Grid.tab 8 4 fun u v => g1.rd u (2 * v + idx))
  let h0 := half 0
  let h1 := half 1
  Grid.tab 8 8 fun X Y =>
    let (x, y) := if tr then (Y, X) else (X, Y)
    if y < 4 then h0.rd x y else h1.rd x (y - 4)

def afvBasis : Array (Array Float) := #[
  #[0.25, 0.25, 0.25, 0.25, 0.25, 0.25, 0.25, 0.25, 0.25, 0.25, 0.25, 0.25, 0.25, 0.25, 0.25, 0.25],
  #[0.876902929799142, 0.2206518106944235, (-0.10140050393753763), (-0.1014005039375375), 0.2206518106944236, (-0.10140050393753777), (-0.10140050393753772), (-0.10140050393753763), (-0.10140050393753758), (-0.10140050393753769), (-0.1014005039375375), (-0.10140050393753768), (-0.10140050393753768), (-0.10140050393753759), (-0.10140050393753763), (-0.10140050393753741)],
  #[0.0, 0.0, 0.40670075830260755, 0.44444816619734445, 0.0, 0.0, 0.19574399372042936, 0.2929100136981264, (-0.40670075830260716), (-0.19574399372042872), 0.0, 0.11379074460448091, (-0.44444816619734384), (-0.29291001369812636), (-0.1137907446044814), 0.0],
  #[0.0, 0.0, (-0.21255748058288748), 0.3085497062849767, 0.0, 0.4706702258572536, (-0.1621205195722993), 0.0, (-0.21255748058287047), (-0.16212051957228327), (-0.47067022585725277), (-0.1464291867126764), 0.3085497062849487, 0.0, (-0.14642918671266536), 0.4251149611657548],
  #[0.0, (-0.7071067811865474), 0.0, 0.0, 0.7071067811865476, 0.0, 0.0, 0.0, 0.0, 0.0, 0.0, 0.0, 0.0, 0.0, 0.0, 0.0],
  #[(-0.4105377591765233), 0.6235485373547691, (-0.06435071657946274), (-0.06435071657946266), 0.6235485373547694, (-0.06435071657946284), (-0.0643507165794628), (-0.06435071657946274), (-0.06435071657946272), (-0.06435071657946279), (-0.06435071657946266), (-0.06435071657946277), (-0.06435071657946277), (-0.06435071657946273), (-0.06435071657946274), (-0.0643507165794626)],
  #[0.0, 0.0, (-0.4517556589999482), 0.15854503551840063, 0.0, (-0.04038515160822202), 0.0074182263792423875, 0.39351034269210167, (-0.45175565899994635), 0.007418226379244351, 0.1107416575309343, 0.08298163094882051, 0.15854503551839705, 0.3935103426921022, 0.0829816309488214, (-0.45175565899994796)],
  #[0.0, 0.0, (-0.304684750724869), 0.5112616136591823, 0.0, 0.0, (-0.290480129728998), (-0.06578701549142804), 0.304684750724884, 0.2904801297290076, 0.0, (-0.23889773523344604), (-0.5112616136592012), 0.06578701549142545, 0.23889773523345467, 0.0],
  #[0.0, 0.0, 0.3017929516615495, 0.25792362796341184, 0.0, 0.16272340142866204, 0.09520022653475037, 0.0, 0.3017929516615503, 0.09520022653475055, (-0.16272340142866173), (-0.35312385449816297), 0.25792362796341295, 0.0, (-0.3531238544981624), (-0.6035859033230976)],
  #[0.0, 0.0, 0.40824829046386274, 0.0, 0.0, 0.0, 0.0, (-0.4082482904638628), (-0.4082482904638635), 0.0, 0.0, (-0.40824829046386296), 0.0, 0.4082482904638634, 0.408248290463863, 0.0],
  #[0.0, 0.0, 0.1747866975480809, 0.0812611176717539, 0.0, 0.0, (-0.3675398009862027), (-0.307882213957909), (-0.17478669754808135), 0.3675398009862011, 0.0, 0.4826689115059883, (-0.08126111767175039), 0.30788221395790305, (-0.48266891150598584), 0.0],
  #[0.0, 0.0, (-0.21105601049335784), 0.18567180916109802, 0.0, 0.0, 0.49215859013738733, (-0.38525013709251915), 0.21105601049335806, (-0.49215859013738905), 0.0, 0.17419412659916217, (-0.18567180916109904), 0.3852501370925211, (-0.1741941265991621), 0.0],
  #[0.0, 0.0, (-0.14266084808807264), (-0.3416446842253372), 0.0, 0.7367497537172237, 0.24627107722075148, (-0.08574019035519306), (-0.14266084808807344), 0.24627107722075137, 0.14883399227113567, (-0.04768680350229251), (-0.3416446842253373), (-0.08574019035519267), (-0.047686803502292804), (-0.14266084808807242)],
  #[0.0, 0.0, (-0.13813540350758585), 0.3302282550303788, 0.0, 0.08755115000587084, (-0.07946706605909573), (-0.4613374887461511), (-0.13813540350758294), (-0.07946706605910261), 0.49724647109535086, 0.12538059448563663, 0.3302282550303805, (-0.4613374887461554), 0.12538059448564315, (-0.13813540350758452)],
  #[0.0, 0.0, (-0.17437602599651067), 0.0702790691196284, 0.0, (-0.2921026642334881), 0.3623817333531167, 0.0, (-0.1743760259965108), 0.36238173335311646, 0.29210266423348785, (-0.4326608024727445), 0.07027906911962818, 0.0, (-0.4326608024727457), 0.34875205199302267],
  #[0.0, 0.0, 0.11354987314994337, (-0.07417504595810355), 0.0, 0.19402893032594343, (-0.435190496523228), 0.21918684838857466, 0.11354987314994257, (-0.4351904965232251), 0.5550443808910661, (-0.25468277124066463), (-0.07417504595810233), 0.2191868483885728, (-0.25468277124066413), 0.1135498731499429]
]

/-- AFV0..3 (`n` = variant; bit 0 flips horizontally, bit 1 vertically) -/
def afv (n : Nat) (g : G) : G :=
  let flipX := n % 2
  let flipY := n / 2
  let coeffAfv : Array Float := Dct.tab 16 fun idx =>
    if idx = 0 then (g.rd 0 0 + g.rd 1 0 + g.rd 0 1) * 4.0 else g.rd (2 * (idx % 4)) (2 * (idx / 4))
  let samplesAfv : Array Float := Dct.tab 16 fun k =>
    (List.range 16).foldl (fun s idx => s + Dct.rd coeffAfv idx * Dct.rd (afvBasis.getD idx #[]) k) 0.0
  let p44 : G := idct2dDef (Grid.tab 4 4 fun x y =>
    if x = 0 ∧ y = 0 then g.rd 0 0 - g.rd 1 0 + g.rd 0 1 else g.rd (2 * y + 1) (2 * x))
  let p48 : G := idct2dDef (Grid.tab 8 4 fun x y =>
    if x = 0 ∧ y = 0 then g.rd 0 0 - g.rd 0 1 else g.rd x (2 * y + 1))
  Grid.tab 8 8 fun X Y =>
    if Y / 4 = flipY then
      let iy := Y % 4
      let ix := X % 4
      if X / 4 = flipX then
        let ay := if flipY = 0 then iy else 3 - iy
        let ax := if flipX = 0 then ix else 3 - ix
        Dct.rd samplesAfv (ay * 4 + ax)
      else p44.rd ix iy
    else p48.rd X (Y % 4)

end Jxl.Dct.Small
