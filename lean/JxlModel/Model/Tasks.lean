/-!
# Fork-join task model (`jxl-threadpool/src/lib.rs` and its call sites)

What the renderer does with a thread pool is always the same shape: build a list of jobs from the
*geometry* of the frame (groups, 16-row bands, 8-row bands, 65536-sample chunks), hand the list
to `JxlThreadPool::{scope + spawn, for_each_vec, for_each_mut_slice, for_each_vec_with}`, wait for
all of them (rayon's `scope` / `for_each` return only after every job ran exactly once — trusted),
continue. `JxlThreadPool::none()` runs the same jobs in place, in list order.

Model.
* A **store** is a map `Cell → V` (`Cell = Nat`: an element offset in the address space of all
  sample buffers, as in `Model/Subgrid.lean`).
* A **step** is the atomic unit of execution: it *declares* the cells it reads and writes and
  computes the written values from the store **restricted to its read set** (`restrict`), so the
  frame condition "depends on nothing else, changes nothing else" holds by construction.
  A step may also report a failure (an error code) — again a function of its read set only.
* A **task** (one job of a fork-join) is a list of steps in program order. A task with one step is
  atomic (task granularity); a task that writes several cells can be given one step per cell or
  per row (cell granularity).
* A **schedule** of a fork-join over the task list `ts` is
  - at task granularity: any permutation of `ts` (`List.Perm`),
  - at step granularity: any `Interleaving` of the step lists that keeps each task's own order.
  `JxlThreadPool::none()` is the identity order (`noneOrder`).
* The **error slot** (`RwLock<Result<()>>` / `Mutex<Result<..>>` written by jobs in
  `render_modular`, `render_vardct`, `load_lf_groups`, `init_noise`) is one more cell, outside every
  declared footprint: every failing step overwrites it (last writer wins), nobody ever writes
  `Ok` into it. Its Ok/Err-*ness* is tracked separately as a flag (`execB`) that only ever goes up.
* **Handle cache** (`FrameRenderHandle`: `None → Done → Blended`), **lazy tables**
  (`natural_order_lazy`: `Once`; `sec_half`: `Mutex<BTreeMap>` + `or_insert_with`), the
  **offset cache** (`AllGroupOffsets`: relaxed atomics, `0` = not yet known) and **noise seeds**
  are small state machines / pure functions of their own, below.

Not modelled: nested fork-joins inside a job (a job that itself calls `pool.for_each_vec`, e.g.
the per-group inverse transforms) are flattened into the job's own step list; memory *limits*
(`AllocTracker`) — the instantaneous total is schedule dependent, see the C07 check's evidence.
This file is import-free.
-/
namespace Jxl.Tasks

abbrev Cell := Nat
abbrev Store (V : Type) := Cell → V

section
variable {V : Type} [Inhabited V]

/-- what a step can see of the store: the cells of its read set, `default` elsewhere -/
def restrict (R : List Cell) (s : Store V) : Store V :=
  fun c => if c ∈ R then s c else default

/-- atomic unit of execution -/
structure Step (V : Type) where
  reads : List Cell
  writes : List Cell
  /-- value written to cell `c ∈ writes`, from the restricted store -/
  f : Store V → Cell → V
  /-- `some e`: the step reports error `e` (`*result.write().unwrap() = Err(e)`) -/
  fail : Store V → Option Nat := fun _ => none

/-- effect of one step on the sample store -/
def Step.run (a : Step V) (s : Store V) : Store V :=
  fun c => if c ∈ a.writes then a.f (restrict a.reads s) c else s c

def runSteps (l : List (Step V)) (s : Store V) : Store V :=
  l.foldl (fun s a => a.run s) s

/-- one job: steps in program order -/
structure Task (V : Type) where
  steps : List (Step V)

def Task.reads (t : Task V) : List Cell := t.steps.flatMap Step.reads
def Task.writes (t : Task V) : List Cell := t.steps.flatMap Step.writes
def Task.run (t : Task V) (s : Store V) : Store V := runSteps t.steps s

/-- a job that is one atomic step -/
def Task.atomic (a : Step V) : Task V := ⟨[a]⟩

/-- run whole tasks one after the other in the given order -/
def runTasks (ts : List (Task V)) (s : Store V) : Store V :=
  ts.foldl (fun s t => t.run s) s

/-- `W_a ∩ (R_b ∪ W_b) = ∅` and `W_b ∩ (R_a ∪ W_a) = ∅` -/
def Step.Indep (a b : Step V) : Prop :=
  (∀ c ∈ a.writes, c ∉ b.reads ∧ c ∉ b.writes) ∧ (∀ c ∈ b.writes, c ∉ a.reads ∧ c ∉ a.writes)

instance (a b : Step V) : Decidable (Step.Indep a b) := by unfold Step.Indep; exact inferInstance

/-- the disjointness premise of C07 for two jobs `i ≠ j` -/
def Task.Indep (t u : Task V) : Prop :=
  (∀ c ∈ t.writes, c ∉ u.reads ∧ c ∉ u.writes) ∧ (∀ c ∈ u.writes, c ∉ t.reads ∧ c ∉ t.writes)

instance (t u : Task V) : Decidable (Task.Indep t u) := by unfold Task.Indep; exact inferInstance

end

/-! ## schedules -/

/-- `out` is a merge of the lists `ls` that keeps the order inside each list: at every point some
list with a remaining head is chosen and its head is emitted. -/
inductive Interleaving {α : Type} : List (List α) → List α → Prop where
  | done (ls : List (List α)) : (∀ l ∈ ls, l = []) → Interleaving ls []
  | next (pre post : List (List α)) (a : α) (rest out : List α) :
      Interleaving (pre ++ rest :: post) out → Interleaving (pre ++ (a :: rest) :: post) (a :: out)

/-- `JxlThreadPool::none()`: `v.into_iter().for_each(op)` — every job completely, in list order -/
def noneOrder {V : Type} (ts : List (Task V)) : List (Step V) := (ts.map Task.steps).flatten

inductive Pool where
  /-- `JxlThreadPool::none()` -/
  | none
  /-- `JxlThreadPool::rayon(Some(threads))` / `rayon_global()` -/
  | rayon (threads : Nat)
  deriving Repr, DecidableEq

/-- `JxlThreadPool::is_multithreaded` -/
def Pool.isMultithreaded : Pool → Bool
  | .none => false
  | .rayon _ => true

/-- the step sequences a pool may produce for a fork-join over `ts`: the in-place loop for
`none()`, any order-preserving interleaving for a rayon pool of any size (a 1-thread rayon pool
still picks jobs in an order of its own: work stealing splits the list recursively) -/
def Admissible {V : Type} (p : Pool) (ts : List (Task V)) (steps : List (Step V)) : Prop :=
  match p with
  | .none => steps = noneOrder ts
  | .rayon _ => Interleaving (ts.map Task.steps) steps

/-! executable enumerators (used by the driver and the examples) -/

def insertEverywhere {α : Type} (a : α) : List α → List (List α)
  | [] => [[a]]
  | b :: l => (a :: b :: l) :: (insertEverywhere a l).map (b :: ·)

/-- all orders of a list (with multiplicity) -/
def perms {α : Type} : List α → List (List α)
  | [] => [[]]
  | a :: l => (perms l).flatMap (insertEverywhere a)

/-- split `ls` at every position holding a non-empty list: `(pre, head, tail, post)` -/
def picks {α : Type} : List (List α) → List (List (List α) × α × List α × List (List α))
  | [] => []
  | [] :: ls => (picks ls).map fun (pre, a, r, post) => ([] :: pre, a, r, post)
  | (a :: r) :: ls =>
    ([], a, r, ls) :: (picks ls).map fun (pre, b, r', post) => ((a :: r) :: pre, b, r', post)

/-- all order-preserving interleavings; `fuel` ≥ total number of elements -/
def interleavings {α : Type} : Nat → List (List α) → List (List α)
  | 0, _ => [[]]
  | fuel + 1, ls =>
    match picks ls with
    | [] => [[]]
    | ps => ps.flatMap fun (pre, a, r, post) =>
        (interleavings fuel (pre ++ r :: post)).map (a :: ·)

/-! ## the error slot -/

section
variable {V : Type} [Inhabited V]

/-- sample store plus the shared `Result<()>` slot (`none` = `Ok(())`) -/
structure St (V : Type) where
  store : Store V
  slot : Option Nat

/-- a step with its error report: last writer wins, `Ok` is never written back -/
def Step.exec (a : Step V) (st : St V) : St V :=
  { store := a.run st.store
    slot := match a.fail (restrict a.reads st.store) with
      | some e => some e
      | none => st.slot }

def execSteps (l : List (Step V)) (st : St V) : St V := l.foldl (fun st a => a.exec st) st

/-- The defective discipline found in `ColorTransform::run_with_threads` (jxl-color
`convert.rs`) before its repair: every job stores its own result, `Ok` included, so a later
success erases an earlier failure. -/
def Step.execOverwriting (a : Step V) (st : St V) : St V :=
  { store := a.run st.store, slot := a.fail (restrict a.reads st.store) }

def execStepsOverwriting (l : List (Step V)) (st : St V) : St V :=
  l.foldl (fun st a => a.execOverwriting st) st

/-- the same with the slot abstracted to "is it `Err`?" -/
def Step.execB (a : Step V) (st : Store V × Bool) : Store V × Bool :=
  (a.run st.1, st.2 || (a.fail (restrict a.reads st.1)).isSome)

def execStepsB (l : List (Step V)) (st : Store V × Bool) : Store V × Bool :=
  l.foldl (fun st a => a.execB st) st

/-- does job `t` report an error when it runs alone on store `s`? -/
def Task.failsAlone (t : Task V) (s : Store V) : Bool := (execStepsB t.steps (s, false)).2

/-- what `result.into_inner().unwrap()?` then does: `Ok(store)` or the stored error -/
def St.result (st : St V) : Except Nat (Store V) :=
  match st.slot with
  | some e => .error e
  | none => .ok st.store

/-- a sequence of fork-join stages; stage `k`'s job list may depend on the stage index (geometry)
but not on the store and not on the pool; `sched k` is the step order that happened -/
def runPipeline (sched : Nat → List (Step V)) : Nat → Nat → Store V → Store V
  | _, 0, s => s
  | k, n + 1, s => runPipeline sched (k + 1) n (runSteps (sched k) s)

end

/-! ## `for_each_vec_with`: per-thread scratch

`pool.for_each_vec_with(jobs, init, |scratch, job| ..)` (EPF `sigma_row`): rayon clones `init`
whenever it splits the job list, `none()` threads one `init` through all jobs. So the scratch a
job *receives* is `init` or whatever an earlier job on the same thread left behind: schedule
dependent. The job's result must therefore not depend on the received scratch. -/

/-- a job with scratch: `(scratch in, store) ↦ (scratch out, store)` -/
structure ScratchJob (U V : Type) where
  run : U → Store V → U × Store V

/-- one thread working through its share of the jobs, scratch threaded through -/
def runWithScratch {U V : Type} (jobs : List (ScratchJob U V)) (u : U) (s : Store V) : U × Store V :=
  jobs.foldl (fun us j => j.run us.1 us.2) (u, s)

/-- the job overwrites everything it later reads from the scratch -/
def ScratchJob.Oblivious {U V : Type} (j : ScratchJob U V) : Prop :=
  ∀ u u' s, (j.run u s).2 = (j.run u' s).2

/-! ## rendering twice: the handle cache (`jxl-render/src/state.rs`, `image.rs`)

`FrameRenderHandle.render : Mutex<FrameRender>`; only the successful path is modelled here
(`Err` / `ErrTaken` / `InProgress` belong to C08 and C20). -/

inductive Handle (Img : Type) where
  /-- `FrameRender::None` -/
  | none
  /-- `FrameRender::Done(grid)` -/
  | done (grid : Img)
  /-- `FrameRender::Blended(Arc<grid>)` -/
  | blended (img : Img)
  deriving Repr, DecidableEq

/-- `run_with_image`: `start_render` hands out the state only for `None`; `Done`/`Blended` are
left alone (`Ok(None)` → `wait_until_render`) -/
def Handle.runWithImage {Img : Type} (h : Handle Img) (render : Unit → Img) : Handle Img :=
  match h with
  | .none => .done (render ())
  | h => h

/-- `RenderedImage::blend`: a `Blended` image is returned as is (`Arc::clone`); a `Done` grid is
composited once and stored. (`None` cannot occur after a successful `run_with_image`.) -/
def Handle.blend {Img : Type} (h : Handle Img) (composite : Img → Img) : Handle Img × Option Img :=
  match h with
  | .none => (.none, Option.none)
  | .done g => (.blended (composite g), some (composite g))
  | .blended i => (.blended i, some i)

/-- `render_by_index`: `run_with_image()?.blend(None, pool)` -/
def Handle.renderKeyframe {Img : Type} (h : Handle Img) (render : Unit → Img) (composite : Img → Img) :
    Handle Img × Option Img :=
  (h.runWithImage render).blend composite

/-! ## lazily initialised tables (`natural_order_lazy`, `sec_half`) -/

/-- `Once::call_once(init)` / `map.entry(k).or_insert_with(init)`: table slot and the value the
caller gets -/
def lazyGet {T : Type} (slot : Option T) (init : Unit → T) : Option T × T :=
  match slot with
  | some t => (some t, t)
  | none => (some (init ()), init ())

/-- any number of callers, in any order -/
def lazyGets {T : Type} (slot : Option T) (init : Unit → T) : Nat → Option T × List T
  | 0 => (slot, [])
  | n + 1 =>
    let (s1, t) := lazyGet slot init
    let (s2, ts) := lazyGets s1 init n
    (s2, t :: ts)

/-! ## `AllGroupOffsets` (`jxl-frame/src/lib.rs`): relaxed atomics used as a cache

For a frame whose TOC has a single entry the bit offsets of the LfGroup / HfGlobal / PassGroup
parts inside the one section are found by parsing the preceding part. Each offset lives in an
`AtomicUsize` (`0` = unknown). A reader `load`s; on `0` it re-parses the preceding part — a pure
function of the immutable section bytes, so every thread computes the same number — and `store`s
it. Nothing else is published through these atomics (the bytes are immutable), so `Relaxed`
ordering only has to give per-location coherence: every load returns `0` or a value some thread
stored. -/

inductive CacheEv where
  /-- some thread loads the atomic and then uses `if loaded = 0 then recomputed else loaded` -/
  | lookup
  /-- some thread stores the value it computed -/
  | store (x : Nat)
  deriving Repr, DecidableEq

/-- state of the atomic, and the offsets the lookups ended up using (in trace order) -/
def runCache (v : Nat) : Nat → List CacheEv → Nat × List Nat
  | c, [] => (c, [])
  | c, .lookup :: evs =>
    let (c', used) := runCache v c evs
    (c', (if c = 0 then v else c) :: used)
  | _, .store x :: evs => runCache v x evs

/-! ## noise seeds (`jxl-render/src/features/noise.rs`) -/

def U64 : Nat := 2 ^ 64

/-- `rng_seed0(visible_frames, invisible_frames) = ((visible as u64) << 32) + invisible as u64` -/
def rngSeed0 (visible invisible : Nat) : Nat := ((visible % U64) * 2 ^ 32 % U64 + invisible % U64) % U64

/-- `rng_seed1(x0, y0) = ((x0 as u64) << 32) + y0 as u64` -/
def rngSeed1 (x0 y0 : Nat) : Nat := ((x0 % U64) * 2 ^ 32 % U64 + y0 % U64) % U64

/-- `init_noise`: the seed pair of group `group_idx` — built in a sequential loop *before* the
parallel convolution, from the frame counters and the group's top-left corner only. `tid` (the
thread that later convolves the group) is an argument only to say that it is ignored. -/
def noiseSeed (visible invisible width groupDim groupIdx : Nat) (_tid : Nat) : Nat × Nat :=
  let groupsPerRow := (width + groupDim - 1) / groupDim
  let gx := groupIdx % groupsPerRow
  let gy := groupIdx / groupsPerRow
  (rngSeed0 visible invisible, rngSeed1 (gx * groupDim) (gy * groupDim))

/-- what a *wrong* implementation would do: seed from a per-thread job counter -/
def noiseSeedFromThreadCounter (visible invisible : Nat) (tid jobsDoneOnThread : Nat) : Nat × Nat :=
  (rngSeed0 visible invisible, rngSeed1 tid jobsDoneOnThread)

end Jxl.Tasks
