/-!
# Block transforms of the VarDCT path (`jxl-render/src/vardct/generic/{dct,transform}.rs`,
# `transform_common.rs`, `dct_common.rs`)

Everything is written **once**, polymorphic in the scalar type through the class `Scalar`
(add/sub/mul/div and the constants the code uses), so that the same definitions are
* executed at `Float` (IEEE binary64) by the driver (`Driver/C16.lean`), and
* reasoned about at `ℝ` in `Proofs/Dct.lean` (the instance lives there; this file is import-free).

Constants.  The Rust code uses literal tables (`SEC_HALF_SMALL`, `SCALE_F`, `0.5411961`, …) and,
for n ≥ 64, values computed at run time in `f32`.  The model does not contain the literals: it
*defines* `secHalf n i = 1 / (2 cos((2i+1)π/(2n)))` and
`scaleF c N = cos(cπ/(2N)) · cos(cπ/N) · cos(2cπ/N)` from the one transcendental primitive
`cosPi a b = cos(aπ/b)`.  That the literals are these numbers is checked numerically by the
correspondence run (ops `sec`, `scalef`), not proved.

Vectors are `Array α`; reading outside the array gives `zero` (`rd`), building is `tab n f`.

Normalisation (what the code really computes, cf. the unit tests at the end of `dct.rs`):
* inverse:  `x j = c 0 + √2 Σ_{n=1}^{N-1} c n · cos(n(2j+1)π/(2N))`
* forward:  `c n = (1/N) · (n = 0 ? 1 : √2) · Σ_j x j · cos(n(2j+1)π/(2N))`
so `forward ∘ inverse = id` without further factors, and the DC coefficient is the mean.
-/
namespace Jxl.Dct

class Scalar (α : Type) where
  zero : α
  one : α
  add : α → α → α
  sub : α → α → α
  mul : α → α → α
  div : α → α → α
  /-- `0.5` (the code divides by `2.0` / `4.0`; both are exact scalings) -/
  half : α
  /-- `std::f32::consts::SQRT_2` -/
  sqrt2 : α
  /-- `cosPi a b = cos(a·π/b)` -/
  cosPi : Nat → Nat → α

open Scalar

variable {α : Type} [Scalar α]

local infixl:65 " +. " => Scalar.add
local infixl:65 " -. " => Scalar.sub
local infixl:70 " *. " => Scalar.mul
local infixl:70 " /. " => Scalar.div

/-- `dct_common::sec_half(n)[i]`, by its defining formula `1 / (2 cos((2i+1)π/(2n)))`. -/
def secHalf (n i : Nat) : α := one /. ((one +. one) *. cosPi (2 * i + 1) (2 * n))

/-- `dct_common::scale_f`: the table `SCALE_F[c << logb]` is `scaleF c' 256` with `c' = c << logb`;
written for a block side of `N` samples: `cos(cπ/(2N)) · cos(cπ/N) · cos(2cπ/N)`. -/
def scaleF (c N : Nat) : α := cosPi c (2 * N) *. cosPi c N *. cosPi (2 * c) N

def quarter : α := half *. half

/-- read with default (never out of range in the code; total here) -/
def rd (v : Array α) (i : Nat) : α := v.getD i zero

/-- the vector `f 0, …, f (n-1)` -/
def tab (n : Nat) (f : Nat → α) : Array α := Array.ofFn (n := n) fun i => f i.val

/-- `Σ_{i<n} f i`, summed in increasing `i` -/
def sumRange : Nat → (Nat → α) → α
  | 0, _ => zero
  | n + 1, f => sumRange n f +. f n

/-! ## The definition -/

/-- Inverse DCT of length `N` by its definition:
`c 0 + √2 · Σ_{n=1}^{N-1} c n · cos(n(2j+1)π/(2N))`. -/
def idctDef (N : Nat) (c : Nat → α) (j : Nat) : α :=
  c 0 +. sqrt2 *. sumRange (N - 1) fun n => c (n + 1) *. cosPi ((n + 1) * (2 * j + 1)) (2 * N)

/-- `N` as a scalar -/
def ofNatS : Nat → α
  | 0 => zero
  | n + 1 => ofNatS n +. one

/-- Forward DCT of length `N` by its definition:
`(1/N) · (n = 0 ? 1 : √2) · Σ_j x j · cos(n(2j+1)π/(2N))`. -/
def fdctDef (N : Nat) (x : Nat → α) (n : Nat) : α :=
  let s := sumRange N fun j => x j *. cosPi (n * (2 * j + 1)) (2 * N)
  (if n = 0 then s else sqrt2 *. s) /. ofNatS N

/-! ## 1-D recursion (`generic/dct.rs`, `fn dct` and `fn dct4`) -/

/-- `n == 2`, inverse -/
def idct2 (c : Array α) : Array α :=
  #[rd c 0 +. rd c 1, rd c 0 -. rd c 1]

/-- `dct4(.., Inverse)`; `sec0 = 0.5411961 = sec_half(4)[0]`, `sec1 = 1.306563 = sec_half(4)[1]` -/
def idct4 (c : Array α) : Array α :=
  let tmp0 := rd c 1 *. sqrt2
  let tmp1 := rd c 1 +. rd c 3
  let out0 := (tmp0 +. tmp1) *. secHalf 4 0
  let out1 := (tmp0 -. tmp1) *. secHalf 4 1
  let sum02 := rd c 0 +. rd c 2
  let sub02 := rd c 0 -. rd c 2
  #[sum02 +. out0, sub02 +. out1, sub02 -. out1, sum02 -. out0]

/-- One inverse recursion level for length `n = 2m` (the `n == 8` block with `dct4` and the general
`else` branch of `fn dct` are this same computation): de-interleave, running sum on the odd half,
`√2` on its first entry, recurse on both halves, scale by `sec_half`, butterfly. -/
def istep (n : Nat) (rec : Array α → Array α) (c : Array α) : Array α :=
  let m := n / 2
  let input0 := tab m fun i => rd c (2 * i)
  let input1 := tab m fun i =>
    if i = 0 then rd c 1 *. sqrt2 else rd c (2 * i + 1) +. rd c (2 * i - 1)
  let output0 := rec input0
  let output1 := rec input1
  tab n fun i =>
    if i < m then rd output0 i +. rd output1 i *. secHalf n i
    else rd output0 (n - 1 - i) -. rd output1 (n - 1 - i) *. secHalf n (n - 1 - i)

/-- inverse DCT of length `2^k` as the code computes it -/
def idct : Nat → Array α → Array α
  | 0, c => tab 1 (rd c)
  | 1, c => idct2 c
  | 2, c => idct4 c
  | k + 3, c => istep (2 ^ (k + 3)) (idct (k + 2)) c

/-- `n == 2`, forward -/
def fdct2 (x : Array α) : Array α :=
  #[(rd x 0 +. rd x 1) *. half, (rd x 0 -. rd x 1) *. half]

/-- `dct4(.., Forward)` -/
def fdct4 (x : Array α) : Array α :=
  let sum03 := rd x 0 +. rd x 3
  let sum12 := rd x 1 +. rd x 2
  let tmp0 := (rd x 0 -. rd x 3) *. secHalf 4 0
  let tmp1 := (rd x 1 -. rd x 2) *. secHalf 4 1
  let out0 := (tmp0 +. tmp1) *. quarter
  let out1 := (tmp0 -. tmp1) *. quarter
  #[(sum03 +. sum12) *. quarter, out0 *. sqrt2 +. out1, (sum03 -. sum12) *. quarter, out1]

/-- One forward recursion level for length `n = 2m`. -/
def fstep (n : Nat) (rec : Array α → Array α) (x : Array α) : Array α :=
  let m := n / 2
  let input0 := tab m fun i => (rd x i +. rd x (n - 1 - i)) *. half
  let input1 := tab m fun i => (rd x i -. rd x (n - 1 - i)) *. half *. secHalf n i
  let output0 := rec input0
  let output1 := rec input1
  let odd := tab m fun i =>
    let v := if i = 0 then rd output1 0 *. sqrt2 else rd output1 i
    if i + 1 < m then v +. rd output1 (i + 1) else v
  tab n fun i => if i % 2 = 0 then rd output0 (i / 2) else rd odd (i / 2)

/-- forward DCT of length `2^k` as the code computes it -/
def fdct : Nat → Array α → Array α
  | 0, x => tab 1 (rd x)
  | 1, x => fdct2 x
  | 2, x => fdct4 x
  | k + 3, x => fstep (2 ^ (k + 3)) (fdct (k + 2)) x

inductive Dir where
  | forward
  | inverse
  deriving DecidableEq, Repr

/-- `fn dct(input_output, scratch, direction)` on a vector of length `n` (a power of two) -/
def dct1 (dir : Dir) (n : Nat) (v : Array α) : Array α :=
  match dir with
  | .inverse => idct (Nat.log2 n) v
  | .forward => fdct (Nat.log2 n) v

/-! ## 2-D driver (`generic/dct.rs`, `fn dct_2d`) -/

/-- row-major `w × h` samples; `rd g x y` is column `x`, row `y` (the `MutableSubgrid::get(x, y)`
convention) -/
structure Grid (α : Type) where
  w : Nat
  h : Nat
  d : Array α

def Grid.rd (g : Grid α) (x y : Nat) : α := Dct.rd g.d (y * g.w + x)

def Grid.tab (w h : Nat) (f : Nat → Nat → α) : Grid α :=
  ⟨w, h, Dct.tab (w * h) fun i => f (i % w) (i / w)⟩

def Grid.row (g : Grid α) (y : Nat) : Array α := Dct.tab g.w fun x => g.rd x y
def Grid.col (g : Grid α) (x : Nat) : Array α := Dct.tab g.h fun y => g.rd x y

/-- 1-D transform of every row (first loop of the general path) -/
def rowPass (dir : Dir) (g : Grid α) : Grid α :=
  let rows : Array (Array α) := Array.ofFn (n := g.h) fun y => dct1 dir g.w (g.row y.val)
  Grid.tab g.w g.h fun x y => Dct.rd (rows.getD y #[]) x

/-- 1-D transform of every column (what the transposes + second loop amount to) -/
def colPass (dir : Dir) (g : Grid α) : Grid α :=
  let cols : Array (Array α) := Array.ofFn (n := g.w) fun x => dct1 dir g.h (g.col x.val)
  Grid.tab g.w g.h fun x y => Dct.rd (cols.getD x #[]) y

/-- in-place transpose of every `bs × bs` block (the two `io.swap` loop nests) -/
def blockTranspose (bs : Nat) (g : Grid α) : Grid α :=
  Grid.tab g.w g.h fun x y => g.rd (x / bs * bs + y % bs) (y / bs * bs + x % bs)

/-- second loop, `block_size == height`: every row is cut into chunks of `h` samples and each
chunk is transformed -/
def chunkPass (dir : Dir) (g : Grid α) : Grid α :=
  let h := g.h
  let res : Array (Array (Array α)) := Array.ofFn (n := g.h) fun y =>
    Array.ofFn (n := g.w / h) fun q => dct1 dir h (Dct.tab h fun d => g.rd (q.val * h + d) y.val)
  Grid.tab g.w g.h fun x y => Dct.rd ((res.getD y #[]).getD (x / h) #[]) (x % h)

/-- second loop, `block_size == width < height`: for `y < w` the rows `y, y+w, y+2w, …` are
concatenated, transformed as one vector of `h` samples and written back -/
def gatherPass (dir : Dir) (g : Grid α) : Grid α :=
  let w := g.w
  let res : Array (Array α) := Array.ofFn (n := g.w) fun y =>
    dct1 dir g.h (Dct.tab g.h fun i => g.rd (i % w) (y.val + i / w * w))
  Grid.tab g.w g.h fun x y => Dct.rd (res.getD (y % w) #[]) (y / w * w + x)

/-- the general path of `dct_2d` literally: rows, block transpose, second loop, block transpose -/
def dct2dGeneral (dir : Dir) (g : Grid α) : Grid α :=
  let bs := min g.w g.h
  let t := blockTranspose bs (rowPass dir g)
  let u := if bs = g.h then chunkPass dir t else gatherPass dir t
  blockTranspose bs u

/-- the `mul` of `dct_2d`: `0.5` forward, `1.0` inverse -/
def dirMul : Dir → α
  | .forward => half
  | .inverse => one

/-- `dct_2d(io, direction)` with all its special cases -/
def dct2d (dir : Dir) (g : Grid α) : Grid α :=
  let w := g.w
  let h := g.h
  if w * h ≤ 1 then g
  else
    let mul : α := dirMul dir
    if w = 2 ∧ h = 1 then
      Grid.tab 2 1 fun x _ =>
        if x = 0 then (g.rd 0 0 +. g.rd 1 0) *. mul else (g.rd 0 0 -. g.rd 1 0) *. mul
    else if w = 1 ∧ h = 2 then
      Grid.tab 1 2 fun _ y =>
        if y = 0 then (g.rd 0 0 +. g.rd 0 1) *. mul else (g.rd 0 0 -. g.rd 0 1) *. mul
    else if w = 2 ∧ h = 2 then
      let v00 := g.rd 0 0
      let v01 := g.rd 1 0
      let v10 := g.rd 0 1
      let v11 := g.rd 1 1
      Grid.tab 2 2 fun x y =>
        if x = 0 ∧ y = 0 then (v00 +. v01 +. v10 +. v11) *. mul *. mul
        else if y = 0 then (v00 -. v01 +. v10 -. v11) *. mul *. mul
        else if x = 0 then (v00 +. v01 -. v10 -. v11) *. mul *. mul
        else (v00 -. v01 -. v10 +. v11) *. mul *. mul
    else if h = 1 then rowPass dir g
    else if w = 1 then colPass dir g
    else if h = 2 then
      let b := Grid.tab w 2 fun x y =>
        if y = 0 then (g.rd x 0 +. g.rd x 1) *. mul else (g.rd x 0 -. g.rd x 1) *. mul
      rowPass dir b
    else if w = 2 then
      let b := Grid.tab 2 h fun x y =>
        if x = 0 then (g.rd 0 y +. g.rd 1 y) *. mul else (g.rd 0 y -. g.rd 1 y) *. mul
      colPass dir b
    else dct2dGeneral dir g

/-- the separable reference: transform every row, then every column -/
def dct2dSep (dir : Dir) (g : Grid α) : Grid α := colPass dir (rowPass dir g)

/-! ## LF injection (`transform_common.rs`, `transform_varblocks_inner`) -/

/-- For a varblock of `bw × bh` 8×8 blocks: forward 2-D DCT of the `bw × bh` LF samples, each
coefficient divided by `scale_f(y, 5 - log bh) * scale_f(x, 5 - log bw)`. For `bw = bh = 1` the
code copies the sample (the forward DCT of one sample is the sample and the scale is 1). -/
def llfFromLf (lf : Grid α) : Grid α :=
  if lf.w * lf.h = 1 then lf
  else
    let f := dct2d .forward lf
    Grid.tab lf.w lf.h fun x y => f.rd x y /. (scaleF y (8 * lf.h) *. scaleF x (8 * lf.w))

/-- coefficient block with its top-left `lf.w × lf.h` corner replaced by the injected LF -/
def injectLf (lf coeff : Grid α) : Grid α :=
  let llf := llfFromLf lf
  Grid.tab coeff.w coeff.h fun x y =>
    if x < lf.w ∧ y < lf.h then llf.rd x y else coeff.rd x y

/-- a whole DCT-family varblock: LF injection, then `transform_dct` = inverse `dct_2d` -/
def varblockDct (lf coeff : Grid α) : Grid α := dct2d .inverse (injectLf lf coeff)

/-! ## Definitions in 2-D -/

/-- 2-D inverse DCT by definition: `idctDef` along every row, then along every column. -/
def idct2dDef (g : Grid α) : Grid α :=
  let r := Grid.tab g.w g.h fun x y => idctDef g.w (fun u => g.rd u y) x
  Grid.tab g.w g.h fun x y => idctDef g.h (fun v => r.rd x v) y

/-- 2-D forward DCT by definition -/
def fdct2dDef (g : Grid α) : Grid α :=
  let r := Grid.tab g.w g.h fun x y => fdctDef g.w (fun u => g.rd u y) x
  Grid.tab g.w g.h fun x y => fdctDef g.h (fun v => r.rd x v) y

/-- LLF coefficients by definition -/
def llfDef (lf : Grid α) : Grid α :=
  let f := fdct2dDef lf
  Grid.tab lf.w lf.h fun x y => f.rd x y /. (scaleF y (8 * lf.h) *. scaleF x (8 * lf.w))

/-- coefficient block with the LLF coefficients *by definition* in its top-left corner -/
def injectDef (lf coeff : Grid α) : Grid α :=
  let llf := llfDef lf
  Grid.tab coeff.w coeff.h fun x y =>
    if x < lf.w ∧ y < lf.h then llf.rd x y else coeff.rd x y

/-- a whole DCT-family varblock by definition: LLF by definition overlaid on the coefficients,
then the 2-D inverse by definition -/
def varblockDef (lf coeff : Grid α) : Grid α := idct2dDef (injectDef lf coeff)

/-! ## `Float` instance (binary64) -/

def piF : Float := 3.14159265358979323846

instance : Scalar Float where
  zero := 0.0
  one := 1.0
  add := (· + ·)
  sub := (· - ·)
  mul := (· * ·)
  div := (· / ·)
  half := 0.5
  sqrt2 := Float.sqrt 2.0
  cosPi a b := Float.cos (a.toFloat * piF / b.toFloat)

end Jxl.Dct
