import JxlModel.Model.Modular.Predictor
/-!
# Modular transforms (`jxl-modular/src/transform.rs`, `transform/{rct,palette,squeeze}.rs`)

Channel-list rewriting (`transform_channel_info`) and the inverse transforms on sample data,
plus the forward transforms used by the reference encoder.
-/
namespace Jxl.Modular

structure ChanInfo where
  w : Nat
  h : Nat
  hshift : Int
  vshift : Int
  deriving Repr, BEq, Inhabited, DecidableEq

structure SqueezeParam where
  horizontal : Bool
  inPlace : Bool
  beginC : Nat
  numC : Nat
  deriving Repr, BEq, Inhabited

inductive Transform where
  | rct (beginC : Nat) (rctType : Nat)
  | palette (beginC numC nbColours nbDeltas dPred : Nat)
  | squeeze (params : List SqueezeParam)
  deriving Repr, BEq, Inhabited

inductive TrErr where
  | invalidRct | invalidPalette | invalidSqueeze
  deriving Repr, BEq, DecidableEq

structure ChanList where
  info : List ChanInfo
  nbMeta : Nat
  deriving Repr, BEq

/-- `Squeeze::set_default_params` -/
def defaultSqueezeLoop : Nat → Nat → Nat → SqueezeParam → List SqueezeParam → List SqueezeParam
  | 0, _, _, _, acc => acc
  | fuel + 1, w, h, base, acc =>
    if w > 8 ∨ h > 8 then
      let (acc, w) := if w > 8 then (acc ++ [{ base with horizontal := true }], (w + 1) / 2) else (acc, w)
      let (acc, h) := if h > 8 then (acc ++ [{ base with horizontal := false }], (h + 1) / 2) else (acc, h)
      defaultSqueezeLoop fuel w h base acc
    else acc

def defaultSqueeze (cl : ChanList) : List SqueezeParam :=
  let first := cl.nbMeta
  match cl.info[first]? with
  | none => []
  | some fc =>
    let w := fc.w
    let h := fc.h
    let acc : List SqueezeParam :=
      if cl.info.length - first ≥ 3 then
        match cl.info[first + 1]? with
        | some nc =>
          if nc.w == w ∧ nc.h == h then
            [{ horizontal := true, inPlace := false, beginC := first + 1, numC := 2 },
             { horizontal := false, inPlace := false, beginC := first + 1, numC := 2 }]
          else []
        | none => []
      else []
    let base : SqueezeParam :=
      { horizontal := false, inPlace := true, beginC := first, numC := cl.info.length - first }
    let (acc, h) := if h ≥ w ∧ h > 8 then (acc ++ [{ base with horizontal := false }], (h + 1) / 2) else (acc, h)
    defaultSqueezeLoop 64 w h base acc

/-- one squeeze step on the channel list -/
def squeezeStepInfo (cl : ChanList) (sp : SqueezeParam) : Except TrErr ChanList :=
  let b := sp.beginC
  let e := sp.beginC + sp.numC
  if e > cl.info.length then .error .invalidSqueeze
  else if b < cl.nbMeta ∧ (!sp.inPlace ∨ e > cl.nbMeta) then .error .invalidSqueeze
  else
    let nbMeta := if b < cl.nbMeta then cl.nbMeta + sp.numC else cl.nbMeta
    let target := (cl.info.drop b).take sp.numC
    if target.any (fun c => c.w == 0 ∨ c.h == 0 ∨ c.hshift > 30 ∨ c.vshift > 30) then .error .invalidSqueeze
    else
      let kept : List ChanInfo := target.map fun c =>
        if sp.horizontal then { c with w := (c.w + 1) / 2, hshift := if c.hshift ≥ 0 then c.hshift + 1 else c.hshift }
        else { c with h := (c.h + 1) / 2, vshift := if c.vshift ≥ 0 then c.vshift + 1 else c.vshift }
      let residu : List ChanInfo := target.map fun c =>
        if sp.horizontal then { c with w := c.w / 2, hshift := if c.hshift ≥ 0 then c.hshift + 1 else c.hshift }
        else { c with h := c.h / 2, vshift := if c.vshift ≥ 0 then c.vshift + 1 else c.vshift }
      let before := cl.info.take b
      let after := cl.info.drop e
      let info := if sp.inPlace then before ++ kept ++ residu ++ after
                  else before ++ kept ++ after ++ residu
      .ok { info, nbMeta }

def squeezeInfo (cl : ChanList) : List SqueezeParam → Except TrErr ChanList
  | [] => .ok cl
  | sp :: rest =>
    match squeezeStepInfo cl sp with
    | .error e => .error e
    | .ok cl' => squeezeInfo cl' rest

/-- `transform_channel_info` for one transform. For squeeze with an empty parameter list the
defaults are filled in first (`set_default_params`); returns the resolved transform too. -/
def transformInfo (cl : ChanList) : Transform → Except TrErr (ChanList × Transform)
  | .rct b t =>
    let e := b + 3
    if e > cl.info.length then .error .invalidRct
    else
      match cl.info[b]? with
      | none => .error .invalidRct
      | some c0 =>
        if ((cl.info.drop (b + 1)).take 2).all (fun c => c.w == c0.w ∧ c.h == c0.h) then .ok (cl, .rct b t)
        else .error .invalidRct
  | .palette b n nbc nbd dp =>
    let e := b + n
    if e > cl.info.length then .error .invalidPalette
    else if b < cl.nbMeta ∧ e > cl.nbMeta then .error .invalidPalette
    else
      let nbMeta := if b < cl.nbMeta then cl.nbMeta + 2 - n else cl.nbMeta + 1
      match cl.info[b]? with
      | none => .error .invalidPalette
      | some c0 =>
        if ((cl.info.drop (b + 1)).take (n - 1)).all (fun c => c.w == c0.w ∧ c.h == c0.h) then
          let info := cl.info.take (b + 1) ++ cl.info.drop e
          let pal : ChanInfo := { w := nbc, h := n, hshift := -1, vshift := -1 }
          .ok ({ info := pal :: info, nbMeta }, .palette b n nbc nbd dp)
        else .error .invalidPalette
  | .squeeze ps =>
    let ps := if ps.isEmpty then defaultSqueeze cl else ps
    match squeezeInfo cl ps with
    | .error e => .error e
    | .ok cl' => .ok (cl', .squeeze ps)

def transformInfoAll (cl : ChanList) : List Transform → Except TrErr (ChanList × List Transform)
  | [] => .ok (cl, [])
  | t :: ts =>
    match transformInfo cl t with
    | .error e => .error e
    | .ok (cl', t') =>
      match transformInfoAll cl' ts with
      | .error e => .error e
      | .ok (cl'', ts') => .ok (cl'', t' :: ts')

/-! ## RCT -/

/-- `inverse_row_*_base::<TYPE>` on one sample triple; `wr` is the wrapping of the sample type
(`wrap sb` for the code as it runs, `id` for exact integer arithmetic) -/
def rctInvSampleG (wr : Int → Int) (ty : Nat) (a b c : Int) : Int × Int × Int :=
  if ty == 6 then
    let tmp := wr (a - c / 2)
    let e := wr (c + tmp)
    let f := wr (tmp - b / 2)
    let d := wr (f + b)
    (d, e, f)
  else
    let d := a
    let f := if ty % 2 == 1 then wr (c + a) else c
    let e := if ty / 2 == 1 then wr (b + a) else if ty / 2 == 2 then wr (b + wr (a + f) / 2) else b
    (d, e, f)

def rctInvSample (sb : SBits) (ty : Nat) (a b c : Int) : Int × Int × Int :=
  rctInvSampleG (wrap sb) ty a b c

/-- `inverse_permute` -/
def rctInvPermute (perm : Nat) (t : α × α × α) : α × α × α :=
  let (a, b, c) := t
  match perm with
  | 1 => (c, a, b)
  | 2 => (b, c, a)
  | 3 => (a, c, b)
  | 4 => (b, a, c)
  | 5 => (c, b, a)
  | _ => (a, b, c)

/-- the permutation the encoder applies (inverse of `rctInvPermute`) -/
def rctFwdPermute (perm : Nat) (t : α × α × α) : α × α × α :=
  let (x, y, z) := t
  match perm with
  | 1 => (y, z, x)
  | 2 => (z, x, y)
  | 3 => (x, z, y)
  | 4 => (y, x, z)
  | 5 => (z, y, x)
  | _ => (x, y, z)

/-- forward RCT of one sample triple over `Int` (no wrapping; the encoder checks ranges) -/
def rctFwdSample (ty : Nat) (d e f : Int) : Int × Int × Int :=
  if ty == 6 then
    let b := d - f
    let tmp := f + b / 2
    let c := e - tmp
    let a := tmp + c / 2
    (a, b, c)
  else
    let a := d
    let c := if ty % 2 == 1 then f - a else f
    let b := if ty / 2 == 1 then e - a else if ty / 2 == 2 then e - (a + f) / 2 else e
    (a, b, c)

def rctInverse (sb : SBits) (rctType : Nat) (a b c : Chan) : Chan × Chan × Chan :=
  let perm := rctType / 7
  let ty := rctType % 7
  let n := a.data.size
  let tr := (List.range n).map fun i =>
    rctInvPermute perm (rctInvSample sb ty (a.data.getD i 0) (b.data.getD i 0) (c.data.getD i 0))
  ({ a with data := (tr.map (·.1)).toArray }, { b with data := (tr.map (·.2.1)).toArray },
   { c with data := (tr.map (·.2.2)).toArray })

def rctForward (rctType : Nat) (x y z : Chan) : Chan × Chan × Chan :=
  let perm := rctType / 7
  let ty := rctType % 7
  let n := x.data.size
  let tr := (List.range n).map fun i =>
    let (d, e, f) := rctFwdPermute perm (x.data.getD i 0, y.data.getD i 0, z.data.getD i 0)
    rctFwdSample ty d e f
  ({ x with data := (tr.map (·.1)).toArray }, { y with data := (tr.map (·.2.1)).toArray },
   { z with data := (tr.map (·.2.2)).toArray })

/-! ## Squeeze -/

/-- `tendency_i32` / `tendency_i16`: all arithmetic wraps at `sb` bits, `/` truncates -/
def tendency (sb : SBits) (a b c : Int) : Int :=
  let wr := wrap sb
  if a ≥ b ∧ b ≥ c then
    let x := tdiv (wr (wr (wr (wr (4 * a) - wr (3 * c)) - b) + 6)) 12
    let x := if wr (x - (x % 2)) > wr (2 * wr (a - b)) then wr (wr (2 * wr (a - b)) + 1) else x
    let x := if wr (x + (x % 2)) > wr (2 * wr (b - c)) then wr (2 * wr (b - c)) else x
    x
  else if a ≤ b ∧ b ≤ c then
    let x := tdiv (wr (wr (wr (wr (4 * a) - wr (3 * c)) - b) - 6)) 12
    let x := if wr (x + (x % 2)) < wr (2 * wr (a - b)) then wr (wr (2 * wr (a - b)) - 1) else x
    let x := if wr (x - (x % 2)) < wr (2 * wr (b - c)) then wr (2 * wr (b - c)) else x
    x
  else 0

/-- inverse squeeze of one line: `avg` (length ⌈n/2⌉) and `res` (length ⌊n/2⌋) → `n` samples.
`wr` = wrapping of the sample type, `T` = the tendency function. -/
def unsqueezeGo (wr : Int → Int) (T : Int → Int → Int → Int) : List Int → List Int → Int → List Int
  | a :: as, r :: rs, left =>
    let nextAvg := as.headD a
    let diff := wr (r + T left a nextAvg)
    let first := wr (a + tdiv diff 2)
    let second := wr (first - diff)
    first :: second :: unsqueezeGo wr T as rs second
  | a :: _, [], _ => [a]
  | [], _, _ => []

def unsqueezeLineG (wr : Int → Int) (T : Int → Int → Int → Int) (avg res : List Int) : List Int :=
  unsqueezeGo wr T avg res (avg.headD 0)

def unsqueezeLine (sb : SBits) (avg res : List Int) : List Int :=
  unsqueezeLineG (wrap sb) (tendency sb) avg res

/-- forward squeeze: averages of the pairs (a lone last sample is its own average) -/
def squeezeAvgs : List Int → List Int
  | a :: b :: rest => ((a + b + (if a > b then 1 else 0)) / 2) :: squeezeAvgs rest
  | [a] => [a]
  | [] => []

/-- forward squeeze: residuals, given the averages and the sample left of the current pair -/
def squeezeRes (T : Int → Int → Int → Int) : List Int → List Int → Int → List Int
  | a :: b :: rest, m :: ms, left =>
    let nextAvg := ms.headD m
    (a - b - T left m nextAvg) :: squeezeRes T rest ms b
  | _, _, _ => []

/-- forward squeeze of one line over `Int`: returns `(avg, res)` -/
def squeezeLineG (T : Int → Int → Int → Int) (line : List Int) : List Int × List Int :=
  let av := squeezeAvgs line
  (av, squeezeRes T line av (av.headD 0))

def squeezeLine (sb : SBits) (line : List Int) : List Int × List Int :=
  squeezeLineG (tendency sb) line

def Chan.col (c : Chan) (x : Nat) : List Int := (List.range c.h).map fun y => c.get x y

def Chan.ofRows (w : Nat) (rows : List (List Int)) : Chan :=
  { w, h := rows.length, data := (rows.flatMap id).toArray }

def Chan.ofCols (h : Nat) (cols : List (List Int)) : Chan :=
  let w := cols.length
  Chan.ofFn w h fun x y => (cols.getD x []).getD y 0

/-- inverse squeeze step for one channel pair -/
def unsqueezeChan (sb : SBits) (horizontal : Bool) (avg res : Chan) : Chan :=
  if horizontal then
    Chan.ofRows (avg.w + res.w) ((List.range avg.h).map fun y => unsqueezeLine sb (avg.row y) (res.row y))
  else
    Chan.ofCols (avg.h + res.h) ((List.range avg.w).map fun x => unsqueezeLine sb (avg.col x) (res.col x))

def squeezeChan (sb : SBits) (horizontal : Bool) (c : Chan) : Chan × Chan :=
  if horizontal then
    let rows := (List.range c.h).map fun y => squeezeLine sb (c.row y)
    (Chan.ofRows ((c.w + 1) / 2) (rows.map (·.1)), Chan.ofRows (c.w / 2) (rows.map (·.2)))
  else
    let cols := (List.range c.w).map fun x => squeezeLine sb (c.col x)
    (Chan.ofCols ((c.h + 1) / 2) (cols.map (·.1)), Chan.ofCols (c.h / 2) (cols.map (·.2)))

/-! ## Palette -/

def deltaPalette : Array (Int × Int × Int) := #[
  (0, 0, 0), (4, 4, 4), (11, 0, 0), (0, 0, -13), (0, -12, 0), (-10, -10, -10),
  (-18, -18, -18), (-27, -27, -27), (-18, -18, 0), (0, 0, -32), (-32, 0, 0), (-37, -37, -37),
  (0, -32, -32), (24, 24, 45), (50, 50, 50), (-45, -24, -24), (-24, -45, -45), (0, -24, -24),
  (-34, -34, 0), (-24, 0, -24), (-45, -45, -24), (64, 64, 64), (-32, 0, -32), (0, -32, 0),
  (-32, 0, 32), (-24, -45, -24), (45, 24, 45), (24, -24, -45), (-45, -24, 24), (80, 80, 80),
  (64, 0, 0), (0, 0, -64), (0, -64, -64), (-24, -24, 45), (96, 96, 96), (64, 64, 0),
  (45, -24, -24), (34, -34, 0), (112, 112, 112), (24, -45, -45), (45, 45, -24), (0, -32, 32),
  (24, -24, 45), (0, 96, 96), (45, -24, 24), (24, -45, -24), (-24, -45, 24), (0, -64, 0),
  (96, 0, 0), (128, 128, 128), (64, 0, 64), (144, 144, 144), (96, 96, 0), (-36, -36, 36),
  (45, -24, -45), (45, -45, -24), (0, 0, -96), (0, 128, 128), (0, 96, 0), (45, 24, -45),
  (-128, 0, 0), (24, -45, 24), (-45, 24, -45), (64, 0, -64), (64, -64, -64), (96, 0, 96),
  (45, -45, 24), (24, 45, -45), (64, 64, -64), (128, 128, 0), (0, 0, -128), (-24, 45, -45)]

/-- value of palette entry `index` for channel `c` before delta prediction (format definition;
`Palette::inverse_inner` without the predictor pass) -/
def paletteValue (sb : SBits) (pal : Chan) (nbColours bitDepth : Nat) (index : Int) (c : Nat) : Int :=
  if 0 ≤ index ∧ index < nbColours then pal.get index.toNat c
  else if index ≥ nbColours then
    let idx := index - nbColours
    let maxv : Int := (2 : Int) ^ bitDepth - 1
    if idx < 64 then
      wrap sb (tdiv (((idx / (4 : Int) ^ c) % 4) * maxv) 4 + (2 : Int) ^ (bitDepth - 3))
    else
      let idx := idx - 64
      wrap sb (tdiv (((idx / (5 : Int) ^ c) % 5) * maxv) 4)
  else
    if c ≥ 3 then 0
    else
      let i := ((-(index + 1)) % 143).toNat
      let e := deltaPalette.getD ((i + 1) / 2) (0, 0, 0)
      let t : Int := if c == 0 then e.1 else if c == 1 then e.2.1 else e.2.2
      let t := if i % 2 == 0 then -t else t
      let t := if bitDepth > 8 then t * (2 : Int) ^ (min bitDepth 24 - 8) else t
      wrap sb t

end Jxl.Modular
