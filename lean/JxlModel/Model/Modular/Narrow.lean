import JxlModel.Model.Modular.Image
/-!
# Narrow (i16) versus wide (i32) Modular buffers: what "16-bit buffers suffice" means

`jxl-render/src/lib.rs` (`narrow_modular`) instantiates the whole Modular pipeline at `S = i16`
when the header says `modular_16bit_buffers` and the caller did not force wide buffers, at
`S = i32` otherwise. Every sample operation of the model is parameterised by the sample width
`sb`; this file defines, for the **wide** run (`sb = 32`), the list of intermediate values whose
membership in the `i16` range makes the narrow run agree with it (`…Trace`). A stream
*truthfully declares that 16-bit buffers suffice* when every value in these lists is an `i16`
(`I16`). The lists are executable (driver `c12`, op `range`) and are the hypotheses of the
theorems in `Props/C12.lean`.

Only the values that matter are listed: operations that are ring operations modulo `2^16`
(add, mul-add, RCT types without a shift of a computed value) need no hypothesis on their
intermediates — truncation commutes with them — so only their *results* appear.
-/
namespace Jxl.Modular

/-- representable as `i16` -/
def I16 (x : Int) : Prop := -32768 ≤ x ∧ x ≤ 32767

instance (x : Int) : Decidable (I16 x) := by unfold I16; infer_instance

/-- representable as `i32` -/
def I32 (x : Int) : Prop := -2147483648 ≤ x ∧ x ≤ 2147483647

instance (x : Int) : Decidable (I32 x) := by unfold I32; infer_instance

def allI16 (l : List Int) : Bool := l.all fun v => decide (I16 v)

/-! ## squeeze -/

/-- `tendency_i32` / `tendency_i16` with the wrapping function as a parameter
(`tendency sb = tendencyG (wrap sb)` by `rfl`) -/
def tendencyG (wr : Int → Int) (a b c : Int) : Int :=
  if a ≥ b ∧ b ≥ c then
    let x := tdiv (wr (wr (wr (wr (4 * a) - wr (3 * c)) - b) + 6)) 12
    let x := if wr (x - (x % 2)) > wr (2 * wr (a - b)) then wr (wr (2 * wr (a - b)) + 1) else x
    let x := if wr (x + (x % 2)) > wr (2 * wr (b - c)) then wr (2 * wr (b - c)) else x
    x
  else if a ≤ b ∧ b ≤ c then
    let x := tdiv (wr (wr (wr (wr (4 * a) - wr (3 * c)) - b) - 6)) 12
    let x := if wr (x + (x % 2)) < wr (2 * wr (a - b)) then wr (wr (2 * wr (a - b)) - 1) else x
    let x := if wr (x - (x % 2)) < wr (2 * wr (b - c)) then wr (2 * wr (b - c)) else x
    x
  else 0

/-- the one intermediate of `tendency` that must fit: the numerator `4a - 3c - b ± 6` of the
division by 12 (exact integer; `0` when the three values are not monotone). Every other
intermediate (`2(a-b)`, `2(b-c)`, `x ± (x&1)`) is bounded by it in absolute value. The partial
products `4a`, `3c` need **not** fit: the narrow code computes the numerator modulo `2^16`. -/
def tendencyNum (a b c : Int) : Int :=
  if a ≥ b ∧ b ≥ c then 4 * a - 3 * c - b + 6
  else if a ≤ b ∧ b ≤ c then 4 * a - 3 * c - b - 6
  else 0

/-- values of one wide inverse-squeeze step that must be `i16`: the numerator of `tendency`,
`diff`, the two reconstructed samples, and the two operand differences `left - a`, `a - next`
(the scalar `i16` code does not need the last two; the vector kernels compute the differences
first, in 16-bit lanes, also when the three values are not monotone) -/
def unsqueezeStepTrace (left a nextAvg r : Int) : List Int :=
  let diff := wrap 32 (r + tendency 32 left a nextAvg)
  let first := wrap 32 (a + tdiv diff 2)
  let second := wrap 32 (first - diff)
  [tendencyNum left a nextAvg, diff, first, second, left - a, a - nextAvg]

/-- all such values of the wide run of `unsqueezeGo` -/
def unsqueezeTrace : List Int → List Int → Int → List Int
  | a :: as, r :: rs, left =>
    let nextAvg := as.headD a
    let diff := wrap 32 (r + tendency 32 left a nextAvg)
    let first := wrap 32 (a + tdiv diff 2)
    let second := wrap 32 (first - diff)
    unsqueezeStepTrace left a nextAvg r ++ unsqueezeTrace as rs second
  | _ :: _, [], _ => []
  | [], _, _ => []

/-! ### lane semantics of the x86-64 vector kernels

`tendency_i16_x86_64_avx2` and `tendency_i16_x86_64_sse41` are the same sequence of 16-bit lane
operations; one lane is transcribed here. The data movement around it (8/16-row transposes, head
and tail handling per width class) is **not** modelled: that part is pinned to the scalar kernels
by the exhaustive-width runs of `tools/props/c12.py`. -/

/-- the magnitude part of one lane of the vector `tendency`, from the lane values
`|a-b|`, `|a-c|`, `|b-c|`: every lane operation wraps at 16 bits, `mulhi` is the high half of the
signed 32-bit product with `0x5556`, `srai::<2>` the arithmetic shift, `blendv` the selections -/
def tendencyVecCore (absAB absAC absBC : Int) : Int :=
  let wr := wrap 16
  let x := wr ((absAB * 21846) / 65536 + wr (absAC + 2))
  let x := x / 4
  let x := if x > wr (wr (2 * absAB) + x % 2) then wr (wr (2 * absAB) + 1) else x
  let x := if wr (x + x % 2) > wr (2 * absBC) then wr (2 * absBC) else x
  x

/-- one lane of the vector `tendency`: differences and absolute values in 16-bit lanes, the
monotonicity test on sign bits (`0 > (a_b ^ b_c)`, not skipped when a difference is zero), the
magnitude, and `sign_epi16` with the mask `skip ? 0 : (c > a ? -1 : 1)` -/
def tendencyVec (a b c : Int) : Int :=
  let wr := wrap 16
  let abs16 := fun (x : Int) => wr (if x < 0 then -x else x)
  let a_b := wr (a - b)
  let b_c := wr (b - c)
  let a_c := wr (a - c)
  let nonMonotonic : Bool := decide (a_b < 0) != decide (b_c < 0)
  let skip : Bool := nonMonotonic && decide (a_b ≠ 0) && decide (b_c ≠ 0)
  let x := tendencyVecCore (abs16 a_b) (abs16 a_c) (abs16 b_c)
  let needNeg : Bool := decide (c > a)
  if skip then 0 else if needNeg then wr (-x) else x

/-- `srai::<1>(diff + srli::<15>(diff))`: the vector kernels' `diff / 2` -/
def halveVec (diff : Int) : Int := wrap 16 (diff + (if diff < 0 then 1 else 0)) / 2

/-- one line through the lane operations of the vector kernels (same recursion as `unsqueezeGo`) -/
def unsqueezeGoVec : List Int → List Int → Int → List Int
  | a :: as, r :: rs, left =>
    let nextAvg := as.headD a
    let diff := wrap 16 (r + tendencyVec left a nextAvg)
    let first := wrap 16 (a + halveVec diff)
    let second := wrap 16 (first - diff)
    first :: second :: unsqueezeGoVec as rs second
  | a :: _, [], _ => [a]
  | [], _, _ => []

def unsqueezeLineVec (avg res : List Int) : List Int := unsqueezeGoVec avg res (avg.headD 0)

def unsqueezeLineTrace (avg res : List Int) : List Int :=
  unsqueezeTrace avg res (avg.headD 0)

def unsqueezeChanTrace (horizontal : Bool) (avg res : Chan) : List Int :=
  if horizontal then
    (List.range avg.h).flatMap fun y => unsqueezeLineTrace (avg.row y) (res.row y)
  else
    (List.range avg.w).flatMap fun x => unsqueezeLineTrace (avg.col x) (res.col x)

/-! ## RCT -/

/-- values of the wide inverse RCT of one triple that must be `i16`: for the types with a halving
of a *computed* value (4, 5: `(a + f) >> 1`) that value; and the three results. Types 0–3 and 6
are ring operations on the inputs (type 6 halves inputs only). -/
def rctTrace (ty : Nat) (a b c : Int) : List Int :=
  let (d, e, f) := rctInvSample 32 ty a b c
  (if ty != 6 ∧ ty / 2 == 2 then [wrap 32 (a + f)] else []) ++ [d, e, f]

def rctChanTrace (rctType : Nat) (a b c : Chan) : List Int :=
  (List.range a.data.size).flatMap fun i =>
    rctTrace (rctType % 7) (a.data.getD i 0) (b.data.getD i 0) (c.data.getD i 0)

/-! ## token level -/

/-- the samples the wide decoder produces (also when it later runs out of tokens) -/
def wideSamples (leafOf : LeafOf) (prev : List Chan) : Nat → PState → List Nat → List Int
  | 0, _, _ => []
  | n + 1, ps, toks =>
    let scp := ps.scPredict
    match leafOf (propsFn (ps.props scp) prev ps.x ps.y), toks with
    | some leaf, tok :: rest =>
      let v := sampleOf 32 leaf (predictImpl leaf.pred ps scp) tok
      v :: wideSamples leafOf prev n (ps.record scp v) rest
    | _, _ => []

/-- every value of the wide decode of one sample: unpacked token, scaled residual, prediction
as a sample, result (reported by the driver; only the result matters for agreement) -/
def sampleTrace (leaf : Leaf) (pred : Int) (tok : Nat) : List Int :=
  let u := sUnpack 32 tok
  let m := sMulAdd 32 u leaf.mul leaf.offset
  [u, m, sFromI32 32 pred, sAdd 32 m (sFromI32 32 pred)]

/-- all values (token, residual, prediction, sample) of the wide decode of `n` samples -/
def decodeTrace (leafOf : LeafOf) (prev : List Chan) : Nat → PState → List Nat → List Int
  | 0, _, _ => []
  | n + 1, ps, toks =>
    let scp := ps.scPredict
    match leafOf (propsFn (ps.props scp) prev ps.x ps.y), toks with
    | some leaf, tok :: rest =>
      let pred := predictImpl leaf.pred ps scp
      let v := sampleOf 32 leaf pred tok
      sampleTrace leaf pred tok ++ decodeTrace leafOf prev n (ps.record scp v) rest
    | _, _ => []

/-- the samples the wide decoder produces for one channel (mirrors `decodeChannel 32`) -/
def decodeChannelWide (tree : Tree) (wp : Wp) (chanIdx stream : Nat)
    (info : ChanInfo) (prevSame : List Chan) (tokens : List Nat) : List Int :=
  let flat := flatten chanIdx stream prevSame.length tree
  let wpo := if flatUsesSC flat then some wp else none
  let prev := prevSame.take (flatMaxPrev flat)
  wideSamples (fun props => getLeaf flat props) prev (info.w * info.h) (PState.reset info.w wpo) tokens

/-- the samples the wide decoder produces for all channels of a sub-image (mirrors
`decodeChannels 32`; stops where that stops) -/
def decodeChannelsWide (tree : Tree) (wp : Wp) (stream : Nat) :
    List ChanInfo → Nat → List (ChanInfo × Chan) → List Nat → List Int
  | [], _, _, _ => []
  | info :: rest, idx, done, tokens =>
    if info.w == 0 ∨ info.h == 0 then
      decodeChannelsWide tree wp stream rest (idx + 1) (done ++ [(info, Chan.zero info.w info.h)]) tokens
    else
      let prevSame := (done.filter fun d => d.1 == info ∧ d.1.w != 0 ∧ d.1.h != 0).reverse.map (·.2)
      decodeChannelWide tree wp idx stream info prevSame tokens ++
        match decodeChannel 32 tree wp idx stream info prevSame tokens with
        | none => []
        | some (c, tokens') =>
          decodeChannelsWide tree wp stream rest (idx + 1) (done ++ [(info, c)]) tokens'

/-! ## folds -/

/-- trace of a left fold: the values `tr s x` of every step, with the state advanced by `g` -/
def foldTrace {σ α : Type} (g : σ → α → σ) (tr : σ → α → List Int) : List α → σ → List Int
  | [], _ => []
  | x :: xs, s => tr s x ++ foldTrace g tr xs (g s x)

/-! ## palette -/

/-- wide values of the palette expansion (before delta prediction) of an index channel -/
def paletteBaseTrace (pal : Chan) (nbColours bitDepth n : Nat) (idx : Chan) : List Int :=
  (List.range n).flatMap fun c =>
    (List.range (idx.w * idx.h)).map fun i =>
      paletteValue 32 pal nbColours bitDepth (idx.get (i % idx.w) (i / idx.w)) c

/-- one step of `paletteDeltaPass` (the body of its fold) -/
def paletteDeltaStep (sb : SBits) (dPred : Nat) (isDelta : Nat → Nat → Bool) (w : Nat)
    (st : PState × Chan) (i : Nat) : PState × Chan :=
  let (ps, ch) := st
  let x := i % w
  let y := i / w
  let scp := ps.scPredict
  let v := ch.get x y
  -- Rust records the i32 value and stores its truncation to the sample type
  let v32 := if isDelta x y then wrap32 (v + predictImpl dPred ps scp) else v
  let v' := if isDelta x y then sFromI32 sb v32 else v
  (ps.record scp v32, ch.set x y v')

/-- the `i32` value the wide delta pass computes at pixel `i` (truncated to the sample type
when stored) -/
def paletteDeltaStepTrace (dPred : Nat) (isDelta : Nat → Nat → Bool) (w : Nat)
    (st : PState × Chan) (i : Nat) : List Int :=
  let x := i % w
  let y := i / w
  if isDelta x y then [wrap32 (st.2.get x y + predictImpl dPred st.1 st.1.scPredict)] else []

def paletteDeltaTrace (dPred : Nat) (wp : Wp) (isDelta : Nat → Nat → Bool) (c : Chan) : List Int :=
  let wpo := if dPred == 6 then some wp else none
  foldTrace (paletteDeltaStep 32 dPred isDelta c.w) (paletteDeltaStepTrace dPred isDelta c.w)
    (List.range (c.w * c.h)) (PState.reset c.w wpo, c)

/-! ## whole transform chain (wide run) -/

/-- one inverse squeeze step on the channel list (the body of the fold in `inverseOne`) -/
def squeezeInvStep (sb : SBits) (chans : List Chan) (sp : SqueezeParam) : List Chan :=
  let b := sp.beginC
  let n := sp.numC
  let e := b + n
  let (residu, chans) :=
    if sp.inPlace then ((chans.drop e).take n, chans.take e ++ chans.drop (e + n))
    else (chans.drop (chans.length - n), chans.take (chans.length - n))
  let merged := (List.range n).map fun i =>
    unsqueezeChan sb sp.horizontal (chans.getD (b + i) default) (residu.getD i default)
  chans.take b ++ merged ++ chans.drop e

def squeezeInvStepTrace (chans : List Chan) (sp : SqueezeParam) : List Int :=
  let b := sp.beginC
  let n := sp.numC
  let e := b + n
  let (residu, chans) :=
    if sp.inPlace then ((chans.drop e).take n, chans.take e ++ chans.drop (e + n))
    else (chans.drop (chans.length - n), chans.take (chans.length - n))
  (List.range n).flatMap fun i =>
    unsqueezeChanTrace sp.horizontal (chans.getD (b + i) default) (residu.getD i default)

/-- values that must be `i16` in the wide inverse of one transform; mirrors `inverseOne 32` -/
def inverseOneTrace (bitDepth : Nat) (wp : Wp) (chans : List Chan) : Transform → List Int
  | .rct b t =>
    match chans[b]?, chans[b + 1]?, chans[b + 2]? with
    | some a, some bb, some c => rctChanTrace t a bb c
    | _, _, _ => []
  | .palette b n nbc nbd dp =>
    match chans with
    | [] => []
    | pal :: rest =>
      match rest[b]? with
      | none => []
      | some idx =>
        let isDelta : Nat → Nat → Bool := fun x y => decide (idx.get x y < (nbd : Int))
        let anyDelta := (List.range (idx.w * idx.h)).any fun i => isDelta (i % idx.w) (i / idx.w)
        paletteBaseTrace pal nbc bitDepth n idx ++
          (if anyDelta then
            (List.range n).flatMap fun c =>
              paletteDeltaTrace dp wp isDelta
                (Chan.ofFn idx.w idx.h fun x y => paletteValue 32 pal nbc bitDepth (idx.get x y) c)
           else [])
  | .squeeze ps => foldTrace (squeezeInvStep 32) squeezeInvStepTrace ps.reverse chans

/-- all channel samples -/
def chansValues (chans : List Chan) : List Int := chans.flatMap fun c => c.data.toList

/-- wide run of the transform chain: every decoded (coded-domain) sample, then per inverse
transform its intermediates and its output samples -/
def inverseAllTrace (bitDepth : Nat) (wp : Wp) (ts : List Transform) (chans : List Chan) : List Int :=
  chansValues chans ++
    foldTrace (inverseOne 32 bitDepth wp)
      (fun chans t => inverseOneTrace bitDepth wp chans t ++ chansValues (inverseOne 32 bitDepth wp chans t))
      ts.reverse chans

/-- summary of a list of values for the driver: `(min, max)`; `(0, 0)` for the empty list -/
def rangeOf (l : List Int) : Int × Int :=
  l.foldl (fun (m : Int × Int) v => (min m.1 v, max m.2 v)) (0, 0)

end Jxl.Modular
