import JxlModel.Model.Modular.Predictor
/-!
# MA trees (`jxl-modular/src/ma.rs`)

`Tree` is the decoded meta-adaptive tree (Spec: a plain binary decision tree, evaluated by
`Tree.eval`). `flatten`/`getLeaf` mirror `MaTreeNode::flatten`, `try_compile_to_table`,
`next_decision_node` and `FlatMaTree::get_leaf` (Impl).
-/
namespace Jxl.Modular

structure Leaf where
  ctx : Nat            -- context (cluster after clustering)
  pred : Nat           -- predictor 0..13
  offset : Int
  mul : Nat            -- multiplier = (mul_bits + 1) << mul_log
  deriving Repr, BEq, Inhabited, DecidableEq

inductive Tree where
  | leaf (l : Leaf)
  /-- `property > value` goes left, otherwise right -/
  | dec (prop : Nat) (value : Int) (left right : Tree)
  deriving Repr, Inhabited, BEq

/-- Spec evaluation: `props k` is the value of property `k` -/
def Tree.eval (props : Nat → Int) : Tree → Leaf
  | .leaf l => l
  | .dec p v l r => if props p > v then l.eval props else r.eval props

def Tree.size : Tree → Nat
  | .leaf _ => 1
  | .dec _ _ l r => 1 + l.size + r.size

def Tree.depth : Tree → Nat
  | .leaf _ => 0
  | .dec _ _ l r => 1 + max l.depth r.depth

def Tree.leaves : Tree → List Leaf
  | .leaf l => [l]
  | .dec _ _ l r => l.leaves ++ r.leaves

def Tree.usesProp (k : Nat) : Tree → Bool
  | .leaf _ => false
  | .dec p _ l r => p == k || l.usesProp k || r.usesProp k

def Tree.usesPred (k : Nat) : Tree → Bool
  | .leaf l => l.pred == k
  | .dec _ _ l r => l.usesPred k || r.usesPred k

/-- `next_decision_node`: skip decisions that are static for this channel / stream / number of
available previous channels -/
def Tree.next (chan stream prevCh : Nat) : Tree → Tree
  | .leaf l => .leaf l
  | .dec p v l r =>
    if p == 0 then (if (chan : Int) > v then l.next chan stream prevCh else r.next chan stream prevCh)
    else if p == 1 then (if (stream : Int) > v then l.next chan stream prevCh else r.next chan stream prevCh)
    else if p ≥ 16 ∧ (p - 16) / 4 ≥ prevCh then
      -- the property reads 0 when the previous channel does not exist
      (if v < 0 then l.next chan stream prevCh else r.next chan stream prevCh)
    else .dec p v l r

/-- Spec evaluation specialised to a channel: static properties 0/1 and absent previous channels -/
def Tree.evalFor (chan stream prevCh : Nat) (props : Nat → Int) (t : Tree) : Leaf :=
  t.eval fun k =>
    if k == 0 then chan else if k == 1 then stream
    else if k ≥ 16 ∧ (k - 16) / 4 ≥ prevCh then 0 else props k

inductive FlatNode where
  | fused (p0 : Nat) (v0 : Int) (pl pr : Nat) (vl vr : Int) (base : Nat)
  | table (prop : Nat) (valueBase : Int) (indices : Array Nat)
  | leaf (l : Leaf)
  deriving Repr, Inhabited

def i32Max : Int := 2147483647
def i32Min : Int := -2147483648

/-- `try_compile_to_table` work list: `(node, lo, hi)` are value ranges `lo..=hi`.
Returns `(lower_bound, upper_bound, range_nodes)` with `range_nodes = (node, range_end)`. -/
def compileLoop (chan stream prevCh prop : Nat) :
    Nat → List (Tree × Int × Int) → Int → Int → List (Tree × Int) → Int × Int × List (Tree × Int)
  | 0, _, lb, ub, acc => (lb, ub, acc)
  | _, [], lb, ub, acc => (lb, ub, acc)
  | fuel + 1, (node, lo, hi) :: stack, lb, ub, acc =>
    let node := node.next chan stream prevCh
    match node with
    | .dec p v l r =>
      if p == prop then
        -- a decision that cannot go both ways within `lo..=hi` selects one child for the range
        if v ≥ hi then compileLoop chan stream prevCh prop fuel ((r, lo, hi) :: stack) lb ub acc
        else if v < lo then compileLoop chan stream prevCh prop fuel ((l, lo, hi) :: stack) lb ub acc
        else
        let nlb := min lb v
        let nub := max ub v
        if (nub - nlb).toNat > 1024 - 2 then
          compileLoop chan stream prevCh prop fuel stack lb ub (acc ++ [(node, hi)])
        else
          -- left: (v+1)..=hi pushed first, then right lo..=v (popped first)
          let stack := if v + 1 ≤ hi then (l, v + 1, hi) :: stack else stack
          let stack := if lo ≤ v then (r, lo, v) :: stack else stack
          compileLoop chan stream prevCh prop fuel stack nlb nub acc
      else compileLoop chan stream prevCh prop fuel stack lb ub (acc ++ [(node, hi)])
    | .leaf _ => compileLoop chan stream prevCh prop fuel stack lb ub (acc ++ [(node, hi)])

/-- insertion sort by range end (keys are distinct, so stability does not matter) -/
def sortByEnd (l : List (Tree × Int)) : List (Tree × Int) :=
  l.foldl (fun acc e =>
    let (a, b) := acc.span (fun x => x.2 ≤ e.2)
    a ++ e :: b) []

/-- fills `indices[next .. next+len)` with `val` -/
def fillRange (a : Array Nat) (start len val : Nat) : Array Nat :=
  (List.range len).foldl (fun a i => a.setIfInBounds (start + i) val) a

/-- `try_compile_to_table`; `none` when the node is not compiled to a table.
NOTE the Rust evaluates `value + 1` in `i32` (panics in checked builds for `value = i32::MAX`,
finding F8); the model computes in `Int` — the repaired behaviour.
The range that ends at `i32::MAX` fills the whole tail of the table: this models the repaired code
(/repo f9ead7c). The unrepaired code wrote only the last entry, which left entries at 0 when a
decision value is `i32::MAX` itself (finding F14; the old fold is kept as `tryCompileOld` in
`Proofs/TableOld.lean` for the witness `C03_unrepaired_table_wrong_at_i32max`). -/
def tryCompile (chan stream prevCh : Nat) (t : Tree) (nextBase : Nat) :
    Option (FlatNode × List Tree) :=
  match t with
  | .leaf _ => none
  | .dec prop value l r =>
    let fuel := 2 * t.size + 4
    -- stack = [left, right]; `pop` takes the last pushed = right first
    let init : List (Tree × Int × Int) :=
      [(r, i32Min, value)] ++ (if value + 1 ≤ i32Max then [(l, value + 1, i32Max)] else [])
    let (lb, ub, rn) := compileLoop chan stream prevCh prop fuel init value value []
    if rn.length < 4 then none
    else
      let rn := sortByEnd rn
      let count := (ub - lb).toNat + 2
      let indices : Array Nat := Array.replicate count 0
      let step := fun (st : Array Nat × List Tree × Int × Nat × Nat × Bool) (e : Tree × Int) =>
        let (ind, nodes, rangeStart, nextIdx, idx, done) := st
        if done then st
        else if e.2 == i32Max then
          -- the last range takes every remaining entry (`indices[next_index..].fill(..)`)
          (fillRange ind nextIdx (ind.size - nextIdx) (nextBase + idx), nodes ++ [e.1], rangeStart, nextIdx, idx + 1, true)
        else
          let len := (e.2 - rangeStart).toNat
          (fillRange ind nextIdx len (nextBase + idx), nodes ++ [e.1], e.2, nextIdx + len, idx + 1, false)
      let (ind, nodes, _, _, _, _) := rn.foldl step (indices, [], lb - 1, 0, 0, false)
      some (.table prop lb ind, nodes)

/-- `MaTreeNode::flatten` (breadth-first), fuel = an upper bound on emitted nodes -/
def flattenLoop (chan stream prevCh : Nat) :
    Nat → List Tree → Array FlatNode → Nat → Array FlatNode
  | 0, _, out, _ => out
  | _, [], out, _ => out
  | fuel + 1, t :: q, out, nextBase =>
    let t := t.next chan stream prevCh
    match tryCompile chan stream prevCh t nextBase with
    | some (node, nodes) =>
      flattenLoop chan stream prevCh fuel (q ++ nodes) (out.push node) (nextBase + nodes.length)
    | none =>
      match t with
      | .leaf l => flattenLoop chan stream prevCh fuel q (out.push (.leaf l)) nextBase
      | .dec p v l r =>
        let l := l.next chan stream prevCh
        let (lp, lv, ll, lr) := match l with
          | .dec p v a b => (p, v, a, b)
          | n => (0, (0 : Int), n, n)
        let r := r.next chan stream prevCh
        let (rp, rv, rl, rr) := match r with
          | .dec p v a b => (p, v, a, b)
          | n => (0, (0 : Int), n, n)
        flattenLoop chan stream prevCh fuel (q ++ [ll, lr, rl, rr])
          (out.push (.fused p v lp rp lv rv nextBase)) (nextBase + 4)

def flatten (chan stream prevCh : Nat) (t : Tree) : Array FlatNode :=
  flattenLoop chan stream prevCh (4 * t.size + 4) [t.next chan stream prevCh] #[] 1

/-- `FlatMaTree::get_leaf`; fuel bounds the walk (tree depth + 1) -/
def getLeafLoop (nodes : Array FlatNode) (props : Nat → Int) : Nat → Nat → Option Leaf
  | 0, _ => none
  | fuel + 1, cur =>
    match nodes[cur]? with
    | none => none
    | some (.leaf l) => some l
    | some (.fused p0 v0 pl pr vl vr base) =>
      let high := props p0 ≤ v0
      let l : Nat := if props pl ≤ vl then 1 else 0
      let r : Nat := 2 + (if props pr ≤ vr then 1 else 0)
      getLeafLoop nodes props fuel (base + (if high then r else l))
    | some (.table prop vb ind) =>
      let v := props prop
      -- saturating_sub in i32, then clamp to the table
      let d := clamp (v - vb) i32Min i32Max
      let idx := (clamp d 0 ((ind.size : Int) - 1)).toNat
      getLeafLoop nodes props fuel (ind.getD idx 0)

def getLeaf (nodes : Array FlatNode) (props : Nat → Int) : Option Leaf :=
  getLeafLoop nodes props (nodes.size + 1) 0

/-- which decode path `decode_inner` takes for a flattened tree (for coverage accounting) -/
def decodePath (nodes : Array FlatNode) : String :=
  match (nodes[0]? : Option FlatNode) with
  | some (.leaf l) =>
    if l.pred == 0 then "single-zero"
    else if l.pred == 5 ∧ l.offset == 0 ∧ l.mul == 1 then "simple-grad" else "single-slow"
  | some (.table prop _ ind) =>
    let leaves : List (Option Leaf) := ind.toList.map fun i => match (nodes[i]? : Option FlatNode) with | some (.leaf l) => some l | _ => none
    if leaves.all Option.isSome then
      let ls := leaves.filterMap id
      match ls with
      | [] => "slow"
      | l0 :: _ =>
        if ls.all (fun l => l.pred == l0.pred ∧ l.offset == l0.offset ∧ l.mul == l0.mul) then
          (if l0.offset == 0 ∧ l0.mul == 1 ∧ prop == 9 ∧ l0.pred == 5 then "gradient-table" else "simple-table")
        else "slow"
    else "slow"
  | _ => "slow"

end Jxl.Modular
