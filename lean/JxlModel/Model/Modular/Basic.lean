/-!
# Modular: sample arithmetic, channels

Mirrors `jxl-modular/src/sample.rs`. A sample type is characterised by its bit width
(16 for `i16`, 32 for `i32`); every operation of `Sealed`/`Sample` is wrapping arithmetic at that
width, written here on `Int` followed by `wrap`.
-/
namespace Jxl.Modular

/-- two's-complement reinterpretation of `v` at `bits` bits (Rust `as iN` / `wrapping_*`). -/
def wrap (bits : Nat) (v : Int) : Int :=
  let m : Int := (2 : Int) ^ bits
  let r := v % m
  if 2 * r ≥ m then r - m else r

def wrap32 (v : Int) : Int := wrap 32 v
def wrap64 (v : Int) : Int := wrap 64 v
/-- `as u32` -/
def toU32 (v : Int) : Nat := (v % (2 : Int) ^ 32).toNat

/-- `jxl_bitstream::unpack_signed`: `(u >> 1) ^ -(u & 1)` -/
def unpackSigned (u : Nat) : Int :=
  if u % 2 == 0 then (u / 2 : Nat) else -(((u + 1) / 2 : Nat) : Int)

/-- inverse of `unpackSigned` (encoder side) -/
def packSigned (v : Int) : Nat :=
  if v ≥ 0 then (2 * v).toNat else (-2 * v - 1).toNat

/-- Rust `/` on signed integers: truncation toward zero -/
def tdiv (a b : Int) : Int := Int.tdiv a b

/-- `i64::clamp(lo, hi)` with `lo ≤ hi` -/
def clamp (v lo hi : Int) : Int := if v < lo then lo else if v > hi then hi else v

/-- sample width in bits: 16 (`i16`) or 32 (`i32`) -/
abbrev SBits := Nat

/-- `S::unpack_signed_u32` -/
def sUnpack (sb : SBits) (token : Nat) : Int := wrap sb (unpackSigned token)
/-- `S::add` (wrapping) -/
def sAdd (sb : SBits) (a b : Int) : Int := wrap sb (a + b)
/-- `S::wrapping_muladd_i32(self, mul, add)` -/
def sMulAdd (sb : SBits) (a mul add : Int) : Int := wrap sb (a * mul + add)
/-- `S::from_i32` -/
def sFromI32 (sb : SBits) (v : Int) : Int := wrap sb v
/-- `S::grad_clamped(n, w, nw)` = `(n + w - nw).clamp(min(w,n), max(w,n))` -/
def gradClamped (n w nw : Int) : Int := clamp (n + w - nw) (min w n) (max w n)

/-- A channel: raster grid of samples -/
structure Chan where
  w : Nat
  h : Nat
  data : Array Int
  deriving Repr, Inhabited, BEq

def Chan.zero (w h : Nat) : Chan := { w, h, data := Array.replicate (w * h) 0 }
def Chan.get (c : Chan) (x y : Nat) : Int := c.data.getD (y * c.w + x) 0
def Chan.set (c : Chan) (x y : Nat) (v : Int) : Chan :=
  { c with data := c.data.setIfInBounds (y * c.w + x) v }
def Chan.ofFn (w h : Nat) (f : Nat → Nat → Int) : Chan :=
  { w, h, data := Array.ofFn (n := w * h) fun i => f (i.val % w) (i.val / w) }
def Chan.row (c : Chan) (y : Nat) : List Int := (List.range c.w).map fun x => c.get x y

end Jxl.Modular
