import JxlModel.Model.Modular.Basic
/-!
# Modular predictors and properties (`jxl-modular/src/predictor.rs`)

Two layers.

* **Spec**: neighbours of `(x, y)` read straight from the grid of already decoded samples with the
  edge rules of the format; property vector 0..15 and the previous-channel properties.
* **Impl**: `PState`, the incremental state of `PredictorState` (cached `w`, `n`, `nw`,
  `prev_grad`, the two row buffers) and `ScState`, the self-correcting (weighted) predictor with
  its cached error rows, stepped by `record` exactly as the Rust does.
-/
namespace Jxl.Modular

/-- weighted-predictor parameters (`WpHeader`) -/
structure Wp where
  p1 : Nat := 16
  p2 : Nat := 10
  p3a : Nat := 7
  p3b : Nat := 7
  p3c : Nat := 7
  p3d : Nat := 0
  p3e : Nat := 0
  w0 : Nat := 13
  w1 : Nat := 12
  w2 : Nat := 12
  w3 : Nat := 12
  deriving Repr, Inhabited, BEq

def Wp.isDefault (w : Wp) : Bool := w == {}

/-! ## Spec neighbours -/

structure Nb where
  w : Int
  n : Int
  nw : Int
  ne : Int
  nn : Int
  nee : Int
  ww : Int
  deriving Repr, BEq

/-- neighbours of `(x, y)` in channel `c` (only positions before `(x, y)` in raster order are read) -/
def neighbors (c : Chan) (x y : Nat) : Nb :=
  let w : Int := if x > 0 then c.get (x - 1) y else if y > 0 then c.get x (y - 1) else 0
  let n : Int := if y > 0 then c.get x (y - 1) else w
  let nw : Int := if x > 0 ∧ y > 0 then c.get (x - 1) (y - 1) else w
  let ne : Int := if x + 1 < c.w ∧ y > 0 then c.get (x + 1) (y - 1) else n
  let nn : Int := if y > 1 then c.get x (y - 2) else n
  let nee : Int := if x + 2 < c.w ∧ y > 0 then c.get (x + 2) (y - 1) else ne
  let ww : Int := if x > 1 then c.get (x - 2) y else w
  { w, n, nw, ne, nn, nee, ww }

/-- property 9 (`W + N - NW`, wrapping) at `(x, y)` -/
def gradProp (c : Chan) (x y : Nat) : Int :=
  let nb := neighbors c x y
  wrap32 (wrap32 (nb.w - nb.nw) + nb.n)

/-! ## Self-correcting predictor -/

def divLookup (i : Nat) : Nat := if i == 0 then 0 else (2 ^ 24) / i

structure ScPred where
  prediction : Int
  maxError : Int
  subpred : List Int   -- 4 entries
  deriving Repr, BEq, Inhabited

def u32Add (a b : Nat) : Nat := (a + b) % 2 ^ 32

structure ScState where
  width : Nat
  x : Nat := 0
  y : Nat := 0
  trueErrRow : Array Int
  subErrRow : Array (List Nat)
  wp : Wp
  teW : Int := 0
  teNW : Int := 0
  teN : Int := 0
  teNE : Int := 0
  seNWWW : List Nat := [0, 0, 0, 0]
  seNW : List Nat := [0, 0, 0, 0]
  seNE : List Nat := [0, 0, 0, 0]
  deriving Repr, Inhabited

def ScState.new (width : Nat) (wp : Wp) : ScState :=
  { width, wp, trueErrRow := Array.replicate width 0, subErrRow := Array.replicate width [0, 0, 0, 0] }

def ilog2 (n : Nat) : Nat := Nat.log2 n

/-- `SelfCorrectingPredictor::predict` -/
def ScState.predict (s : ScState) (n nw ne w nn : Int) : ScPred :=
  let wp := s.wp
  let n3 := n * 8; let nw3 := nw * 8; let ne3 := ne * 8; let w3 := w * 8; let nn3 := nn * 8
  let subpred : List Int := [
    w3 + ne3 - n3,
    n3 - (((s.teW + s.teN + s.teNE) * wp.p1) / 32),
    w3 - (((s.teW + s.teN + s.teNW) * wp.p2) / 32),
    n3 - ((s.teNW * wp.p3a + s.teN * wp.p3b + s.teNE * wp.p3c
            + (nn3 - n3) * wp.p3d + (nw3 - w3) * wp.p3e) / 32)]
  let errSum : List Nat := (List.range 4).map fun i =>
    u32Add (u32Add (s.seNWWW.getD i 0) (s.seNW.getD i 0)) (s.seNE.getD i 0)
  let maxw : List Nat := [wp.w0, wp.w1, wp.w2, wp.w3]
  let weight : List Nat := (List.range 4).map fun i =>
    let e := errSum.getD i 0
    let sh0 := (e + 1) / 32
    let shift := if sh0 == 0 then 0 else ilog2 sh0
    -- `maxweight * DIV_LOOKUP[..]` is a u32 multiplication (cannot overflow: ≤ 15 * 2^24)
    4 + ((maxw.getD i 0 * divLookup ((e >>> shift) + 1)) >>> shift)
  let sumW := weight.foldl (· + ·) 0
  let logW := ilog2 (sumW / 16)
  let weight := weight.map (· >>> logW)
  let sumW := weight.foldl (· + ·) 0
  let s0 : Int := (sumW / 2 : Nat) - 1
  let sAcc : Int := (List.range 4).foldl (fun acc i => acc + subpred.getD i 0 * (weight.getD i 0 : Nat)) s0
  let pred0 : Int := (sAcc * (divLookup sumW : Nat)) / (2 : Int) ^ 24
  -- `(true_err_n ^ true_err_w) | (true_err_n ^ true_err_nw) <= 0`: sign test on XORs
  let sameSign (a b : Int) : Bool := (a ≥ 0 ∧ b ≥ 0) ∨ (a < 0 ∧ b < 0)
  -- (p | q) <= 0  ⇔  p | q is negative or zero ⇔ (p < 0 ∨ q < 0) ∨ (p = 0 ∧ q = 0)
  let pNeg (a b : Int) : Bool := !(sameSign a b)
  let cond : Bool := pNeg s.teN s.teW || pNeg s.teN s.teNW || (s.teN == s.teW && s.teN == s.teNW)
  let pred : Int :=
    if cond then clamp pred0 (min (min n3 w3) ne3) (max (max n3 w3) ne3) else pred0
  let maxErr : Int := [s.teN, s.teNW, s.teNE].foldl
    (fun m e => if e.natAbs > m.natAbs then e else m) s.teW
  { prediction := pred, maxError := wrap32 maxErr, subpred }

/-- `SelfCorrectingPredictor::record` -/
def ScState.record (s : ScState) (p : ScPred) (sample : Int) : ScState :=
  let trueErr := p.prediction - sample * 8
  let subErr : List Nat := p.subpred.map fun sp => ((((sp - sample * 8).natAbs + 3) / 8) % 2 ^ 32)
  let te32 := wrap32 trueErr
  let row1 := s.trueErrRow.setIfInBounds s.x te32
  let row2 := s.subErrRow.setIfInBounds s.x subErr
  let s : ScState := { s with trueErrRow := row1, subErrRow := row2, x := s.x + 1 }
  if s.x ≥ s.width then
    let teN := s.trueErrRow.getD 0 0
    let seNW := s.subErrRow.getD 0 [0, 0, 0, 0]
    let s : ScState := { s with y := s.y + 1, x := 0, teW := 0, teN := teN, teNW := teN, seNW := seNW, seNWWW := seNW }
    if s.width ≤ 1 then { s with teNE := s.teN, seNE := s.seNW }
    else { s with teNE := s.trueErrRow.getD 1 0, seNE := s.subErrRow.getD 1 [0, 0, 0, 0] }
  else
    let seNW' := (List.range 4).map fun i => u32Add (s.seNE.getD i 0) (subErr.getD i 0)
    let s : ScState := { s with teW := te32, teNW := s.teN, teN := s.teNE, seNWWW := s.seNW, seNW := seNW' }
    if s.x + 1 ≥ s.width then { s with teNE := s.teN, seNE := s.seNW }
    else if s.y != 0 then
      { s with teNE := s.trueErrRow.getD (s.x + 1) 0, seNE := s.subErrRow.getD (s.x + 1) [0, 0, 0, 0] }
    else s

/-! ## Impl: `PredictorState` -/

structure PState where
  width : Nat
  prevRow : Array Int := #[]
  currRow : Array Int := #[]
  x : Nat := 0
  y : Nat := 0
  w : Int := 0
  n : Int := 0
  nw : Int := 0
  prevGrad : Int := 0
  sc : Option ScState := none
  deriving Repr, Inhabited

def PState.reset (width : Nat) (wp : Option Wp) : PState :=
  { width, sc := wp.map (ScState.new width) }

/-- `nn::<true>` -/
def PState.nn (s : PState) : Int := if s.x < s.currRow.size then s.currRow.getD s.x 0 else s.n
/-- `ne::<true>` -/
def PState.ne (s : PState) : Int :=
  if s.prevRow.isEmpty ∨ s.x + 1 ≥ s.width then s.n else s.prevRow.getD (s.x + 1) 0
/-- `nee::<true>` -/
def PState.nee (s : PState) : Int :=
  if s.prevRow.isEmpty ∨ s.x + 2 ≥ s.width then s.ne else s.prevRow.getD (s.x + 2) 0
/-- `ww::<true>` -/
def PState.ww (s : PState) : Int := if s.x ≥ 2 then s.currRow.getD (s.x - 2) 0 else s.w

/-- `nn::<false>`, `ne::<false>`, `nee::<false>`, `ww::<false>`: unchecked variants used for
`2 ≤ x < width - 2`, `y ≥ 2` (an out-of-range index would panic in Rust; `none` here). -/
def PState.nnF (s : PState) : Option Int := s.currRow[s.x]?
def PState.neF (s : PState) : Option Int := s.prevRow[s.x + 1]?
def PState.neeF (s : PState) : Option Int := s.prevRow[s.x + 2]?
def PState.wwF (s : PState) : Option Int := if s.x ≥ 2 then s.currRow[s.x - 2]? else none

def PState.scPredict (s : PState) : Option ScPred :=
  s.sc.map fun sc => sc.predict s.n s.nw s.ne s.w s.nn

/-- `Properties::new::<true>`: the 16 cached properties -/
def PState.props (s : PState) (scp : Option ScPred) : List Int :=
  let wNw := wrap32 (s.w - s.nw)
  [0, 0, s.y, s.x,
   wrap32 (s.n.natAbs : Nat), wrap32 (s.w.natAbs : Nat), s.n, s.w,
   wrap32 (s.w - s.prevGrad), wrap32 (wNw + s.n), wNw, wrap32 (s.nw - s.n),
   wrap32 (s.n - s.ne), wrap32 (s.n - s.nn), wrap32 (s.w - s.ww),
   (scp.map (·.maxError)).getD 0]

/-- `Properties::record` -/
def PState.record (s : PState) (scp : Option ScPred) (sample : Int) : PState :=
  let prop9 := wrap32 (wrap32 (s.w - s.nw) + s.n)
  let sc := match s.sc, scp with
    | some sc, some p => some (sc.record p sample)
    | sc, _ => sc
  let currRow := if s.x < s.currRow.size then s.currRow.setIfInBounds s.x sample
                 else s.currRow.push sample
  let s : PState := { s with sc, currRow, x := s.x + 1 }
  if s.x ≥ s.width then
    let n := s.currRow.getD 0 0
    { s with y := s.y + 1, x := 0, prevRow := s.currRow, currRow := s.prevRow, prevGrad := 0, n := n, w := n, nw := n }
  else
    let s : PState := { s with prevGrad := prop9, w := sample }
    if s.prevRow.isEmpty then { s with nw := sample, n := sample }
    else { s with nw := s.n, n := s.prevRow.getD s.x 0 }

/-! ## Predictors -/

/-- `Predictor::predict::<_, true>` given the Impl state (returns an `i32`) -/
def predictImpl (pred : Nat) (s : PState) (scp : Option ScPred) : Int :=
  match pred with
  | 0 => 0
  | 1 => s.w
  | 2 => s.n
  | 3 => tdiv (s.w + s.n) 2
  | 4 => if (s.n - s.nw).natAbs < (s.w - s.nw).natAbs then s.w else s.n
  | 5 => clamp (s.n + s.w - s.nw) (min s.w s.n) (max s.w s.n)
  | 6 => wrap32 ((((scp.map (·.prediction)).getD 0) + 3) / 8)
  | 7 => s.ne
  | 8 => s.nw
  | 9 => s.ww
  | 10 => tdiv (s.w + s.nw) 2
  | 11 => tdiv (s.n + s.nw) 2
  | 12 => tdiv (s.n + s.ne) 2
  | _ => wrap32 (tdiv (6 * s.n - 2 * s.nn + 7 * s.w + s.ww + s.nee + 3 * s.ne + 8) 16)

/-- the same predictors from Spec neighbours -/
def predictSpec (pred : Nat) (nb : Nb) (scPrediction : Int) : Int :=
  match pred with
  | 0 => 0
  | 1 => nb.w
  | 2 => nb.n
  | 3 => tdiv (nb.w + nb.n) 2
  | 4 => if (nb.n - nb.nw).natAbs < (nb.w - nb.nw).natAbs then nb.w else nb.n
  | 5 => clamp (nb.n + nb.w - nb.nw) (min nb.w nb.n) (max nb.w nb.n)
  | 6 => wrap32 ((scPrediction + 3) / 8)
  | 7 => nb.ne
  | 8 => nb.nw
  | 9 => nb.ww
  | 10 => tdiv (nb.w + nb.nw) 2
  | 11 => tdiv (nb.n + nb.nw) 2
  | 12 => tdiv (nb.n + nb.ne) 2
  | _ => wrap32 (tdiv (6 * nb.n - 2 * nb.nn + 7 * nb.w + nb.ww + nb.nee + 3 * nb.ne + 8) 16)

/-- Spec property vector 0..14 at `(x, y)` (property 15 comes from the weighted predictor) -/
def propsSpec (c : Chan) (x y : Nat) (maxErr : Int) : List Int :=
  let nb := neighbors c x y
  let wNw := wrap32 (nb.w - nb.nw)
  let prevGrad : Int := if x > 0 then gradProp c (x - 1) y else 0
  [0, 0, y, x,
   wrap32 (nb.n.natAbs : Nat), wrap32 (nb.w.natAbs : Nat), nb.n, nb.w,
   wrap32 (nb.w - prevGrad), wrap32 (wNw + nb.n), wNw, wrap32 (nb.nw - nb.n),
   wrap32 (nb.n - nb.ne), wrap32 (nb.n - nb.nn), wrap32 (nb.w - nb.ww), maxErr]

/-- previous-channel property `16 + 4*i + k` (`Properties::get_extra`); `prev` = earlier channels
with identical geometry, most recent first -/
def propExtra (prev : List Chan) (x y : Nat) (idx : Nat) : Int :=
  match prev[idx / 4]? with
  | none => 0
  | some pc =>
    let c := pc.get x y
    let k := idx % 4
    if k == 0 then wrap32 (c.natAbs : Nat)
    else if k == 1 then c
    else
      let g : Int :=
        if x == 0 ∧ y == 0 then 0
        else if x == 0 then pc.get 0 (y - 1)
        else if y == 0 then pc.get (x - 1) 0
        else gradClamped (pc.get x (y - 1)) (pc.get (x - 1) y) (pc.get (x - 1) (y - 1))
      if k == 2 then wrap32 ((c - g).natAbs : Nat) else wrap32 (c - g)

end Jxl.Modular
