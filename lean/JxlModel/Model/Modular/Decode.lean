import JxlModel.Model.Modular.Tree
import JxlModel.Model.Modular.Transform
/-!
# Modular sub-image decoding at the token level (`jxl-modular/src/image.rs`)

The entropy layer is abstracted: the decoder consumes a list of already hybrid-integer-decoded
values (`tokens`); which distribution each one was read with is recorded by the encoder
(`encodeChannel` returns `(ctx, token)` pairs) and is the business of property C04.

Samples of a channel are produced / consumed in raster order as a list; the position `(x, y)` is
the one carried by the predictor state, exactly as in the Rust loops.

`leafOf` abstracts how a leaf is found from the property vector:
* decoder model (Impl): `getLeaf (flatten …)` — the flattened tree the Rust walks;
* reference encoder (Spec): `Tree.evalFor` — the tree itself.
-/
namespace Jxl.Modular

def flatUsesSC (nodes : Array FlatNode) : Bool :=
  nodes.any fun
    | .fused p0 _ pl pr _ _ _ => p0 == 15 || pl == 15 || pr == 15
    | .table p _ _ => p == 15
    | .leaf l => l.pred == 6

def flatMaxPrev (nodes : Array FlatNode) : Nat :=
  nodes.foldl (fun m n =>
    let f := fun (p : Nat) => if p ≥ 16 then (p - 16) / 4 + 1 else 0
    match n with
    | .fused p0 _ pl pr _ _ _ => max m (max (f p0) (max (f pl) (f pr)))
    | .table p _ _ => max m (f p)
    | .leaf _ => m) 0

/-- property lookup as `Properties::get` does it -/
def propsFn (cached : List Int) (prev : List Chan) (x y : Nat) (k : Nat) : Int :=
  if k < 16 then cached.getD k 0 else propExtra prev x y (k - 16)

/-- value reconstructed from a token at a leaf with prediction `pred` (`decode_one`) -/
def sampleOf (sb : SBits) (leaf : Leaf) (pred : Int) (tok : Nat) : Int :=
  sAdd sb (sMulAdd sb (sUnpack sb tok) leaf.mul leaf.offset) (sFromI32 sb pred)

abbrev LeafOf := (Nat → Int) → Option Leaf

/-- decode `n` samples; returns the samples (in order), the unread tokens and the final state.
`none` = tokens exhausted (EOF) or no leaf. -/
def decodeSamples (sb : SBits) (leafOf : LeafOf) (prev : List Chan) :
    Nat → PState → List Nat → Option (List Int × List Nat × PState)
  | 0, ps, toks => some ([], toks, ps)
  | n + 1, ps, toks =>
    let scp := ps.scPredict
    match leafOf (propsFn (ps.props scp) prev ps.x ps.y), toks with
    | some leaf, tok :: rest =>
      let v := sampleOf sb leaf (predictImpl leaf.pred ps scp) tok
      match decodeSamples sb leafOf prev n (ps.record scp v) rest with
      | some (vs, toks', ps') => some (v :: vs, toks', ps')
      | none => none
    | _, _ => none

/-- choose the token that makes the decoder reproduce `v`; `none` if the leaf cannot express it -/
def encodeResidual (sb : SBits) (leaf : Leaf) (pred v : Int) : Option Nat :=
  let r := wrap sb (v - wrap sb pred - leaf.offset)
  if leaf.mul == 0 then none
  else if r % (leaf.mul : Int) == 0 then
    let tok := packSigned (r / (leaf.mul : Int))
    if tok < 2 ^ 32 ∧ sampleOf sb leaf pred tok == v then some tok else none
  else none

/-- encode samples (raster order) into `(ctx, token)` pairs -/
def encodeSamples (sb : SBits) (leafOf : LeafOf) (prev : List Chan) :
    List Int → PState → Option (List (Nat × Nat))
  | [], _ => some []
  | v :: vs, ps =>
    let scp := ps.scPredict
    match leafOf (propsFn (ps.props scp) prev ps.x ps.y) with
    | none => none
    | some leaf =>
      match encodeResidual sb leaf (predictImpl leaf.pred ps scp) v with
      | none => none
      | some tok =>
        match encodeSamples sb leafOf prev vs (ps.record scp v) with
        | none => none
        | some out => some ((leaf.ctx, tok) :: out)

/-- how the decoder model finds leaves: flattened tree (Impl) -/
def implLeafOf (tree : Tree) (chanIdx stream nPrev : Nat) : LeafOf :=
  let flat := flatten chanIdx stream nPrev tree
  fun props => getLeaf flat props

/-- how the reference encoder finds leaves: the tree itself (Spec) -/
def specLeafOf (tree : Tree) (chanIdx stream nPrev : Nat) : LeafOf :=
  fun props => some (tree.evalFor chanIdx stream nPrev props)

/-- decode one channel of a sub-image (decoder model) -/
def decodeChannel (sb : SBits) (tree : Tree) (wp : Wp) (chanIdx stream : Nat)
    (info : ChanInfo) (prevSame : List Chan) (tokens : List Nat) : Option (Chan × List Nat) :=
  let flat := flatten chanIdx stream prevSame.length tree
  let wpo := if flatUsesSC flat then some wp else none
  let prev := prevSame.take (flatMaxPrev flat)
  match decodeSamples sb (fun props => getLeaf flat props) prev (info.w * info.h) (PState.reset info.w wpo) tokens with
  | none => none
  | some (vs, toks, _) => some ({ w := info.w, h := info.h, data := vs.toArray }, toks)

/-- `decode_inner`: all channels of a sub-image in order. `done` = (info, decoded) so far. -/
def decodeChannels (sb : SBits) (tree : Tree) (wp : Wp) (stream : Nat) :
    List ChanInfo → Nat → List (ChanInfo × Chan) → List Nat → Option (List Chan × List Nat)
  | [], _, done, tokens => some (done.map (·.2), tokens)
  | info :: rest, idx, done, tokens =>
    if info.w == 0 ∨ info.h == 0 then
      decodeChannels sb tree wp stream rest (idx + 1) (done ++ [(info, Chan.zero info.w info.h)]) tokens
    else
      -- earlier channels with identical geometry, most recent first
      let prevSame := (done.filter fun d => d.1 == info ∧ d.1.w != 0 ∧ d.1.h != 0).reverse.map (·.2)
      match decodeChannel sb tree wp idx stream info prevSame tokens with
      | none => none
      | some (c, tokens') =>
        decodeChannels sb tree wp stream rest (idx + 1) (done ++ [(info, c)]) tokens'

/-- reference encoder for one channel (Spec leaf selection) -/
def encodeChannel (sb : SBits) (tree : Tree) (wp : Wp) (chanIdx stream : Nat)
    (c : Chan) (prevSame : List Chan) : Option (List (Nat × Nat)) :=
  let wpo := if tree.usesProp 15 || tree.usesPred 6 then some wp else none
  encodeSamples sb (specLeafOf tree chanIdx stream prevSame.length) prevSame c.data.toList
    (PState.reset c.w wpo)

def encodeChannels (sb : SBits) (tree : Tree) (wp : Wp) (stream : Nat) :
    List (ChanInfo × Chan) → Nat → List (ChanInfo × Chan) → List (Nat × Nat) →
    Option (List (Nat × Nat))
  | [], _, _, acc => some acc
  | (info, c) :: rest, idx, done, acc =>
    if info.w == 0 ∨ info.h == 0 then
      encodeChannels sb tree wp stream rest (idx + 1) (done ++ [(info, c)]) acc
    else
      let prevSame := (done.filter fun d => d.1 == info ∧ d.1.w != 0 ∧ d.1.h != 0).reverse.map (·.2)
      match encodeChannel sb tree wp idx stream c prevSame with
      | none => none
      | some toks => encodeChannels sb tree wp stream rest (idx + 1) (done ++ [(info, c)]) (acc ++ toks)

end Jxl.Modular
