import JxlModel.Model.Modular.Tree
import JxlModel.Model.Modular.Transform
/-!
# Modular sub-image decoding at the token level (`jxl-modular/src/image.rs`)

The entropy layer is abstracted: the decoder consumes a list of already hybrid-integer-decoded
values (`tokens`); which distribution each one was read with is recorded by the encoder
(`encodeChannel` returns `(ctx, token)` pairs) and is the business of property C04.
-/
namespace Jxl.Modular

def flatUsesSC (nodes : Array FlatNode) : Bool :=
  nodes.any fun
    | .fused p0 _ pl pr _ _ _ => p0 == 15 || pl == 15 || pr == 15
    | .table p _ _ => p == 15
    | .leaf l => l.pred == 6

def flatMaxPrev (nodes : Array FlatNode) : Nat :=
  nodes.foldl (fun m n =>
    let f := fun (p : Nat) => if p ≥ 16 then (p - 16) / 4 + 1 else 0
    match n with
    | .fused p0 _ pl pr _ _ _ => max m (max (f p0) (max (f pl) (f pr)))
    | .table p _ _ => max m (f p)
    | .leaf _ => m) 0

structure DecState where
  ps : PState
  chan : Chan
  tokens : List Nat
  deriving Inhabited

/-- property lookup as `Properties::get` does it -/
def propsFn (cached : List Int) (prev : List Chan) (x y : Nat) (k : Nat) : Int :=
  if k < 16 then cached.getD k 0 else propExtra prev x y (k - 16)

/-- decode one sample at the state's `(x, y)`; `none` = tokens exhausted (EOF) or broken tree -/
def decodeSample (sb : SBits) (flat : Array FlatNode) (prev : List Chan) (st : DecState) :
    Option DecState :=
  let scp := st.ps.scPredict
  let cached := st.ps.props scp
  let x := st.ps.x
  let y := st.ps.y
  match getLeaf flat (propsFn cached prev x y), st.tokens with
  | some leaf, tok :: rest =>
    let diff := sMulAdd sb (sUnpack sb tok) leaf.mul leaf.offset
    let pred := predictImpl leaf.pred st.ps scp
    let v := sAdd sb diff (sFromI32 sb pred)
    some { ps := st.ps.record scp v, chan := st.chan.set x y v, tokens := rest }
  | _, _ => none

def decodeSamples (sb : SBits) (flat : Array FlatNode) (prev : List Chan) :
    Nat → DecState → Option DecState
  | 0, st => some st
  | n + 1, st =>
    match decodeSample sb flat prev st with
    | none => none
    | some st' => decodeSamples sb flat prev n st'

/-- decode one channel of a sub-image -/
def decodeChannel (sb : SBits) (tree : Tree) (wp : Wp) (chanIdx stream : Nat)
    (info : ChanInfo) (prevSame : List Chan) (tokens : List Nat) : Option (Chan × List Nat) :=
  let flat := flatten chanIdx stream prevSame.length tree
  let wpo := if flatUsesSC flat then some wp else none
  let prev := prevSame.take (flatMaxPrev flat)
  let st : DecState := { ps := PState.reset info.w wpo, chan := Chan.zero info.w info.h, tokens }
  (decodeSamples sb flat prev (info.w * info.h) st).map fun st => (st.chan, st.tokens)

/-- `decode_inner`: all channels of a sub-image in order. `done` = (info, decoded) so far. -/
def decodeChannels (sb : SBits) (tree : Tree) (wp : Wp) (stream : Nat) :
    List ChanInfo → Nat → List (ChanInfo × Chan) → List Nat → Option (List Chan × List Nat)
  | [], _, done, tokens => some (done.map (·.2), tokens)
  | info :: rest, idx, done, tokens =>
    if info.w == 0 ∨ info.h == 0 then
      decodeChannels sb tree wp stream rest (idx + 1) (done ++ [(info, Chan.zero info.w info.h)]) tokens
    else
      -- earlier channels with identical geometry, most recent first
      let prevSame := (done.filter fun d => d.1 == info ∧ d.1.w != 0 ∧ d.1.h != 0).reverse.map (·.2)
      match decodeChannel sb tree wp idx stream info prevSame tokens with
      | none => none
      | some (c, tokens') =>
        decodeChannels sb tree wp stream rest (idx + 1) (done ++ [(info, c)]) tokens'

/-! ## Encoder side (token level) -/

/-- choose the token that makes the decoder reproduce `v`; `none` if the leaf cannot express it -/
def encodeResidual (sb : SBits) (leaf : Leaf) (pred v : Int) : Option Nat :=
  let r := wrap sb (v - wrap sb pred - leaf.offset)
  let q : Option Int :=
    if leaf.mul == 0 then none
    else if r % (leaf.mul : Int) == 0 then some (r / (leaf.mul : Int))
    else none
  match q with
  | none => none
  | some q =>
    let tok := packSigned q
    if tok < 2 ^ 32 ∧ sAdd sb (sMulAdd sb (sUnpack sb tok) leaf.mul leaf.offset) (sFromI32 sb pred) == v
    then some tok else none

structure EncState where
  ps : PState
  out : List (Nat × Nat)   -- (ctx, token), reversed
  deriving Inhabited

def encodeSample (sb : SBits) (flat : Array FlatNode) (prev : List Chan) (c : Chan)
    (st : EncState) : Option EncState :=
  let scp := st.ps.scPredict
  let cached := st.ps.props scp
  let x := st.ps.x
  let y := st.ps.y
  match getLeaf flat (propsFn cached prev x y) with
  | none => none
  | some leaf =>
    let v := c.get x y
    let pred := predictImpl leaf.pred st.ps scp
    match encodeResidual sb leaf pred v with
    | none => none
    | some tok => some { ps := st.ps.record scp v, out := (leaf.ctx, tok) :: st.out }

def encodeSamples (sb : SBits) (flat : Array FlatNode) (prev : List Chan) (c : Chan) :
    Nat → EncState → Option EncState
  | 0, st => some st
  | n + 1, st =>
    match encodeSample sb flat prev c st with
    | none => none
    | some st' => encodeSamples sb flat prev c n st'

def encodeChannel (sb : SBits) (tree : Tree) (wp : Wp) (chanIdx stream : Nat)
    (c : Chan) (prevSame : List Chan) : Option (List (Nat × Nat)) :=
  let flat := flatten chanIdx stream prevSame.length tree
  let wpo := if flatUsesSC flat then some wp else none
  let prev := prevSame.take (flatMaxPrev flat)
  let st : EncState := { ps := PState.reset c.w wpo, out := [] }
  (encodeSamples sb flat prev c (c.w * c.h) st).map fun st => st.out.reverse

def encodeChannels (sb : SBits) (tree : Tree) (wp : Wp) (stream : Nat) :
    List (ChanInfo × Chan) → Nat → List (ChanInfo × Chan) → List (Nat × Nat) →
    Option (List (Nat × Nat))
  | [], _, _, acc => some acc
  | (info, c) :: rest, idx, done, acc =>
    if info.w == 0 ∨ info.h == 0 then
      encodeChannels sb tree wp stream rest (idx + 1) (done ++ [(info, c)]) acc
    else
      let prevSame := (done.filter fun d => d.1 == info ∧ d.1.w != 0 ∧ d.1.h != 0).reverse.map (·.2)
      match encodeChannel sb tree wp idx stream c prevSame with
      | none => none
      | some toks => encodeChannels sb tree wp stream rest (idx + 1) (done ++ [(info, c)]) (acc ++ toks)

end Jxl.Modular
