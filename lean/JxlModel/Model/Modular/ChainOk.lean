import JxlModel.Model.Modular.Image
/-!
# Well-formedness predicates for the transform chain round trip (property C03)

Executable hypotheses of `C03_transform_chain_inv_fwd` (`Props/C03.lean`): what a channel list
must satisfy so that the decoder's inverse transforms (wrapping arithmetic at the sample width,
`inverseOne`) undo the reference encoder's forward transforms (exact integers, `forwardOne`).
Nothing here is used by the decoder model; the functions `squeezeFwdStep` / `paletteIndexOf` only
name pieces of `forwardOne` (equal to them by `rfl`, `Proofs/TransformChain.lean`).
-/
namespace Jxl.Modular

/-- `v` is representable in the sample type (`i16` / `i32` for `sb = 16 / 32`): exactly the
values on which `wrap sb` is the identity -/
def inRange (sb : SBits) (v : Int) : Bool :=
  decide (0 < sb) && decide (-(2 : Int) ^ (sb - 1) ≤ v) && decide (v < (2 : Int) ^ (sb - 1))

/-- one bit of headroom: `-2^(sb-2) ≤ v < 2^(sb-2)`. Sums and differences of two such values are
representable, so channels whose samples all have headroom satisfy the RCT and squeeze conditions
(`rctTripleOk_of_headroom`, `sqLineOk_of_headroom`) -/
def inHeadroom (sb : SBits) (v : Int) : Bool :=
  decide (2 ≤ sb) && decide (-(2 : Int) ^ (sb - 2) ≤ v) && decide (v < (2 : Int) ^ (sb - 2))

/-- the sample buffer has exactly `w * h` entries -/
def Chan.wf (c : Chan) : Bool := c.data.size == c.w * c.h

/-- same width and height -/
def Chan.sameDims (a b : Chan) : Bool := a.w == b.w && a.h == b.h

/-! ## RCT -/

/-- one (already permuted) original triple `(d, e, f)` survives RCT type `ty`: the three samples
are representable, and for the types 4 and 5 (`ty / 2 = 2`), whose inverse halves the *computed*
sum `a + f = d + f` in wrapping arithmetic, that sum is representable too. (Type 6 halves
`d - f`-derived values only through `tmp`, which lies between `d` and `f`.) -/
def rctTripleOk (sb : SBits) (ty : Nat) (t : Int × Int × Int) : Bool :=
  inRange sb t.1 && inRange sb t.2.1 && inRange sb t.2.2 &&
    (ty / 2 != 2 || inRange sb (t.1 + t.2.2))

/-- every sample triple of the three channels is `rctTripleOk` (range condition only) -/
def rctRangeOk (sb : SBits) (rctType : Nat) (x y z : Chan) : Bool :=
  (List.range x.data.size).all fun i =>
    rctTripleOk sb (rctType % 7)
      (rctFwdPermute (rctType / 7) (x.data.getD i 0, y.data.getD i 0, z.data.getD i 0))

/-- the three channels have equally many samples and every triple is `rctTripleOk` -/
def rctChanOk (sb : SBits) (rctType : Nat) (x y z : Chan) : Bool :=
  x.data.size == y.data.size && x.data.size == z.data.size && rctRangeOk sb rctType x y z

/-! ## Squeeze -/

/-- one line survives squeeze: for every pair `(a, b)` at positions `(2k, 2k+1)` the two samples
and their difference are representable (the inverse computes `diff = a - b`, then `a`, then `b`,
each wrapped). A lone last sample is copied. -/
def sqLineOk (sb : SBits) : List Int → Bool
  | a :: b :: rest => inRange sb a && inRange sb b && inRange sb (a - b) && sqLineOk sb rest
  | _ => true

/-- all rows (horizontal) / columns (vertical) of the channel are `sqLineOk` (range condition only) -/
def sqChanLinesOk (sb : SBits) (horizontal : Bool) (c : Chan) : Bool :=
  if horizontal then (List.range c.h).all fun y => sqLineOk sb (c.row y)
  else (List.range c.w).all fun x => sqLineOk sb (c.col x)

/-- a well-formed channel all of whose rows (horizontal) / columns (vertical) are `sqLineOk` -/
def sqChanOk (sb : SBits) (horizontal : Bool) (c : Chan) : Bool :=
  c.wf && sqChanLinesOk sb horizontal c

/-- the body of the fold in `forwardOne … (.squeeze ps)` -/
def squeezeFwdStep (sb : SBits) (chans : List Chan) (sp : SqueezeParam) : List Chan :=
  let b := sp.beginC
  let n := sp.numC
  let e := b + n
  let pairs := (List.range n).map fun i => squeezeChan sb sp.horizontal (chans.getD (b + i) default)
  let kept := pairs.map (·.1)
  let residu := pairs.map (·.2)
  if sp.inPlace then chans.take b ++ kept ++ residu ++ chans.drop e
  else chans.take b ++ kept ++ chans.drop e ++ residu

/-- one squeeze step: the channel range exists (`Squeeze::transform_channel_info` rejects the
step otherwise) and every channel in it is `sqChanOk` -/
def sqStepOk (sb : SBits) (chans : List Chan) (sp : SqueezeParam) : Bool :=
  decide (sp.beginC + sp.numC ≤ chans.length) &&
    ((chans.drop sp.beginC).take sp.numC).all (sqChanOk sb sp.horizontal)

/-- every step of a squeeze transform is `sqStepOk` on the channel list it is applied to -/
def sqStepsOk (sb : SBits) : List SqueezeParam → List Chan → Bool
  | [], _ => true
  | sp :: ps, chans => sqStepOk sb chans sp && sqStepsOk sb ps (squeezeFwdStep sb chans sp)

/-! ## Palette -/

/-- the channel range `b .. b + n` exists and its channels are well-formed with the dimensions
of channel `b` (what `Palette::transform_channel_info` checks on the channel list) -/
def palChansOk (b n : Nat) (chans : List Chan) : Bool :=
  decide (b + n ≤ chans.length) &&
    match chans[b]? with
    | none => false
    | some c0 => ((chans.drop b).take n).all fun c => c.wf && c.sameDims c0

/-! ## one transform, the chain -/

/-- hypotheses for one (resolved) transform on the channel list it is applied to -/
def stepOk (sb : SBits) (chans : List Chan) : Transform → Bool
  | .rct b t =>
    match chans[b]?, chans[b + 1]?, chans[b + 2]? with
    | some x, some y, some z => rctChanOk sb t x y z
    | _, _, _ => false
  | .palette b n _ _ _ => palChansOk b n chans
  | .squeeze ps => sqStepsOk sb ps chans

/-- hypotheses for a whole chain: `stepOk` for every transform, each on the channel list the
forward transforms before it produce (same recursion as `forwardAll`) -/
def chainOk (sb : SBits) : List Transform → List Chan → List Chan → Bool
  | [], _, _ => true
  | t :: ts, pals, chans =>
    stepOk sb chans t &&
      match forwardOne sb chans (match t, pals with
          | .palette .., p :: _ => some p
          | _, _ => none) t with
      | none => true
      | some chans' => chainOk sb ts (match t, pals with
          | .palette .., _ :: ps => ps
          | _, ps => ps) chans'

/-! ## range conditions only

For channel lists that come out of the pipeline (dimensions as `transformInfoAll` says, buffers
well-formed) the structural parts of `stepOk` hold by themselves (`chainOk_of_range`,
`Proofs/TransformChain.lean`); what remains are the conditions on sample values. -/

def sqStepsRangeOk (sb : SBits) : List SqueezeParam → List Chan → Bool
  | [], _ => true
  | sp :: ps, chans =>
    ((chans.drop sp.beginC).take sp.numC).all (sqChanLinesOk sb sp.horizontal) &&
      sqStepsRangeOk sb ps (squeezeFwdStep sb chans sp)

/-- the value conditions of `stepOk`: none for palette -/
def stepRangeOk (sb : SBits) (chans : List Chan) : Transform → Bool
  | .rct b t =>
    match chans[b]?, chans[b + 1]?, chans[b + 2]? with
    | some x, some y, some z => rctRangeOk sb t x y z
    | _, _, _ => true
  | .palette .. => true
  | .squeeze ps => sqStepsRangeOk sb ps chans

/-- the value conditions of `chainOk` -/
def chainRangeOk (sb : SBits) : List Transform → List Chan → List Chan → Bool
  | [], _, _ => true
  | t :: ts, pals, chans =>
    stepRangeOk sb chans t &&
      match forwardOne sb chans (match t, pals with
          | .palette .., p :: _ => some p
          | _, _ => none) t with
      | none => true
      | some chans' => chainRangeOk sb ts (match t, pals with
          | .palette .., _ :: ps => ps
          | _, ps => ps) chans'

/-! ## channel bookkeeping: sample grids versus `transformInfo` -/

def Chan.dims (c : Chan) : Nat × Nat := (c.w, c.h)
def ChanInfo.dims (i : ChanInfo) : Nat × Nat := (i.w, i.h)

/-- the channels have exactly the dimensions the channel list says (as many, in the same order):
the check `encodeFrame` makes at run time between the forward transforms' output and
`transformInfoAll`'s result -/
def dimsMatch (chans : List Chan) (infos : List ChanInfo) : Bool :=
  chans.map Chan.dims == infos.map ChanInfo.dims

def allWf (chans : List Chan) : Bool := chans.all Chan.wf

/-- the palette table handed to a palette transform is a well-formed `nbColours × numC` grid
(the meta channel `transformInfo` puts in front of the list); no condition for other transforms -/
def palTableOk (pal : Option Chan) : Transform → Bool
  | .palette _ n nbc _ _ =>
    match pal with
    | some p => p.wf && p.w == nbc && p.h == n
    | none => false
  | _ => true

/-- `palTableOk` along a chain (tables consumed as in `forwardAll`) -/
def palTablesOk : List Transform → List Chan → Bool
  | [], _ => true
  | t :: ts, pals =>
    match t, pals with
    | .palette .., p :: ps => palTableOk (some p) t && palTablesOk ts ps
    | .palette .., [] => false
    | _, ps => palTablesOk ts ps

end Jxl.Modular
