import JxlModel.Model.Modular.Decode
/-!
# Whole Modular image: transform chain on sample data (`TransformInfo::inverse`, encoder forward)
-/
namespace Jxl.Modular

def listSet {α} (l : List α) (i : Nat) (v : α) : List α := l.set i v

/-- delta-prediction pass of `Palette::inverse_inner` on one channel: at pixels whose index is
below `nbDeltas` the predictor's value (computed from the channel as updated so far) is added -/
def paletteDeltaPass (sb : SBits) (dPred : Nat) (wp : Wp) (isDelta : Nat → Nat → Bool) (c : Chan) : Chan :=
  let wpo := if dPred == 6 then some wp else none
  let step := fun (st : PState × Chan) (i : Nat) =>
    let (ps, ch) := st
    let x := i % c.w
    let y := i / c.w
    let scp := ps.scPredict
    let v := ch.get x y
    -- Rust records the i32 value and stores its truncation to the sample type
    let v32 := if isDelta x y then wrap32 (v + predictImpl dPred ps scp) else v
    let v' := if isDelta x y then sFromI32 sb v32 else v
    (ps.record scp v32, ch.set x y v')
  ((List.range (c.w * c.h)).foldl step (PState.reset c.w wpo, c)).2

/-- inverse of one (resolved) transform on the coded channel list -/
def inverseOne (sb : SBits) (bitDepth : Nat) (wp : Wp) (chans : List Chan) : Transform → List Chan
  | .rct b t =>
    match chans[b]?, chans[b + 1]?, chans[b + 2]? with
    | some a, some bb, some c =>
      let (x, y, z) := rctInverse sb t a bb c
      ((chans.set b x).set (b + 1) y).set (b + 2) z
    | _, _, _ => chans
  | .palette b n nbc nbd dp =>
    match chans with
    | [] => chans
    | pal :: rest =>
      match rest[b]? with
      | none => chans
      | some idx =>
        let isDelta : Nat → Nat → Bool := fun x y => decide (idx.get x y < (nbd : Int))
        let outs : List Chan := (List.range n).map fun c =>
          let base := Chan.ofFn idx.w idx.h fun x y => paletteValue sb pal nbc bitDepth (idx.get x y) c
          let anyDelta := (List.range (idx.w * idx.h)).any fun i => isDelta (i % idx.w) (i / idx.w)
          if anyDelta then paletteDeltaPass sb dp wp isDelta base else base
        rest.take b ++ outs ++ rest.drop (b + 1)
  | .squeeze ps =>
    ps.reverse.foldl (fun chans sp =>
      let b := sp.beginC
      let n := sp.numC
      let e := b + n
      let (residu, chans) :=
        if sp.inPlace then ((chans.drop e).take n, chans.take e ++ chans.drop (e + n))
        else (chans.drop (chans.length - n), chans.take (chans.length - n))
      let merged := (List.range n).map fun i =>
        unsqueezeChan sb sp.horizontal (chans.getD (b + i) default) (residu.getD i default)
      chans.take b ++ merged ++ chans.drop e) chans

def inverseAll (sb : SBits) (bitDepth : Nat) (wp : Wp) (ts : List Transform) (chans : List Chan) : List Chan :=
  ts.reverse.foldl (inverseOne sb bitDepth wp) chans

/-- forward of one (resolved) transform; palette needs the palette table (`pals` supplies one per
palette transform, consumed in order) and maps every pixel to the first matching explicit entry
that is **not a delta entry** (`nbDeltas ≤ k < nbColours`: the decoder adds a prediction to every
pixel whose index is below `nbDeltas`, and this encoder never codes prediction residuals through
the palette; before this restriction the search started at 0 and a chain with `nbDeltas > 0` was
accepted although the decoder does not give the pixels back — `Props/C03.lean`,
`C03_palette_forward_needs_nondelta`) -/
def forwardOne (sb : SBits) (chans : List Chan) (pal : Option Chan) : Transform → Option (List Chan)
  | .rct b t =>
    match chans[b]?, chans[b + 1]?, chans[b + 2]? with
    | some x, some y, some z =>
      let (a, bb, c) := rctForward t x y z
      some (((chans.set b a).set (b + 1) bb).set (b + 2) c)
    | _, _, _ => none
  | .palette b n nbc nbd _ =>
    match pal, chans[b]? with
    | some pal, some c0 =>
      let srcs := (chans.drop b).take n
      let find := fun (x y : Nat) =>
        (List.range nbc).find? fun k =>
          decide (nbd ≤ k) && (List.range n).all fun c => (srcs.getD c default).get x y == pal.get k c
      let idxs := (List.range (c0.w * c0.h)).map fun i => find (i % c0.w) (i / c0.w)
      if idxs.all Option.isSome then
        let idx : Chan := { w := c0.w, h := c0.h, data := (idxs.map fun o => ((o.getD 0 : Nat) : Int)).toArray }
        some (pal :: (chans.take b ++ [idx] ++ chans.drop (b + n)))
      else none
    | _, _ => none
  | .squeeze ps =>
    some <| ps.foldl (fun chans sp =>
      let b := sp.beginC
      let n := sp.numC
      let e := b + n
      let pairs := (List.range n).map fun i => squeezeChan sb sp.horizontal (chans.getD (b + i) default)
      let kept := pairs.map (·.1)
      let residu := pairs.map (·.2)
      if sp.inPlace then chans.take b ++ kept ++ residu ++ chans.drop e
      else chans.take b ++ kept ++ chans.drop e ++ residu) chans

def forwardAll (sb : SBits) : List Transform → List Chan → List Chan → Option (List Chan)
  | [], _, chans => some chans
  | t :: ts, pals, chans =>
    let (pal, pals') := match t, pals with
      | .palette .., p :: ps => (some p, ps)
      | _, ps => (none, ps)
    match forwardOne sb chans pal t with
    | none => none
    | some chans' => forwardAll sb ts pals' chans'

end Jxl.Modular
