import JxlModel.Model.Container
/-!
# Incremental feeding above the container layer (C09) and prefix behaviour (C11)

Mirrors, in `crates/jxl-oxide/src/lib.rs`, `UninitializedJxlImage::{feed_bytes, try_init}`,
`JxlImage::feed_bytes`, `JxlImageInner::feed_bytes_inner`, `JxlImageBuilder::read`; in
`crates/jxl-frame/src/lib.rs`, `Frame::feed_bytes`, `is_loading_done`, the single-section
`AllGroupOffsets` cache with `has_error` and the `allow_partial` derivations of
`try_parse_lf_global / lf_group / hf_global / pass_group_bitstream`; in
`crates/jxl-render/src/lib.rs`, `load_frame_header`, `finalize_current_frame`,
`render_loading_keyframe`, `render_loading_frame`; in `crates/jxl-modular/src/image.rs`, the
partial rule of `decode`.

The bit-level parsers (image header + ICC, preview frame, frame header + TOC) enter as
*abstract functions of the bytes available*, `Bytes → Res α`, constrained by `PrefixStable`;
section decoders enter as abstract classifications of the bytes available (`SecOut`).
Everything else — buffer carry-over, `buffer_offset`, `frame_offsets`, section-by-section filling,
end-of-image detection, trailing bytes, the retry-from-start of `try_init`, the 4096-byte loop of
`read()` — is modelled as the code does it.

Only `JxlModel.Model.Container` is imported (the container layer the feeding API sits on).
-/
namespace Jxl.Feed
open Jxl.Container (Bytes)

/-! ## Abstract parsers -/

/-- Result of running a header-level parser on the bytes available so far:
`Ok(value)` having read `used` whole bytes, an error for which `unexpected_eof()` holds
(`needMore`), or any other error (`err`). -/
inductive Res (α : Type) where
  | ok (v : α) (used : Nat)
  | needMore
  | err
deriving DecidableEq, Repr

/-- *Prefix stability* of a parser: what it says on a buffer it keeps saying on every extension
of that buffer, unless it asked for more data.  (`needMore_of_append` in `Proofs/Feed.lean` is the
third, derived, form: `needMore` on `a ++ b` means `needMore` on `a`.) -/
structure PrefixStable {α : Type} (p : Bytes → Res α) : Prop where
  /-- `ok` on a prefix stays the same `ok` on any extension -/
  ok_ext : ∀ a b v n, p a = .ok v n → p (a ++ b) = .ok v n
  /-- a parser reads no more bytes than it was given -/
  ok_le : ∀ a v n, p a = .ok v n → n ≤ a.length
  /-- a hard error is stable -/
  err_ext : ∀ a b, p a = .err → p (a ++ b) = .err

/-- What the feeding logic uses of a parsed frame header + TOC (`Frame::parse`). -/
structure FrameInfo where
  /-- `toc.iter_bitstream_order()`: section sizes in bitstream order -/
  sizes : List Nat
  /-- `header.is_last` -/
  isLast : Bool
  /-- `header.is_keyframe()` -/
  isKeyframe : Bool
  /-- everything else in the header, opaque -/
  tag : Nat
deriving DecidableEq, Repr

/-- The parsers the feeding logic calls. `Hdr` is the parsed image header (with ICC). -/
structure Parsers (Hdr : Type) where
  /-- `ImageHeader::parse`, `read_icc` + `decode_icc` if wanted, `zero_pad_to_byte`;
  `used` = bytes up to and including the padding -/
  head : Bytes → Res Hdr
  /-- `image_header.metadata.preview.is_some()` -/
  hasPreview : Hdr → Bool
  /-- `Frame::parse` of the preview frame (header + TOC) on the bytes after the image header -/
  preview : Hdr → Bytes → Res FrameInfo
  /-- `RenderContext::load_frame_header`: `Frame::parse` + the LF-frame-exists check; the context
  is the image header and the frames loaded so far -/
  frame : Hdr → List FrameInfo → Bytes → Res FrameInfo

/-- The hypotheses on the parsers: all prefix stable; a frame header occupies at least one byte. -/
structure Parsers.Stable {Hdr : Type} (P : Parsers Hdr) : Prop where
  head : PrefixStable P.head
  preview : ∀ h, PrefixStable (P.preview h)
  frame : ∀ h fs, PrefixStable (P.frame h fs)
  frame_pos : ∀ h fs a v n, P.frame h fs a = .ok v n → 0 < n

/-! ## `Frame::feed_bytes` -/

/-- A frame being loaded: `data[..reading_data_index]` are `filled`, `data[reading_data_index]`
has received `cur`, `pending` are the sizes of `data[reading_data_index..]`. -/
structure FrameSt where
  info : FrameInfo
  filled : List Bytes
  cur : Bytes
  pending : List Nat
deriving DecidableEq, Repr

/-- fresh frame as `Frame::parse` leaves it: no data, `reading_data_index = 0` -/
def FrameSt.new (fi : FrameInfo) : FrameSt := ⟨fi, [], [], fi.sizes⟩

/-- `Frame::is_loading_done`: `reading_data_index >= data.len()` -/
def FrameSt.done (f : FrameSt) : Bool := f.pending.isEmpty

/-- the section bytes received so far, in bitstream order (the current one possibly partial) -/
def FrameSt.sections (f : FrameSt) : List Bytes :=
  if f.pending.isEmpty then f.filled else f.filled ++ [f.cur]

/-- result of the `while let Some(group_data)` loop of `Frame::feed_bytes` -/
structure Fill where
  filled : List Bytes
  cur : Bytes
  pending : List Nat
  rest : Bytes
deriving DecidableEq, Repr

/-- `Frame::feed_bytes`: section by section; a section that cannot be completed takes the whole
buffer (`return Ok(&[])`), a completed one advances `reading_data_index`; zero-size sections
complete without input. -/
def fill : List Bytes → Bytes → List Nat → Bytes → Fill
  | filled, cur, [], buf => ⟨filled, cur, [], buf⟩
  | filled, cur, sz :: more, buf =>
    if buf.length < sz - cur.length then ⟨filled, cur ++ buf, sz :: more, []⟩
    else fill (filled ++ [cur ++ buf.take (sz - cur.length)]) [] more (buf.drop (sz - cur.length))

def FrameSt.feed (f : FrameSt) (buf : Bytes) : FrameSt × Bytes :=
  let r := fill f.filled f.cur f.pending buf
  (⟨f.info, r.filled, r.cur, r.pending⟩, r.rest)

/-! ## `JxlImageInner::feed_bytes_inner` (with the `RenderContext` frame list) -/

/-- `JxlImageInner` + the parts of `RenderContext` the feeding logic touches. -/
structure Inner (Hdr : Type) where
  hdr : Hdr
  /-- `ctx.frames`: completely loaded frames, in order -/
  frames : List FrameSt
  /-- `ctx.loading_frame` -/
  loading : Option FrameSt
  /-- carry-over: bytes received but not yet attributable to a complete frame header; after
  `end_of_image`, everything that followed the last frame -/
  buffer : Bytes
  /-- absolute codestream offset of the next byte to attribute -/
  bufferOffset : Nat
  frameOffsets : List Nat
  endOfImage : Bool
deriving DecidableEq, Repr

/-- state built at the end of `try_init` -/
def Inner.init {Hdr : Type} (h : Hdr) (bytesRead : Nat) : Inner Hdr :=
  ⟨h, [], none, [], bytesRead, [], false⟩

def Inner.infos {Hdr : Type} (st : Inner Hdr) : List FrameInfo := st.frames.map (·.info)

/-- The `while !buf.is_empty()` loop of `feed_bytes_inner`. `none` = `Err(_)` (or one of the two
panics the code has here: `another frame is still loading`, slicing past the buffer; both are
shown unreachable for prefix-stable parsers).  Fuel: one unit per iteration; `loop` supplies
`buf.length + 1`, which is never exhausted (`loopN_fuel`). -/
def loopN {Hdr : Type} (P : Parsers Hdr) : Nat → Inner Hdr → Bytes → Option (Inner Hdr)
  | 0, _, _ => none
  | fuel + 1, st, buf =>
    if buf.isEmpty then some { st with buffer := [] }               -- `self.buffer.clear()`
    else
      match P.frame st.hdr st.infos buf with
      | .needMore => some { st with buffer := buf }                  -- `self.buffer = buf.to_vec()`
      | .err => none
      | .ok fi n =>
        let offs := st.frameOffsets ++ [st.bufferOffset]
        let r := (FrameSt.new fi).feed (buf.drop n)
        let off := st.bufferOffset + (n + ((buf.drop n).length - r.2.length))
        if r.1.done then
          -- `ctx.finalize_current_frame()`
          let st' : Inner Hdr :=
            { st with frames := st.frames ++ [r.1], loading := none, frameOffsets := offs,
                      bufferOffset := off }
          if fi.isLast then some { st' with endOfImage := true, buffer := r.2 }
          else loopN P fuel st' r.2
        else if r.2.isEmpty then
          some { st with loading := some r.1, frameOffsets := offs, bufferOffset := off,
                         buffer := [] }
        else none   -- next iteration would panic: "another frame is still loading"

def loop {Hdr : Type} (P : Parsers Hdr) (st : Inner Hdr) (buf : Bytes) : Option (Inner Hdr) :=
  loopN P (buf.length + 1) st buf

/-- `JxlImageInner::feed_bytes_inner` -/
def feedInner {Hdr : Type} (P : Parsers Hdr) (st : Inner Hdr) (buf : Bytes) : Option (Inner Hdr) :=
  if buf.isEmpty then some st
  else if st.endOfImage then some { st with buffer := st.buffer ++ buf }
  else
    match st.loading with
    | some lf =>
      let r := lf.feed buf
      let off := st.bufferOffset + (buf.length - r.2.length)
      if r.1.done then
        let st' : Inner Hdr :=
          { st with frames := st.frames ++ [r.1], loading := none, bufferOffset := off }
        if r.1.info.isLast then some { st' with endOfImage := true, buffer := r.2 }
        else if r.2.isEmpty then some st'
        else loop P st' (st'.buffer ++ r.2)
      else if r.2.isEmpty then some { st with loading := some r.1, bufferOffset := off }
      else none     -- `load_frame_header` would panic: "another frame is still loading"
    | none => loop P st (st.buffer ++ buf)

/-- successive `feed_bytes_inner` calls; stops at the first error -/
def feedInnerAll {Hdr : Type} (P : Parsers Hdr) (st : Inner Hdr) : List Bytes → Option (Inner Hdr)
  | [] => some st
  | c :: cs =>
    match feedInner P st c with
    | some st' => feedInnerAll P st' cs
    | none => none

/-! ## `UninitializedJxlImage::try_init` -/

/-- The parsing part of `try_init` on the buffered codestream `u` (always from its start):
image header, then — if there is a preview — the preview frame header and the check that all of
the preview's sections are buffered.  `used` = `bytes_read` (what `drain(..bytes_read)` removes). -/
def initParse {Hdr : Type} (P : Parsers Hdr) (u : Bytes) : Res Hdr :=
  match P.head u with
  | .needMore => .needMore
  | .err => .err
  | .ok h n =>
    if P.hasPreview h then
      match P.preview h (u.drop n) with
      | .needMore => .needMore
      | .err => .err
      | .ok fi m =>
        if u.length < n + m + fi.sizes.sum then .needMore else .ok h (n + m + fi.sizes.sum)
    else .ok h n

/-- The decoder object as the caller holds it. -/
inductive Dec (Hdr : Type) where
  /-- `UninitializedJxlImage` with its codestream `buffer` -/
  | uninit (u : Bytes)
  /-- `JxlImage` -/
  | ready (inner : Inner Hdr)
  /-- an `Err(_)` was returned; the object is not used any more -/
  | dead
deriving DecidableEq, Repr

/-- `try_init`: `NeedMoreData(self)` leaves everything as it was, `Initialized` hands the
remaining bytes to `feed_bytes_inner`. -/
def tryInit {Hdr : Type} (P : Parsers Hdr) : Dec Hdr → Dec Hdr
  | .uninit u =>
    match initParse P u with
    | .needMore => .uninit u
    | .err => .dead
    | .ok h off =>
      match feedInner P (Inner.init h off) (u.drop off) with
      | some i => .ready i
      | none => .dead
  | d => d

/-- a `ParseEvent::Codestream(buf)` arrives -/
def addCs {Hdr : Type} (P : Parsers Hdr) (d : Dec Hdr) (bytes : Bytes) : Dec Hdr :=
  match d with
  | .uninit u => .uninit (u ++ bytes)
  | .ready i =>
    match feedInner P i bytes with
    | some i' => .ready i'
    | none => .dead
  | .dead => .dead

/-! ## The feeding API on top of the container parser -/

open Jxl.Container in
/-- the `for event in self.reader.feed_bytes(buf)` loop of both `feed_bytes` functions, as far as
the codestream is concerned (auxiliary-box events go to `AuxBoxList`, see `Sess.aux`) -/
def applyEvents {Hdr : Type} (P : Parsers Hdr) (d : Dec Hdr) : List Event → Dec Hdr
  | [] => d
  | .codestream b :: evs => applyEvents P (addCs P d b) evs
  | _ :: evs => applyEvents P d evs

open Jxl.Container in
/-- the same on the byte-granular normal form of the events -/
def applyToks {Hdr : Type} (P : Parsers Hdr) (d : Dec Hdr) : List Tok → Dec Hdr
  | [] => d
  | .cs b :: ts => applyToks P (addCs P d [b]) ts
  | _ :: ts => applyToks P d ts

/-- A decoding session as the caller drives it. -/
structure Sess (Hdr : Type) where
  /-- `reader: ContainerParser` -/
  cp : Container.PState
  /-- bytes the last call did not consume; the caller offers them again -/
  pending : Bytes
  dec : Dec Hdr
  /-- every event so far, flattened (`AuxBoxList` sees the non-codestream ones; `Container.auxOf`
  reads the auxiliary boxes off this list) -/
  aux : List Container.Tok
deriving DecidableEq, Repr

def Sess.init {Hdr : Type} : Sess Hdr := ⟨Container.init, [], .uninit [], []⟩

/-- One round of the documented calling protocol: offer the unconsumed bytes followed by the new
chunk to `feed_bytes`; keep what was not consumed; while uninitialised call `try_init`.
A container error or an `Err` of the codestream layer kills the session. -/
def Sess.push {Hdr : Type} (P : Parsers Hdr) (S : Sess Hdr) (chunk : Bytes) : Sess Hdr :=
  match S.dec with
  | .dead => S
  | d =>
    let r := Container.feed S.cp (S.pending ++ chunk)
    let d1 := applyEvents P d r.events
    ⟨r.state, if r.error.isSome then [] else r.rest,
     if r.error.isSome then .dead else tryInit P d1,
     S.aux ++ Container.toks r.events⟩

def Sess.pushAll {Hdr : Type} (P : Parsers Hdr) (S : Sess Hdr) (chunks : List Bytes) : Sess Hdr :=
  chunks.foldl (Sess.push P) S

/-- What a caller can observe of a session (C09's observable): nothing but `dead` after an error;
otherwise the container kind, the bytes still to be re-offered, the auxiliary boxes delivered so
far, and the decoder: image header, loaded frames and keyframes, frame offsets, the bytes every
section of every frame has received, the completion flag and the bytes left over after the
last frame. -/
inductive Obs (Hdr : Type) where
  | dead
  | uninit (kind : Container.Kind) (pending : Bytes) (aux : List Container.AuxBox) (buffered : Bytes)
  | ready (kind : Container.Kind) (pending : Bytes) (aux : List Container.AuxBox)
      (hdr : Hdr) (numFrames numKeyframes : Nat) (frameOffsets : List Nat)
      (sections : List (List Bytes)) (loadingSections : Option (List Bytes))
      (done : Bool) (leftover : Bytes)
deriving DecidableEq, Repr

def Inner.numKeyframes {Hdr : Type} (i : Inner Hdr) : Nat :=
  (i.frames.filter (·.info.isKeyframe)).length

def Sess.obs {Hdr : Type} (S : Sess Hdr) : Obs Hdr :=
  match S.dec with
  | .dead => .dead
  | .uninit u => .uninit S.cp.kind S.pending (Container.auxOf S.aux) u
  | .ready i =>
    .ready S.cp.kind S.pending (Container.auxOf S.aux) i.hdr i.frames.length i.numKeyframes
      i.frameOffsets (i.frames.map (·.sections)) (i.loading.map (·.sections)) i.endOfImage i.buffer

/-! ## `JxlImageBuilder::read` -/

/-- Result of `read()`: the session, the chunks it offered (in order), what it left unread, and
whether it gave up with "reader ended before parsing image header". -/
structure ReadRes (Hdr : Type) where
  sess : Sess Hdr
  chunks : List Bytes
  rest : Bytes
  eofBeforeInit : Bool
deriving DecidableEq, Repr

/-- `read()` on an in-memory reader: a buffer of `cap` = 4096 bytes is refilled from the stream
(`count = min(space, remaining)` with `space = cap - buf_valid`), offered to `feed_bytes`, the
unconsumed tail is moved to the front.  Before initialisation a reader that gives nothing more is
an error; afterwards reading stops when the reader gives nothing more or — in a bare codestream —
at the end of the image (in a container it goes on: auxiliary boxes may follow; this is the
`fix:` for the trailing-box defect, the old condition is `readNOld`).
Fuel: one unit per `reader.read` call; `readAll` supplies `stream.length + 2`. -/
def readN {Hdr : Type} (P : Parsers Hdr) (cap : Nat) :
    Nat → Sess Hdr → List Bytes → Bytes → ReadRes Hdr
  | 0, S, acc, stream => ⟨S, acc, stream, false⟩
  | fuel + 1, S, acc, stream =>
    match S.dec with
    | .dead => ⟨S, acc, stream, false⟩
    | .uninit _ =>
      let count := min (cap - S.pending.length) stream.length
      if count = 0 then ⟨S, acc, stream, true⟩
      else readN P cap fuel (S.push P (stream.take count)) (acc ++ [stream.take count]) (stream.drop count)
    | .ready i =>
      if i.endOfImage && S.cp.kind != .container then ⟨S, acc, stream, false⟩
      else
        let count := min (cap - S.pending.length) stream.length
        if count = 0 then ⟨S, acc, stream, false⟩
        else readN P cap fuel (S.push P (stream.take count)) (acc ++ [stream.take count]) (stream.drop count)

def readAll {Hdr : Type} (P : Parsers Hdr) (stream : Bytes) : ReadRes Hdr :=
  readN P 4096 (stream.length + 2) Sess.init [] stream

/-- the loop condition before the repair: `while !image.inner.end_of_image` for every kind of
stream, so boxes after the last frame are read only as far as they happen to be in the buffer -/
def readNOld {Hdr : Type} (P : Parsers Hdr) (cap : Nat) :
    Nat → Sess Hdr → List Bytes → Bytes → ReadRes Hdr
  | 0, S, acc, stream => ⟨S, acc, stream, false⟩
  | fuel + 1, S, acc, stream =>
    match S.dec with
    | .dead => ⟨S, acc, stream, false⟩
    | .uninit _ =>
      let count := min (cap - S.pending.length) stream.length
      if count = 0 then ⟨S, acc, stream, true⟩
      else readNOld P cap fuel (S.push P (stream.take count)) (acc ++ [stream.take count]) (stream.drop count)
    | .ready i =>
      if i.endOfImage then ⟨S, acc, stream, false⟩
      else
        let count := min (cap - S.pending.length) stream.length
        if count = 0 then ⟨S, acc, stream, false⟩
        else readNOld P cap fuel (S.push P (stream.take count)) (acc ++ [stream.take count]) (stream.drop count)

/-! ## C11: sections of the loading frame, `allow_partial`, the single-section cache -/

/-- What a section decoder (`LfGlobal::parse`, `LfGroup::parse`, `HfGlobal::parse`,
`decode_pass_group_modular`, each ending in `Modular::decode`) does on the bytes available,
classified by the predicates of the generated `Gen/EofChain.lean`: finishes, stops with an error
for which `unexpected_eof()` holds, or stops with any other error. -/
inductive SecOut where
  | complete
  | eof
  | hard
deriving DecidableEq, Repr

/-- `Modular::decode(.., allow_partial)` (image.rs): an end-of-data error inside a section that is
allowed to be partial is swallowed and leaves a partial image. -/
inductive Decoded where
  | full
  | partialImage
  | errEof
  | errHard
deriving DecidableEq, Repr

def modularDecode (allowPartial : Bool) : SecOut → Decoded
  | .complete => .full
  | .eof => if allowPartial then .partialImage else .errEof
  | .hard => .errHard

/-- multi-section frame: `allow_partial = group.bytes.len() < group.toc_group.size` -/
def allowPartialMulti (got size : Nat) : Bool := decide (got < size)

/-- single-section frame: `loaded = reading_data_index != 0`, `allow_partial = !loaded` -/
def allowPartialSingle (readingDataIndex : Nat) : Bool := readingDataIndex == 0

/-- Answer of `try_parse_lf_global` on a single-section frame and the new value of
`all_group_offsets.has_error`. `Error::HadError` once the flag is set; a non-EOF error — or any
error once the section is loaded — sets it. -/
inductive LfAnswer where
  | ok (isPartial : Bool)
  | errEof
  | errHard
  | hadError
deriving DecidableEq, Repr

def lfGlobalSingle (hasError : Nat) (loaded : Bool) (o : SecOut) : LfAnswer × Nat :=
  if hasError ≠ 0 then (.hadError, hasError)
  else
    match modularDecode (!loaded) o with
    | .full => (.ok false, 0)
    | .partialImage => (.ok true, 0)
    | .errEof => if !loaded then (.errEof, 0) else (.errEof, 1)
    | .errHard => (.errHard, 1)

/-- `try_parse_lf_global` on a multi-section frame: no cache, no flag. -/
def lfGlobalMulti (got size : Nat) (o : SecOut) : LfAnswer :=
  match modularDecode (allowPartialMulti got size) o with
  | .full => .ok false
  | .partialImage => .ok true
  | .errEof => .errEof
  | .errHard => .errHard

/-! ## C11: `render_loading_frame` result cases -/

/-- classification of `jxl_render::Error` as the API user sees it -/
inductive RErr where
  /-- `Error::IncompleteFrame` or any error with `unexpected_eof()`: need more data -/
  | needMore
  | other
deriving DecidableEq, Repr

/-- outcome of `do_render` on the loading frame (`FrameRender`) -/
inductive DoRender where
  | done
  | inProgress
  | err (e : RErr)
deriving DecidableEq, Repr

/-- `do_render`: an end-of-data / incomplete error on a frame that is still loading keeps the
cache (`InProgress`); on a completely loaded frame it is an error. -/
def doRender (frameLoaded : Bool) : Except RErr Unit → DoRender
  | .ok () => .done
  | .error .needMore => if frameLoaded then .err .needMore else .inProgress
  | .error .other => .err .other

/-- The inputs of one `render_loading_keyframe` call, abstracted to what decides its result. -/
structure LoadingView where
  /-- `self.loading_frame()` found a progressive frame (Regular or LF) in the keyframe being
  assembled (finished frames of it, then the frame being loaded) -/
  hasProgressive : Bool
  /-- `try_parse_lf_global()` is `Some(_)` for it (its first section exists) -/
  lfGlobalSome : Bool
  /-- that frame is completely loaded -/
  frameLoaded : Bool
  /-- result of `render::render_frame` on it -/
  render : Except RErr Unit
  /-- result of `composite_preprocess` / `composite` / `upsample_lf` after a finished render -/
  compose : Except RErr Unit
  /-- `keyframe_in_progress` and the result of `render_by_index` on it -/
  inProgress : Option (Except RErr Unit)
  /-- result of `postprocess_keyframe` -/
  postprocess : Except RErr Unit

inductive LoadingAns where
  /-- `Ok(Render)`: the grid has the requested image region, i.e. the full image dimensions -/
  | image
  | needMore
  | fail
deriving DecidableEq, Repr

def ofRErr : RErr → LoadingAns
  | .needMore => .needMore
  | .other => .fail

/-- `RenderContext::render_loading_frame` (private): `Ok`, `IncompleteFrame`, or another error -/
def renderLoadingFrame (v : LoadingView) : Except RErr Unit :=
  if !v.lfGlobalSome then .error .needMore
  else
    match doRender v.frameLoaded v.render with
    | .inProgress => .error .needMore
    | .err e => .error e
    | .done => v.compose

/-- `render_loading_keyframe` + `JxlImage::render_loading_frame`. Note that only the literal
`IncompleteFrame` falls through to the keyframe in progress; in the model both need-more-data
forms are one class, which is exact for the result class (`needMore` either way). -/
def renderLoading (v : LoadingView) : LoadingAns :=
  let cur : Except RErr Bool :=      -- Ok(true) = current frame grid, Ok(false) = fall through
    if v.hasProgressive then
      match renderLoadingFrame v with
      | .ok () => .ok true
      | .error .needMore => .ok false
      | .error .other => .error .other
    else .ok false
  match cur with
  | .error e => ofRErr e
  | .ok true => (match v.postprocess with | .ok () => .image | .error e => ofRErr e)
  | .ok false =>
    match v.inProgress with
    | none => .needMore
    | some (.error e) => ofRErr e
    | some (.ok ()) => (match v.postprocess with | .ok () => .image | .error e => ofRErr e)

/-! ## C11: attempts interleaved with feeding -/

/-- What survives a render attempt on the loading frame: `all_group_offsets.has_error` inside the
frame (single-section frames only) and the `loading_render_cache_*` of the context, abstracted to
the number of first-section bytes its cached `LfGlobal` was parsed from (`none`: no cache, or a
cache without an `LfGlobal`). -/
structure Residue where
  hasError : Nat
  cache : Option Nat
deriving DecidableEq, Repr

def Residue.clean : Residue := ⟨0, none⟩

/-- The section decoders seen from the feeding layer. -/
structure SecParsers where
  /-- how `LfGlobal::parse` (the first section, where the single-section cache and the flag live)
  classifies on the bytes received of that section -/
  lfGlobal : FrameInfo → Bytes → SecOut
  /-- whether, after an `LfGlobal` was obtained from these bytes, the attempt still ends with
  `FrameRender::InProgress` (a later section reports end of data), so that the render cache —
  with that `LfGlobal` in it — is kept for the next attempt and for the final render handle -/
  keepsCache : FrameInfo → Bytes → Bool

/-- the frame being loaded and the bytes its first section has received -/
def loadingFirst {Hdr : Type} (S : Sess Hdr) : Option (FrameSt × Bytes) :=
  match S.dec with
  | .ready i =>
    match i.loading with
    | some f => some (f, f.sections.headD [])
    | none => none
  | _ => none

/-- One `render_loading_frame` attempt, as far as persistent state goes.  A frame that is still
loading has `reading_data_index = 0` if it is single-section, hence `loaded = false`. -/
def attemptOn (Q : SecParsers) (f : FrameSt) (got : Bytes) (r : Residue) : Residue :=
  let single := f.info.sizes.length == 1
  let o := Q.lfGlobal f.info got
  let a : LfAnswer × Nat :=
    if single then lfGlobalSingle r.hasError false o
    else (lfGlobalMulti got.length (f.info.sizes.headD 0) o, r.hasError)
  let keeps := Q.keepsCache f.info got
  let cache : Option Nat :=
    match r.cache with
    | some n => if keeps then some n else none        -- cached `LfGlobal` reused, not re-parsed
    | none =>
      match a.1 with
      | .ok _ => if keeps then some got.length else none
      | _ => none
  ⟨a.2, cache⟩

/-- A decoder with the residue of render attempts on the frame being loaded; `poisoned` records
that a frame was completed (`preserve_current_frame`: the flag stays in the frame, the cache
becomes the start state of its final render handle) with a residue that changes its final render. -/
structure Prog (Hdr : Type) where
  sess : Sess Hdr
  res : Residue
  poisoned : Bool
deriving DecidableEq, Repr

def Prog.init {Hdr : Type} : Prog Hdr := ⟨Sess.init, Residue.clean, false⟩

/-- Final answer of rendering a completely loaded frame whose first section has `sectionLen`
bytes, given the residue: `Error::HadError` if the flag is set; a cached `LfGlobal` parsed from
fewer bytes is a stale partial one. -/
inductive FinalRender where
  | good
  | hadError
  | staleCache
deriving DecidableEq, Repr

def finalRender (sectionLen : Nat) (r : Residue) : FinalRender :=
  if r.hasError ≠ 0 then .hadError
  else
    match r.cache with
    | some n => if n < sectionLen then .staleCache else .good
    | none => .good

def numLoaded {Hdr : Type} (S : Sess Hdr) : Nat :=
  match S.dec with
  | .ready i => i.frames.length
  | _ => 0

/-- an operation of a progressive caller -/
inductive Op where
  | push (chunk : Bytes)
  | render
deriving DecidableEq, Repr

def Prog.step {Hdr : Type} (P : Parsers Hdr) (Q : SecParsers) (p : Prog Hdr) : Op → Prog Hdr
  | .push c =>
    let s' := p.sess.push P c
    if numLoaded p.sess < numLoaded s' then
      -- the frame that was loading (if any) is complete now; frames that started and completed
      -- inside this call never saw an attempt
      let sz := match loadingFirst p.sess with
        | some (f, _) => f.info.sizes.headD 0
        | none => 0
      ⟨s', Residue.clean, p.poisoned || (finalRender sz p.res != .good)⟩
    else { p with sess := s' }
  | .render =>
    match loadingFirst p.sess with
    | some (f, got) => { p with res := attemptOn Q f got p.res }
    | none => p

def Prog.run {Hdr : Type} (P : Parsers Hdr) (Q : SecParsers) (p : Prog Hdr) (ops : List Op) : Prog Hdr :=
  ops.foldl (Prog.step P Q) p

/-- the chunks pushed by a list of operations -/
def Op.chunks : List Op → List Bytes
  | [] => []
  | .push c :: r => c :: Op.chunks r
  | .render :: r => Op.chunks r

/-! ## Concrete parsers

`Layout`: parsers driven by a description of one stream (where its image header ends, how long
each frame header + TOC is, what it says) — what `Driver/C09.lean` runs against the real decoder.
`Toy`: a small self-describing length-prefixed format, used for the examples. -/

structure FrameLayout where
  /-- bytes of frame header + TOC -/
  hdrLen : Nat
  info : FrameInfo
deriving DecidableEq, Repr

structure Layout where
  /-- bytes of image header (+ ICC) up to the byte boundary -/
  headLen : Nat
  preview : Option FrameLayout
  frames : List FrameLayout
deriving DecidableEq, Repr

/-- a parser that needs exactly `len` bytes -/
def needs {α : Type} (len : Nat) (v : α) (bs : Bytes) : Res α :=
  if bs.length < len then .needMore else .ok v len

def Layout.parsers (L : Layout) : Parsers Unit where
  head := needs L.headLen ()
  hasPreview := fun _ => L.preview.isSome
  preview := fun _ bs =>
    match L.preview with
    | some p => needs p.hdrLen p.info bs
    | none => .err
  frame := fun _ fs bs =>
    match L.frames[fs.length]? with
    | some f => if f.hdrLen = 0 then .err else needs f.hdrLen f.info bs
    | none => .err

namespace Toy

/-- image header: the codestream signature `FF 0A`, then one byte whose lowest bit announces a
preview -/
def head : Bytes → Res Nat
  | a :: b :: c :: _ => if a = 0xFF ∧ b = 0x0A then .ok c.toNat 3 else .err
  | _ => .needMore

/-- frame header + TOC: flags (`FF` invalid; bit 0 `is_last`, bit 1 keyframe), section count `n`,
`n` section sizes -/
def frame : Bytes → Res FrameInfo
  | f :: n :: rest =>
    if f = 0xFF then .err
    else if rest.length < n.toNat then .needMore
    else .ok ⟨(rest.take n.toNat).map (·.toNat), f.toNat % 2 == 1, (f.toNat / 2) % 2 == 1, f.toNat⟩
      (2 + n.toNat)
  | _ => .needMore

def parsers : Parsers Nat where
  head := head
  hasPreview := fun h => h % 2 == 1
  preview := fun _ => frame
  frame := fun _ _ => frame

end Toy

end Jxl.Feed
