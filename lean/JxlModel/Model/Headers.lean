import JxlModel.Model.HeadersPinned
/-!
# Image header, frame header, table of contents (C14)

## Header WRITER API (for the stream encoder and other components)

Values are `Jxl.Bundle.Val` records whose fields are exactly the fields of the descriptions
(`imageHeaderDesc`, `Pinned.FrameHeader`, …) in declaration order; build them from a *partial*
("raw") record with the `mk…` functions, which fill every field that is absent, force fields whose
condition is false to their default and resize vectors (`Bundle.canon`).

Lean functions (all in `Jxl.Headers`):
* `mkImageHeader (raw : Env) : Option Env` — raw may give `size` (`{ height width }`, or `div8`,
  `ratio`, …) and `metadata` (`{ all_default F bit_depth {..} ec_info [..] … }`); the signature is
  added. `simpleImageRaw w h bits nExtraAlpha` is a ready-made raw value.
* `writeImageHeader (ch : Nat → Nat) (img : Env) : Option Bits` — bits of `ImageHeader` from
  stream position 0 (no padding; ICC/preview/`ZeroPadToByte` are the caller's business).
* `mkFrameHeader (img : Env) (raw : Env) : Option Env`, `writeFrameHeader ch img fh : Option Bits`
  — `FrameHeader` for the given image header (its context); frame headers start byte-aligned, so
  the bits do not depend on the position.
* `tocEntryCount fh`, `writeToc ch pos sizes permPrelude : Option Bits` — `permuted` flag,
  (optional) entropy-coded permutation given as ready-made bits (that layer is C04's), padding,
  sizes, padding; `pos` = bit position at which the TOC starts (right after the frame header).
* `parseImageHeader`, `parseFrameHeader`, `parseToc` — the model parsers (inverse; see
  `Props/C14.lean`), `dumpImage`, `dumpFrame`, `dumpToc` — the canonical report lines.
* `ch` picks `U32` selectors / `U64` forms (`fun _ => 0` = shortest-first rotation).

Line protocol `jxlmodel hdrenc` (one request per line, value syntax of `Val.toText`):
* `img <seed> <raw image value>` → `ok <nbits> <hex> | <dump>`
* `frame <seed> <raw image value> | <raw frame value>` → `ok <nbits> <hex> | <dump>` (frame header only)
* `toc <seed> <startbit> <permhex>:<permbits> <size> <size> …` → `ok <nbits> <hex>`
  (`-:0` = not permuted); `unwritable <why>` when the value has no encoding.
`<seed>` seeds the selector choice (`choiceOf`).
-/
namespace Jxl.Bundle

/-! ## small accessors -/

def Val.get (v : Val) (k : String) : Val :=
  match v with
  | .record fs => (Env.get? fs k).getD .none
  | _ => .none

def Val.path (v : Val) (ks : List String) : Val := ks.foldl Val.get v

def Val.nat! : Val → Nat | .nat n => n | _ => 0
def Val.int! : Val → Int | .int i => i | .nat n => Int.ofNat n | _ => 0
def Val.bool! : Val → Bool | .bool b => b | _ => false
def Val.list! : Val → List Val | .list l => l | _ => []
def Val.isNone : Val → Bool | .none => true | _ => false

end Jxl.Bundle

namespace Jxl.Headers
open Jxl Jxl.Bundle

/-- selector choice derived from a seed: a cheap position hash (any function is allowed) -/
def choiceOf (seed : Nat) (pos : Nat) : Nat := ((pos + 1) * 2654435761 + seed * 40503 + (pos * pos) % 8191) / 7 % 1000003

/-! ## ImageHeader (hand-written top level) -/

open Parts in
/-- `jxl-image/src/lib.rs`, `impl Bundle for ImageHeader { fn parse }`: signature, `SizeHeader`,
`ImageMetadata`, then the validations in source order. -/
def imageHeaderDesc : Bundle :=
  let tm (f : String) : Expr := .call "fkey" [.field (.field (v "metadata") "tone_mapping") f]
  let zero : Expr := .int 0
  [ always "signature" (.u 16),
    always "_sig" (.assert (eqn (v "signature") 0xaff) "validation"),
    always "size" (.bundle noCtx Pinned.SizeHeader),
    always "metadata" (.bundle noCtx Pinned.ImageMetadata),
    always "_num_extra" (.assert (.bin .le (.call "len" [.field (v "metadata") "ec_info"]) (n 256)) "profile"),
    always "_intensity" (.assert (.not (.bin .le (tm "intensity_target") zero)) "validation"),
    always "_min_nits" (.assert (.not (or' (.bin .lt (tm "min_nits") zero)
        (.bin .gt (tm "min_nits") (tm "intensity_target")))) "validation"),
    always "_linear_below" (.assert (.not (or' (.bin .lt (tm "linear_below") zero)
        (and' (.field (.field (v "metadata") "tone_mapping") "relative_to_max_display")
              (.bin .gt (tm "linear_below") (.call "fkey" [.f32 0x3f800000]))))) "validation") ]

def parseImageHeader (s : Bits) : Except Err (Env × Bits) := parse imageHeaderDesc [] s

/-! ### PreviewHeader as the format defines it

ISO/IEC 18181-1 (and libjxl `PreviewHeader::VisitFields`) give the preview size the same shape as
`SizeHeader`: `w_div8` is present iff `div8 && ratio == 0`, `width` iff `!div8 && ratio == 0`.
`jxl-image/src/lib.rs` (`struct PreviewHeader`) omits `&& ratio == 0` in both conditions, so for
`ratio != 0` it reads a field the writer never wrote. `Spec.previewHeader` is the format's
description; `imageHeaderSpecDesc` is the image header built on it (used to write
format-conformant previews for the differential run; see `C14_preview_header_deviates_from_format`). -/

def Spec.previewHeader : Bundle :=
  Pinned.PreviewHeader.map fun f =>
    match f with
    | .mk "w_div8" ty _ d => .mk "w_div8" ty (.bin .and (.var "div8") (.bin .eq (.var "ratio") (.nat 0))) d
    | .mk "width" ty _ d => .mk "width" ty (.bin .and (.not (.var "div8")) (.bin .eq (.var "ratio") (.nat 0))) d
    | f => f

def Spec.imageMetadata : Bundle :=
  Pinned.ImageMetadata.map fun f =>
    match f with
    | .mk "preview" _ c d => .mk "preview" (.bundle (.record []) Spec.previewHeader) c d
    | f => f

def imageHeaderSpecDesc : Bundle :=
  imageHeaderDesc.map fun f =>
    match f with
    | .mk "metadata" _ c d => .mk "metadata" (.bundle (.record []) Spec.imageMetadata) c d
    | f => f

def writeImageHeader (ch : Nat → Nat) (img : Env) : Option Bits := write imageHeaderDesc ch [] img

def mkImageHeader (raw : Env) : Option Env :=
  canon imageHeaderDesc [] (("signature", .nat 0xaff) :: raw)

/-- a plain image: explicit size, integer samples, `nAlpha` default alpha channels, not XYB,
sRGB -/
def simpleImageRaw (w h bits nAlpha : Nat) : Env :=
  [("size", .record [("div8", .bool false), ("height", .nat h), ("ratio", .nat 0), ("width", .nat w)]),
   ("metadata", .record [
      ("all_default", .bool false), ("extra_fields", .bool false),
      ("bit_depth", .record [("float_sample", .bool false), ("ibits", .nat bits)]),
      ("modular_16bit_buffers", .bool (bits ≤ 12)),
      ("num_extra", .nat nAlpha),
      ("ec_info", .list [.record [("default_alpha_channel", .bool true)]]),
      ("xyb_encoded", .bool false),
      ("colour_encoding", .record [("all_default", .bool true)]),
      ("extensions", .record [("extension_bits", .nat 0)]),
      ("default_m", .bool true)])]

/-! ## FrameHeader -/

/-- the context of `FrameHeader::parse`: `headers: &ImageHeader` -/
def frameCtx (img : Env) : Env := [("headers", .record img)]

def parseFrameHeader (img : Env) (s : Bits) : Except Err (Env × Bits) :=
  parse Pinned.FrameHeader (frameCtx img) s

def writeFrameHeader (ch : Nat → Nat) (img fh : Env) : Option Bits :=
  write Pinned.FrameHeader ch (frameCtx img) fh

def mkFrameHeader (img raw : Env) : Option Env := canon Pinned.FrameHeader (frameCtx img) raw

/-! ## derived values -/

/-- `ImageMetadata::apply_orientation` (second `match`): orientations 5..8 swap the sides -/
def orientedDims (orientation w h : Nat) : Nat × Nat :=
  if orientation ≥ 5 then (h, w) else (w, h)

/-- `apply_orientation(width, height, 0, 0, false)` also evaluates the first `match`
(`width - left - 1`, `height - top - 1`); since the repair of `c14:panic:width_with_orientation`
that arithmetic is done in 64 bits and cannot overflow for any header (sides < 2^32), so
`width()/height()` never panic. (Before: `width as i32 - left - 1` panicked in checked builds for a
side of 2^31.) -/
def orientationPanics (_orientation _w _h : Nat) : Bool := false

/-- `FrameHeader::sample_width` / `sample_height` -/
def sampleDim (dim upsampling lfLevel : Nat) : Nat :=
  let d := if upsampling > 1 then (dim + upsampling - 1) / upsampling else dim
  if lfLevel > 0 then (d + 2 ^ (3 * lfLevel) - 1) / 2 ^ (3 * lfLevel) else d

/-- `FrameHeader::group_dim` -/
def groupDim (groupSizeShift : Nat) : Nat := 128 * 2 ^ groupSizeShift

def ceilDiv (a b : Nat) : Nat := (a + b - 1) / b

/-- `FrameHeader::num_groups` (`u32` product: `none` = the checked build panics) -/
def numGroupsOf (w h dim : Nat) : Option Nat :=
  let p := ceilDiv w dim * ceilDiv h dim
  if p < 2 ^ 32 then some p else none

structure FrameDerived where
  sampleW : Nat
  sampleH : Nat
  numGroups : Option Nat
  numLfGroups : Option Nat
  isKeyframe : Bool
  canReference : Bool
deriving Repr

def isNormalFrame (ft : Nat) : Bool := ft == 0 || ft == 3

/-- `FrameHeader::{color_sample_width, color_sample_height, num_groups, num_lf_groups,
is_keyframe, can_reference}` from a frame-header value -/
def frameDerived (fh : Val) : FrameDerived :=
  let up := (fh.get "upsampling").nat!
  let lf := (fh.get "lf_level").nat!
  let sw := sampleDim (fh.get "width").nat! up lf
  let sh := sampleDim (fh.get "height").nat! up lf
  let gd := groupDim (fh.get "group_size_shift").nat!
  let ft := (fh.get "frame_type").nat!
  let isLast := (fh.get "is_last").bool!
  let dur := (fh.get "duration").nat!
  { sampleW := sw, sampleH := sh,
    numGroups := numGroupsOf sw sh gd,
    numLfGroups := numGroupsOf sw sh (gd * 8),
    isKeyframe := isNormalFrame ft && (isLast || dur != 0),
    canReference := !isLast && (dur == 0 || (fh.get "save_as_reference").nat! != 0) && ft != 1 }

/-! ## Table of contents -/

/-- `Toc::parse`: number of entries (`u32` arithmetic: `none` = checked build panics) -/
def tocEntryCountOf (numGroups numLfGroups numPasses : Nat) : Option Nat :=
  if numGroups == 1 && numPasses == 1 then some 1
  else if numGroups * numPasses < 2 ^ 32 && 1 + numLfGroups + 1 + numGroups * numPasses < 2 ^ 32 then
    some (1 + numLfGroups + 1 + numGroups * numPasses)
  else none

def tocEntryCount (fh : Val) : Option Nat :=
  let d := frameDerived fh
  match d.numGroups, d.numLfGroups with
  | some g, some l => tocEntryCountOf g l ((fh.get "passes").get "num_passes").nat!
  | _, _ => none

def tocSizeTy : FieldTy := .u32 (.bits 0 10) (.bits 1024 14) (.bits 17408 22) (.bits 4211712 30)

open Parts in
/-- `Toc::parse` up to the permutation: entry-count check, `permuted` flag -/
def tocHead : Bundle := [
  always "_count_ok" (.assert (.bin .le (v "entry_count") (n 65536)) "validation"),
  always "permuted" .bool ]

open Parts in
/-- `Toc::parse` after the permutation: padding, sizes, padding -/
def tocTail : Bundle := [
  always "_pad0" .zeroPad,
  always "sizes" (.vec tocSizeTy (v "entry_count")),
  always "_pad1" .zeroPad ]

open Parts in
/-- a table of contents without permutation, as one description (context: `entry_count`) -/
def tocPlain : Bundle :=
  tocHead ++ [always "_plain" (.assert (.not (v "permuted")) "stuck")] ++ tocTail

/-- `jxl_coding::read_permutation` (after the entropy decoder): `end` and the Lehmer code are
validated, then turned into the permutation (`temp.remove(idx)`) -/
def lehmerValid : Nat → List Nat → Bool
  | _, [] => true
  | n, i :: r => decide (i < n) && lehmerValid (n - 1) r

def lehmerGo : List Nat → List Nat → List Nat
  | temp, [] => temp
  | temp, i :: r => temp.getD i 0 :: lehmerGo (temp.eraseIdx i) r

def lehmerToPerm (size : Nat) (lehmer : List Nat) : List Nat := lehmerGo (List.range size) lehmer

/-- inverse of a permutation given as a list, built as the code does
(`bitstream_to_original[perm[idx]] = idx`, starting from zeros) -/
def invPerm (perm : List Nat) : List Nat :=
  (perm.zipIdx.foldl (fun (a : Array Nat) (pj : Nat × Nat) => a.setIfInBounds pj.1 pj.2)
    (Array.replicate perm.length 0)).toList

/-- prefix sums starting at `base` -/
def prefixSums : Nat → List Nat → List Nat
  | _, [] => []
  | base, s :: r => base :: prefixSums (base + s) r

structure TocGroup where
  kind : Nat          -- index in original (kind) order
  offset : Nat
  size : Nat
deriving Repr, DecidableEq, Inhabited

structure TocVal where
  entryCount : Nat
  numLfGroups : Nat
  numGroups : Nat
  permuted : Bool
  perm : List Nat           -- original → bitstream (`original_to_bitstream`), [] if not permuted
  sizes : List Nat          -- as read: bitstream order
  base : Nat                -- byte offset of the first section (= bytes read by `Toc::parse`)
deriving Repr

/-- offsets in bitstream order: prefix sums -/
def TocVal.offsets (t : TocVal) : List Nat := prefixSums t.base t.sizes

/-- `Toc::group_index_bitstream_order` for the entry with original index `j` -/
def TocVal.indexInBitstream (t : TocVal) (j : Nat) : Nat :=
  if t.permuted then t.perm.getD j 0 else j

/-- `groups` of `Toc` (original order): entry `j` takes the slot `perm[j]` of the bitstream -/
def TocVal.groups (t : TocVal) : List TocGroup :=
  let offs := t.offsets.toArray
  let szs := t.sizes.toArray
  let perm := t.perm.toArray
  (List.range t.entryCount).map fun j =>
    let slot := if t.permuted then perm.getD j 0 else j
    { kind := j, offset := offs.getD slot 0, size := szs.getD slot 0 }

/-- `bitstream_to_original` -/
def TocVal.bitstreamToOriginal (t : TocVal) : List Nat :=
  if t.permuted then invPerm t.perm else List.range t.entryCount

/-- `Toc::iter_bitstream_order` -/
def TocVal.bitstreamOrder (t : TocVal) : List TocGroup :=
  let gs := t.groups.toArray
  t.bitstreamToOriginal.map fun j => gs.getD j default

def TocVal.totalSize (t : TocVal) : Nat := t.sizes.sum

/-- The entropy-coded Lehmer code belongs to C04. `PermDecoder size s` returns the Lehmer code
(already checked by `lehmerValid`) and the remaining bits, or an error. -/
abbrev PermDecoder := Nat → Bits → Except Err (List Nat × Bits)

/-- no entropy layer available: permuted TOCs are outside the model -/
def noPermDecoder : PermDecoder := fun _ _ => .error (.stuck "permutation: entropy layer is C04")

/-- `Toc::parse`; `total` as in `parseFields`, `numGroups`/… from the frame header -/
def parseToc (dec : PermDecoder) (total : Nat) (numGroups numLfGroups : Nat) (entryCount : Nat)
    (s : Bits) : Except Err (TocVal × Bits) :=
  let ctx : Env := [("entry_count", .nat entryCount)]
  match parseFields total ctx tocHead [] s with
  | .error e => .error e
  | .ok (h, r) =>
    let permuted := (Val.record h).get "permuted" |>.bool!
    let permRes : Except Err (List Nat × Bits) :=
      if permuted then
        match dec entryCount r with
        | .ok (lehmer, r') => .ok (lehmerToPerm entryCount lehmer, r')
        | .error e => .error e
      else .ok ([], r)
    match permRes with
    | .error e => .error e
    | .ok (perm, r') =>
      match parseFields total ctx tocTail [] r' with
      | .error e => .error e
      | .ok (t, r'') =>
        let sizes := ((Val.record t).get "sizes").list!.map Val.nat!
        .ok ({ entryCount, numLfGroups, numGroups, permuted, perm, sizes,
               base := (total - r''.length) / 8 }, r'')

/-- writer: `permPrelude = none` ⇒ not permuted; `some bits` ⇒ the entropy-coded permutation -/
def writeToc (ch : Nat → Nat) (pos : Nat) (sizes : List Nat) (permPrelude : Option Bits) : Option Bits :=
  let ctx : Env := [("entry_count", .nat sizes.length)]
  let head : Env := [("_count_ok", .unit), ("permuted", .bool permPrelude.isSome)]
  match writeFields ch ctx tocHead [] pos head with
  | none => none
  | some hb =>
    let pb := permPrelude.getD []
    let pos' := pos + hb.length + pb.length
    match writeFields ch ctx tocTail [] pos' [("_pad0", .unit), ("sizes", .list (sizes.map .nat)), ("_pad1", .unit)] with
    | none => none
    | some tb => some (hb ++ pb ++ tb)

/-! ### a hand-made entropy-coded permutation (the "trivial code")

`Decoder::parse(bitstream, 8)` with: LZ77 off, simple clustering with 0 bits (one cluster),
prefix codes, `split_exponent = 15` (every token is its value), alphabet size `count`, a *simple*
prefix code with 1, 2 or 4 (all of length 2) symbols. Enough to write TOC permutations whose
Lehmer digits come from a set of ≤ 4 values. This is a recogniser for streams made by
`trivialPermWrite`, not a model of the entropy decoder (C04). -/

def log2Ceil (x : Nat) : Nat := if x ≤ 1 then 0 else Nat.log2 (x - 1) + 1

/-- sorted, distinct symbols → their canonical codes are their ranks -/
def sortNat (l : List Nat) : List Nat := l.foldl (fun acc x => (acc.filter (· < x)) ++ [x] ++ (acc.filter (· > x))) []

structure TrivialCode where
  count : Nat
  syms : List Nat        -- as written (1, 2 or 4 symbols)
deriving Repr

def trivialReadSymbol (sorted : List Nat) (s : Bits) : Except Err (Nat × Bits) :=
  let nb := if sorted.length == 4 then 2 else if sorted.length == 2 then 1 else 0
  if nb ≤ s.length then
    -- prefix-code bits: first stream bit is the most significant bit of the code
    let code := (s.take nb).foldl (fun acc b => acc * 2 + (if b then 1 else 0)) 0
    .ok (sorted.getD code 0, s.drop nb)
  else .error .eof

def trivialPermDecoder : PermDecoder := fun size s =>
  let stuck : Except Err (List Nat × Bits) := .error (.stuck "permutation: not the trivial code (C04)")
  match rd 9 s with
  | .error e => .error e
  | .ok (hdr, r) =>
    -- lz77=0, simple=1, nbits=00, prefix=1, split_exponent=1111 : bits LSB first
    if hdr != 0b111110010 then stuck else
    match rd 1 r with
    | .error e => .error e
    | .ok (big, r) =>
      let cnt : Except Err (Nat × Bits) :=
        if big == 0 then .ok (1, r) else
        match rd 4 r with
        | .error e => .error e
        | .ok (nb, r) => match rd nb r with
          | .error e => .error e
          | .ok (x, r) => .ok (1 + 2 ^ nb + x, r)
      match cnt with
      | .error e => .error e
      | .ok (count, r) =>
        if count > 2 ^ 15 then .error (.invalid "decoder") else
        let symsRes : Except Err (List Nat × Bits) :=
          if count == 1 then .ok ([0], r) else
          match rd 2 r with
          | .error e => .error e
          | .ok (hskip, r) =>
            if hskip != 1 then stuck else
            let ab := log2Ceil count
            match rd 2 r with
            | .error e => .error e
            | .ok (nsymM1, r) =>
              let nsym := nsymM1 + 1
              if nsym == 3 then stuck else
              match parseN (fun s => match rd ab s with | .ok (x, r) => .ok (.nat x, r) | .error e => .error e) nsym r with
              | .error e => .error e
              | .ok (vs, r) =>
                let syms := vs.map Val.nat!
                if nsym == 4 then
                  match rd 1 r with
                  | .error e => .error e
                  | .ok (ts, r) => if ts != 0 then stuck else .ok (syms, r)
                else .ok (syms, r)
        match symsRes with
        | .error e => .error e
        | .ok (syms, r) =>
          let sorted := sortNat syms
          if sorted.length != syms.length || syms.any (· ≥ count) then .error (.invalid "decoder") else
          match trivialReadSymbol sorted r with
          | .error e => .error e
          | .ok (endV, r) =>
            if endV > size then .error (.invalid "decoder") else
            let rec go : Nat → Nat → Bits → List Nat → Except Err (List Nat × Bits)
              | 0, _, r, acc => .ok (acc.reverse, r)
              | k+1, idx, r, acc =>
                match trivialReadSymbol sorted r with
                | .error e => .error e
                | .ok (x, r) =>
                  if x ≥ size - idx then .error (.invalid "decoder") else go k (idx + 1) r (x :: acc)
            go endV 0 r []

/-- writer of the trivial code: `syms` (1, 2 or 4 distinct values < `count`), `count` = 1 or
`1 + 2^nb + x`; the Lehmer code (with its length first) must use only `syms` -/
def trivialPermWrite (count : Nat) (syms : List Nat) (lehmer : List Nat) : Option Bits :=
  let sorted := sortNat syms
  let nb := if sorted.length == 4 then 2 else if sorted.length == 2 then 1 else 0
  let enc (x : Nat) : Option Bits :=
    if sorted.contains x then
      let code := sorted.idxOf x
      some ((List.range nb).map fun i => (code / 2 ^ (nb - 1 - i)) % 2 == 1)
    else none
  let countBits : Option Bits :=
    if count == 1 then some [false]
    else if count < 2 then none
    else
      let nbC := Nat.log2 (count - 1)
      some ([true] ++ toBits 4 nbC ++ toBits nbC (count - 1 - 2 ^ nbC))
  let ab := log2Ceil count
  let symBits : Option Bits :=
    if count == 1 then (if syms == [0] then some [] else none)
    else if syms.length == 1 || syms.length == 2 || syms.length == 4 then
      some (toBits 2 1 ++ toBits 2 (syms.length - 1) ++ syms.flatMap (toBits ab) ++
            (if syms.length == 4 then [false] else []))
    else none
  match countBits, symBits, (lehmer.length :: lehmer).mapM enc with
  | some cb, some sb, some body => some (toBits 9 0b111110010 ++ cb ++ sb ++ body.flatten)
  | _, _, _ => none

/-! ## canonical report lines (the harness prints the same from the real structs) -/

def hex8 (n : Nat) : String := hexNat 8 n

/-- f32 bits of a float-valued field (`f16` pattern read from the stream, or an `f32` default) -/
def fbits : Val → String
  | .f16 b => hex8 (f16ToF32Bits b)
  | .f32 b => hex8 b
  | _ => "?"

def b01 (b : Bool) : String := if b then "1" else "0"
def joinWith (sep : String) (l : List String) : String := sep.intercalate l

def dumpBitDepth (v : Val) : String :=
  if (v.get "float_sample").bool! then s!"f{(v.get "bits_per_sample").nat!}e{(v.get "exp_bits").nat!}"
  else s!"i{(v.get "bits_per_sample").nat!}"

def dumpName (v : Val) : String := hexOrDash ((v.get "data").list!.map Val.nat!)

def dumpXy (v : Val) : String := s!"{(v.get "x").int!},{(v.get "y").int!}"

def dumpColourEncoding (v : Val) : String :=
  let cs := (v.get "colour_space").nat!
  if (v.get "want_icc").bool! then s!"icc:{cs}" else
  let wp := v.get "white_point"
  let wps := if (wp.get "disc").nat! == 2 then s!"2({dumpXy (wp.get "custom")})" else toString (wp.get "disc").nat!
  let pr := v.get "primaries"
  let prs := if (pr.get "disc").nat! == 2 then
      s!"2({dumpXy (pr.get "red")},{dumpXy (pr.get "green")},{dumpXy (pr.get "blue")})"
    else toString (pr.get "disc").nat!
  let tf := v.get "tf"
  let tfs := if (tf.get "has_gamma").bool! then s!"g{(tf.get "gamma").nat!}" else toString (tf.get "tf").nat!
  s!"enum:{cs}:{wps}:{prs}:{tfs}:{(v.get "rendering_intent").nat!}"

def dumpEc (v : Val) : String :=
  let ty := (v.get "ty").nat!
  let spec :=
    if ty == 0 then "a" ++ b01 (v.get "alpha_associated").bool!
    else if ty == 2 then joinWith "," ((v.get "spot").list!.map fbits)
    else if ty == 5 then s!"c{(v.get "cfa_channel").nat!}"
    else "-"
  s!"({ty};{dumpBitDepth (v.get "bit_depth")};{(v.get "dim_shift").nat!};{dumpName (v.get "name")};{spec})"

def dumpFloats (v : Val) : String := joinWith "," (v.list!.map fbits)

def dumpExtensions (v : Val) : String := toString (v.get "extension_bits").nat!

/-- report of an `ImageHeader` value (public fields and `width()/height()` with orientation) -/
def dumpImage (img : Env) : String :=
  let i := Val.record img
  let m := i.get "metadata"
  let w := (i.path ["size", "width"]).nat!
  let h := (i.path ["size", "height"]).nat!
  let o := (m.get "orientation").nat!
  let (ow, oh) := orientedDims o w h
  let wh (v : Val) : String := if v.isNone then "none" else s!"{(v.get "width").nat!}x{(v.get "height").nat!}"
  let anim := m.get "animation"
  let anims := if anim.isNone then "none" else
    s!"{(anim.get "tps_numerator").nat!}/{(anim.get "tps_denominator").nat!}/{(anim.get "num_loops").nat!}/{b01 (anim.get "have_timecodes").bool!}"
  let tm := m.get "tone_mapping"
  let op := m.get "opsin_inverse_matrix"
  joinWith " " [
    s!"w={w}", s!"h={h}",
    (if orientationPanics o w h then "ow=panic oh=panic" else s!"ow={ow} oh={oh}"), s!"orient={o}",
    s!"intr={wh (m.get "intrinsic_size")}", s!"preview={wh (m.get "preview")}", s!"anim={anims}",
    s!"bd={dumpBitDepth (m.get "bit_depth")}", s!"m16={b01 (m.get "modular_16bit_buffers").bool!}",
    s!"ec=[{joinWith "" ((m.get "ec_info").list!.map dumpEc)}]",
    s!"xyb={b01 (m.get "xyb_encoded").bool!}", s!"ce={dumpColourEncoding (m.get "colour_encoding")}",
    s!"tm={fbits (tm.get "intensity_target")},{fbits (tm.get "min_nits")},{b01 (tm.get "relative_to_max_display").bool!},{fbits (tm.get "linear_below")}",
    s!"ext={dumpExtensions (m.get "extensions")}",
    s!"opsin={joinWith "," ((op.get "inv_mat").list!.map dumpFloats)};{dumpFloats (op.get "opsin_bias")};{dumpFloats (op.get "quant_bias")};{fbits (op.get "quant_bias_numerator")}",
    s!"up2={dumpFloats (m.get "up2_weight")}", s!"up4={dumpFloats (m.get "up4_weight")}",
    s!"up8={dumpFloats (m.get "up8_weight")}" ]

def dumpNats (v : Val) : String := joinWith "," (v.list!.map fun x => toString x.nat!)

def dumpBlend (v : Val) : String :=
  s!"{(v.get "mode").nat!};{(v.get "alpha_channel").nat!};{b01 (v.get "clamp").bool!};{(v.get "source").nat!}"

def dumpGabor (v : Val) : String :=
  if !(v.get "enabled").bool! then "off"
  else joinWith "," [dumpFloats (v.get "w0"), dumpFloats (v.get "w1"), dumpFloats (v.get "w2")]

def dumpEpf (v : Val) : String :=
  if (v.get "iters").nat! == 0 then "off" else
  joinWith ";" [toString (v.get "iters").nat!, dumpFloats (v.get "sharp_lut"), dumpFloats (v.get "channel_scale"),
    joinWith "," [fbits (v.get "quant_mul"), fbits (v.get "pass0_sigma_scale"), fbits (v.get "pass2_sigma_scale"),
      fbits (v.get "border_sad_mul")], fbits (v.get "sigma_for_modular")]

def optNat : Option Nat → String | some n => toString n | none => "panic"

/-- report of a `FrameHeader` value (fields, accessors and derived quantities) -/
def dumpFrame (fhE : Env) : String :=
  let f := Val.record fhE
  let p := f.get "passes"
  let rf := f.get "restoration_filter"
  let d := frameDerived f
  joinWith " " [
    s!"type={(f.get "frame_type").nat!}", s!"enc={(f.get "encoding").nat!}", s!"flags={(f.get "flags").nat!}",
    s!"ycbcr={b01 (f.get "do_ycbcr").bool!}", s!"ecc={(f.get "encoded_color_channels").nat!}",
    s!"jpegup={dumpNats (f.get "jpeg_upsampling")}", s!"up={(f.get "upsampling").nat!}",
    s!"ecup={dumpNats (f.get "ec_upsampling")}", s!"gss={(f.get "group_size_shift").nat!}",
    s!"xqm={(f.get "x_qm_scale").nat!}", s!"bqm={(f.get "b_qm_scale").nat!}",
    s!"passes={(p.get "num_passes").nat!};{(p.get "num_ds").nat!};{dumpNats (p.get "shift")};{dumpNats (p.get "downsample")};{dumpNats (p.get "last_pass")}",
    s!"lf={(f.get "lf_level").nat!}", s!"crop={b01 (f.get "have_crop").bool!}",
    s!"x0={(f.get "x0").int!}", s!"y0={(f.get "y0").int!}", s!"w={(f.get "width").nat!}", s!"h={(f.get "height").nat!}",
    s!"blend={dumpBlend (f.get "blending_info")}",
    s!"ecblend=[{joinWith "|" ((f.get "ec_blending_info").list!.map dumpBlend)}]",
    s!"dur={(f.get "duration").nat!}", s!"tc={(f.get "timecode").nat!}", s!"last={b01 (f.get "is_last").bool!}",
    s!"sar={(f.get "save_as_reference").nat!}", s!"reset={b01 (f.get "resets_canvas").bool!}",
    s!"sbct={b01 (f.get "save_before_ct").bool!}", s!"name={dumpName (f.get "name")}",
    s!"gab={dumpGabor (rf.get "gab")}", s!"epf={dumpEpf (rf.get "epf")}", s!"rfext={dumpExtensions (rf.get "extensions")}",
    s!"ext={dumpExtensions (f.get "extensions")}", s!"bd={dumpBitDepth (f.get "bit_depth")}",
    s!"kf={b01 d.isKeyframe}", s!"canref={b01 d.canReference}", s!"sw={d.sampleW}", s!"sh={d.sampleH}",
    s!"ng={optNat d.numGroups}", s!"nlg={optNat d.numLfGroups}" ]

/-- name of the `TocGroupKind` with original index `j` -/
def tocKindName (t : TocVal) (j : Nat) : String :=
  if t.entryCount == 1 then "all"
  else if j == 0 then "lfg"
  else if j ≤ t.numLfGroups then s!"lf{j - 1}"
  else if j == t.numLfGroups + 1 then "hfg"
  else
    let k := j - t.numLfGroups - 2
    s!"p{k / t.numGroups}g{k % t.numGroups}"

/-- report of a `Toc`: total size, bookmark, sections in bitstream order, and
`group_index_bitstream_order` of every kind -/
def dumpToc (t : TocVal) : String :=
  let bs := t.bitstreamOrder
  let bookmark := match bs with | g :: _ => g.offset | [] => 0
  let perm := t.perm.toArray
  joinWith " " [
    s!"n={t.entryCount}", s!"total={t.totalSize}", s!"bookmark={bookmark}",
    s!"bs={joinWith "," (bs.map fun g => s!"{tocKindName t g.kind}:{g.offset}:{g.size}")}",
    s!"order={joinWith "," ((List.range t.entryCount).map fun j =>
      toString (if t.permuted then perm.getD j 0 else j))}" ]

/-! ## sub-bundles that can be parsed on their own (small-scope enumeration) -/

open Parts in
def standalone : List (String × Bundle × Env) := [
  ("SizeHeader", Pinned.SizeHeader, []),
  ("PreviewHeader", Pinned.PreviewHeader, []),
  ("AnimationHeader", Pinned.AnimationHeader, []),
  ("BitDepth", bitDepthFields, []),
  ("ExtraChannelInfo", extraChannelInfoFields, []),
  ("ColourEncoding", colourEncodingFields, []),
  ("ToneMapping", Pinned.ToneMapping, []),
  ("OpsinInverseMatrix", Pinned.OpsinInverseMatrix, []),
  ("Customxy", Pinned.Customxy, []),
  ("Passes", Pinned.Passes, []),
  ("Name", nameFields, []),
  ("Extensions", extensionsFields, []),
  ("RestorationFilterVarDct", Pinned.RestorationFilter, [("encoding", .nat 0)]),
  ("RestorationFilterModular", Pinned.RestorationFilter, [("encoding", .nat 1)]) ]

end Jxl.Headers
