/-!
# Natural coefficient order of the HF passes (`jxl-vardct/src/hf_pass.rs`)

`BLOCK_SIZES`, `const_compute_natural_order` / `fill_natural_order` (the two Rust functions are the
same computation, one `const`): the LLF corner first in raster order, then the remaining
coefficients by anti-diagonals of the square `bw × bw` grid in alternating direction, keeping the
rows that exist in a `bw × bh` block (`y % (bw / bh) == 0`).
The tables of orders 9..12 are built lazily at first use (`natural_order_lazy`); which table a call
gets must depend on the order index only — not on which orders were used before, nor by which thread.
-/
namespace Jxl.NaturalOrder

def blockSizes : List (Nat × Nat) :=
  [(8, 8), (8, 8), (16, 16), (32, 32), (16, 8), (32, 8), (32, 16), (64, 64), (64, 32),
   (128, 128), (128, 64), (256, 256), (256, 128)]

def naturalOrder (bw bh : Nat) : List (Nat × Nat) :=
  let yScale := bw / bh
  let lbw := bw / 8
  let lbh := bh / 8
  let llf := (List.range (lbw * lbh)).map fun i => (i % lbw, i / lbw)
  let rest := (List.range (2 * bw - 1)).flatMap fun d0 =>
    let dist := d0 + 1
    let margin := dist - bw
    (List.range (dist - margin - margin)).filterMap fun o =>
      let order := margin + o
      let xy : Nat × Nat := if dist % 2 == 1 then (order, dist - 1 - order) else (dist - 1 - order, order)
      if xy.1 < lbw ∧ xy.2 < lbw then none
      else if xy.2 % yScale != 0 then none
      else some (xy.1, xy.2 / yScale)
  llf ++ rest

/-- the table of order `idx` (what `natural_order_lazy(idx)` must return whenever it is called) -/
def table (idx : Nat) : List (Nat × Nat) :=
  match blockSizes[idx]? with
  | some (bw, bh) => naturalOrder bw bh
  | none => []

/-- position `(x, y)` of a `bw`-wide block as one number -/
def code (bw : Nat) (p : Nat × Nat) : Nat := p.2 * bw + p.1

/-- insertion of `v` into a sorted list -/
def insertSorted (v : Nat) : List Nat → List Nat
  | [] => [v]
  | a :: l => if v ≤ a then v :: a :: l else a :: insertSorted v l

/-- executable check: the coded positions, sorted, are exactly `0 .. bw*bh-1` -/
def isPermutation (bw bh : Nat) : Bool :=
  let codes := (naturalOrder bw bh).map (code bw)
  (codes.mergeSort (fun a b => decide (a ≤ b))) == List.range (bw * bh) &&
  (naturalOrder bw bh).all fun p => decide (p.1 < bw) && decide (p.2 < bh)

/-- 64-bit FNV-1a over the table, each coordinate as a little-endian `u16` (driver / harness) -/
def fnv (t : List (Nat × Nat)) : UInt64 :=
  let step := fun (h : UInt64) (b : Nat) => (h ^^^ b.toUInt64) * 0x100000001b3
  t.foldl (fun h p =>
    let h := step h (p.1 % 256)
    let h := step h (p.1 / 256)
    let h := step h (p.2 % 256)
    step h (p.2 / 256)) 0xcbf29ce484222325

end Jxl.NaturalOrder
