/-!
# ICC profile decompression (`crates/jxl-color/src/icc/decode.rs`)

Model of `decode_icc` — the function from the *encoded ICC byte stream* (output-size varint,
command-stream-size varint, command bytes, data bytes) to the profile bytes — and of
`get_icc_ctx`, the 41-context function `read_icc` uses to pull that byte stream out of the
entropy coder (the entropy layer itself belongs to C04).

Bytes are `Nat`s `< 256` (`List Nat`); every function here is meant to be applied to byte lists
only (the driver parses hex). `usize`/`u64` are 64 bit. `Vec<u8> out` is an `Array Nat`.

The model follows the **repaired** tag loop (finding F6): when the command stream ends inside the
tag list the code falls through to the final size check instead of returning early.

Second half: the reference **encoder** `encodeIcc plan profile`, where a `Plan` is a legal command
sequence covering the profile, `planCovers` the (decidable) legality predicate, and `autoPlan` a
simple planner.
-/
namespace Jxl.Icc

/-- Error classes of `decode_icc`, one per distinct message in the Rust source. -/
inductive ErrKind where
  /-- "stream is too short" (varint / flags byte / `num > data.len()`) -/
  | short
  /-- "invalid commands_size" -/
  | cmdsize
  /-- `ProfileConformance("ICC output_size too large")` -/
  | toolarge
  /-- "invalid output_size" -/
  | outsize
  /-- "num_tags too large" -/
  | numtags
  /-- "unexpected end of data stream" (tagcode 1 with < 4 data bytes) -/
  | tagdata
  /-- "invalid tagcode" -/
  | tagcode
  /-- "ICC profile size mismatch" (`tagstart + tagsize > output_size`) -/
  | tagrange
  /-- "width == 3 || order == 3" -/
  | widthorder
  /-- "stride < width" -/
  | stride
  /-- "stride * 4 >= out.len()" -/
  | lookback
  /-- "invalid command" -/
  | command
  /-- "decoded ICC profile size mismatch" -/
  | sizemismatch
  /-- model only: loop fuel exhausted (proved unreachable, `C18_fuel_never_exhausted`) -/
  | fuel
  deriving Repr, DecidableEq

deriving instance DecidableEq for Except

def ErrKind.name : ErrKind → String
  | .short => "short" | .cmdsize => "cmdsize" | .toolarge => "toolarge" | .outsize => "outsize"
  | .numtags => "numtags" | .tagdata => "tagdata" | .tagcode => "tagcode"
  | .tagrange => "tagrange" | .widthorder => "widthorder" | .stride => "stride"
  | .lookback => "lookback" | .command => "command" | .sizemismatch => "sizemismatch"
  | .fuel => "fuel"

/-! ## `get_icc_ctx` -/

/-- `b'a'..=b'z' | b'A'..=b'Z'` -/
def isAlpha (b : Nat) : Bool := (97 ≤ b && b ≤ 122) || (65 ≤ b && b ≤ 90)
/-- `b'0'..=b'9' | b'.' | b','` -/
def isDigitish (b : Nat) : Bool := (48 ≤ b && b ≤ 57) || b == 46 || b == 44

/-- `get_icc_ctx(idx, b1, b2)`; the `match` arms in source order. -/
def getIccCtx (idx b1 b2 : Nat) : Nat :=
  if idx ≤ 128 then 0
  else
    let p1 :=
      if isAlpha b1 then 0
      else if isDigitish b1 then 1
      else if b1 ≤ 1 then 2 + b1
      else if b1 ≤ 15 then 4
      else if 241 ≤ b1 ∧ b1 ≤ 254 then 5
      else if b1 = 255 then 6
      else 7
    let p2 :=
      if isAlpha b2 then 0
      else if isDigitish b2 then 1
      else if b2 ≤ 15 then 2
      else if 241 ≤ b2 ∧ b2 ≤ 255 then 3
      else 4
    1 + p1 + 8 * p2

/-! ## varint -/

/-- `varint`: the loop runs while `shift < 63`, i.e. at most 9 times (`shift = 0,7,…,56`);
after the ninth byte it stops whatever that byte's top bit says. `|=` of disjoint bit groups is
written as `+`. `iters` = iterations left. -/
def readVarintAux : Nat → Nat → Nat → List Nat → Except ErrKind (Nat × List Nat)
  | 0, _, acc, s => .ok (acc, s)
  | iters + 1, shift, acc, s =>
    match s with
    | [] => .error .short
    | b :: rest =>
      let acc' := acc + (b % 128) * 2 ^ shift
      if b < 128 then .ok (acc', rest) else readVarintAux iters (shift + 7) acc' rest

def readVarint (s : List Nat) : Except ErrKind (Nat × List Nat) := readVarintAux 9 0 0 s

/-- Minimal-length varint writer; `more` = continuation bytes still allowed. -/
def encVarintAux : Nat → Nat → List Nat
  | 0, n => [n % 128]
  | more + 1, n => if n < 128 then [n] else (n % 128 + 128) :: encVarintAux more (n / 128)

/-- Encodes `n < 2^63` in 1..9 bytes. -/
def encVarint (n : Nat) : List Nat := encVarintAux 8 n

/-! ## byte helpers -/

/-- `(v as u32).to_be_bytes()` -/
def be32 (v : Nat) : List Nat :=
  [(v / 16777216) % 256, (v / 65536) % 256, (v / 256) % 256, v % 256]

/-- `u32::from_be_bytes` of four bytes at `off` of a list -/
def readBe32 (l : List Nat) (off : Nat) : Nat :=
  l.getD off 0 * 16777216 + l.getD (off + 1) 0 * 65536 + l.getD (off + 2) 0 * 256 + l.getD (off + 3) 0

def mntrRgbXyz : List Nat := [109, 110, 116, 114, 82, 71, 66, 32, 88, 89, 90, 32]
def acsp : List Nat := [97, 99, 115, 112]

/-- `COMMON_TAGS` -/
def commonTags : List (List Nat) :=
  [[114, 84, 82, 67], [114, 88, 89, 90], [99, 112, 114, 116], [119, 116, 112, 116],
   [98, 107, 112, 116], [114, 88, 89, 90], [103, 88, 89, 90], [98, 88, 89, 90],
   [107, 88, 89, 90], [114, 84, 82, 67], [103, 84, 82, 67], [98, 84, 82, 67],
   [107, 84, 82, 67], [99, 104, 97, 100], [100, 101, 115, 99], [99, 104, 114, 109],
   [100, 109, 110, 100], [100, 109, 100, 100], [108, 117, 109, 105]]

/-- `COMMON_DATA` -/
def commonData : List (List Nat) :=
  [[88, 89, 90, 32], [100, 101, 115, 99], [116, 101, 120, 116], [109, 108, 117, 99],
   [112, 97, 114, 97], [99, 117, 114, 118], [115, 102, 51, 50], [103, 98, 100, 32]]

def gTRC : List Nat := [103, 84, 82, 67]
def bTRC : List Nat := [98, 84, 82, 67]
def gXYZ : List Nat := [103, 88, 89, 90]
def bXYZ : List Nat := [98, 88, 89, 90]

/-- the tags whose implicit size is 20:
`b"rXYZ" | b"gXYZ" | b"bXYZ" | b"kXYZ" | b"wtpt" | b"bkpt" | b"lumi"` -/
def isSize20Tag (tag : List Nat) : Bool :=
  tag == [114, 88, 89, 90] || tag == [103, 88, 89, 90] || tag == [98, 88, 89, 90] ||
  tag == [107, 88, 89, 90] || tag == [119, 116, 112, 116] || tag == [98, 107, 112, 116] ||
  tag == [108, 117, 109, 105]

/-! ## header prediction -/

/-- The arms of `predict_header` in source order, as a function of the three header values an
arm may look at: `h40 = header[40]`, `h41 = header[41]`, `hLook = header[4 + idx - 80]`. -/
def predictHeaderV (idx size h40 h41 hLook : Nat) : Nat :=
  if idx ≤ 3 then (be32 (size % 4294967296)).getD idx 0
  else if idx = 8 then 4
  else if 12 ≤ idx ∧ idx ≤ 23 then mntrRgbXyz.getD (idx - 12) 0
  else if 36 ≤ idx ∧ idx ≤ 39 then acsp.getD (idx - 36) 0
  else if (idx = 41 ∨ idx = 42) ∧ h40 = 65 then 80
  else if idx = 43 ∧ h40 = 65 then 76
  else if idx = 41 ∧ h40 = 77 then 83
  else if idx = 42 ∧ h40 = 77 then 70
  else if idx = 43 ∧ h40 = 77 then 84
  else if idx = 42 ∧ h40 = 83 ∧ h41 = 71 then 73
  else if idx = 43 ∧ h40 = 83 ∧ h41 = 71 then 32
  else if idx = 42 ∧ h40 = 83 ∧ h41 = 85 then 78
  else if idx = 43 ∧ h40 = 83 ∧ h41 = 85 then 87
  else if idx = 70 then 246
  else if idx = 71 then 214
  else if idx = 73 then 1
  else if idx = 78 then 211
  else if idx = 79 then 45
  else if 80 ≤ idx ∧ idx ≤ 83 then hLook
  else 0

/-- `predict_header(idx, output_size as u32, header)`. `header` is whatever slice the caller
passes: `decode_icc` passes the **encoded** header bytes (`header_data`), the encoder below passes
the profile itself; `C18_header_pred_lookback_sound` shows the look-backs at 4..7, 40, 41 see the
same values either way. -/
def predictHeader (idx size : Nat) (header : List Nat) : Nat :=
  predictHeaderV idx size (header.getD 40 0) (header.getD 41 0) (header.getD (4 + idx - 80) 0)

/-- header loop of `decode_icc`: `out.push(p.wrapping_add(e))` with `p` predicted from the
encoded header bytes. -/
def decodeHeader (size : Nat) (headerData : List Nat) : List Nat :=
  (List.range headerData.length).map fun idx =>
    (predictHeader idx size headerData + headerData.getD idx 0) % 256

/-! ## shuffles -/

/-- `shuffle2`/`shuffle4` as one index map: the input is `w` rows stored one after the other,
the first `len % w` rows one element longer; output element `k` is element `k / w` of row
`k % w`. For `w = 2` this is `bytes[idx]`, `bytes[idx + height + odd]`, trailing `bytes[height]`;
for `w = 4` the `base += step + 1` / `base += step` walk and the trailing
`bytes[(step + 1) * idx - 1]`. -/
def shuffleW (w : Nat) (bytes : List Nat) : List Nat :=
  let arr := bytes.toArray
  let len := arr.size
  (List.range len).map fun k =>
    arr.getD (k / w + (k % w) * (len / w) + min (k % w) (len % w)) 0

def shuffle2 (bytes : List Nat) : List Nat := shuffleW 2 bytes
def shuffle4 (bytes : List Nat) : List Nat := shuffleW 4 bytes

/-- encoder side: row `r` = the elements at positions `≡ r (mod w)`; rows concatenated. -/
def unshuffleRow (w r : Nat) (x : List Nat) : List Nat :=
  let arr := x.toArray
  (List.range ((x.length + w - 1 - r) / w)).map fun c => arr.getD (c * w + r) 0

def unshuffle2 (x : List Nat) : List Nat := unshuffleRow 2 0 x ++ unshuffleRow 2 1 x
def unshuffle4 (x : List Nat) : List Nat :=
  unshuffleRow 4 0 x ++ unshuffleRow 4 1 x ++ unshuffleRow 4 2 x ++ unshuffleRow 4 3 x

def shuffleBy (width : Nat) (bytes : List Nat) : List Nat :=
  if width = 2 then shuffle2 bytes else if width = 4 then shuffle4 bytes else bytes

def unshuffleBy (width : Nat) (x : List Nat) : List Nat :=
  if width = 2 then unshuffle2 x else if width = 4 then unshuffle4 x else x

/-! ## command 4: N-th order prediction -/

/-- big-endian value of `width` bytes starting at `off`, read through an accessor -/
def beRead (get : Nat → Nat) (off : Nat) : Nat → Nat
  | 0 => 0
  | w + 1 => get off * 256 ^ w + beRead get (off + 1) w

/-- The predicted `u32` `p` (wrapping arithmetic) for the next element, from the `order + 1`
previous elements `stride` apart; `len` = current `out.len()`. -/
def predictVal (get : Nat → Nat) (len stride width order : Nat) : Nat :=
  let prev := fun j => beRead get (len - stride * (j + 1)) width
  if order = 0 then prev 0
  else if order = 1 then (2 * prev 0 + 4294967296 - prev 1) % 4294967296
  else (3 * ((prev 0 + 4294967296 - prev 1) % 4294967296) + prev 2) % 4294967296

/-- inner `for j in 0..width.min(num - i)`: `out.push((bytes[i+j] + (p >> 8*(width-1-j))) as u8)` -/
def pushChunk (p width : Nat) : Nat → List Nat → Array Nat → Array Nat
  | _, [], out => out
  | j, b :: bs, out => pushChunk p width (j + 1) bs (out.push ((b + p / 2 ^ (8 * (width - 1 - j))) % 256))

/-- outer `for i in (0..num).step_by(width)`; fuel = `num` (each round consumes ≥ 1 byte). -/
def predLoop (width order stride : Nat) : Nat → List Nat → Array Nat → Array Nat
  | 0, _, out => out
  | fuel + 1, bytes, out =>
    if bytes.isEmpty then out
    else
      let p := predictVal (fun i => out.getD i 0) out.size stride width order
      predLoop width order stride fuel (bytes.drop width) (pushChunk p width 0 (bytes.take width) out)

/-! ## the command interpreter -/

abbrev St := List Nat × List Nat × Array Nat

/-- commands 1, 2, 3: `num` bytes copied raw / through `shuffle2` / `shuffle4` -/
def cmdCopy (command : Nat) (cmds data : List Nat) (out : Array Nat) : Except ErrKind St :=
  match readVarint cmds with
  | .error e => .error e
  | .ok (num, cmds) =>
    if num > data.length then .error .short
    else
      let bytes := data.take num
      let bytes := if command = 1 then bytes else if command = 2 then shuffle2 bytes else shuffle4 bytes
      .ok (cmds, data.drop num, out ++ bytes.toArray)

/-- the optional explicit stride of command 4 -/
def readStride (flags width : Nat) (cmds : List Nat) : Except ErrKind (Nat × List Nat) :=
  if (flags / 16) % 2 = 0 then .ok (width, cmds)
  else
    match readVarint cmds with
    | .error e => .error e
    | .ok (stride, cmds) => if stride < width then .error .stride else .ok (stride, cmds)

/-- command 4 after flags and stride are known: the look-back check, `num`, the run -/
def cmdPredRun (width order stride : Nat) (cmds data : List Nat) (out : Array Nat) :
    Except ErrKind St :=
  -- `stride.saturating_mul(4) >= out.len()`
  if min (stride * 4) 18446744073709551615 ≥ out.size then .error .lookback
  else
    match readVarint cmds with
    | .error e => .error e
    | .ok (num, cmds) =>
      if data.length < num then .error .short
      else
        .ok (cmds, data.drop num,
          predLoop width order stride num (shuffleBy width (data.take num)) out)

/-- command 4: `width = (flags & 3) + 1`, `order = (flags >> 2) & 3`, stride flag = bit 4 -/
def cmdPred (cmds data : List Nat) (out : Array Nat) : Except ErrKind St :=
  match cmds with
  | [] => .error .short
  | flags :: cmds =>
    if flags % 4 + 1 = 3 ∨ (flags / 4) % 4 = 3 then .error .widthorder
    else
      match readStride flags (flags % 4 + 1) cmds with
      | .error e => .error e
      | .ok (stride, cmds) => cmdPredRun (flags % 4 + 1) ((flags / 4) % 4) stride cmds data out

/-- one iteration of the main `while` loop, after the command byte was read -/
def mainStep (command : Nat) (cmds data : List Nat) (out : Array Nat) : Except ErrKind St :=
  if command = 1 ∨ command = 2 ∨ command = 3 then cmdCopy command cmds data out
  else if command = 4 then cmdPred cmds data out
  else if command = 10 then
    if data.length < 12 then .error .short
    else .ok (cmds, data.drop 12, out ++ ([88, 89, 90, 32, 0, 0, 0, 0] ++ data.take 12).toArray)
  else if 16 ≤ command ∧ command ≤ 23 then
    .ok (cmds, data, out ++ ((commonData.getD (command - 16) []) ++ [0, 0, 0, 0]).toArray)
  else .error .command

/-- main section; fuel = number of command bytes + 1 -/
def mainLoop : Nat → List Nat → List Nat → Array Nat → Except ErrKind (Array Nat)
  | 0, _, _, _ => .error .fuel
  | _ + 1, [], _, out => .ok out
  | fuel + 1, command :: cmds, data, out =>
    match mainStep command cmds data out with
    | .error e => .error e
    | .ok (cmds, data, out) => mainLoop fuel cmds data out

structure TagSt where
  cmds : List Nat
  data : List Nat
  out : Array Nat
  prevStart : Nat
  prevSize : Nat

/-- the tag of a tag command: `Ok (tag, data')` -/
def tagOf (tagcode : Nat) (data : List Nat) : Except ErrKind (List Nat × List Nat) :=
  if tagcode = 1 then
    if data.length < 4 then .error .tagdata else .ok (data.take 4, data.drop 4)
  else if 2 ≤ tagcode ∧ tagcode ≤ 20 then .ok (commonTags.getD (tagcode - 2) [], data)
  else .error .tagcode

/-- a `u32` taken from a varint (`varint(..)? as u32`) -/
def readU32 (cmds : List Nat) : Except ErrKind (Nat × List Nat) :=
  match readVarint cmds with
  | .error e => .error e
  | .ok (v, cmds) => .ok (v % 4294967296, cmds)

/-- `tagstart`: implicit (`prev_tagstart + prev_tagsize`) unless bit 6 is set -/
def readTagStart (command ps pz : Nat) (cmds : List Nat) : Except ErrKind (Nat × List Nat) :=
  if (command / 64) % 2 = 0 then .ok (ps + pz, cmds) else readU32 cmds

/-- `tagsize`: explicit if bit 7 is set, else 20 for the XYZ-like tags, else the previous size -/
def readTagSize (command pz : Nat) (tag cmds : List Nat) : Except ErrKind (Nat × List Nat) :=
  if (command / 128) % 2 = 1 then readU32 cmds
  else if isSize20Tag tag then .ok (20, cmds) else .ok (pz, cmds)

/-- the 12 or 36 bytes a tag command appends -/
def tagEntry (tagcode : Nat) (tag : List Nat) (tagstart tagsize : Nat) : List Nat :=
  tag ++ be32 tagstart ++ be32 tagsize ++
    (if tagcode = 2 then
      gTRC ++ be32 tagstart ++ be32 tagsize ++ bTRC ++ be32 tagstart ++ be32 tagsize
    else if tagcode = 3 then
      gXYZ ++ be32 (tagstart + tagsize) ++ be32 tagsize ++
      bXYZ ++ be32 (tagstart + tagsize * 2) ++ be32 tagsize
    else [])

/-- one iteration of the tag `loop`, after a command byte with `tagcode ≠ 0` was read.
`tagstart`/`tagsize` are `u32` (`as u32` truncates explicit values; the implicit sum cannot
overflow because every accepted `tagstart + tagsize ≤ output_size ≤ 2^28`). -/
def tagStep (size : Nat) (command : Nat) (s : TagSt) : Except ErrKind TagSt :=
  match tagOf (command % 64) s.data with
  | .error e => .error e
  | .ok (tag, data) =>
    match readTagStart command s.prevStart s.prevSize s.cmds with
    | .error e => .error e
    | .ok (tagstart, cmds) =>
      match readTagSize command s.prevSize tag cmds with
      | .error e => .error e
      | .ok (tagsize, cmds) =>
        if tagstart + tagsize > size then .error .tagrange
        else
          .ok { cmds := cmds, data := data,
                out := s.out ++ (tagEntry (command % 64) tag tagstart tagsize).toArray,
                prevStart := tagstart, prevSize := tagsize }

/-- the tag `loop`. End of commands = fall through to the final size check (**repaired** F6
behaviour; the unrepaired code returned `Ok(out)` here). Fuel = command bytes + 1. -/
def tagLoop (size : Nat) : Nat → TagSt → Except ErrKind TagSt
  | 0, _ => .error .fuel
  | fuel + 1, s =>
    match s.cmds with
    | [] => .ok s
    | command :: cmds =>
      if command % 64 = 0 then .ok { s with cmds := cmds }
      else
        match tagStep size command { s with cmds := cmds } with
        | .error e => .error e
        | .ok s' => tagLoop size fuel s'

/-- the tag section: `v` is the varint read first (`num_tags + 1`, or 0 = no tag list) -/
def decodeTags (size v : Nat) (cmds data : List Nat) (out : Array Nat) : Except ErrKind St :=
  if v = 0 then .ok (cmds, data, out)
  else if (size - 128) / 12 < v - 1 then .error .numtags
  else
    match tagLoop size (cmds.length + 1)
        { cmds := cmds, data := data, out := out ++ (be32 (v - 1)).toArray,
          prevStart := (v - 1) * 12 + 128, prevSize := 0 } with
    | .error e => .error e
    | .ok s => .ok (s.cmds, s.data, s.out)

/-- the main section and the final size check -/
def decodeMain (size : Nat) (cmds data : List Nat) (out : Array Nat) : Except ErrKind (List Nat) :=
  match mainLoop (cmds.length + 1) cmds data out with
  | .error e => .error e
  | .ok out => if out.size ≠ size then .error .sizemismatch else .ok out.toList

/-- everything after the header, for `output_size > 128` -/
def decodeBody (size : Nat) (commands data : List Nat) (out : Array Nat) :
    Except ErrKind (List Nat) :=
  match readVarint commands with
  | .error e => .error e
  | .ok (v, cmds) =>
    match decodeTags size v cmds data out with
    | .error e => .error e
    | .ok (cmds, data, out) => decodeMain size cmds data out

/-- `decode_icc` after the two size varints and the `commands`/`data` split -/
def decodeFramed (outputSize : Nat) (commands data : List Nat) : Except ErrKind (List Nat) :=
  -- `header_size = output_size.min(128)`
  if data.length < min outputSize 128 then .error .outsize
  else if outputSize ≤ 128 then .ok (decodeHeader outputSize (data.take (min outputSize 128)))
  else
    decodeBody outputSize commands (data.drop (min outputSize 128))
      (decodeHeader outputSize (data.take (min outputSize 128))).toArray

/-- `decode_icc(stream)` -/
def decodeIcc (stream : List Nat) : Except ErrKind (List Nat) :=
  match readVarint stream with
  | .error e => .error e
  | .ok (outputSize, s1) =>
    match readVarint s1 with
    | .error e => .error e
    | .ok (commandsSize, s2) =>
      -- `stream_offset + commands_size > stream.len()`
      if commandsSize > s2.length then .error .cmdsize
      else if outputSize > 268435456 then .error .toolarge
      else decodeFramed outputSize (s2.take commandsSize) (s2.drop commandsSize)

/-- the output size the stream declares (first varint) -/
def declaredSize (stream : List Nat) : Nat :=
  match readVarint stream with
  | .ok (n, _) => n
  | .error _ => 0

/-! ## Encoder -/

/-- One tag-list command. `code = 1`: the 4 tag bytes travel in the data stream; `2..20`: common
tag. `explicitStart`/`explicitSize`: bits 6/7 of the command byte. -/
structure TagCmd where
  code : Nat
  explicitStart : Bool
  explicitSize : Bool
  deriving Repr, DecidableEq

/-- One main-section command covering the next bytes of the profile. -/
inductive Seg where
  /-- command 1 -/
  | raw (n : Nat)
  /-- command 2 -/
  | shuf2 (n : Nat)
  /-- command 3 -/
  | shuf4 (n : Nat)
  /-- command 4: `stride = none` ⇒ flag bit 4 clear (stride = width); `hi` = the ignored flag bits 5..7 -/
  | pred (width order : Nat) (stride : Option Nat) (hi : Nat) (n : Nat)
  /-- command 10: `"XYZ " 0 0 0 0` + 12 data bytes -/
  | xyz
  /-- command 16 + k: `COMMON_DATA[k]` + `0 0 0 0` -/
  | common (k : Nat)
  deriving Repr, DecidableEq

/-- the tag list of a plan: `num_tags`, the commands, and whether the list is closed by a `0`
command (if not, the command stream must end there) -/
structure TagPlan where
  numTags : Nat
  cmds : List TagCmd
  terminator : Bool
  deriving Repr, DecidableEq

structure Plan where
  tags : Option TagPlan
  main : List Seg
  deriving Repr, DecidableEq

def slice (l : List Nat) (off n : Nat) : List Nat := (l.drop off).take n

/-- encoder header: `e = byte − prediction (mod 256)`, predicting from the **profile** bytes -/
def encodeHeader (profile : List Nat) : List Nat :=
  (List.range (min profile.length 128)).map fun idx =>
    (profile.getD idx 0 + 256 - predictHeader idx profile.length profile) % 256

def tagCmdLen (c : TagCmd) : Nat := if c.code = 2 ∨ c.code = 3 then 36 else 12

/-- the command byte of a tag command -/
def tagCmdByte (c : TagCmd) : Nat :=
  c.code + (if c.explicitStart then 64 else 0) + (if c.explicitSize then 128 else 0)

/-- the explicit start/size varints following the command byte -/
def encTagArgs (profile : List Nat) (pos : Nat) (c : TagCmd) : List Nat :=
  (if c.explicitStart then encVarint (readBe32 profile (pos + 4)) else []) ++
  (if c.explicitSize then encVarint (readBe32 profile (pos + 8)) else [])

/-- command bytes and data bytes of one tag command whose entry sits at `pos` -/
def encTagCmd (profile : List Nat) (pos : Nat) (c : TagCmd) : List Nat × List Nat :=
  (tagCmdByte c :: encTagArgs profile pos c, if c.code = 1 then slice profile pos 4 else [])

def encTagCmds (profile : List Nat) : Nat → List TagCmd → List Nat × List Nat × Nat
  | pos, [] => ([], [], pos)
  | pos, c :: cs =>
    let (c1, d1) := encTagCmd profile pos c
    let (c2, d2, pos') := encTagCmds profile (pos + tagCmdLen c) cs
    (c1 ++ c2, d1 ++ d2, pos')

/-- command bytes, data bytes and end position of the tag section -/
def encTags (profile : List Nat) : Option TagPlan → List Nat × List Nat × Nat
  | none => (encVarint 0, [], 128)
  | some t =>
    let (c, d, pos) := encTagCmds profile 132 t.cmds
    (encVarint (t.numTags + 1) ++ c ++ (if t.terminator then [0] else []), d, pos)

def segLen : Seg → Nat
  | .raw n => n | .shuf2 n => n | .shuf4 n => n | .pred _ _ _ _ n => n
  | .xyz => 20 | .common _ => 8

def strideOf (width : Nat) : Option Nat → Nat
  | none => width
  | some s => s

def encStride : Option Nat → List Nat
  | none => []
  | some s => encVarint s

/-- encoder side of `pushChunk`: residual = byte − the prediction's byte (mod 256) -/
def residChunk (p width : Nat) : Nat → List Nat → List Nat
  | _, [] => []
  | j, x :: xs => ((x + 256 - (p / 2 ^ (8 * (width - 1 - j))) % 256) % 256) :: residChunk p width (j + 1) xs

/-- residuals of a predicted run (before un-shuffling): walks the profile exactly as the
decoder's `predLoop` walks its output. Fuel = `n`. -/
def residLoop (profile : Array Nat) (width order stride : Nat) : Nat → Nat → Nat → List Nat
  | 0, _, _ => []
  | fuel + 1, pos, n =>
    if n = 0 then []
    else
      let p := predictVal (fun i => profile.getD i 0) pos stride width order
      let k := min width n
      residChunk p width 0 (profile.extract pos (pos + k)).toList
        ++ residLoop profile width order stride fuel (pos + k) (n - k)

/-- command bytes and data bytes of one main command covering `profile[pos ..]` -/
def encSeg (profile : List Nat) (pos : Nat) : Seg → List Nat × List Nat
  | .raw n => ([1] ++ encVarint n, slice profile pos n)
  | .shuf2 n => ([2] ++ encVarint n, unshuffle2 (slice profile pos n))
  | .shuf4 n => ([3] ++ encVarint n, unshuffle4 (slice profile pos n))
  | .pred width order stride hi n =>
    let flags := (width - 1) + 4 * order + (if stride.isSome then 16 else 0) + 32 * hi
    ([4, flags] ++ encStride stride ++ encVarint n,
     unshuffleBy width (residLoop profile.toArray width order (strideOf width stride) n pos n))
  | .xyz => ([10], slice profile (pos + 8) 12)
  | .common k => ([16 + k], [])

def encMain (profile : List Nat) : Nat → List Seg → List Nat × List Nat
  | _, [] => ([], [])
  | pos, s :: ss =>
    let (c1, d1) := encSeg profile pos s
    let (c2, d2) := encMain profile (pos + segLen s) ss
    (c1 ++ c2, d1 ++ d2)

/-- The encoded ICC stream for `profile` under `plan`. -/
def encodeIcc (plan : Plan) (profile : List Nat) : List Nat :=
  let size := profile.length
  let hdr := encodeHeader profile
  if size ≤ 128 then encVarint size ++ encVarint 0 ++ hdr
  else
    let (tc, td, pos) := encTags profile plan.tags
    let (mc, md) := encMain profile pos plan.main
    let cmds := tc ++ mc
    encVarint size ++ encVarint cmds.length ++ cmds ++ hdr ++ td ++ md

/-! ### legality of a plan -/

def tagOfCode (profile : List Nat) (pos : Nat) (code : Nat) : List Nat :=
  if code = 1 then slice profile pos 4 else commonTags.getD (code - 2) []

/-- the tag command `c` is legal at `pos` with decoder state `(prevStart, prevSize) = (ps, pz)` -/
def tagCmdOk (profile : List Nat) (c : TagCmd) (pos ps pz : Nat) : Bool :=
  let len := profile.length
  let tag := tagOfCode profile pos c.code
  let start := readBe32 profile (pos + 4)
  let sz := readBe32 profile (pos + 8)
  1 ≤ c.code && c.code ≤ 20 && pos + tagCmdLen c ≤ len &&
  slice profile pos 4 == tag &&
  (c.explicitStart || start == ps + pz) &&
  (c.explicitSize || sz == (if isSize20Tag tag then 20 else pz)) &&
  start + sz ≤ len &&
  (c.code != 2 ||
    slice profile (pos + 12) 24 == gTRC ++ be32 start ++ be32 sz ++ bTRC ++ be32 start ++ be32 sz) &&
  (c.code != 3 ||
    slice profile (pos + 12) 24 ==
      gXYZ ++ be32 (start + sz) ++ be32 sz ++ bXYZ ++ be32 (start + sz * 2) ++ be32 sz)

/-- tag commands are legal from `pos` with decoder state `(prevStart, prevSize)`; returns the
end position -/
def tagCmdsCover (profile : List Nat) : List TagCmd → Nat → Nat → Nat → Option Nat
  | [], pos, _, _ => some pos
  | c :: cs, pos, ps, pz =>
    if tagCmdOk profile c pos ps pz then
      tagCmdsCover profile cs (pos + tagCmdLen c) (readBe32 profile (pos + 4)) (readBe32 profile (pos + 8))
    else none

def tagsCover (profile : List Nat) : Option TagPlan → Option Nat
  | none => some 128
  | some t =>
    let len := profile.length
    if 132 ≤ len && t.numTags ≤ (len - 128) / 12 && slice profile 128 4 == be32 t.numTags then
      tagCmdsCover profile t.cmds 132 (t.numTags * 12 + 128) 0
    else none

def segCovers (profile : List Nat) (pos : Nat) : Seg → Bool
  | .raw n => pos + n ≤ profile.length
  | .shuf2 n => pos + n ≤ profile.length
  | .shuf4 n => pos + n ≤ profile.length
  | .pred width order stride hi n =>
    (width == 1 || width == 2 || width == 4) && order ≤ 2 && hi < 8 &&
    width ≤ strideOf width stride && strideOf width stride * 4 < pos && pos + n ≤ profile.length
  | .xyz => pos + 20 ≤ profile.length && slice profile pos 8 == [88, 89, 90, 32, 0, 0, 0, 0]
  | .common k =>
    k < 8 && pos + 8 ≤ profile.length && slice profile pos 8 == commonData.getD k [] ++ [0, 0, 0, 0]

def mainCovers (profile : List Nat) : List Seg → Nat → Bool
  | [], pos => pos == profile.length
  | s :: ss, pos => segCovers profile pos s && mainCovers profile ss (pos + segLen s)

def tagCmdCount : Option TagPlan → Nat
  | none => 0
  | some t => t.cmds.length

/-- `plan` is a legal command sequence producing exactly `profile` (Bool form). The profile is a
byte string of at most 2^28 bytes (`decode_icc`'s limit); the plan has at most 2^28 commands of
each kind (the whole encoded stream is limited to 2^28 bytes by `read_icc`; this keeps the
command-stream length within the varint range). -/
def planCovers (plan : Plan) (profile : List Nat) : Bool :=
  profile.all (· < 256) && profile.length ≤ 268435456 &&
  plan.main.length ≤ 268435456 && tagCmdCount plan.tags ≤ 268435456 &&
  if profile.length ≤ 128 then plan.tags.isNone && plan.main.isEmpty
  else
    match tagsCover profile plan.tags with
    | none => false
    | some pos =>
      (match plan.tags with
       | some t => t.terminator || plan.main.isEmpty
       | none => true) &&
      mainCovers profile plan.main pos

/-- `plan` is a legal command sequence producing exactly `profile`. -/
def PlanCovers (plan : Plan) (profile : List Nat) : Prop := planCovers plan profile = true

instance (plan : Plan) (profile : List Nat) : Decidable (PlanCovers plan profile) := by
  unfold PlanCovers; exact inferInstance

/-! ### a simple planner

`choices` is a stream of numbers steering the planner (the check draws them from its seeded
PRNG); an exhausted stream means "take the natural option": tag shortcuts wherever they apply,
implicit start/size wherever they are right, and the rest of the profile as one raw copy. -/

def nextChoice : List Nat → Nat × List Nat
  | [] => (0, [])
  | c :: cs => (c, cs)

/-- first index `k ≥ from_` with `commonTags[k] = tag` -/
def findCommonTag (tag : List Nat) (from_ : Nat) : Option Nat :=
  ((List.range 19).filter fun k => from_ ≤ k && commonTags.getD k [] == tag).head?

def expansionOk (profile : List Nat) (pos code start sz : Nat) : Bool :=
  if code = 2 then
    slice profile (pos + 12) 24 == gTRC ++ be32 start ++ be32 sz ++ bTRC ++ be32 start ++ be32 sz
  else if code = 3 then
    slice profile (pos + 12) 24 ==
      gXYZ ++ be32 (start + sz) ++ be32 sz ++ bXYZ ++ be32 (start + sz * 2) ++ be32 sz
  else true

/-- greedy tag commands; stops at the first entry the format cannot express
(`start + size > len`) or when the table is exhausted. Choice bits: 1 = force tagcode 1,
2 = force explicit start, 4 = force explicit size, 8 = stop here. -/
def planTagCmds (profile : List Nat) :
    Nat → Nat → Nat → Nat → Nat → List Nat → List TagCmd × Nat × List Nat
  | 0, pos, _, _, _, ch => ([], pos, ch)
  | fuel + 1, pos, endPos, ps, pz, ch =>
    let len := profile.length
    if pos + 12 > endPos then ([], pos, ch)
    else
      let (c, ch) := nextChoice ch
      let tag := slice profile pos 4
      let start := readBe32 profile (pos + 4)
      let sz := readBe32 profile (pos + 8)
      if start + sz > len || (c / 8) % 2 = 1 then ([], pos, ch)
      else
        let code :=
          if c % 2 = 1 then 1
          else
            match findCommonTag tag 0 with
            | none => 1
            | some k =>
              if (k + 2 = 2 || k + 2 = 3) &&
                 !(pos + 36 ≤ endPos && expansionOk profile pos (k + 2) start sz) then
                match findCommonTag tag (k + 1) with
                | none => 1
                | some k' => k' + 2
              else k + 2
        let implied := if isSize20Tag tag then 20 else pz
        let cmd : TagCmd :=
          { code := code,
            explicitStart := (c / 2) % 2 = 1 || start != ps + pz,
            explicitSize := (c / 4) % 2 = 1 || sz != implied }
        let (rest, pos', ch) :=
          planTagCmds profile fuel (pos + tagCmdLen cmd) endPos start sz ch
        (cmd :: rest, pos', ch)

def planTags (profile : List Nat) (useTags : Bool) (ch : List Nat) :
    Option TagPlan × Nat × List Nat :=
  let len := profile.length
  let n := readBe32 profile 128
  if !useTags || len < 132 || n > (len - 128) / 12 then (none, 128, ch)
  else
    let (cmds, pos, ch) := planTagCmds profile (n + 1) 132 (132 + 12 * n) (n * 12 + 128) 0 ch
    (some { numTags := n, cmds := cmds, terminator := true }, pos, ch)

/-- main-section planner. Each round draws a kind and parameters; whatever is not legal at the
current position degrades to a raw copy. With `shortcuts` the `XYZ `/common-data commands are
used wherever they match. Fuel = remaining bytes + 1. -/
def planMain (profile : List Nat) (shortcuts : Bool) : Nat → Nat → List Nat → List Seg
  | 0, _, _ => []
  | fuel + 1, pos, ch =>
    let len := profile.length
    let remaining := len - pos
    if remaining = 0 then []
    else
      let isXyz := pos + 20 ≤ len && slice profile pos 8 == [88, 89, 90, 32, 0, 0, 0, 0]
      let commonK := ((List.range 8).filter fun k =>
        pos + 8 ≤ len && slice profile pos 8 == commonData.getD k [] ++ [0, 0, 0, 0]).head?
      if shortcuts && isXyz then .xyz :: planMain profile shortcuts fuel (pos + 20) ch
      else if shortcuts && commonK.isSome then
        .common (commonK.getD 0) :: planMain profile shortcuts fuel (pos + 8) ch
      else
        match ch with
        | [] => [.raw remaining]
        | kind :: ch =>
          let (l, ch) := nextChoice ch
          let n := min remaining (l + 1)
          let k := kind % 8
          if k = 1 then .shuf2 n :: planMain profile shortcuts fuel (pos + n) ch
          else if k = 2 then .shuf4 n :: planMain profile shortcuts fuel (pos + n) ch
          else if 3 ≤ k ∧ k ≤ 6 then
            let (a, ch) := nextChoice ch
            let (b, ch) := nextChoice ch
            let width := if a % 3 = 0 then 1 else if a % 3 = 1 then 2 else 4
            let order := (a / 3) % 3
            let hi := (a / 9) % 8
            let maxStride := (pos - 1) / 4
            if maxStride < width then .raw n :: planMain profile shortcuts fuel (pos + n) ch
            else
              let stride : Option Nat :=
                if b % 4 = 0 then none else some (width + (b / 4) % (maxStride - width + 1))
              .pred width order stride hi n :: planMain profile shortcuts fuel (pos + n) ch
          else .raw n :: planMain profile shortcuts fuel (pos + n) ch

/-- `mode` bit 0: use the tag list; bit 1: use `XYZ `/common-data shortcuts; bit 2: leave out
the tag-list terminator when no main command follows. -/
def autoPlan (mode : Nat) (choices : List Nat) (profile : List Nat) : Plan :=
  if profile.length ≤ 128 then { tags := none, main := [] }
  else
    let (tags, pos, ch) := planTags profile (mode % 2 = 1) choices
    let main := planMain profile ((mode / 2) % 2 = 1) (profile.length - pos + 1) pos ch
    let tags := tags.map fun t =>
      if (mode / 4) % 2 = 1 && main.isEmpty then { t with terminator := false } else t
    { tags := tags, main := main }

end Jxl.Icc
