/-!
# Colour encodings, ICC synthesis / recognition, transfer curves, no-op detection

Mirrors (file / function named next to each definition)
* `jxl-image/src/color.rs` — the enum colour encoding and `cicp()`;
* `jxl-color/src/icc/synthesize.rs` — `colour_encoding_to_icc`;
* `jxl-color/src/icc/parse.rs` — `parse_icc_raw`, `detect_profile_info`, `parse_icc`;
* `jxl-color/src/convert.rs` — `ColorEncodingWithProfile::{with_icc, is_equivalent}` and the
  early return of `ColorTransform::with_builder`;
* `jxl-color/src/tf.rs`, `tf/{srgb,bt709,pq}.rs` — the transfer curves, written over a scalar
  class so that they run at `Float` in the driver and at `ℝ` in `Proofs/Color.lean`;
* `jxl-color/src/ciexyz.rs` — the `f32` chromaticity arithmetic, at `Float32`, operation for
  operation, so that the driver reproduces a synthesised profile byte for byte.

Byte strings are `List Nat` (every element `< 256`), `i32` values are `Int`, `u32` values `Nat`.
The structural part of synthesis takes the already quantised numbers (`Quant`) as input; the
`Float32` part that produces them from chromaticities is separate (`quantOf`).
This file is import-free (it links into the `jxlmodel` executable).
-/
namespace Jxl.Color

/-! ## Enumerations — `jxl-image/src/color.rs` -/

inductive ColourSpace where
  | rgb | grey | xyb | unknown
  deriving DecidableEq, Repr, Inhabited

/-- `Customxy`: chromaticity scaled by `1e6`, an `i32` in the code, 22 bit signed in a header. -/
structure Customxy where
  x : Int
  y : Int
  deriving DecidableEq, Repr, Inhabited

inductive WhitePoint where
  | d65 | custom (xy : Customxy) | e | dci
  deriving DecidableEq, Repr, Inhabited

inductive Primaries where
  | srgb | custom (red green blue : Customxy) | bt2100 | p3
  deriving DecidableEq, Repr, Inhabited

inductive TransferFunction where
  /-- `g` is `u32` scaled by `1e7`; `inverted = true` is what a header produces -/
  | gamma (g : Nat) (inverted : Bool)
  | bt709 | unknown | linear | srgb | pq | dci | hlg
  deriving DecidableEq, Repr, Inhabited

inductive Intent where
  | perceptual | relative | saturation | absolute
  deriving DecidableEq, Repr, Inhabited

structure Enc where
  cs : ColourSpace
  wp : WhitePoint
  prim : Primaries
  tf : TransferFunction
  ri : Intent
  deriving DecidableEq, Repr, Inhabited

def Intent.toNat : Intent → Nat
  | .perceptual => 0 | .relative => 1 | .saturation => 2 | .absolute => 3

def Intent.ofNat? : Nat → Option Intent
  | 0 => some .perceptual | 1 => some .relative | 2 => some .saturation | 3 => some .absolute
  | _ => none

/-- `Primaries::cicp` -/
def Primaries.cicp : Primaries → Option Nat
  | .srgb => some 1 | .custom .. => none | .bt2100 => some 9 | .p3 => some 11

/-- `TransferFunction::cicp` -/
def TransferFunction.cicp : TransferFunction → Option Nat
  | .gamma .. => none | .bt709 => some 1 | .unknown => none | .linear => some 8
  | .srgb => some 13 | .pq => some 16 | .dci => some 17 | .hlg => some 18

/-- `EnumColourEncoding::cicp` -/
def Enc.cicp (e : Enc) : Option (List Nat) :=
  match e.prim.cicp, e.tf.cicp with
  | some p, some t => some [p, t, 0, 1]
  | _, _ => none

/-! ## Bytes and fixed point -/

def be16 (n : Nat) : List Nat := [n / 256 % 256, n % 256]

def be32 (n : Nat) : List Nat := [n / 16777216 % 256, n / 65536 % 256, n / 256 % 256, n % 256]

/-- big-endian value of up to four bytes -/
def ofBe : List Nat → Nat
  | [] => 0
  | b :: r => b * 256 ^ r.length + ofBe r

/-- two's complement: `i32 as u32` -/
def toU32 (v : Int) : Nat := (v % 4294967296).toNat

/-- `u32 as i32` -/
def ofU32 (n : Nat) : Int := if n < 2147483648 then (n : Int) else (n : Int) - 4294967296

/-- `i32::to_be_bytes` -/
def beI32 (v : Int) : List Nat := be32 (toU32 v)

/-- `i32::from_be_bytes` of the first four bytes -/
def i32At (d : List Nat) (off : Nat) : Int := ofU32 (ofBe ((d.drop off).take 4))

def u32At (d : List Nat) (off : Nat) : Nat := ofBe ((d.drop off).take 4)

def u16At (d : List Nat) (off : Nat) : Nat := ofBe ((d.drop off).take 2)

def ascii (s : String) : List Nat := s.toList.map Char.toNat

/-- s15Fixed16 rounding of an exact rational `num / den` (`den > 0`, non-negative value):
`(num * 65536 + den / 2) / den`, the form used for every integer-derived parameter. -/
def s15OfRatio (num den : Nat) : Nat := (num * 65536 + den / 2) / den

/-! ## Synthesis — `jxl-color/src/icc/synthesize.rs` -/

/-- why `colour_encoding_to_icc` does not return (finding F5) -/
inductive SynthPanic where
  /-- `todo!()` at the top: colour space XYB -/
  | xyb
  /-- `TransferFunction::Unknown => panic!()` -/
  | tfUnknown
  /-- `g / ... ` with `g = 0`, inverted gamma: attempt to divide by zero -/
  | gammaZero
  /-- `ColourSpace::Unknown => panic!(..)` in the final match -/
  | csUnknown
  deriving DecidableEq, Repr

structure Tag where
  sig : List Nat
  off : Nat
  len : Nat
  deriving DecidableEq, Repr

def pad4 (l : List Nat) : List Nat := l ++ List.replicate ((4 - l.length % 4) % 4) 0

/-- `append_multiple_tags_with_data`: all `sigs` point at one copy of `d`; data stay 4-aligned -/
def appendTags (st : List Tag × List Nat) (sigs : List (List Nat)) (d : List Nat) :
    List Tag × List Nat :=
  (st.1 ++ sigs.map (fun s => { sig := s, off := st.2.length, len := d.length }), pad4 (st.2 ++ d))

/-- `create_mluc(*b"enUS", &[s])` for an ASCII string -/
def mluc (s : String) : List Nat :=
  let u := ascii s
  ascii "mluc" ++ [0, 0, 0, 0] ++ be32 1 ++ [0, 0, 0, 12] ++ ascii "enUS"
    ++ be32 (u.length * 2) ++ be32 (16 + 12) ++ u.flatMap (fun c => [0, c])

/-- `create_xyz` -/
def xyzTag (v : List Int) : List Nat :=
  ascii "XYZ " ++ [0, 0, 0, 0] ++ (v.take 3).flatMap beI32

/-- `create_curv_lut` -/
def curvLut (lut : List Nat) : List Nat :=
  ascii "curv" ++ [0, 0, 0, 0] ++ be32 lut.length ++ lut.flatMap be16

/-- `create_para` -/
def para (ty : Nat) (params : List Nat) : List Nat :=
  ascii "para" ++ [0, 0, 0, 0] ++ be16 ty ++ [0, 0] ++ params.flatMap be32

/-- the five parameters written for BT.709 (all integer expressions in the source) -/
def bt709Params : List Nat :=
  [(65536 * 20 + 4) / 9, (65536 * 1000 + 549) / 1099, (65536 * 99 + 549) / 1099,
   (65536 * 10 + 22) / 45, (65536 * 81 + 500) / 1000]

def srgbParams : List Nat :=
  [(65536 * 24 + 5) / 10, (65536 * 1000 + 527) / 1055, (65536 * 55 + 527) / 1055,
   (65536 * 100 + 646) / 1292, (65536 * 4045 + 50000) / 100000]

def dciGamma : Nat := (65536 * 26 + 5) / 10

/-- gamma parameter: `((g*65536 + 5000000) / 10000000) as u32` resp.
`((65536*10000000 + g/2) / g) as u32` (`u64` arithmetic, cannot overflow for `g < 2^32`) -/
def gammaParam (g : Nat) (inverted : Bool) : Except SynthPanic Nat :=
  if inverted then
    if g = 0 then .error .gammaZero else .ok (((65536 * 10000000 + g / 2) / g) % 4294967296)
  else .ok (((g * 65536 + 5000000) / 10000000) % 4294967296)

/-- the float-derived numbers, already quantised -/
structure Quant where
  /-- `chad_q`, row major (RGB only) -/
  chad : List Int
  /-- media white point of a grey profile, `(v * 65536 + 0.5) as i32` -/
  wtpt : List Int
  /-- `p_data[0..3]`: the r, g, b colorant columns -/
  rXYZ : List Int
  gXYZ : List Int
  bXYZ : List Int
  /-- `pq_table(4096)` / `hlg_table(4096)` -/
  pqLut : List Nat
  hlgLut : List Nat
  deriving Repr, Inhabited

/-- the TRC tag data: the `match tf` of the source -/
def trcData (q : Quant) : TransferFunction → Except SynthPanic (List Nat)
  | .gamma g inv =>
    match gammaParam g inv with
    | .error p => .error p
    | .ok p => .ok (para 0 [p])
  | .bt709 => .ok (para 3 bt709Params)
  | .unknown => .error .tfUnknown
  | .linear => .ok (ascii "curv" ++ [0, 0, 0, 0, 0, 0, 0, 0])
  | .srgb => .ok (para 3 srgbParams)
  | .pq => .ok (curvLut q.pqLut)
  | .dci => .ok (para 0 [dciGamma])
  | .hlg => .ok (curvLut q.hlgLut)

def csSig : ColourSpace → List Nat
  | .rgb => ascii "RGB " | .grey => ascii "GRAY" | .xyb => ascii "3CLR" | .unknown => ascii "3CLR"

/-- the 128-byte header, with the size field still zero -/
def header (cs : ColourSpace) (ri : Intent) : List Nat :=
  [0, 0, 0, 0] ++ ascii "jxl " ++ [4, 0x40, 0, 0] ++ ascii "mntr"
  ++ csSig cs ++ ascii "XYZ " ++ [7, 0xe7, 0, 4, 0, 22, 0, 0, 0, 0, 0, 0]
  ++ ascii "acsp" ++ ascii "APPL" ++ [0, 0, 0, 0]
  ++ List.replicate 16 0
  ++ [0, 0, 0, ri.toNat] ++ [0, 0, 0xf6, 0xd6, 0, 1, 0, 0, 0, 0, 0xd3, 0x2d]
  ++ ascii "jxl " ++ List.replicate 16 0 ++ List.replicate 28 0

/-! `{:?}` of the enums, for the `desc` tag -/

def showInt (i : Int) : String := if i < 0 then "-" ++ toString i.natAbs else toString i.toNat

def Customxy.dbg (c : Customxy) : String :=
  "Customxy { x: " ++ showInt c.x ++ ", y: " ++ showInt c.y ++ " }"

def ColourSpace.dbg : ColourSpace → String
  | .rgb => "Rgb" | .grey => "Grey" | .xyb => "Xyb" | .unknown => "Unknown"

def Intent.dbg : Intent → String
  | .perceptual => "Perceptual" | .relative => "Relative" | .saturation => "Saturation"
  | .absolute => "Absolute"

def WhitePoint.dbg : WhitePoint → String
  | .d65 => "D65" | .custom xy => "Custom(" ++ xy.dbg ++ ")" | .e => "E" | .dci => "Dci"

def Primaries.dbg : Primaries → String
  | .srgb => "Srgb"
  | .custom r g b =>
    "Custom { red: " ++ r.dbg ++ ", green: " ++ g.dbg ++ ", blue: " ++ b.dbg ++ " }"
  | .bt2100 => "Bt2100" | .p3 => "P3"

def TransferFunction.dbg : TransferFunction → String
  | .gamma g inv => "Gamma { g: " ++ toString g ++ ", inverted: " ++ toString inv ++ " }"
  | .bt709 => "Bt709" | .unknown => "Unknown" | .linear => "Linear" | .srgb => "Srgb"
  | .pq => "Pq" | .dci => "Dci" | .hlg => "Hlg"

def Enc.desc (e : Enc) : String :=
  e.cs.dbg ++ "_" ++ e.ri.dbg ++ "_" ++ e.wp.dbg ++ "_" ++ e.prim.dbg ++ "_" ++ e.tf.dbg

def d50Xyz : List Int := [0xf6d6, 0x10000, 0xd32d]

/-- one `append_(multiple_)tag(s)_with_data` call: the signatures that share the data, the data -/
abbrev Piece := List (List Nat) × List Nat

/-- the calls in order, starting from empty `tags` / `data` vectors -/
def layout (ps : List Piece) : List Tag × List Nat :=
  ps.foldl (fun st p => appendTags st p.1 p.2) ([], [])

/-- the `cicp` tag is written for PQ and HLG when the primaries have a CICP code -/
def cicpPieces (e : Enc) : List Piece :=
  match e.tf, e.cicp with
  | .pq, some c => [([ascii "cicp"], ascii "cicp" ++ [0, 0, 0, 0] ++ c)]
  | .hlg, some c => [([ascii "cicp"], ascii "cicp" ++ [0, 0, 0, 0] ++ c)]
  | _, _ => []

def chadTag (q : Quant) : List Nat := ascii "sf32" ++ [0, 0, 0, 0] ++ (q.chad.take 9).flatMap beI32

/-- what is appended, in source order, for an RGB or grey encoding whose TRC data is `trc` -/
def pieces (e : Enc) (q : Quant) (trc : List Nat) : List Piece :=
  [([ascii "desc"], mluc e.desc), ([ascii "cprt"], mluc "CC0, generated by jxl-oxide")]
  ++ (if e.cs = .rgb then [([ascii "wtpt"], xyzTag d50Xyz), ([ascii "chad"], chadTag q)]
      else [([ascii "wtpt"], xyzTag q.wtpt)])
  ++ cicpPieces e
  ++ (if e.cs = .rgb then
        [([ascii "rTRC", ascii "gTRC", ascii "bTRC"], trc), ([ascii "rXYZ"], xyzTag q.rXYZ),
         ([ascii "gXYZ"], xyzTag q.gXYZ), ([ascii "bXYZ"], xyzTag q.bXYZ)]
      else [([ascii "kTRC"], trc)])

/-- tag list and tag data, in the order the source appends them (the XYB check comes first, the
TRC `match` — which can panic — before the final `match colour_space`) -/
def synthTags (e : Enc) (q : Quant) : Except SynthPanic (List Tag × List Nat) :=
  if e.cs = .xyb then .error .xyb
  else
    match trcData q e.tf with
    | .error p => .error p
    | .ok trc =>
      match e.cs with
      | .rgb => .ok (layout (pieces e q trc))
      | .grey => .ok (layout (pieces e q trc))
      | .xyb => .error .xyb
      | .unknown => .error .csUnknown

/-- tag table: count, then `sig, offset + data_offset, len` per tag -/
def tagTable (tags : List Tag) : List Nat :=
  be32 tags.length ++
    tags.flatMap (fun t => t.sig ++ be32 (t.off + (128 + 4 + tags.length * 12)) ++ be32 t.len)

/-- header (without its size field), tag table and data -/
def synthBody (e : Enc) (tags : List Tag) (data : List Nat) : List Nat :=
  (header e.cs e.ri).drop 4 ++ tagTable tags ++ data

/-- `colour_encoding_to_icc`, structural part -/
def synth (e : Enc) (q : Quant) : Except SynthPanic (List Nat) :=
  match synthTags e q with
  | .error p => .error p
  | .ok (tags, data) => .ok (be32 ((synthBody e tags data).length + 4) ++ synthBody e tags data)

/-! ## Recognition — `jxl-color/src/icc/parse.rs` -/

inductive ParseErr where
  | tooShort | sizeMismatch | badIntent | tagListEof | tagDataEof
  | badPara | badColorant | badChad | badWtpt | badXyzType
  | unsupported
  deriving DecidableEq, Repr

structure RawTag where
  sig : List Nat
  data : List Nat
  deriving Repr

structure RawProfile where
  cs : List Nat
  ri : Intent
  tags : List RawTag
  deriving Repr

def readTags (profile : List Nat) (size : Nat) : Nat → Nat → Except ParseErr (List RawTag)
  | 0, _ => .ok []
  | n + 1, pos =>
    let offset := u32At profile (pos + 4)
    let tagSize := u32At profile (pos + 8)
    if size < offset + tagSize then .error .tagDataEof
    else do
      let rest ← readTags profile size n (pos + 12)
      pure ({ sig := (profile.drop pos).take 4, data := (profile.drop offset).take tagSize } :: rest)

/-- `parse_icc_raw` -/
def parseRaw (profile : List Nat) : Except ParseErr RawProfile :=
  if profile.length < 128 then .error .tooShort
  else
    let size := u32At profile 0
    if profile.length ≠ size then .error .sizeMismatch
    else match Intent.ofNat? (profile.getD 0x43 0) with
      | none => .error .badIntent
      | some ri =>
        let cs := (profile.drop 0x10).take 4
        if size < 0x84 then .ok { cs, ri, tags := [] }
        else
          let n := u32At profile 0x80
          if size < 0x84 + 12 * n then .error .tagListEof
          else do
            let tags ← readTags profile size n 0x84
            pure { cs, ri, tags }

inductive Trc where
  | parametricGamma (g : Nat) | linear | srgb | bt709 | dci | pq | hlg
  deriving DecidableEq, Repr

/-- `KnownIccTrc::from_gamma` -/
def Trc.fromGamma (g : Int) : Option Trc :=
  if g ≤ 65535 then none
  else if g = 65536 then some .linear
  else if g = dciGamma then some .dci
  else some (.parametricGamma g.toNat)

/-- `impl From<KnownIccTrc> for TransferFunction` -/
def Trc.toTf : Trc → TransferFunction
  | .parametricGamma g =>
    let g1e7 := (g * 10000000 + 32768) / 65536
    if g1e7 < 4294967296 then .gamma g1e7 false
    else .gamma (((65536 * 10000000 + g / 2) / g) % 4294967296) true
  | .linear => .linear | .srgb => .srgb | .bt709 => .bt709 | .dci => .dci | .pq => .pq
  | .hlg => .hlg

/-- the float predicates and float-derived answers of the parser, abstract here -/
structure FloatOps where
  /-- `validate_xyz` -/
  validXyz : List Int → Bool
  /-- `validate_chad` -/
  validChad : List Int → Bool
  /-- `IccProfileInfo::white_point` from `chad`, `wtpt` -/
  whitePoint : List Int → List Int → WhitePoint
  /-- `IccProfileInfo::primaries` from `chad` and the three colorants -/
  primaries : List Int → List Int → List Int → List Int → Primaries

structure Info where
  chad : Option (List Int) := none
  wtpt : List Int := d50Xyz
  trcs : List (Option Trc) := [none, none, none, none]
  xyzs : List (Option (List Int)) := [none, none, none]
  cicp : Option (List Nat) := none
  deriving Repr

/-- what one tag does to the scan: continue with a new `Info`, or stop with an error -/
inductive TagStep where
  | skip
  | set (i : Info)
  | fail (e : ParseErr)

def i32s (d : List Nat) (off n : Nat) : List Int := (List.range n).map (fun k => i32At d (off + 4 * k))

/-- the `TRC` arm: `none` = `continue`, `some (.error _)` = `return Err` -/
def trcOfData (pqLut hlgLut : List Nat) (d : List Nat) : Option (Except ParseErr Trc) :=
  if d.take 4 = ascii "para" then
    if d.length < 12 then none
    else
      let ty := u16At d 8
      let nparam := (d.length - 12) / 4
      if ty = 0 then
        if nparam ≠ 1 then some (.error .badPara)
        else (Trc.fromGamma (i32At d 12)).map .ok
      else if ty = 3 then
        if nparam ≠ 5 then some (.error .badPara)
        else
          let p := i32s d 12 5
          if p = bt709Params.map Int.ofNat then some (.ok .bt709)
          else if p = srgbParams.map Int.ofNat then some (.ok .srgb)
          else if p.drop 1 = [65536, 0, 65536, 0] then (Trc.fromGamma (p.getD 0 0)).map .ok
          else none
      else none
  else if d = ascii "curv" ++ [0, 0, 0, 0, 0, 0, 0, 0] then some (.ok .linear)
  else if d.length = 14 ∧ d.take 12 = ascii "curv" ++ [0, 0, 0, 0, 0, 0, 0, 1] then
    some (.ok (.parametricGamma (d.getD 12 0 * 65536 + d.getD 13 0 * 256)))
  else if d.length = 12 + 8192 ∧ d.take 12 = ascii "curv" ++ [0, 0, 0, 0, 0, 0, 0x10, 0] then
    if d.drop 12 = pqLut.flatMap be16 then some (.ok .pq)
    else if d.drop 12 = hlgLut.flatMap be16 then some (.ok .hlg)
    else none
  else none

def unsupportedSigs : List (List Nat) :=
  (["chrm", "clro", "clrt", "clot", "ciis", "lumi", "meas", "ncl2", "resp", "view",
    "A2B0", "A2B1", "A2B2", "A2B3", "D2B0", "D2B1", "D2B2", "D2B3",
    "B2A0", "B2A1", "B2A2", "B2A3", "B2D0", "B2D1", "B2D2", "B2D3",
    "pre0", "pre1", "pre2"]).map ascii

def chIndex (c : Nat) (withK : Bool) : Option Nat :=
  if c = 'r'.toNat then some 0 else if c = 'g'.toNat then some 1
  else if c = 'b'.toNat then some 2 else if withK ∧ c = 'k'.toNat then some 3 else none

/-- one iteration of the `for tag in profile.tags` loop of `detect_profile_info` -/
def tagStep (f : FloatOps) (pqLut hlgLut : List Nat) (i : Info) (t : RawTag) : TagStep :=
  let d := t.data
  if d.length < 4 then .skip
  else if t.sig.drop 1 = ascii "TRC" then
    match chIndex (t.sig.getD 0 0) true with
    | none => .skip
    | some idx =>
      match trcOfData pqLut hlgLut d with
      | none => .skip
      | some (.error e) => .fail e
      | some (.ok trc) => .set { i with trcs := i.trcs.set idx (some trc) }
  else if t.sig.drop 1 = ascii "XYZ" then
    match chIndex (t.sig.getD 0 0) false with
    | none => .skip
    | some idx =>
      if d.take 4 ≠ ascii "XYZ " ∨ d.length < 20 then .fail .badColorant
      else
        let xyz := i32s d 8 3
        if f.validXyz xyz then .set { i with xyzs := i.xyzs.set idx (some xyz) }
        else .fail .badXyzType
  else if t.sig = ascii "chad" then
    if d.take 4 ≠ ascii "sf32" ∨ d.length < 44 then .fail .badChad
    else
      let m := i32s d 8 9
      if f.validChad m then .set { i with chad := some m } else .fail .badChad
  else if t.sig = ascii "wtpt" then
    if d.take 4 ≠ ascii "XYZ " ∨ d.length < 20 then .fail .badWtpt
    else
      let w := i32s d 8 3
      -- the code stores `wtpt` before validating; on failure the whole parse fails anyway
      if f.validXyz w then .set { i with wtpt := w } else .fail .badXyzType
  else if unsupportedSigs.contains t.sig then .fail .unsupported
  else if t.sig = ascii "cicp" then
    .set { i with cicp := if d.length < 12 then none else some ((d.drop 8).take 4) }
  else .skip

def scanTags (f : FloatOps) (pqLut hlgLut : List Nat) : Info → List RawTag → Except ParseErr Info
  | i, [] => .ok i
  | i, t :: ts =>
    match tagStep f pqLut hlgLut i t with
    | .skip => scanTags f pqLut hlgLut i ts
    | .set i' => scanTags f pqLut hlgLut i' ts
    | .fail e => .error e

structure ProfileInfo where
  cs : List Nat
  ri : Intent
  chad : List Int
  wtpt : List Int
  trcK : Option Trc
  trcRgb : Option (List Trc)
  xyzRgb : Option (List (List Int))
  deriving Repr

def identityChad : List Int := [65536, 0, 0, 0, 65536, 0, 0, 0, 65536]

/-- `detect_profile_info` -/
def detectInfo (f : FloatOps) (pqLut hlgLut : List Nat) (profile : List Nat) :
    Except ParseErr ProfileInfo := do
  let raw ← parseRaw profile
  let i ← scanTags f pqLut hlgLut {} raw.tags
  let override : Option Trc :=
    match i.cicp with
    | some [_, 16, _, _] => some .pq
    | some [_, 18, _, _] => some .hlg
    | _ => none
  let trcRgb :=
    match i.trcs with
    | [some r, some g, some b, _] =>
      match override with
      | some t => some [t, t, t]
      | none => some [r, g, b]
    | _ => none
  let trcK := (i.trcs.getD 3 none).map (fun k => override.getD k)
  let xyzRgb :=
    match i.xyzs with
    | [some r, some g, some b] => some [r, g, b]
    | _ => none
  pure { cs := raw.cs, ri := raw.ri, chad := i.chad.getD identityChad, wtpt := i.wtpt,
         trcK, trcRgb, xyzRgb }

/-- `parse_icc` -/
def parseIcc (f : FloatOps) (pqLut hlgLut : List Nat) (profile : List Nat) : Except ParseErr Enc := do
  let info ← detectInfo f pqLut hlgLut profile
  if info.cs = ascii "CMYK" then throw .unsupported
  else if info.cs = ascii "GRAY" then
    match info.trcK with
    | none => throw .unsupported
    | some k =>
      pure { cs := .grey, wp := f.whitePoint info.chad info.wtpt, prim := .srgb, tf := k.toTf,
             ri := info.ri }
  else if info.cs = ascii "RGB " then
    match info.trcRgb, info.xyzRgb with
    | some [r, g, b], some [xr, xg, xb] =>
      if r = g ∧ g = b then
        let prim := f.primaries info.chad xr xg xb
        pure { cs := .rgb, wp := f.whitePoint info.chad info.wtpt, prim, tf := r.toTf,
               ri := info.ri }
      else throw .unsupported
    | _, _ => throw .unsupported
  else throw .unsupported

/-- result of `ColorEncodingWithProfile::with_icc` -/
inductive WithIcc where
  | enum (e : Enc)
  /-- kept as an ICC profile; the colour space is read off the header -/
  | icc (cs : ColourSpace)
  | err (e : ParseErr)
  deriving Repr

/-- `IccProfile::color_space` -/
def rawColourSpace (cs : List Nat) : ColourSpace :=
  if cs = ascii "RGB " ∨ cs = ascii "CMYK" then .rgb
  else if cs = ascii "GRAY" then .grey else .unknown

/-- `ColorEncodingWithProfile::with_icc` -/
def withIcc (f : FloatOps) (pqLut hlgLut : List Nat) (profile : List Nat) : WithIcc :=
  match parseIcc f pqLut hlgLut profile with
  | .ok e => .enum e
  | .error .unsupported =>
    match parseRaw profile with
    | .ok raw => .icc (rawColourSpace raw.cs)
    | .error e => .err e
  | .error e => .err e

/-! ## No-op detection — `jxl-color/src/convert.rs` -/

/-- `ColorEncodingWithProfile`: enum values, or an ICC profile (bytes) with the header's space -/
inductive Described where
  | enum (e : Enc)
  | icc (cs : ColourSpace) (profile : List Nat)
  deriving DecidableEq, Repr

/-- `ColorEncodingWithProfile::is_equivalent` -/
def isEquivalent : Described → Described → Bool
  | .icc _ p, .icc _ p' => p = p'
  | .enum a, .enum b =>
    if a.cs ≠ b.cs then false
    else if a.cs = .xyb then true
    else if a.ri ≠ b.ri ∨ a.wp ≠ b.wp ∨ a.tf ≠ b.tf then false
    else a.cs = .grey ∨ a.prim = b.prim
  | _, _ => false

/-- the op list `ColorTransform::with_builder` builds is empty (`is_noop`) when the early return
`if from.is_equivalent(to)` is taken; `none` = the general path, not modelled -/
def transformOps (src dst : Described) : Option (List Unit) :=
  if isEquivalent src dst then some [] else none

/-- `ColorTransform::run` with an empty op list: every channel is returned untouched -/
def runOps {α : Type} (ops : List Unit) (channels : List (List α)) : List (List α) :=
  ops.foldl (fun c _ => c) channels

/-! ## Transfer curves over an abstract scalar -/

class TfScalar (α : Type) extends Add α, Sub α, Mul α, Div α, Neg α, LE α where
  decLe : DecidableRel (α := α) (· ≤ ·)
  /-- `lit m e` is the decimal `m / 10^e` -/
  lit : Nat → Nat → α
  /-- real power, used with a positive base only -/
  pow : α → α → α
  exp : α → α
  log : α → α
  sqrt : α → α

namespace Tf
variable {α : Type} [TfScalar α]
open TfScalar

instance : DecidableRel (α := α) (· ≤ ·) := TfScalar.decLe

def zero : α := lit 0 0
def one : α := lit 1 0

/-- `copysign (f |x|) x` for an odd extension (sRGB, PQ and HLG kernels work on `abs`) -/
def odd (f : α → α) (x : α) : α := if zero ≤ x then f x else - f (- x)

/-- `tf::apply_gamma`: samples `≤ 1e-7` become 0 -/
def gammaApply (γ x : α) : α := if x ≤ lit 1 7 then zero else pow x γ

/-- sRGB OETF on `x ≥ 0`: `tf/srgb.rs linear_to_srgb` (which approximates the power) -/
def srgbEncodePos (x : α) : α :=
  if x ≤ lit 31308 7 then lit 1292 2 * x
  else lit 1055 3 * pow x (one / lit 24 1) - lit 55 3

/-- sRGB EOTF on `x ≥ 0`: `srgb_to_linear` (rational approximation of the power) -/
def srgbDecodePos (x : α) : α :=
  if x ≤ lit 4045 5 then x / lit 1292 2
  else pow ((x + lit 55 3) / lit 1055 3) (lit 24 1)

def srgbEncode : α → α := odd srgbEncodePos
def srgbDecode : α → α := odd srgbDecodePos

/-- `tf/bt709.rs linear_to_bt709` (no sign handling: negative samples take the linear piece) -/
def bt709Encode (x : α) : α :=
  if x ≤ lit 18 3 then lit 45 1 * x
  else lit 1099 3 * pow x (lit 45 2) - lit 99 3

/-- `bt709_to_linear` -/
def bt709Decode (x : α) : α :=
  if x ≤ lit 81 3 then x / lit 45 1
  else pow ((x + lit 99 3) / lit 1099 3) (one / lit 45 2)

/-- DCI: gamma 2.6 (`apply_gamma` with `1/2.6` resp. `2.6`) -/
def dciEncode (x : α) : α := gammaApply (one / lit 26 1) x
def dciDecode (x : α) : α := gammaApply (lit 26 1) x

/-- `Gamma { g, inverted }` with exponent `γ = g / 1e7` (inverted) or `1e7 / g` -/
def gammaEncode (γ x : α) : α := gammaApply γ x
def gammaDecode (γ x : α) : α := gammaApply (one / γ) x

/-! PQ (SMPTE ST 2084) with the constants of `pq_table` / the tests in `tf/pq.rs`;
linear 1.0 = 10000 nits here, the intensity scaling is applied outside. -/
def pqM1 : α := lit 1305 0 / lit 8192 0
def pqM2 : α := lit 2523 0 / lit 32 0
def pqC1 : α := lit 107 0 / lit 128 0
def pqC2 : α := lit 2413 0 / lit 128 0
def pqC3 : α := lit 2392 0 / lit 128 0

/-- inverse EOTF on `y ≥ 0` (`linear_to_pq`, a rational approximation in the code) -/
def pqEncodePos (y : α) : α :=
  if y ≤ zero then pow pqC1 pqM2
  else
    let p := pow y pqM1
    pow ((pqC1 + pqC2 * p) / (one + pqC3 * p)) pqM2

/-- EOTF on `e ≥ 0` (`pq_to_linear`) -/
def pqDecodePos (e : α) : α :=
  if e ≤ zero then zero
  else
    let p := pow e (one / pqM2)
    let num := if p - pqC1 ≤ zero then zero else p - pqC1
    if num ≤ zero then zero else pow (num / (pqC2 - pqC3 * p)) (one / pqM1)

def pqEncode : α → α := odd pqEncodePos
def pqDecode : α → α := odd pqDecodePos

/-! HLG OETF, constants of `tf.rs` -/
def hlgA : α := lit 17883277 8
def hlgB : α := lit 28466892 8
def hlgC : α := lit 5599107 7

/-- `linear_to_hlg` on `x ≥ 0` -/
def hlgEncodePos (x : α) : α :=
  if x ≤ one / lit 12 0 then sqrt (lit 3 0 * x)
  else hlgA * log (lit 12 0 * x - hlgB) + hlgC

/-- `hlg_to_linear` on `x ≥ 0` -/
def hlgDecodePos (x : α) : α :=
  if x ≤ lit 5 1 then x * x / lit 3 0
  else (exp ((x - hlgC) / hlgA) + hlgB) / lit 12 0

def hlgEncode : α → α := odd hlgEncodePos
def hlgDecode : α → α := odd hlgDecodePos

end Tf

/-! ## `Float` instance (driver) -/

instance : TfScalar Float where
  decLe := fun a b => inferInstanceAs (Decidable (a ≤ b))
  -- every constant of the kernels is an `f32` literal in the source: round it the same way
  lit m e := (Float.ofScientific m true e).toFloat32.toFloat
  pow := Float.pow
  exp := Float.exp
  log := Float.log
  sqrt := Float.sqrt

/-! ## The `f32` chromaticity arithmetic — `jxl-color/src/ciexyz.rs`, `consts.rs`

Constants are given by bit pattern (what `rustc` produces for the decimal literal); operations
are in the order of the source, nothing is fused. -/

abbrev F := Float32
def fb (b : UInt32) : F := Float32.ofBits b

def illD65 : F × F := (fb 0x3ea01a37, fb 0x3ea872b0)
def illE : F × F := (fb 0x3eaaaaab, fb 0x3eaaaaab)
def illDci : F × F := (fb 0x3ea0c49c, fb 0x3eb3b646)
def illD50 : F × F := (fb 0x3eb0fb87, fb 0x3eb78cca)
def primSrgb : List (F × F) :=
  [(fb 0x3f23d6f4, fb 0x3ea8f717), (fb 0x3e999a19, fb 0x3f1999d2), (fb 0x3e199a23, fb 0x3d75bfa1)]
def primBt2100 : List (F × F) :=
  [(fb 0x3f353f7d, fb 0x3e958106), (fb 0x3e2e147b, fb 0x3f4c0831), (fb 0x3e0624dd, fb 0x3d3c6a7f)]
def primP3 : List (F × F) :=
  [(fb 0x3f2e147b, fb 0x3ea3d70a), (fb 0x3e87ae14, fb 0x3f30a3d7), (fb 0x3e19999a, fb 0x3d75c28f)]
def matBradford : List F :=
  [fb 0x3f652546, fb 0x3e886595, fb 0xbe25460b, fb 0xbf400d1b, fb 0x3fdb53f8, fb 0x3d1652bd,
   fb 0x3d1f559b, fb 0xbd8c49ba, fb 0x3f83c9ef]
def matBradfordInv : List F :=
  [fb 0x3f7cab91, fb 0xbe169567, fb 0x3e23cd43, fb 0x3edd571f, fb 0x3f04b343, fb 0x3d49e592,
   fb 0xbc0bbbf6, fb 0x3d2403eb, fb 0x3f77eebf]

def g9 (m : List F) (i : Nat) : F := m.getD i 0

/-- `matmul3` -/
def matmul3 (a b : List F) : List F :=
  (List.range 9).map fun k =>
    let r := k / 3
    let c := k % 3
    g9 a (3 * r) * g9 b c + g9 a (3 * r + 1) * g9 b (3 + c) + g9 a (3 * r + 2) * g9 b (6 + c)

/-- `matmul3vec` -/
def matmul3vec (a v : List F) : List F :=
  (List.range 3).map fun r =>
    g9 a (3 * r) * g9 v 0 + g9 a (3 * r + 1) * g9 v 1 + g9 a (3 * r + 2) * g9 v 2

/-- `matinv` -/
def matinv (m : List F) : List F :=
  let a := g9 m
  let det := a 0 * (a 4 * a 8 - a 5 * a 7) + a 1 * (a 5 * a 6 - a 3 * a 8)
    + a 2 * (a 3 * a 7 - a 4 * a 6)
  [(a 4 * a 8 - a 5 * a 7) / det, (a 7 * a 2 - a 8 * a 1) / det, (a 1 * a 5 - a 2 * a 4) / det,
   (a 5 * a 6 - a 3 * a 8) / det, (a 8 * a 0 - a 6 * a 2) / det, (a 2 * a 3 - a 0 * a 5) / det,
   (a 3 * a 7 - a 4 * a 6) / det, (a 6 * a 1 - a 7 * a 0) / det, (a 0 * a 4 - a 1 * a 3) / det]

/-- `illuminant_to_xyz` -/
def illuminantToXyz (w : F × F) : List F := [w.1 / w.2, 1.0, (1.0 - w.1) / w.2 - 1.0]

/-- `adapt_mat` (`from_w == to_w` is an `f32` array comparison) -/
def adaptMat (src dst : F × F) : List F :=
  let fw := illuminantToXyz src
  let tw := illuminantToXyz dst
  if g9 fw 0 == g9 tw 0 && g9 fw 1 == g9 tw 1 && g9 fw 2 == g9 tw 2 then
    [1, 0, 0, 0, 1, 0, 0, 0, 1]
  else
    let fl := matmul3vec matBradford fw
    let tl := matmul3vec matBradford tw
    let mul := [g9 tl 0 / g9 fl 0, g9 tl 1 / g9 fl 1, g9 tl 2 / g9 fl 2]
    matmul3 matBradfordInv ((List.range 9).map fun i => g9 matBradford i * g9 mul (i / 3))

/-- `primaries_to_xyz_mat` -/
def primariesToXyzMat (p : List (F × F)) (wp : F × F) : List F :=
  let px (i : Nat) : F := (p.getD i (0, 0)).1
  let py (i : Nat) : F := (p.getD i (0, 0)).2
  let m := [px 0, px 1, px 2, py 0, py 1, py 2,
            1.0 - px 0 - py 0, 1.0 - px 1 - py 1, 1.0 - px 2 - py 2]
  let mul := matmul3vec (matinv m) (illuminantToXyz wp)
  (List.range 9).map fun i => g9 m i * g9 mul (i % 3)

/-- `i32 as f32` -/
def i2f (i : Int) : F := Float32.ofInt i

/-- `Customxy::as_float`: `x as f32 / 1e6` -/
def xyF (c : Customxy) : F × F := (i2f c.x / 1e6, i2f c.y / 1e6)

def WhitePoint.toF : WhitePoint → F × F
  | .d65 => illD65 | .custom xy => xyF xy | .e => illE | .dci => illDci

def Primaries.toF : Primaries → List (F × F)
  | .srgb => primSrgb | .custom r g b => [xyF r, xyF g, xyF b] | .bt2100 => primBt2100
  | .p3 => primP3

/-- `(f * 65536.0 + 0.5) as i32` (saturating, NaN to 0, toward zero) -/
def q16 (f : F) : Int := (f * 65536.0 + 0.5).toInt32.toInt

/-- `(d * 65535.0) as u16` at `f64` (saturating) -/
def q16u (d : Float) : Nat := (d * 65535.0).toUInt16.toNat

/-- `tf::pq_table(n)`; `powf` of the platform, `mul_add` replaced by multiply-then-add, so the
last unit of an entry may differ from the real table (compared with tolerance 1) -/
def pqTable (n : Nat) : List Nat :=
  (List.range n).map fun idx =>
    let e : Float := idx.toFloat / (n - 1).toFloat
    let ePow := e.pow (32.0 / 2523.0)
    let num := if ePow - 107.0 / 128.0 < 0.0 then 0.0 else ePow - 107.0 / 128.0
    let den := ePow * (-(2392.0 / 128.0)) + 2413.0 / 128.0
    q16u ((num / den).pow (8192.0 / 1305.0))

/-- `tf::hlg_table(n)` -/
def hlgTable (n : Nat) : List Nat :=
  (List.range n).map fun idx =>
    if idx ≤ (n - 1) / 2 then
      q16u ((idx * idx).toFloat / (3 * (n - 1) * (n - 1)).toFloat)
    else
      let e : Float := idx.toFloat / (n - 1).toFloat
      q16u ((((e - 0.5599107) / 0.17883277).exp + 0.28466892) / 12.0)

/-- the float part of `colour_encoding_to_icc`: everything `synth` needs, quantised -/
def quantOf (e : Enc) (pqLut hlgLut : List Nat) : Quant :=
  let ill := e.wp.toF
  let chad := adaptMat ill illD50
  let pPcs := matmul3 chad (primariesToXyzMat e.prim.toF ill)
  let pq := pPcs.map q16
  { chad := chad.map q16,
    wtpt := (illuminantToXyz ill).map q16,
    rXYZ := [pq.getD 0 0, pq.getD 3 0, pq.getD 6 0],
    gXYZ := [pq.getD 1 0, pq.getD 4 0, pq.getD 7 0],
    bXYZ := [pq.getD 2 0, pq.getD 5 0, pq.getD 8 0],
    pqLut, hlgLut }

/-! the float part of recognition — `IccProfileInfo::{white_point, primaries}`, `validate_*` -/

def s15ToF (v : Int) : F := i2f v / 65536.0

def near (a b : F) : Bool := (a - b).abs < fb 0x38d1b717  -- `diff >= 1e-4` continues

/-- `(v * 1e6 + 0.5) as i32` -/
def toMicro (v : F) : Int := (v * 1e6 + 0.5).toInt32.toInt

def whitePointF32 (chad wtpt : List Int) : WhitePoint :=
  let chadInv := matinv (chad.map s15ToF)
  let ill := matmul3vec chadInv (wtpt.map s15ToF)
  let sum := g9 ill 0 + g9 ill 1 + g9 ill 2
  let x := g9 ill 0 / sum
  let y := g9 ill 1 / sum
  if near x illD65.1 && near y illD65.2 then .d65
  else if near x illDci.1 && near y illDci.2 then .dci
  else if near x illE.1 && near y illE.2 then .e
  else .custom ⟨toMicro x, toMicro y⟩

def primariesF32 (chad xr xg xb : List Int) : Primaries :=
  let xyz := [xr, xg, xb]
  let m : List F := (List.range 9).map fun idx => s15ToF ((xyz.getD (idx % 3) []).getD (idx / 3) 0)
  let a := g9 (matmul3 (matinv (chad.map s15ToF)) m)
  let sum := [a 0 + a 3 + a 6, a 1 + a 4 + a 7, a 2 + a 5 + a 8]
  let p : List (F × F) :=
    [(a 0 / g9 sum 0, a 3 / g9 sum 0), (a 1 / g9 sum 1, a 4 / g9 sum 1),
     (a 2 / g9 sum 2, a 5 / g9 sum 2)]
  let close (k : List (F × F)) : Bool :=
    (List.range 3).all fun i =>
      near (p.getD i (0, 0)).1 (k.getD i (0, 0)).1 && near (p.getD i (0, 0)).2 (k.getD i (0, 0)).2
  if close primSrgb then .srgb
  else if close primP3 then .p3
  else if close primBt2100 then .bt2100
  else
    let c (i : Nat) : Customxy := ⟨toMicro (p.getD i (0, 0)).1, toMicro (p.getD i (0, 0)).2⟩
    .custom (c 0) (c 1) (c 2)

def validXyzF32 (xyz : List Int) : Bool :=
  let f := xyz.map s15ToF
  let sum := g9 f 0 + g9 f 1 + g9 f 2
  f.all fun v => (v / sum).isFinite

def validChadF32 (chad : List Int) : Bool := (matinv (chad.map s15ToF)).all Float32.isFinite

def f32Ops : FloatOps :=
  { validXyz := validXyzF32, validChad := validChadF32, whitePoint := whitePointF32,
    primaries := primariesF32 }

end Jxl.Color
