/-!
# Frame composition (C05): blend kernels, the sequential compositor, reference bookkeeping,
# the lazy keyframe renderer

Mirrors `crates/jxl-render/src/blend.rs` (`blend`, `blend_single`, `BlendParams::from_blending_info`,
`from_patch_blending_info`), `crates/jxl-render/src/lib.rs` (`preserve_current_frame`,
`render_keyframe`, `render_by_index`, `do_render`), `crates/jxl-render/src/image.rs`
(`RenderedImage::blend`, `try_take_blended`, `composite_preprocess`), `crates/jxl-render/src/state.rs`
(`FrameRender`, `run_with_image`, `run`, `reset`) and `crates/jxl-frame/src/header.rs`
(`resets_canvas`, `is_keyframe`, `can_reference`, `save_before_ct`).

Three layers:
* **kernels** — the per-sample arithmetic of `blend_single`, written once over the `Scalar`
  class and instantiated at `Float32` (execution, same operations in the same order as the Rust,
  no fused multiply-add) and, in `Proofs/Blend.lean`, at any linearly ordered field;
* **Spec** — the compositor of the format: a fold over the frames in bitstream order carrying four
  reference slots; generic in the value type `V` of a composed canvas (`Cfg.compose`), instantiated
  at pixel canvases by `Px.blendFrame`;
* **Impl** — what the renderer does instead: index bookkeeping when a frame finishes loading
  (`Impl.preserve`), and a lazy, caching, buffer-stealing evaluation on request (`Impl.blendF`).

The rectangle arithmetic of `blend()` (`target_region`, `base_topleft`, `new_topleft`, clipped
intersection) is not here: it is `Model/Region.lean` / `Props/C05Region.lean`
(`C05_blend_region_sound`). This file works in image coordinates.

No imports: this file links into the `jxlmodel` executable.
-/
namespace Jxl.Blend

/-! ## 1. Scalars and sample kernels -/

/-- The operations `blend_single` performs on samples. `recip` is `f32::recip` (`1/x`), `isPos` is
`x > 0.0`, `clamp01` is `f32::clamp(0.0, 1.0)`, `ofSample bits v` is
`BitDepth::IntegerSample::parse_integer_sample` (`v as f32 / ((1 << bits) - 1) as f32`,
jxl-image/src/lib.rs). -/
class Scalar (α : Type) where
  zero : α
  one : α
  add : α → α → α
  sub : α → α → α
  mul : α → α → α
  recip : α → α
  isPos : α → Bool
  clamp01 : α → α
  ofSample : Nat → Int → α

namespace Scalar
variable {α : Type} [Scalar α]

/-- `if clamp { x.clamp(0.0, 1.0) } else { x }` -/
def clampIf (c : Bool) (x : α) : α := if c then clamp01 x else x

/-- `if mixed_alpha > 0.0 { mixed_alpha.recip() } else { 0.0 }` -/
def recipOrZero (x : α) : α := if isPos x then recip x else zero

end Scalar

instance : Scalar Float32 where
  zero := 0
  one := 1
  add a b := a + b
  sub a b := a - b
  mul a b := a * b
  recip x := 1 / x
  isPos x := decide (0 < x)
  clamp01 x := if x < 0 then 0 else if 1 < x then 1 else x
  ofSample bits v := Float32.ofInt v / Float32.ofNat (2 ^ bits - 1)

/-- `enum BlendMode` of blend.rs after the `new: None` cases of `blend_single` are resolved. -/
inductive Kernel where
  | replace
  | add
  | mul (clamp : Bool)
  | blend (clamp swapped premultiplied : Bool)
  | mulAdd (clamp swapped : Bool)
  | mixAlpha (clamp swapped : Bool)
  | skip
  deriving Repr, DecidableEq, Inhabited

/-- One sample of `blend_single`: `base` is the sample of the target (reference) buffer, `new` the
sample of the frame (or patch), `baseAlpha`/`newAlpha` the alpha samples at the same positions
(`0.0` when there is no base). Every arm is the expression of the Rust loop body, operation by
operation. -/
def Kernel.apply {α : Type} [Scalar α] (k : Kernel) (base new baseAlpha newAlpha : α) : α :=
  match k with
  | .replace => new
  | .add => Scalar.add base new
  | .mul c => Scalar.mul base (Scalar.clampIf c new)
  | .blend c swapped premul =>
    let baseSample := if swapped then new else base
    let newSample := if swapped then base else new
    let ba := if swapped then newAlpha else baseAlpha
    let na := Scalar.clampIf c (if swapped then baseAlpha else newAlpha)
    if premul then
      Scalar.add newSample (Scalar.mul baseSample (Scalar.sub Scalar.one na))
    else
      let baRev := Scalar.sub Scalar.one ba
      let naRev := Scalar.sub Scalar.one na
      let mixed := Scalar.sub Scalar.one (Scalar.mul naRev baRev)
      let r := Scalar.recipOrZero mixed
      Scalar.mul (Scalar.add (Scalar.mul na newSample) (Scalar.mul (Scalar.mul ba baseSample) naRev)) r
  | .mulAdd c swapped =>
    let baseSample := if swapped then new else base
    let newSample := if swapped then base else new
    let na := Scalar.clampIf c (if swapped then baseAlpha else newAlpha)
    Scalar.add baseSample (Scalar.mul na newSample)
  | .mixAlpha c swapped =>
    let b := if swapped then new else base
    let n := Scalar.clampIf c (if swapped then base else new)
    Scalar.add b (Scalar.mul n (Scalar.sub Scalar.one b))
  | .skip => base

/-! ## 2. Headers -/

/-- `jxl_frame::header::FrameType` -/
inductive FrameType where
  | regular | lfFrame | referenceOnly | skipProgressive
  deriving Repr, DecidableEq, Inhabited

/-- `jxl_frame::header::BlendMode` (coded 0 replace, 1 add, 2 blend, 3 mul-add, 4 mul) -/
inductive Mode where
  | replace | add | blend | mulAdd | mul
  deriving Repr, DecidableEq, Inhabited

def Mode.ofCode : Nat → Mode
  | 0 => .replace | 1 => .add | 2 => .blend | 3 => .mulAdd | _ => .mul

def FrameType.ofCode : Nat → FrameType
  | 0 => .regular | 1 => .lfFrame | 2 => .referenceOnly | _ => .skipProgressive

/-- `BlendingInfo` -/
structure BlendInfo where
  mode : Mode := .replace
  alpha : Nat := 0
  clamp : Bool := false
  source : Nat := 0
  deriving Repr, DecidableEq, Inhabited

/-- the fields of `FrameHeader` composition depends on -/
structure FrameHdr where
  ty : FrameType := .regular
  haveCrop : Bool := false
  x0 : Int := 0
  y0 : Int := 0
  w : Nat := 0
  h : Nat := 0
  blend : BlendInfo := {}
  ecBlend : List BlendInfo := []
  duration : Nat := 0
  isLast : Bool := true
  saveAsRef : Nat := 0
  saveBeforeCt : Bool := false
  lfLevel : Nat := 0
  deriving Repr, DecidableEq, Inhabited

/-- what composition needs from the image header -/
structure ImgInfo where
  w : Nat := 0
  h : Nat := 0
  /-- 1 (grey Modular image) or 3 -/
  colorChannels : Nat := 3
  /-- `ExtraChannelInfo::alpha_associated()` per extra channel: `none` = not an alpha channel -/
  ecAlphaAssoc : List (Option Bool) := []
  deriving Repr, Inhabited

namespace FrameHdr

/-- `FrameType::is_normal_frame` -/
def isNormal (f : FrameHdr) : Bool := f.ty == .regular || f.ty == .skipProgressive

/-- `FrameHeader::test_full_image` -/
def coversImage (img : ImgInfo) (f : FrameHdr) : Bool :=
  !(f.x0 > 0 || f.y0 > 0) && (f.x0 + f.w ≥ img.w && f.y0 + f.h ≥ img.h)

/-- `FrameHeader::resets_canvas` (decided by the *colour* blend mode) -/
def resetsCanvas (img : ImgInfo) (f : FrameHdr) : Bool :=
  f.blend.mode == .replace && (!f.haveCrop || f.coversImage img)

/-- `FrameHeader::is_keyframe` -/
def isKeyframe (f : FrameHdr) : Bool := f.isNormal && (f.isLast || f.duration != 0)

/-- `FrameHeader::can_reference` -/
def canReference (f : FrameHdr) : Bool :=
  !f.isLast && (f.duration == 0 || f.saveAsRef != 0) && f.ty != .lfFrame

/-- `composite_preprocess`: `skip_blending = !is_normal_frame || resets_canvas` -/
def skipBlending (img : ImgInfo) (f : FrameHdr) : Bool := !f.isNormal || f.resetsCanvas img

/-- blending info of channel `c` (`repeat_n(&blending_info, color_channels).chain(&ec_blending_info)`) -/
def infoFor (f : FrameHdr) (cc c : Nat) : BlendInfo :=
  if c < cc then f.blend else f.ecBlend.getD (c - cc) {}

/-- source slot per channel, in channel order; empty when the frame is not blended at all -/
def chanSources (img : ImgInfo) (f : FrameHdr) : List Nat :=
  if f.skipBlending img then []
  else (List.range (img.colorChannels + f.ecBlend.length)).map fun c => (f.infoFor img.colorChannels c).source % 4

/-- Colour transform placement (render.rs `render_frame` tail, `composite_preprocess`): the
recorded-colour transform runs on the frame *before* blending unless `save_before_ct`, or the
frame is an unblended last frame. Opaque in this model (identity on non-XYB images). -/
def ctBeforeBlend (img : ImgInfo) (f : FrameHdr) : Bool :=
  !f.saveBeforeCt && !(f.skipBlending img && f.isLast)

/-- What `FrameHeader::parse` yields for a header written with these intended values: fields whose
condition is false take their defaults (header.rs `define_bundle!`): no crop ⇒ origin 0 and image
size; reference-only ⇒ origin 0, no blending info, not last; `is_last` ⇒ slot 0; duration only with
animation; `alpha_channel` only for `Blend`/`MulAdd` with extra channels; `clamp` only then or for
`Mul`; `source` only when the colour mode does not reset the canvas. -/
def asParsed (img : ImgInfo) (hasAnim : Bool) (f : FrameHdr) : FrameHdr :=
  let f := if f.haveCrop then f else { f with x0 := 0, y0 := 0, w := img.w, h := img.h }
  let f := if f.ty == .referenceOnly || f.ty == .lfFrame then { f with x0 := 0, y0 := 0 } else f
  let hasExtra := !img.ecAlphaAssoc.isEmpty
  let resets := f.resetsCanvas img
  let fix (b : BlendInfo) : BlendInfo :=
    let usesAlpha := hasExtra && (b.mode == .blend || b.mode == .mulAdd)
    { mode := b.mode
      alpha := if usesAlpha then b.alpha else 0
      clamp := if usesAlpha || b.mode == .mul then b.clamp else false
      source := if resets then 0 else b.source % 4 }
  if f.isNormal then
    let isLast := f.isLast
    { f with
      blend := fix f.blend
      ecBlend := (List.range img.ecAlphaAssoc.length).map fun i => fix (f.ecBlend.getD i {})
      duration := if hasAnim then f.duration else 0
      saveAsRef := if isLast then 0 else f.saveAsRef % 4
      saveBeforeCt :=
        if resets && !isLast && ((if hasAnim then f.duration else 0) == 0 || f.saveAsRef % 4 != 0) then f.saveBeforeCt
        else false }
  else
    { f with
      blend := {}, ecBlend := [], duration := 0, isLast := false, saveAsRef := f.saveAsRef % 4
      saveBeforeCt := if f.ty == .referenceOnly then f.saveBeforeCt else true }

end FrameHdr

/-- `BlendParams::from_blending_info` followed by the `new: None` arms of `blend_single`:
with no extra channels there is no alpha, `Blend` degenerates to `Replace` and `MulAdd` to `Add`. -/
def kernelFor (hasExtra : Bool) (info : BlendInfo) (chanIdx cc : Nat) (premul : Option Bool) : Kernel :=
  match info.mode with
  | .replace => .replace
  | .add => .add
  | .blend =>
    if chanIdx == info.alpha + cc then .mixAlpha info.clamp false
    else if !hasExtra then .replace
    else .blend info.clamp false (premul.getD false)
  | .mulAdd =>
    if chanIdx == info.alpha + cc then .skip
    else if !hasExtra then .add
    else .mulAdd info.clamp false
  | .mul => .mul info.clamp

/-- `jxl_frame::data::PatchBlendMode` (coded 0..7) -/
inductive PatchMode where
  | none | replace | add | mul | blendAbove | blendBelow | mulAddAbove | mulAddBelow
  deriving Repr, DecidableEq, Inhabited

/-- `BlendParams::from_patch_blending_info`; `none` = the channel is left alone -/
def patchKernelFor (mode : PatchMode) (alpha : Nat) (clamp : Bool) (chanIdx cc : Nat)
    (premul : Option Bool) : Option Kernel :=
  match mode with
  | .none => none
  | .replace => some .replace
  | .add => some .add
  | .mul => some (.mul clamp)
  | .blendAbove | .blendBelow =>
    let swapped := mode == .blendBelow
    if chanIdx == alpha + cc then some (.mixAlpha clamp swapped)
    else some (.blend clamp swapped (premul.getD false))
  | .mulAddAbove | .mulAddBelow =>
    let swapped := mode == .mulAddBelow
    if chanIdx == alpha + cc then (if swapped then some .replace else some .skip)
    else some (.mulAdd clamp swapped)

def PatchMode.ofCode : Nat → PatchMode
  | 0 => .none | 1 => .replace | 2 => .add | 3 => .mul | 4 => .blendAbove | 5 => .blendBelow
  | 6 => .mulAddAbove | _ => .mulAddBelow

def PatchMode.usesAlpha : PatchMode → Bool
  | .blendAbove | .blendBelow | .mulAddAbove | .mulAddBelow => true
  | _ => false

/-- `blend::patch` at one pixel position of one target: `base` / `ref` are the samples of every
channel (colour first) of the canvas and of the reference frame there; `infos[0]` is the blending
of the colour channels, `infos[1 + e]` of extra channel `e` (mode, alpha channel, clamp). Channels
are processed in order, so a channel after the alpha channel reads the canvas alpha ALREADY
updated by the patch (the Rust loop mutates the canvas channel by channel). -/
def patchPixel {α : Type} [Scalar α] (cc : Nat) (ecAlphaAssoc : List (Option Bool))
    (infos : List (PatchMode × Nat × Bool)) (base ref : List α) : List α :=
  (List.range base.length).foldl (fun cur idx =>
    let info := if idx < cc then infos.getD 0 (.none, 0, false) else infos.getD (idx - cc + 1) (.none, 0, false)
    let mode := info.1
    let alpha := info.2.1
    let clamp := info.2.2
    match patchKernelFor mode alpha clamp idx cc (ecAlphaAssoc.getD alpha none) with
    | none => cur
    | some k =>
      let ba := if mode.usesAlpha then cur.getD (alpha + cc) Scalar.zero else Scalar.zero
      let na := if mode.usesAlpha then ref.getD (alpha + cc) Scalar.zero else Scalar.zero
      cur.set idx (k.apply (cur.getD idx Scalar.zero) (ref.getD idx Scalar.zero) ba na)) base

/-! ## 3. Spec: the sequential compositor (generic in the canvas value) -/

/-- A multi-frame image as the compositor sees it: the headers in bitstream order (already cut
after the first `is_last` frame) and `compose i bases`, the canvas frame `i` produces when channel
`c` reads the canvas `bases[c]` (`none` = empty slot = zeros). -/
structure Cfg (V : Type) where
  img : ImgInfo := {}
  hdrs : List FrameHdr := []
  compose : Nat → List (Option V) → V

namespace Cfg
variable {V : Type}

def hdr (C : Cfg V) (i : Nat) : FrameHdr := C.hdrs.getD i {}

/-- per-channel source slots of frame `i` -/
def sources (C : Cfg V) (i : Nat) : List Nat := (C.hdr i).chanSources C.img

end Cfg

/-- function update -/
def upd {β : Type} (f : Nat → β) (i : Nat) (v : β) : Nat → β := fun j => if j = i then v else f j

namespace Spec
variable {V : Type}

structure State (V : Type) where
  /-- frames composed so far -/
  count : Nat := 0
  /-- the four reference slots (only 0..3 are ever written) -/
  slots : Nat → Option V := fun _ => none
  /-- canvases of the keyframes met so far, in order -/
  keys : List V := []

/-- Compose one frame: every channel is blended onto the content of the slot it names, the result
is the new canvas; it is saved into `save_as_reference` when the frame can be referenced (not last,
and duration 0 or a non-zero slot) and shown when the frame is a keyframe. -/
def step (C : Cfg V) (st : State V) (f : FrameHdr) : State V :=
  let v := C.compose st.count ((f.chanSources C.img).map st.slots)
  { count := st.count + 1
    slots := if f.canReference then upd st.slots (f.saveAsRef % 4) (some v) else st.slots
    keys := if f.isKeyframe then st.keys ++ [v] else st.keys }

/-- the fold over a list of frames in bitstream order -/
def run (C : Cfg V) (fs : List FrameHdr) : State V := fs.foldl (step C) {}

/-- state after the first `n` frames of the image -/
def stateAfter (C : Cfg V) (n : Nat) : State V := run C (C.hdrs.take n)

/-- canvas frame `i` produces in the sequential composition -/
def valOf (C : Cfg V) (i : Nat) : V := C.compose i ((C.sources i).map (stateAfter C i).slots)

/-- The frame whose canvas slot `s` holds after the first `n` frames, in closed form: the most
recent frame before `n` that can be referenced and names `s` in `save_as_reference`. -/
def slotFrame (C : Cfg V) : Nat → Nat → Option Nat
  | 0, _ => none
  | n + 1, s =>
    if (C.hdr n).canReference && (C.hdr n).saveAsRef % 4 == s then some n else slotFrame C n s

/-- the `k`-th keyframe of the image -/
def canvasAt (C : Cfg V) (k : Nat) : Option V := (run C C.hdrs).keys[k]?

end Spec

/-! ## 4. Impl: bookkeeping of `preserve_current_frame` -/

namespace Impl
variable {V : Type}

/-- The part of `RenderContext` composition depends on. `usize::MAX` = `none`. -/
structure Ctx where
  /-- `frames.len()` -/
  nframes : Nat := 0
  /-- `reference: [usize; 4]` -/
  reference : Nat → Option Nat := fun _ => none
  /-- `lf_frame: [usize; 4]` -/
  lfFrame : Nat → Option Nat := fun _ => none
  keyframes : List Nat := []
  keyframeInProgress : Option Nat := none
  /-- `frame_deps[i].ref_slots` = the `refs` captured by handle `i` -/
  deps : List (Nat → Option Nat) := []

/-- `RenderContext::preserve_current_frame` (refcounts, which nothing reads, left out) -/
def preserve (c : Ctx) (f : FrameHdr) : Ctx :=
  let idx := c.nframes
  { nframes := idx + 1
    deps := c.deps ++ [c.reference]
    reference := if f.canReference then upd c.reference (f.saveAsRef % 4) (some idx) else c.reference
    lfFrame := if f.lfLevel != 0 then upd c.lfFrame ((f.lfLevel - 1) % 4) (some idx) else c.lfFrame
    keyframes := if f.isKeyframe then c.keyframes ++ [idx] else c.keyframes
    keyframeInProgress :=
      if f.isKeyframe then none else if f.isNormal then some idx else c.keyframeInProgress }

def ctxOf (fs : List FrameHdr) : Ctx := fs.foldl preserve {}

def ctxAfter (C : Cfg V) (n : Nat) : Ctx := ctxOf (C.hdrs.take n)

/-- the reference captured in slot `s` by the handle of frame `i` -/
def refOf (C : Cfg V) (i s : Nat) : Option Nat := (ctxAfter C i).reference s

/-! ### The lazy renderer -/

/-- `FrameRender` without the transient and error states: `Done` is "rendered, not composited" -/
inductive HState (V : Type) where
  | none
  | done
  | blended (v : V)

/-- the states of all handles, by frame index (a structure around the lookup function so that a
state is a value: a bare function-typed `let` would be re-evaluated at every lookup) -/
structure St (V : Type) where
  get : Nat → HState V

/-- store a new state for handle `i` -/
def St.set (st : St V) (i : Nat) (x : HState V) : St V := ⟨fun j => if j = i then x else st.get j⟩

/-- `FrameRenderHandle::run` through `do_render`: an unrendered frame is rendered after `run` was
spawned on each of its four captured references (and so on downwards). Nothing is composited. -/
def runF (C : Cfg V) : Nat → Nat → St V → St V
  | 0, _, st => st
  | n + 1, i, st =>
    match st.get i with
    | .none =>
      let st := (List.range 4).foldl (fun st s =>
        match refOf C i s with
        | some j => runF C n j st
        | none => st) st
      st.set i .done
    | _ => st

/-- `header.is_last || (header.can_reference() && ref_idx == header.save_as_reference)`, colour
channels only, and never from a keyframe: when this holds `blend()` tries `try_take_blended`.
(As the Rust stands, `try_take_blended` cannot succeed: it tests `Arc::into_inner` on a clone of an
`Arc` it still holds, and `blend()` holds a third one in `base_grid`. The model does not rely on
that: `steal` is an arbitrary oracle and the theorems hold for every choice.) -/
def canOverwrite (C : Cfg V) (i c s j : Nat) : Bool :=
  let f := C.hdr i
  c < C.img.colorChannels && (f.isLast || (f.canReference && s == f.saveAsRef % 4)) && !(C.hdr j).isKeyframe

/-- The per-channel loop of `blend()`: channel `c` (counting up) obtains the composed base from
the handle in its slot `s` (`run_with_image` + `RenderedImage::blend`, here `rec`), and may steal its
buffer (`try_take_blended`, leaving the handle empty) when `canOverwrite` and `steal i c` say so. -/
def chanLoop (C : Cfg V) (steal : Nat → Nat → Bool) (rec : Nat → St V → V × St V) (i : Nat) :
    Nat → List Nat → St V → List (Option V) × St V
  | _, [], st => ([], st)
  | c, s :: rest, st =>
    match refOf C i s with
    | none =>
      let r := chanLoop C steal rec i (c + 1) rest st
      (none :: r.1, r.2)
    | some j =>
      let r1 := rec j st
      let st2 := if canOverwrite C i c s j && steal i c then r1.2.set j .none else r1.2
      let r := chanLoop C steal rec i (c + 1) rest st2
      (some r1.1 :: r.1, r.2)

/-- `ref_list`: the frames sitting in the slots frame `i` names, each once, ascending by index
(`sort_by_key(|grid| grid.frame.idx)`; a captured reference always has a smaller index than `i`) -/
def usedRefs (C : Cfg V) (i : Nat) : List Nat :=
  (List.range i).filter fun j => (C.sources i).any fun s => refOf C i s == some j

/-- `RenderedImage::blend()` on a rendered, not yet composited handle `i`; `rec j` is
`run_with_image()` + `blend()` on the handle of an earlier frame `j`.
* an unblended frame (`skip_blending`) becomes `Blended` as it is;
* otherwise `blend()`: the used references are composited in index order, the per-channel loop
  reads (and maybe steals) them, and, if this frame will be saved into slot `r`, the previous
  non-keyframe occupant of `r` is `reset()`. -/
def blendBody (C : Cfg V) (steal : Nat → Nat → Bool) (rec : Nat → St V → V × St V) (i : Nat) (st : St V) :
    V × St V :=
  let f := C.hdr i
  if f.skipBlending C.img then
    let v := C.compose i []
    (v, st.set i (.blended v))
  else
    let st := (usedRefs C i).foldl (fun st j => (rec j st).2) st
    let r := chanLoop C steal rec i 0 (C.sources i) st
    let v := C.compose i r.1
    let st := r.2
    let st :=
      if f.canReference then
        match refOf C i (f.saveAsRef % 4) with
        | some j => if !(C.hdr j).isKeyframe then st.set j .none else st
        | none => st
      else st
    (v, st.set i (.blended v))

/-- `run_with_image()` + `RenderedImage::blend()` on the handle of frame `i`, with `n` units of
fuel (every captured reference has a smaller index, so `i + 1` suffices). Returns the composed
canvas and the new handle states. A `Blended` handle answers from the cache; otherwise the frame
is rendered (`runF`) and composited (`blendBody`). -/
def blendF (C : Cfg V) (steal : Nat → Nat → Bool) : Nat → Nat → St V → V × St V
  | 0, i, st => (C.compose i [], st)
  | n + 1, i, st =>
    match st.get i with
    | .blended v => (v, st)
    | _ => blendBody C steal (fun j st => blendF C steal n j st) i (runF C (n + 1) i st)

/-- `RenderContext::render_keyframe` (without the colour-management post-processing): `none` is
`Error::IncompleteFrame`. -/
def renderKeyframe (C : Cfg V) (steal : Nat → Nat → Bool) (k : Nat) (st : St V) : Option V × St V :=
  match (ctxOf C.hdrs).keyframes[k]? with
  | none => (none, st)
  | some idx =>
    let r := blendF C steal (idx + 1) idx st
    (some r.1, r.2)

/-- a sequence of keyframe requests on one context -/
def renderMany (C : Cfg V) (steal : Nat → Nat → Bool) : List Nat → St V → List (Option V) × St V
  | [], st => ([], st)
  | k :: ks, st =>
    let r := renderKeyframe C steal k st
    let rs := renderMany C steal ks r.2
    (r.1 :: rs.1, rs.2)

def St.init : St V := ⟨fun _ => .none⟩

end Impl

/-! ## 5. Pixel canvases -/

namespace Px
variable {α : Type}

/-- one channel, row major -/
structure Plane (α : Type) where
  w : Nat := 0
  h : Nat := 0
  data : Array α := #[]
  deriving Inhabited

def Plane.get [Scalar α] (p : Plane α) (x y : Nat) : α :=
  if x < p.w ∧ y < p.h then p.data.getD (y * p.w + x) Scalar.zero else Scalar.zero

def Plane.ofFn (w h : Nat) (f : Nat → Nat → α) : Plane α :=
  { w, h, data := Array.ofFn (n := w * h) fun i => f (i.val % w) (i.val / w) }

/-- sample at signed coordinates, zero outside -/
def Plane.getI [Scalar α] (p : Plane α) (x y : Int) : α :=
  if 0 ≤ x ∧ 0 ≤ y then p.get x.toNat y.toNat else Scalar.zero

/-- all channels (colour then extra), image sized -/
abbrev Canvas (α : Type) := List (Plane α)

/-- a decoded frame: its header and its own channels in frame coordinates (unblended) -/
structure Frame (α : Type) where
  hdr : FrameHdr := {}
  chans : List (Plane α) := []
  deriving Inhabited

def chanOf [Scalar α] (cv : Option (Canvas α)) (ch x y : Nat) : α :=
  match cv with
  | none => Scalar.zero
  | some planes => (planes.getD ch {}).get x y

/-- the frame channels the blender sees: the opaque recorded-colour transform `ct` has run on the
colour planes iff `ctBeforeBlend` -/
def inputChans (img : ImgInfo) (ct : List (Plane α) → List (Plane α)) (f : Frame α) : List (Plane α) :=
  if f.hdr.ctBeforeBlend img then ct (f.chans.take img.colorChannels) ++ f.chans.drop img.colorChannels else f.chans

/-- The blend rule of the format for one frame. Channel `c` of the result, at image position
`(x, y)`: inside the frame rectangle (signed origin `x0, y0`) the kernel of the channel's blending
info applied to the sample of the source canvas, the frame sample, and the two alpha samples (alpha
channel chosen by the blending info, read from the same source canvas and from the frame); outside
the rectangle the sample of the source canvas (zeros for an empty slot). A frame that is not
blended (`skip_blending`: not a normal frame, or a full-size `Replace`) is the canvas itself, its
samples placed at the origin, zeros where it does not cover the image.
`ct` is the opaque recorded-colour transform on the colour planes (identity unless XYB / YCbCr). -/
def blendFrame [Scalar α] (img : ImgInfo) (ct : List (Plane α) → List (Plane α)) (f : Frame α)
    (bases : List (Option (Canvas α))) : Canvas α :=
  let cc := img.colorChannels
  let nec := img.ecAlphaAssoc.length
  let hdr := f.hdr
  let chans := inputChans img ct f
  let skip := hdr.skipBlending img
  (List.range (cc + nec)).map fun c =>
    let newP := chans.getD c {}
    if skip then
      Plane.ofFn img.w img.h fun x y => newP.getI ((x : Int) - hdr.x0) ((y : Int) - hdr.y0)
    else
      let info := hdr.infoFor cc c
      let premul := (img.ecAlphaAssoc.getD info.alpha none)
      let k := kernelFor (nec != 0) info c cc premul
      let base := (bases.getD c none)
      let aIdx := cc + info.alpha
      let newA := chans.getD aIdx {}
      Plane.ofFn img.w img.h fun x y =>
        let fx := (x : Int) - hdr.x0
        let fy := (y : Int) - hdr.y0
        if 0 ≤ fx ∧ fx < hdr.w ∧ 0 ≤ fy ∧ fy < hdr.h then
          k.apply (chanOf base c x y) (newP.getI fx fy) (chanOf base aIdx x y) (newA.getI fx fy)
        else chanOf base c x y

/-- frames up to and including the first `is_last` one (the decoder stops there) -/
def cutAtLast : List (Frame α) → List (Frame α)
  | [] => []
  | f :: fs => if f.hdr.isNormal && f.hdr.isLast then [f] else f :: cutAtLast fs

/-- the compositor configuration of a decoded multi-frame image -/
def mkCfg [Scalar α] (img : ImgInfo) (ct : List (Plane α) → List (Plane α)) (frames : List (Frame α)) :
    Cfg (Canvas α) :=
  let fs := cutAtLast frames
  { img, hdrs := fs.map (·.hdr), compose := fun i bases => blendFrame img ct (fs.getD i {}) bases }

/-- every keyframe canvas of the image, by the sequential compositor -/
def keyframes [Scalar α] (img : ImgInfo) (frames : List (Frame α)) : List (Canvas α) :=
  let C := mkCfg img id frames
  (Spec.run C C.hdrs).keys

/-! ### Patches

A frame with a patch dictionary has rectangles of earlier reference frames blended into its own
samples before it is composed (`render_features` → `blend::patch`). Specified for what an encoder
produces: the source is a reference-only frame (stored as it is, frame sized), the rectangle lies
inside it. Targets may stick out of the frame; what is outside is dropped. -/

structure PatchTarget where
  x : Int := 0
  y : Int := 0
  /-- colour, then one per extra channel: mode, alpha channel (extra channel index), clamp -/
  infos : List (PatchMode × Nat × Bool) := []
  deriving Inhabited

structure PatchRef where
  ref : Nat := 0
  x0 : Nat := 0
  y0 : Nat := 0
  w : Nat := 1
  h : Nat := 1
  targets : List PatchTarget := []
  deriving Inhabited

/-- one target: every channel of the frame at once -/
def applyTarget [Scalar α] (img : ImgInfo) (src : List (Plane α)) (p : PatchRef) (t : PatchTarget)
    (chans : List (Plane α)) : List (Plane α) :=
  (List.range chans.length).map fun c =>
    let pl := chans.getD c {}
    Plane.ofFn pl.w pl.h fun x y =>
      let ix := (x : Int) - t.x
      let iy := (y : Int) - t.y
      if 0 ≤ ix ∧ ix < p.w ∧ 0 ≤ iy ∧ iy < p.h then
        let base := chans.map fun q => q.get x y
        let rv := src.map fun q => q.get (p.x0 + ix.toNat) (p.y0 + iy.toNat)
        (patchPixel img.colorChannels img.ecAlphaAssoc t.infos base rv).getD c Scalar.zero
      else pl.get x y

/-- the frame's samples after its patch dictionary; `srcOf s` = the stored image of reference slot `s` -/
def applyPatches [Scalar α] (img : ImgInfo) (srcOf : Nat → List (Plane α)) (ps : List PatchRef)
    (chans : List (Plane α)) : List (Plane α) :=
  ps.foldl (fun ch p => p.targets.foldl (fun ch t => applyTarget img (srcOf p.ref) p t ch) ch) chans

/-- a decoded frame with its patch dictionary -/
structure FrameP (α : Type) where
  frame : Frame α := {}
  patches : List PatchRef := []
  deriving Inhabited

structure PState (α : Type) where
  slots : Nat → Option (Canvas α) := fun _ => none
  /-- the own samples (frame sized, patches applied) of the frame in a slot when that frame is not blended -/
  raw : Nat → Option (List (Plane α)) := fun _ => none
  keys : List (Canvas α) := []

def stepP [Scalar α] (img : ImgInfo) (st : PState α) (f : FrameP α) : PState α :=
  let srcOf := fun s => match st.raw s with
    | some planes => planes
    | none => (st.slots s).getD []
  let chans := applyPatches img srcOf f.patches f.frame.chans
  let hdr := f.frame.hdr
  let v := blendFrame img id { f.frame with chans := chans } ((hdr.chanSources img).map st.slots)
  let s := hdr.saveAsRef % 4
  { slots := if hdr.canReference then upd st.slots s (some v) else st.slots
    raw := if hdr.canReference then upd st.raw s (if hdr.isNormal then none else some chans) else st.raw
    keys := if hdr.isKeyframe then st.keys ++ [v] else st.keys }

def cutAtLastP : List (FrameP α) → List (FrameP α)
  | [] => []
  | f :: fs => if f.frame.hdr.isNormal && f.frame.hdr.isLast then [f] else f :: cutAtLastP fs

/-- every keyframe canvas of an image whose frames may carry patches: the same sequential
composition as `keyframes` (to which it reduces when no frame has a patch: the driver uses
`keyframes` then, and the check runs patch-free images through both) -/
def keyframesP [Scalar α] (img : ImgInfo) (frames : List (FrameP α)) : List (Canvas α) :=
  ((cutAtLastP frames).foldl (stepP img) {}).keys

/-- integer samples of a decoded Modular channel to scalars, `parse_integer_sample` -/
def planeOfInts [Scalar α] (bits w h : Nat) (data : Array Int) : Plane α :=
  { w, h, data := data.map (Scalar.ofSample bits) }

end Px

end Jxl.Blend
