import JxlModel.Model.Bits
/-!
# Header bundles: a deep embedding of `define_bundle!` (C14)

Rust: `crates/jxl-oxide-common/src/lib.rs` (`define_bundle!`, `make_parse!`, `read_bits!`,
`Bundle`, `BundleDefault`) and the primitive readers of `crates/jxl-bitstream/src/bitstream.rs`
(`read_bits`, `read_u32`, `read_u64`, `read_bool`, `read_f16_as_f32`, `read_enum`,
`zero_pad_to_byte`) and `crates/jxl-bitstream/src/lib.rs` (`unpack_signed`, `unpack_signed_u64`).

A header description is *data*: `Bundle = List Field`, `Field = (name, ty, cond, default)`.
There is ONE parser (`parseFields` / `parse`) and ONE writer (`writeFields` / `write`) for all
descriptions; the writer may use any `U32` selector / `U64` form that can represent the value
(`choice`, indexed by the bit position at which the primitive starts).

This file imports nothing outside `JxlModel.Model.*` (it links into the `jxlmodel` executable).
-/
namespace Jxl.Bundle
open Jxl

/-! ## Values -/

/-- Values of header fields. `f16` is the 16-bit pattern read from the stream, `f32` a 32-bit
IEEE pattern (only produced by `default(..)` expressions, never read). `Option<T>` is `none` or
the value itself. Enums are their discriminants (`nat`). -/
inductive Val
  | nat (n : Nat)
  | int (i : Int)
  | bool (b : Bool)
  | f16 (bits : Nat)
  | f32 (bits : Nat)
  | unit
  | none
  | list (vs : List Val)
  | record (fs : List (String × Val))
deriving Repr, Inhabited

/-- field name → value, in declaration order -/
abbrev Env := List (String × Val)

def Env.get? : Env → String → Option Val
  | [], _ => Option.none
  | (k, v) :: r, x => if k = x then some v else Env.get? r x

mutual
def Val.beq : Val → Val → Bool
  | .nat a, .nat b => a == b
  | .int a, .int b => a == b
  | .bool a, .bool b => a == b
  | .f16 a, .f16 b => a == b
  | .f32 a, .f32 b => a == b
  | .unit, .unit => true
  | .none, .none => true
  | .list a, .list b => Val.beqList a b
  | .record a, .record b => Val.beqRec a b
  | _, _ => false
def Val.beqList : List Val → List Val → Bool
  | [], [] => true
  | a :: as, b :: bs => Val.beq a b && Val.beqList as bs
  | _, _ => false
def Val.beqRec : List (String × Val) → List (String × Val) → Bool
  | [], [] => true
  | (k, a) :: as, (l, b) :: bs => k == l && Val.beq a b && Val.beqRec as bs
  | _, _ => false
end

mutual
theorem Val.eq_of_beq : ∀ (a b : Val), Val.beq a b = true → a = b
  | .nat a, b, h => by cases b <;> simp_all [Val.beq]
  | .int a, b, h => by cases b <;> simp_all [Val.beq]
  | .bool a, b, h => by cases b <;> simp_all [Val.beq]
  | .f16 a, b, h => by cases b <;> simp_all [Val.beq]
  | .f32 a, b, h => by cases b <;> simp_all [Val.beq]
  | .unit, b, h => by cases b <;> simp_all [Val.beq]
  | .none, b, h => by cases b <;> simp_all [Val.beq]
  | .list a, b, h => by
    cases b <;> simp [Val.beq] at h
    rename_i b; rw [Val.eqList_of_beq a b h]
  | .record a, b, h => by
    cases b <;> simp [Val.beq] at h
    rename_i b; rw [Val.eqRec_of_beq a b h]
theorem Val.eqList_of_beq : ∀ (a b : List Val), Val.beqList a b = true → a = b
  | [], b, h => by cases b <;> simp_all [Val.beqList]
  | a :: as, b, h => by
    cases b with
    | nil => simp [Val.beqList] at h
    | cons b bs =>
      simp [Val.beqList] at h
      rw [Val.eq_of_beq a b h.1, Val.eqList_of_beq as bs h.2]
theorem Val.eqRec_of_beq : ∀ (a b : List (String × Val)), Val.beqRec a b = true → a = b
  | [], b, h => by cases b <;> simp_all [Val.beqRec]
  | (k, a) :: as, b, h => by
    cases b with
    | nil => simp [Val.beqRec] at h
    | cons b bs =>
      obtain ⟨l, b⟩ := b
      simp [Val.beqRec] at h
      rw [h.1.1, Val.eq_of_beq a b h.1.2, Val.eqRec_of_beq as bs h.2]
end

mutual
theorem Val.beq_refl : ∀ (a : Val), Val.beq a a = true
  | .nat a => by simp [Val.beq]
  | .int a => by simp [Val.beq]
  | .bool a => by simp [Val.beq]
  | .f16 a => by simp [Val.beq]
  | .f32 a => by simp [Val.beq]
  | .unit => by simp [Val.beq]
  | .none => by simp [Val.beq]
  | .list a => by simp [Val.beq, Val.beqList_refl a]
  | .record a => by simp [Val.beq, Val.beqRec_refl a]
theorem Val.beqList_refl : ∀ (a : List Val), Val.beqList a a = true
  | [] => by simp [Val.beqList]
  | a :: as => by simp [Val.beqList, Val.beq_refl a, Val.beqList_refl as]
theorem Val.beqRec_refl : ∀ (a : List (String × Val)), Val.beqRec a a = true
  | [] => by simp [Val.beqRec]
  | (k, a) :: as => by simp [Val.beqRec, Val.beq_refl a, Val.beqRec_refl as]
end

instance : DecidableEq Val := fun a b =>
  if h : Val.beq a b = true then isTrue (Val.eq_of_beq a b h)
  else isFalse (fun e => h (e ▸ Val.beq_refl a))

/-! ## Errors -/

/-- `eof` = `Error::Io(UnexpectedEof)`; `invalid kind` = every other bitstream error
(`padding` NonZeroPadding, `float` InvalidFloat, `enum` InvalidEnum, `validation`
ValidationFailed, `profile` ProfileConformance); `stuck` = the model itself cannot continue
(ill-typed description or an un-modelled external parser) — never produced for the pinned
descriptions. -/
inductive Err
  | eof
  | invalid (kind : String)
  | stuck (why : String)
deriving Repr, DecidableEq, Inhabited

/-! ## Expressions (`cond(..)`, `default(..)`, lengths, contexts) -/

inductive BinOp
  | and | or | eq | ne | lt | le | gt | ge | add | sub | mul | div | shl | shr | band | bor
deriving Repr, DecidableEq, Inhabited

/-- The expression language the translator targets. `app ps body args` is an inlined call of a
Rust helper function with parameters `ps` (the body sees only its parameters); `call f args`
is one of the fixed builtins of `builtin`. -/
inductive Expr
  | nat (n : Nat)
  | int (i : Int)
  | bool (b : Bool)
  | f32 (bits : Nat)
  | none
  | unit
  | var (x : String)
  | field (e : Expr) (f : String)
  | idx (e : Expr) (i : Nat)
  | not (e : Expr)
  | bin (op : BinOp) (a b : Expr)
  | ite (c t e : Expr)
  | letE (x : String) (v body : Expr)
  | call (f : String) (args : List Expr)
  | app (ps : List String) (body : Expr) (args : List Expr)
  | list (es : List Expr)
  | record (fs : List (String × Expr))
deriving Repr, Inhabited

def wrapInt (bits : Nat) (i : Int) : Int :=
  let m : Int := (2 : Int) ^ bits
  let r := i % m
  if r ≥ m / 2 then r - m else r

def toInt? : Val → Option Int
  | .nat n => some (Int.ofNat n)
  | .int i => some i
  | .bool b => some (if b then 1 else 0)
  | _ => Option.none

def popcount : Nat → Nat → Nat
  | 0, _ => 0
  | f+1, n => n % 2 + popcount f (n / 2)

def trailingZeros : Nat → Nat → Nat
  | 0, _ => 0
  | f+1, n => if n % 2 == 1 then 0 else 1 + trailingZeros f (n / 2)

def natsOf : List Val → Option (List Nat)
  | [] => some []
  | .nat n :: r => (natsOf r).map (n :: ·)
  | _ => Option.none

/-- UTF-8 validity exactly as `String::from_utf8` (no overlong forms, no surrogates, ≤ U+10FFFF). -/
def utf8Valid : List Nat → Bool
  | [] => true
  | b0 :: r =>
    if b0 < 0x80 then utf8Valid r
    else if 0xC2 ≤ b0 && b0 ≤ 0xDF then
      match r with
      | b1 :: r' => (0x80 ≤ b1 && b1 ≤ 0xBF) && utf8Valid r'
      | _ => false
    else if 0xE0 ≤ b0 && b0 ≤ 0xEF then
      match r with
      | b1 :: b2 :: r' =>
        let lo := if b0 == 0xE0 then 0xA0 else 0x80
        let hi := if b0 == 0xED then 0x9F else 0xBF
        (lo ≤ b1 && b1 ≤ hi) && (0x80 ≤ b2 && b2 ≤ 0xBF) && utf8Valid r'
      | _ => false
    else if 0xF0 ≤ b0 && b0 ≤ 0xF4 then
      match r with
      | b1 :: b2 :: b3 :: r' =>
        let lo := if b0 == 0xF0 then 0x90 else 0x80
        let hi := if b0 == 0xF4 then 0x8F else 0xBF
        (lo ≤ b1 && b1 ≤ hi) && (0x80 ≤ b2 && b2 ≤ 0xBF) && (0x80 ≤ b3 && b3 ≤ 0xBF) &&
          utf8Valid r'
      | _ => false
    else false

/-- `read_f16_as_f32` value conversion on bit patterns (exponent ≠ 31): exact, done with
integers. Zero → signed zero; subnormal `m·2^-24` is normalised; normal → rebias by 112.

Rust (`crates/jxl-bitstream/src/bitstream.rs`, `Bitstream::read_f16_as_f32`), branch by branch:
* `v & 0x7fff == 0` → `f32::from_bits((v & 0x8000) << 16)`: here `e == 0 && m == 0 → neg`.
* `exponent == 0x1f` → `InvalidFloat`: excluded by `f16Valid` (`parseTy .f16`), not this function.
* `exponent == 0` (subnormal, `mantissa` = 1..1023): the Rust works in `f32` arithmetic,
  `val = (1.0 / 16384.0) * (mantissa as f32 / 1024.0)`, then `-val` if the sign bit is set.
  Every step is exact in binary32 (24-bit significand, normal range down to 2^-126):
  `mantissa as f32` is an integer < 2^24; `/ 1024.0` divides by 2^10 (only the exponent changes,
  `m·2^-10 ≥ 2^-10` is normal); `1.0 / 16384.0 = 2^-14` is a power of two; the product
  `2^-14 · m·2^-10 = m·2^-24` keeps the ≤ 10-bit significand of `m` and lies in
  `[2^-24, 2^-14)`, far above 2^-126, so it is a normal binary32 number and no rounding occurs;
  negation flips the sign bit. The binary32 pattern of `m·2^-24` with `h = ⌊log2 m⌋` is biased
  exponent `h − 24 + 127 = h + 103` and fraction `m·2^(23−h) − 2^23` — the line below.
* otherwise (normal): `(mantissa << 13) | ((exponent + 112) << 23) | neg_bit`; the three fields
  do not overlap, so `|` is `+`.
That the result denotes the same real number as the binary16 pattern is
`C14_f16_value_exact` (`f32Scaled`/`f16Scaled` below). -/
def f16ToF32Bits (v : Nat) : Nat :=
  let sign := (v / 0x8000) % 2
  let e := (v / 1024) % 32
  let m := v % 1024
  let neg := sign * 0x80000000
  if e == 0 && m == 0 then neg
  else if e == 0 then
    -- m * 2^-24, m in 1..1023: highest set bit h (0..9): value = 2^(h-24) * (m / 2^h)
    let h := Nat.log2 m
    neg + (h + 103) * 0x800000 + (m * 2 ^ (23 - h)) % 0x800000
  else neg + (e + 112) * 0x800000 + m * 0x2000

/-- order key of a finite f32 pattern: `a < b` as floats ⇔ `key a < key b` (−0 = +0) -/
def f32Key (bits : Nat) : Int :=
  let mag : Int := Int.ofNat (bits % 0x80000000)
  if bits / 0x80000000 % 2 == 1 then -mag else mag

/-- finite f16 pattern as an integer multiple of 2^-24 -/
def f16Scaled (v : Nat) : Int :=
  let sign := (v / 0x8000) % 2
  let e := (v / 1024) % 32
  let m := v % 1024
  let mag : Int := if e == 0 then Int.ofNat m else Int.ofNat ((1024 + m) * 2 ^ (e - 1))
  if sign == 1 then -mag else mag

/-- finite f32 pattern (biased exponent ≠ 255) as an integer multiple of 2^-149, by the IEEE-754
definition of binary32: sign bit, biased exponent `e` (8 bits), fraction `m` (23 bits);
`e = 0` (zero / subnormal) is `m·2^-149`, otherwise `(1 + m·2^-23)·2^(e-127) =
(2^23 + m)·2^(e-1)·2^-149` -/
def f32Scaled (bits : Nat) : Int :=
  let sign := (bits / 0x80000000) % 2
  let e := (bits / 0x800000) % 256
  let m := bits % 0x800000
  let mag : Int := if e == 0 then Int.ofNat m else Int.ofNat ((0x800000 + m) * 2 ^ (e - 1))
  if sign == 1 then -mag else mag

/-- The fixed list of helper functions callable from expressions. -/
def builtin (f : String) (args : List Val) : Option Val :=
  match f, args with
  | "len", [.list vs] => some (.nat vs.length)
  | "is_empty", [.list vs] => some (.bool vs.isEmpty)
  | "is_some", [v] => some (.bool (v != .none))
  | "is_none", [v] => some (.bool (v == .none))
  | "unwrap_or", [v, d] => some (if v == .none then d else v)
  | "repeat", [v, .nat n] => some (.list (List.replicate n v))
  | "as_u32", [v] => (toInt? v).map fun i => .nat (i % (2 ^ 32 : Int)).toNat
  | "as_u64", [v] => (toInt? v).map fun i => .nat (i % (2 ^ 64 : Int)).toNat
  | "as_i32", [v] => (toInt? v).map fun i => .int (wrapInt 32 i)
  | "as_i64", [v] => (toInt? v).map fun i => .int (wrapInt 64 i)
  | "popcount", [.nat n] => some (.nat (popcount 64 n))
  | "trailing_zeros", [.nat n] => some (.nat (if n == 0 then 32 else trailingZeros 64 n))
  | "sum", [.list vs] => (natsOf vs).map fun ns => .nat ns.sum
  | "utf8_valid", [.list vs] => (natsOf vs).map fun ns => .bool (utf8Valid ns)
  | "div_ceil", [.nat a, .nat b] => if b == 0 then Option.none else some (.nat ((a + b - 1) / b))
  | "fkey", [.f16 b] => some (.int (f32Key (f16ToF32Bits b)))
  | "fkey", [.f32 b] => some (.int (f32Key b))
  | "f16_scaled", [.f16 b] => some (.int (f16Scaled b))
  | "contains", [.list vs, v] => some (.bool (vs.contains v))
  | _, _ => Option.none

/-- Integer literals in the Rust source take the type of the other operand; the untyped
translator emits them as `nat`, so a `nat` meeting an `int` is read as that `int`. -/
def coerceMixed : Val → Val → Val × Val
  | .nat a, .int b => (.int (Int.ofNat a), .int b)
  | .int a, .nat b => (.int a, .int (Int.ofNat b))
  | a, b => (a, b)

def binopCore (op : BinOp) (a b : Val) : Option Val :=
  match op, a, b with
  | .eq, a, b => some (.bool (a == b))
  | .ne, a, b => some (.bool (a != b))
  | .and, .bool a, .bool b => some (.bool (a && b))
  | .or, .bool a, .bool b => some (.bool (a || b))
  | .lt, .nat a, .nat b => some (.bool (a < b))
  | .le, .nat a, .nat b => some (.bool (a ≤ b))
  | .gt, .nat a, .nat b => some (.bool (a > b))
  | .ge, .nat a, .nat b => some (.bool (a ≥ b))
  | .lt, .int a, .int b => some (.bool (a < b))
  | .le, .int a, .int b => some (.bool (a ≤ b))
  | .gt, .int a, .int b => some (.bool (a > b))
  | .ge, .int a, .int b => some (.bool (a ≥ b))
  | .add, .nat a, .nat b => some (.nat (a + b))
  | .sub, .nat a, .nat b => if b ≤ a then some (.nat (a - b)) else Option.none
  | .mul, .nat a, .nat b => some (.nat (a * b))
  | .div, .nat a, .nat b => if b == 0 then Option.none else some (.nat (a / b))
  | .add, .int a, .int b => some (.int (a + b))
  | .sub, .int a, .int b => some (.int (a - b))
  | .mul, .int a, .int b => some (.int (a * b))
  | .div, .int a, .int b => if b == 0 then Option.none else some (.int (Int.tdiv a b))
  | .shl, .nat a, .nat b => some (.nat (a * 2 ^ b))
  | .shr, .nat a, .nat b => some (.nat (a / 2 ^ b))
  | .band, .nat a, .nat b => some (.nat (a &&& b))
  | .bor, .nat a, .nat b => some (.nat (a ||| b))
  | _, _, _ => Option.none

def binop (op : BinOp) (a b : Val) : Option Val :=
  let (x, y) := coerceMixed a b
  binopCore op x y

mutual
/-- Evaluate in scope `sc` (first binding wins). `none` = ill-typed / unbound (model stuck). -/
def eval (sc : Env) : Expr → Option Val
  | .nat n => some (.nat n)
  | .int i => some (.int i)
  | .bool b => some (.bool b)
  | .f32 b => some (.f32 b)
  | .none => some .none
  | .unit => some .unit
  | .var x => sc.get? x
  | .field e f =>
    match eval sc e with
    | some (.record fs) => Env.get? fs f
    | _ => Option.none
  | .idx e i =>
    match eval sc e with
    | some (.list vs) => vs[i]?
    | _ => Option.none
  | .not e =>
    match eval sc e with
    | some (.bool b) => some (.bool !b)
    | _ => Option.none
  | .bin .and a b =>
    match eval sc a with
    | some (.bool false) => some (.bool false)
    | some (.bool true) =>
      match eval sc b with
      | some (.bool y) => some (.bool y)
      | _ => Option.none
    | _ => Option.none
  | .bin .or a b =>
    match eval sc a with
    | some (.bool true) => some (.bool true)
    | some (.bool false) =>
      match eval sc b with
      | some (.bool y) => some (.bool y)
      | _ => Option.none
    | _ => Option.none
  | .bin op a b =>
    match eval sc a, eval sc b with
    | some x, some y => binop op x y
    | _, _ => Option.none
  | .ite c t e =>
    match eval sc c with
    | some (.bool true) => eval sc t
    | some (.bool false) => eval sc e
    | _ => Option.none
  | .letE x v body =>
    match eval sc v with
    | some w => eval ((x, w) :: sc) body
    | Option.none => Option.none
  | .call f args =>
    match evalList sc args with
    | some vs => builtin f vs
    | Option.none => Option.none
  | .app ps body args =>
    match evalList sc args with
    | some vs => eval (ps.zip vs) body
    | Option.none => Option.none
  | .list es => (evalList sc es).map .list
  | .record fs => (evalRec sc fs).map .record
def evalList (sc : Env) : List Expr → Option (List Val)
  | [] => some []
  | e :: es =>
    match eval sc e, evalList sc es with
    | some v, some vs => some (v :: vs)
    | _, _ => Option.none
def evalRec (sc : Env) : List (String × Expr) → Option Env
  | [] => some []
  | (k, e) :: es =>
    match eval sc e, evalRec sc es with
    | some v, some vs => some ((k, v) :: vs)
    | _, _ => Option.none
end

def evalBool (sc : Env) (e : Expr) : Option Bool :=
  match eval sc e with
  | some (.bool b) => some b
  | _ => Option.none

def evalNat (sc : Env) (e : Expr) : Option Nat :=
  match eval sc e with
  | some (.nat n) => some n
  | _ => Option.none

def evalEnv (sc : Env) (e : Expr) : Option Env :=
  match eval sc e with
  | some (.record fs) => some fs
  | _ => Option.none

/-! ## Field types -/

/-- one alternative of a `U32(d0, d1, d2, d3)`: a constant or `off + u(n)` (wrapping in 32 bits) -/
inductive Dist
  | const (c : Nat)
  | bits (off n : Nat)
deriving Repr, DecidableEq, Inhabited

mutual
inductive FieldTy
  /-- `ty(c)`: a constant, no bits -/
  | const (c : Nat)
  /-- `u(n)` -/
  | u (n : Nat)
  /-- `c + u(n)` (`wrapping_add`) -/
  | cu (c n : Nat)
  | u32 (d0 d1 d2 d3 : Dist)
  | u64
  /-- `F16`: the value is the 16-bit pattern; patterns with exponent 31 are `InvalidFloat` -/
  | f16
  | bool
  /-- a reader of a `u32` followed by `E::try_from` (`valid` discriminants, else `InvalidEnum`);
  `read_enum::<E>()` is `FieldTy.enum valid` below -/
  | enumOf (t : FieldTy) (valid : List Nat)
  /-- `…; UnpackSigned` over a reader of a `u32` -/
  | signed (t : FieldTy)
  /-- `U64; UnpackSigned` -/
  | signed64 (t : FieldTy)
  /-- `Bundle(T)`: nested description; `ctx` evaluates (in the enclosing scope) to the record of
  names the nested `cond`/`default` expressions may use -/
  | bundle (ctx : Expr) (fs : List Field)
  | vec (t : FieldTy) (len : Expr)
  | arr (t : FieldTy) (len : Nat)
  | zeroPad
  /-- zero-bit validation: `e` must evaluate to `true`, otherwise `Err.invalid kind` -/
  | assert (e : Expr) (kind : String)
  /-- `skip_bits(n)` (payload is not reported; the writer emits zeros) -/
  | skip (n : Expr)
  /-- a parser that is not modelled here (other components) -/
  | ext (name : String)
inductive Field
  | mk (name : String) (ty : FieldTy) (cond : Expr) (dflt : Option Expr)
end

abbrev Bundle := List Field

def Field.name : Field → String | .mk n _ _ _ => n
def Field.ty : Field → FieldTy | .mk _ t _ _ => t
def Field.cond : Field → Expr | .mk _ _ c _ => c
def Field.dflt : Field → Option Expr | .mk _ _ _ d => d

instance : Inhabited FieldTy := ⟨.bool⟩

def enumD0 : Dist := .const 0
def enumD1 : Dist := .const 1
def enumD2 : Dist := .bits 2 4
def enumD3 : Dist := .bits 18 6

/-- `read_enum::<E>()`: `U32(0, 1, 2 + u(4), 18 + u(6))`, then `E::try_from` -/
def FieldTy.enum (valid : List Nat) : FieldTy := .enumOf (.u32 enumD0 enumD1 enumD2 enumD3) valid
instance : Inhabited Field := ⟨.mk "" .bool (.bool true) Option.none⟩

/-! ## Primitive readers / writers -/

def W32 : Nat := 2 ^ 32

/-- the first `n` bits and the rest (`none` if fewer are left); linear in `n` -/
def takeBits : Nat → Bits → Option (Bits × Bits)
  | 0, s => some ([], s)
  | _+1, [] => Option.none
  | n+1, b :: s =>
    match takeBits n s with
    | some (t, r) => some (b :: t, r)
    | Option.none => Option.none

/-- `read_bits(n)`: the same function as `Jxl.readBits` (see `rd_eq_readBits` in
`Proofs/Bundle.lean`), without measuring the whole stream; end of stream = `Err.eof` -/
def rd (n : Nat) (s : Bits) : Except Err (Nat × Bits) :=
  match takeBits n s with
  | some (t, r) => .ok (ofBits t, r)
  | Option.none => .error .eof

def Dist.read (d : Dist) (s : Bits) : Except Err (Nat × Bits) :=
  match d with
  | .const c => .ok (c, s)
  | .bits off n =>
    match rd n s with
    | .ok (v, r) => .ok ((v + off) % W32, r)
    | .error e => .error e

def Dist.canWrite (d : Dist) (v : Nat) : Bool :=
  match d with
  | .const c => v == c
  | .bits off n => off ≤ v && v - off < 2 ^ n && v < W32

def Dist.write (d : Dist) (v : Nat) : Bits :=
  match d with
  | .const _ => []
  | .bits off n => toBits n (v - off)

def selDist (d0 d1 d2 d3 : Dist) : Nat → Dist
  | 0 => d0 | 1 => d1 | 2 => d2 | _ => d3

/-- `read_u32(d0, d1, d2, d3)` -/
def readU32 (d0 d1 d2 d3 : Dist) (s : Bits) : Except Err (Nat × Bits) :=
  match rd 2 s with
  | .ok (k, r) => (selDist d0 d1 d2 d3 k).read r
  | .error e => .error e

def writeU32With (d0 d1 d2 d3 : Dist) (k v : Nat) : Bits :=
  toBits 2 k ++ (selDist d0 d1 d2 d3 k).write v

/-- first selector in the rotation `c, c+1, c+2, c+3 (mod 4)` that can represent `v` -/
def pickSel (d0 d1 d2 d3 : Dist) (c v : Nat) : Option Nat :=
  [c % 4, (c + 1) % 4, (c + 2) % 4, (c + 3) % 4].find? fun k => (selDist d0 d1 d2 d3 k).canWrite v

def writeU32 (d0 d1 d2 d3 : Dist) (c v : Nat) : Option Bits :=
  (pickSel d0 d1 d2 d3 c v).map fun k => writeU32With d0 d1 d2 d3 k v

/-- the `selector == 3` loop of `read_u64`: `shift` = 12, 20, …, 60 (fuel 7 always suffices) -/
def readU64Loop : Nat → Nat → Nat → Bits → Except Err (Nat × Bits)
  | 0, _, value, s => .ok (value, s)
  | fuel+1, shift, value, s =>
    match rd 1 s with
    | .error e => .error e
    | .ok (0, r) => .ok (value, r)
    | .ok (_, r) =>
      if shift == 60 then
        match rd 4 r with
        | .ok (x, r') => .ok (value + x * 2 ^ 60, r')
        | .error e => .error e
      else
        match rd 8 r with
        | .ok (x, r') => readU64Loop fuel (shift + 8) (value + x * 2 ^ shift) r'
        | .error e => .error e

/-- `read_u64` -/
def readU64 (s : Bits) : Except Err (Nat × Bits) :=
  match rd 2 s with
  | .error e => .error e
  | .ok (0, r) => .ok (0, r)
  | .ok (1, r) =>
    match rd 4 r with
    | .ok (v, r') => .ok (v + 1, r')
    | .error e => .error e
  | .ok (2, r) =>
    match rd 8 r with
    | .ok (v, r') => .ok (v + 17, r')
    | .error e => .error e
  | .ok (_, r) =>
    match rd 12 r with
    | .ok (v, r') => readU64Loop 7 12 v r'
    | .error e => .error e

/-- continuation groups of the selector-3 form: `g` groups of 8 bits starting at `shift`, then
the terminating 0 bit; the longest form (`long`) has 6 groups, a 1 bit and the 4-bit tail. -/
def writeU64Groups : Nat → Nat → Nat → Bits
  | 0, _, _ => [false]
  | g+1, shift, v => true :: (toBits 8 (v / 2 ^ shift % 256) ++ writeU64Groups g (shift + 8) v)

/-- `g` groups of 8 bits, then the 1 bit and the 4-bit tail -/
def writeU64LongGo (v : Nat) : Nat → Nat → Bits
  | 0, shift => true :: toBits 4 (v / 2 ^ shift % 16)
  | g+1, shift => true :: (toBits 8 (v / 2 ^ shift % 256) ++ writeU64LongGo v g (shift + 8))

def writeU64Long (v : Nat) : Bits := writeU64LongGo v 6 12

/-- The forms of `U64`: 0 → selector 0; 1 → selector 1; 2 → selector 2; `3+g` (g = 0..6) →
selector 3 with `g` continuation groups; 10 → the longest form (6 groups + 4-bit tail). -/
def u64CanWrite (form v : Nat) : Bool :=
  if form = 0 then v == 0
  else if form = 1 then 1 ≤ v && v ≤ 16
  else if form = 2 then 17 ≤ v && v ≤ 272
  else if form = 10 then v < 2 ^ 64
  else 3 ≤ form && form ≤ 9 && v < 2 ^ (12 + 8 * (form - 3))

def writeU64With (form v : Nat) : Bits :=
  if form = 0 then toBits 2 0
  else if form = 1 then toBits 2 1 ++ toBits 4 (v - 1)
  else if form = 2 then toBits 2 2 ++ toBits 8 (v - 17)
  else if form = 10 then toBits 2 3 ++ toBits 12 (v % 4096) ++ writeU64Long v
  else toBits 2 3 ++ toBits 12 (v % 4096) ++ writeU64Groups (form - 3) 12 v

def u64Forms : List Nat := [0, 1, 2, 3, 4, 5, 6, 7, 8, 9, 10]

/-- first form in the rotation starting at `c % 11` that can represent `v` -/
def pickU64 (c v : Nat) : Option Nat :=
  (u64Forms.map fun i => (c + i) % 11).find? fun f => u64CanWrite f v

def writeU64 (c v : Nat) : Option Bits := (pickU64 c v).map fun f => writeU64With f v

/-- `unpack_signed` (and `unpack_signed_u64`) -/
def unpackSigned (x : Nat) : Int :=
  if x % 2 == 0 then Int.ofNat (x / 2) else -(Int.ofNat (x / 2)) - 1

def packSigned (i : Int) : Nat :=
  if i ≥ 0 then 2 * i.toNat else 2 * (-i - 1).toNat + 1

def f16Valid (bits : Nat) : Bool := bits < 65536 && (bits / 1024) % 32 != 31

/-- run a parser `n` times -/
def parseN (p : Bits → Except Err (Val × Bits)) : Nat → Bits → Except Err (List Val × Bits)
  | 0, s => .ok ([], s)
  | n+1, s =>
    match p s with
    | .error e => .error e
    | .ok (v, r) =>
      match parseN p n r with
      | .error e => .error e
      | .ok (vs, r') => .ok (v :: vs, r')

/-- write the values one after the other; `w pos v` writes `v` starting at bit position `pos` -/
def writeN (w : Nat → Val → Option Bits) : Nat → List Val → Option Bits
  | _, [] => some []
  | pos, v :: vs =>
    match w pos v with
    | Option.none => Option.none
    | some b =>
      match writeN w (pos + b.length) vs with
      | Option.none => Option.none
      | some bs => some (b ++ bs)

/-! ## Defaults (`BundleDefault::default_with_context`) -/

mutual
/-- the value a field of type `t` takes when its condition is false and no `default(..)` is
given: `Default::default()` of the Rust field type, or the nested bundle's own defaults -/
def defaultTy (sc : Env) : FieldTy → Option Val
  | .const _ | .u _ | .cu _ _ | .u32 _ _ _ _ | .u64 => some (.nat 0)
  | .f16 => some (.f32 0)
  | .bool => some (.bool false)
  | .enumOf _ _ => some (.nat 0)
  | .signed _ | .signed64 _ => some (.int 0)
  | .bundle ctx fs =>
    match evalEnv sc ctx with
    | some c => (defaultFields c fs []).map .record
    | Option.none => Option.none
  | .vec _ _ => some (.list [])
  | .arr t n => (defaultTy sc t).map fun v => .list (List.replicate n v)
  | .zeroPad | .assert _ _ | .skip _ => some .unit
  | .ext _ => some .none
def defaultFields (ctx : Env) : List Field → Env → Option Env
  | [], acc => some acc
  | .mk name ty _ dflt :: fs, acc =>
    let v := match dflt with
      | some e => eval (acc ++ ctx) e
      | Option.none => defaultTy (acc ++ ctx) ty
    match v with
    | some v => defaultFields ctx fs (acc ++ [(name, v)])
    | Option.none => Option.none
end

def defaultOf (sc : Env) (ty : FieldTy) (dflt : Option Expr) : Option Val :=
  match dflt with
  | some e => eval sc e
  | Option.none => defaultTy sc ty

/-! ## The generic parser -/

mutual
/-- `read_bits!` for one field type. `total` = absolute bit position of the end of `s`
(position of the next bit = `total - s.length`; only `ZeroPadToByte` looks at it);
`sc` = scope for lengths / nested contexts. -/
def parseTy (total : Nat) (sc : Env) : FieldTy → Bits → Except Err (Val × Bits)
  | .const c, s => .ok (.nat c, s)
  | .u n, s =>
    match rd n s with
    | .ok (v, r) => .ok (.nat v, r)
    | .error e => .error e
  | .cu c n, s =>
    match rd n s with
    | .ok (v, r) => .ok (.nat ((v + c) % W32), r)
    | .error e => .error e
  | .u32 d0 d1 d2 d3, s =>
    match readU32 d0 d1 d2 d3 s with
    | .ok (v, r) => .ok (.nat v, r)
    | .error e => .error e
  | .u64, s =>
    match readU64 s with
    | .ok (v, r) => .ok (.nat v, r)
    | .error e => .error e
  | .f16, s =>
    match rd 16 s with
    | .ok (v, r) => if f16Valid v then .ok (.f16 v, r) else .error (.invalid "float")
    | .error e => .error e
  | .bool, s =>
    match rd 1 s with
    | .ok (v, r) => .ok (.bool (v != 0), r)
    | .error e => .error e
  | .enumOf t valid, s =>
    match parseTy total sc t s with
    | .ok (.nat v, r) => if valid.contains v then .ok (.nat v, r) else .error (.invalid "enum")
    | .ok _ => .error (.stuck "enum")
    | .error e => .error e
  | .signed t, s =>
    match parseTy total sc t s with
    | .ok (.nat v, r) => .ok (.int (unpackSigned v), r)
    | .ok _ => .error (.stuck "signed")
    | .error e => .error e
  | .signed64 t, s =>
    match parseTy total sc t s with
    | .ok (.nat v, r) => .ok (.int (unpackSigned v), r)
    | .ok _ => .error (.stuck "signed64")
    | .error e => .error e
  | .bundle ctx fs, s =>
    match evalEnv sc ctx with
    | some c =>
      match parseFields total c fs [] s with
      | .ok (e, r) => .ok (.record e, r)
      | .error e => .error e
    | Option.none => .error (.stuck "ctx")
  | .vec t len, s =>
    match evalNat sc len with
    | some n =>
      match parseN (parseTy total sc t) n s with
      | .ok (vs, r) => .ok (.list vs, r)
      | .error e => .error e
    | Option.none => .error (.stuck "len")
  | .arr t n, s =>
    match parseN (parseTy total sc t) n s with
    | .ok (vs, r) => .ok (.list vs, r)
    | .error e => .error e
  | .zeroPad, s =>
    match rd (padLen (total - s.length)) s with
    | .ok (v, r) => if v == 0 then .ok (.unit, r) else .error (.invalid "padding")
    | .error e => .error e
  | .assert e kind, s =>
    match evalBool sc e with
    | some true => .ok (.unit, s)
    | some false => .error (.invalid kind)
    | Option.none => .error (.stuck "assert")
  | .skip n, s =>
    match evalNat sc n with
    | some n => if n ≤ s.length then .ok (.unit, s.drop n) else .error .eof
    | Option.none => .error (.stuck "skip")
  | .ext name, _ => .error (.stuck name)
/-- `make_parse!`: fields in order; `ctx` = the bundle's context, `acc` = fields so far -/
def parseFields (total : Nat) (ctx : Env) : List Field → Env → Bits → Except Err (Env × Bits)
  | [], acc, s => .ok (acc, s)
  | .mk name ty cond dflt :: fs, acc, s =>
    match evalBool (acc ++ ctx) cond with
    | some true =>
      match parseTy total (acc ++ ctx) ty s with
      | .ok (v, r) => parseFields total ctx fs (acc ++ [(name, v)]) r
      | .error e => .error e
    | some false =>
      match defaultOf (acc ++ ctx) ty dflt with
      | some v => parseFields total ctx fs (acc ++ [(name, v)]) s
      | Option.none => .error (.stuck name)
    | Option.none => .error (.stuck name)
end

/-- parse a bundle that starts at absolute bit position `pos` -/
def parseAt (b : Bundle) (ctx : Env) (pos : Nat) (s : Bits) : Except Err (Env × Bits) :=
  parseFields (pos + s.length) ctx b [] s

/-- parse a bundle at the start of a stream -/
def parse (b : Bundle) (ctx : Env) (s : Bits) : Except Err (Env × Bits) := parseAt b ctx 0 s

/-! ## The generic writer -/

mutual
/-- write `v` as a `t` starting at absolute bit position `pos`; `ch pos` steers the selector of
a `U32` / the form of a `U64` that starts at `pos`. `none` = `v` is not a value of `t`. -/
def writeTy (ch : Nat → Nat) (sc : Env) : FieldTy → Nat → Val → Option Bits
  | .const c, _, .nat v => if v == c then some [] else Option.none
  | .u n, _, .nat v => if v < 2 ^ n then some (toBits n v) else Option.none
  | .cu c n, _, .nat v =>
    if c ≤ v && v - c < 2 ^ n && v < W32 then some (toBits n (v - c)) else Option.none
  | .u32 d0 d1 d2 d3, pos, .nat v => writeU32 d0 d1 d2 d3 (ch pos) v
  | .u64, pos, .nat v => writeU64 (ch pos) v
  | .f16, _, .f16 v => if f16Valid v then some (toBits 16 v) else Option.none
  | .bool, _, .bool b => some [b]
  | .enumOf t valid, pos, .nat v =>
    if valid.contains v then writeTy ch sc t pos (.nat v) else Option.none
  | .signed t, pos, .int i =>
    if unpackSigned (packSigned i) = i then writeTy ch sc t pos (.nat (packSigned i)) else Option.none
  | .signed64 t, pos, .int i =>
    if unpackSigned (packSigned i) = i then writeTy ch sc t pos (.nat (packSigned i)) else Option.none
  | .bundle ctx fs, pos, .record e =>
    match evalEnv sc ctx with
    | some c => writeFields ch c fs [] pos e
    | Option.none => Option.none
  | .vec t len, pos, .list vs =>
    match evalNat sc len with
    | some n => if vs.length = n then writeN (writeTy ch sc t) pos vs else Option.none
    | Option.none => Option.none
  | .arr t n, pos, .list vs =>
    if vs.length = n then writeN (writeTy ch sc t) pos vs else Option.none
  | .zeroPad, pos, .unit => some (List.replicate (padLen pos) false)
  | .assert e _, _, .unit =>
    match evalBool sc e with
    | some true => some []
    | _ => Option.none
  | .skip n, _, .unit =>
    match evalNat sc n with
    | some n => some (List.replicate n false)
    | Option.none => Option.none
  | _, _, _ => Option.none
/-- write the fields whose condition holds, in order; `vals` must list exactly the fields of the
description in order (the values of fields whose condition is false are not looked at —
`canonicalFields` says what they must be for the round trip) -/
def writeFields (ch : Nat → Nat) (ctx : Env) : List Field → Env → Nat → Env → Option Bits
  | [], _, _, [] => some []
  | .mk name ty cond _ :: fs, acc, pos, (n, v) :: vals =>
    if n = name then
      match evalBool (acc ++ ctx) cond with
      | some true =>
        match writeTy ch (acc ++ ctx) ty pos v with
        | some b =>
          match writeFields ch ctx fs (acc ++ [(name, v)]) (pos + b.length) vals with
          | some bs => some (b ++ bs)
          | Option.none => Option.none
        | Option.none => Option.none
      | some false => writeFields ch ctx fs (acc ++ [(name, v)]) pos vals
      | Option.none => Option.none
    else Option.none
  | _, _, _, _ => Option.none
end

def writeAt (b : Bundle) (ch : Nat → Nat) (ctx : Env) (pos : Nat) (e : Env) : Option Bits :=
  writeFields ch ctx b [] pos e

def write (b : Bundle) (ch : Nat → Nat) (ctx : Env) (e : Env) : Option Bits := writeAt b ch ctx 0 e

/-! ## Canonical values -/

def allCanon (p : Val → Bool) : List Val → Bool
  | [] => true
  | v :: vs => p v && allCanon p vs

mutual
/-- nested records are canonical -/
def canonicalTy (sc : Env) : FieldTy → Val → Bool
  | .bundle ctx fs, .record e =>
    match evalEnv sc ctx with
    | some c => canonicalFields c fs [] e
    | Option.none => false
  | .vec t _, .list vs => allCanon (canonicalTy sc t) vs
  | .arr t _, .list vs => allCanon (canonicalTy sc t) vs
  | .signed t, v => canonicalTy sc t v
  | .signed64 t, v => canonicalTy sc t v
  | .enumOf t _, v => canonicalTy sc t v
  | _, _ => true
/-- `Canonical`: the value lists exactly the fields of the description, and every field whose
condition is false holds its default -/
def canonicalFields (ctx : Env) : List Field → Env → Env → Bool
  | [], _, [] => true
  | .mk name ty cond dflt :: fs, acc, (n, v) :: vals =>
    n == name &&
    (match evalBool (acc ++ ctx) cond with
     | some true => canonicalTy (acc ++ ctx) ty v
     | some false => defaultOf (acc ++ ctx) ty dflt == some v
     | Option.none => false) &&
    canonicalFields ctx fs (acc ++ [(name, v)]) vals
  | _, _, _ => false
end

def Canonical (b : Bundle) (ctx : Env) (e : Env) : Prop := canonicalFields ctx b [] e = true

instance (b : Bundle) (ctx e : Env) : Decidable (Canonical b ctx e) := by
  unfold Canonical; exact inferInstance

/-! ## Canonicalisation of raw values (used by generators and by the header builder)

`canonFields` turns any "raw" record into a canonical one: fields whose condition is false get
their default, missing fields get their type default, vectors are resized to the length the
description demands by cycling through the supplied elements. -/

def cycleTo (pool : List Val) (dflt : Val) (n : Nat) : List Val :=
  if pool.isEmpty then List.replicate n dflt
  else (List.range n).map fun i => pool.getD (i % pool.length) dflt

def mapOpt (f : Val → Option Val) : List Val → Option (List Val)
  | [] => some []
  | v :: vs =>
    match f v, mapOpt f vs with
    | some w, some ws => some (w :: ws)
    | _, _ => Option.none

mutual
def canonTy (sc : Env) : FieldTy → Val → Option Val
  | .bundle ctx fs, v =>
    match evalEnv sc ctx with
    | some c =>
      let raw := match v with | .record e => e | _ => []
      (canonFields c fs [] raw).map .record
    | Option.none => Option.none
  | .vec t len, v =>
    match evalNat sc len, defaultTy sc t with
    | some n, some d =>
      let pool := match v with | .list vs => vs | _ => []
      (mapOpt (canonTy sc t) (cycleTo pool d n)).map .list
    | _, _ => Option.none
  | .arr t n, v =>
    match defaultTy sc t with
    | some d =>
      let pool := match v with | .list vs => vs | _ => []
      (mapOpt (canonTy sc t) (cycleTo pool d n)).map .list
    | Option.none => Option.none
  | .zeroPad, _ | .assert _ _, _ | .skip _, _ => some .unit
  | _, v => some v
def canonFields (ctx : Env) : List Field → Env → Env → Option Env
  | [], acc, _ => some acc
  | .mk name ty cond dflt :: fs, acc, raw =>
    match evalBool (acc ++ ctx) cond with
    | some true =>
      let v0 := match Env.get? raw name with
        | some v => some v
        | Option.none => defaultTy (acc ++ ctx) ty
      match v0 with
      | some v0 =>
        match canonTy (acc ++ ctx) ty v0 with
        | some v => canonFields ctx fs (acc ++ [(name, v)]) raw
        | Option.none => Option.none
      | Option.none => Option.none
    | some false =>
      match defaultOf (acc ++ ctx) ty dflt with
      | some v => canonFields ctx fs (acc ++ [(name, v)]) raw
      | Option.none => Option.none
    | Option.none => Option.none
end

def canon (b : Bundle) (ctx : Env) (raw : Env) : Option Env := canonFields ctx b [] raw

/-! ## Text form of values (line protocol)

`N` nat, `-N`/`+N` int, `T`/`F` bool, `hXXXX` f16 pattern (hex), `fXXXXXXXX` f32 pattern (hex),
`_` unit, `~` none, `[ v v … ]` list, `{ name v name v … }` record. Tokens are separated by
single spaces. -/

def hexNat (digits : Nat) (n : Nat) : String :=
  String.ofList ((List.range digits).reverse.map fun i => hexDigit (n / 16 ^ i % 16))

mutual
def Val.toText : Val → String
  | .nat n => toString n
  | .int i => if i < 0 then toString i else "+" ++ toString i
  | .bool b => if b then "T" else "F"
  | .f16 b => "h" ++ hexNat 4 b
  | .f32 b => "f" ++ hexNat 8 b
  | .unit => "_"
  | .none => "~"
  | .list vs => "[" ++ Val.listText vs ++ " ]"
  | .record fs => "{" ++ Val.recText fs ++ " }"
def Val.listText : List Val → String
  | [] => ""
  | v :: vs => " " ++ Val.toText v ++ Val.listText vs
def Val.recText : List (String × Val) → String
  | [] => ""
  | (k, v) :: r => " " ++ k ++ " " ++ Val.toText v ++ Val.recText r
end

def hexToNat? (s : String) : Option Nat :=
  s.toList.foldl (fun acc c => match acc, hexVal c with
    | some a, some d => some (a * 16 + d)
    | _, _ => Option.none) (some 0)

/-- parser of the text form; `fuel` bounds the token count -/
def Val.parseTokens : Nat → List String → Option (Val × List String)
  | 0, _ => Option.none
  | _, [] => Option.none
  | fuel+1, t :: ts =>
    if t == "T" then some (.bool true, ts)
    else if t == "F" then some (.bool false, ts)
    else if t == "_" then some (.unit, ts)
    else if t == "~" then some (.none, ts)
    else if t == "[" then
      let rec items : Nat → List String → List Val → Option (Val × List String)
        | 0, _, _ => Option.none
        | _, [], _ => Option.none
        | f+1, u :: us, acc =>
          if u == "]" then some (.list acc.reverse, us)
          else match Val.parseTokens fuel (u :: us) with
            | some (v, rest) => items f rest (v :: acc)
            | Option.none => Option.none
      items fuel ts []
    else if t == "{" then
      let rec flds : Nat → List String → List (String × Val) → Option (Val × List String)
        | 0, _, _ => Option.none
        | _, [], _ => Option.none
        | f+1, u :: us, acc =>
          if u == "}" then some (.record acc.reverse, us)
          else match Val.parseTokens fuel us with
            | some (v, rest) => flds f rest ((u, v) :: acc)
            | Option.none => Option.none
      flds fuel ts []
    else match t.toList with
      | 'h' :: r => (hexToNat? (String.ofList r)).map fun n => (.f16 n, ts)
      | 'f' :: r => (hexToNat? (String.ofList r)).map fun n => (.f32 n, ts)
      | '-' :: _ => t.toInt?.map fun i => (.int i, ts)
      | '+' :: r => (String.ofList r).toNat?.map fun n => (.int (Int.ofNat n), ts)
      | _ => t.toNat?.map fun n => (.nat n, ts)

def Val.ofText (ws : List String) : Option Val :=
  match Val.parseTokens (ws.length + 1) ws with
  | some (v, []) => some v
  | _ => Option.none

end Jxl.Bundle
