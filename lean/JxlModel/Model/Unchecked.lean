/-!
# The "justified by construction" unchecked accesses

* `Bitstream::refill` (`jxl-bitstream/src/bitstream.rs`): `from_raw_parts(ptr.add(read_bytes), len - read_bytes)`
* `Histogram::read_symbol` (`jxl-coding/src/ans.rs`): `self.buckets.get_unchecked(i)`
* the x86-64 horizontal squeeze kernels (`jxl-modular/src/transform/squeeze.rs`,
  `inverse_h_i16_x86_64_avx2`, `inverse_h_i16_x86_64_sse41`): raw-pointer row loads/stores and a
  `MaybeUninit` scratch buffer.

Only the index arithmetic is modelled: which offsets are touched, not what is stored there.
`usize` is 64 bit. This file is import-free.
-/
namespace Jxl.Unchecked

def W : Nat := 2 ^ 64

/-! ## `Bitstream` geometry

The reader state that matters for memory safety is `(len, rem, nread)`: bytes left in the
borrowed slice, `remaining_buf_bits`, `num_read_bits`. The slice always ends at the end of the
original buffer, so with `N` = original length the slice is `[N - len, N)`. Byte *values* never
influence this state (they only decide `NonZeroPadding`), so the model needs none. -/

structure Bs where
  len : Nat
  rem : Nat
  nread : Nat
  deriving Repr, DecidableEq

/-- `(63 - self.remaining_buf_bits) >> 3` as an optimised build computes it (`usize`, wrapping) -/
def readBytes (rem : Nat) : Nat := ((63 + W - rem % W) % W) / 8

/-- one memory event of the fast path: 8 bytes read at slice offset 0 (pattern match), and the
new slice starts `adv` bytes further and has `len - adv` bytes -/
structure FastPath where
  /-- slice length when the pattern `[b0, …, b7, ..]` matched -/
  len : Nat
  /-- `read_bytes` -/
  adv : Nat
  deriving Repr, DecidableEq

/-- `refill_slow`: at most 8 iterations are ever needed (`rem` grows by 8 up to ≥ 56) -/
def refillSlow : Nat → Bs → Bs
  | 0, s => s
  | fuel + 1, s =>
    if s.rem < 56 ∧ s.len ≠ 0 then refillSlow fuel { s with len := s.len - 1, rem := s.rem + 8 }
    else s

/-- `refill`: new state and, if the fast path ran, its memory event -/
def refill (s : Bs) : Bs × Option FastPath :=
  if 8 ≤ s.len then
    ({ s with len := (s.len + W - readBytes s.rem) % W, rem := s.rem ||| 56 },
     some ⟨s.len, readBytes s.rem⟩)
  else (refillSlow 8 s, none)

inductive BsOp where
  | peek (n : Nat)
  | consume (n : Nat)
  | read (n : Nat)
  | skip (n : Nat)
  | pad
  deriving Repr, DecidableEq

/-- `consume_bits(n)`: `(state, eof?)` -/
def consume (s : Bs) (n : Nat) : Bs × Bool :=
  if n ≤ s.rem then ({ s with rem := s.rem - n, nread := s.nread + n }, false) else (s, true)

/-- tail of `skip_bits`: `self.refill()`, then `remaining_buf_bits.checked_sub(n % 8)` -/
def skipTail (s2 : Bs) (r : Nat) : Bs × Bool × Option FastPath :=
  if r ≤ (refill s2).1.rem then
    ({ (refill s2).1 with rem := (refill s2).1.rem - r }, false, (refill s2).2)
  else ((refill s2).1, true, (refill s2).2)

/-- `skip_bits(n)`: `(state, eof?, fast-path event of the inner refill)` -/
def skip (s : Bs) (n : Nat) : Bs × Bool × Option FastPath :=
  if n ≤ s.rem then ({ s with rem := s.rem - n, nread := s.nread + n }, false, none)
  else if n - s.rem > s.len * 8 then
    ({ s with nread := s.nread + s.rem + s.len * 8, rem := 0 }, true, none)
  else
    skipTail ⟨s.len - (n - s.rem) / 8, 0, s.nread + s.rem + (n - s.rem)⟩ ((n - s.rem) % 8)

/-- one public operation: `(state, eof?, fast-path events)` -/
def step (s : Bs) : BsOp → Bs × Bool × List FastPath
  | .peek _ => let (s', ev) := refill s; (s', false, ev.toList)
  | .consume n => let (s', e) := consume s n; (s', e, [])
  | .read n =>
    let (s1, ev) := refill s
    let (s2, e) := consume s1 n
    (s2, e, ev.toList)
  | .skip n => let (s', e, ev) := skip s n; (s', e, ev.toList)
  | .pad =>
    let n := (s.nread + 7) / 8 * 8 - s.nread
    let (s1, ev) := refill s
    let (s2, e) := consume s1 n
    (s2, e, ev.toList)

/-- run a history from `Bitstream::new(bytes)` with `bytes.len() = N`; all fast-path events -/
def run (s : Bs) : List BsOp → Bs × List FastPath
  | [] => (s, [])
  | op :: ops =>
    let (s1, _, ev) := step s op
    let (s2, evs) := run s1 ops
    (s2, ev ++ evs)

def bsNew (N : Nat) : Bs := ⟨N, 0, 0⟩

/-- The fast path is memory safe for this event: 8 bytes are there to read, and the new slice
`[adv, len)` lies inside the old one. -/
def FastPath.Safe (e : FastPath) : Prop := 8 ≤ e.len ∧ e.adv ≤ e.len ∧ e.adv < 8

/-! ## ANS bucket lookup (`ans.rs`) -/

/-- `let table_size = (1u16 << log_alphabet_size) as usize;` (for `log_alphabet_size < 16`) -/
def tableSize (las : Nat) : Nat := (1 <<< las) % 65536

/-- `let log_bucket_size = 12 - log_alphabet_size;` (`u32`, wrapping in an optimised build) -/
def logBucketSize (las : Nat) : Nat := (12 + 2 ^ 32 - las % 2 ^ 32) % 2 ^ 32

/-- The bucket vector of an accepted histogram: both return paths of `Histogram::parse` build it
by `enumerate().map(..).collect()` over `dist` (`vec![0u16; table_size]`, never resized; the
alias-table loop assigns to elements by checked index only). `mk` stands for the element function. -/
def buckets {β : Type} (mk : Nat → Nat → β) (dist : List Nat) : List β :=
  (List.range dist.length).zipWith mk dist

/-- `let idx = *state & 0xfff; let i = (idx >> self.log_bucket_size) as usize;` -/
def ansIndex (state lbs : Nat) : Nat := (state &&& 0xfff) >>> lbs

/-- `DecoderInner::parse`: `log_alphabet_size = read_bits(2) + 5` on the ANS path -/
def logAlphabetSize (u2 : Nat) : Nat := u2 + 5

/-! ## Access plans of the horizontal x86-64 squeeze kernels

One entry per raw-pointer access: the row (absolute, `y8*8 + dy`), the first element offset
inside the row and the number of consecutive `i16` lanes. Transcribed expression by expression;
`A = avg_width = width.div_ceil(2)`. Rows `h/8*8 .. h` are handled by the scalar kernel (safe
code) and do not appear. -/

structure Access where
  row : Nat
  offset : Nat
  lanes : Nat
  write : Bool
  deriving Repr, DecidableEq

inductive ScratchEv where
  | write (i : Nat)
  | read (i : Nat)
  deriving Repr, DecidableEq

def avgWidth (w : Nat) : Nat := (w + 1) / 2

/-- `let from = (!(width / 2) + 1) % 8;` — two's complement negation of `width / 2`, mod 8 -/
def tailFrom (w : Nat) : Nat := ((W - (w / 2) % W) % W) % 8

/-- accesses in one row of an 8-row block, AVX2 kernel, in program order (per row the order of
different rows is interleaved in the real code; bounds do not depend on it) -/
def rowPlanAvx2 (w : Nat) : List (Nat × Nat × Bool) :=
  let A := avgWidth w
  -- `*rows[i]`
  [(0, 1, false)] ++
  -- main loop: `rows[idx].add(x)`, `rows[idx].add(avg_width - 1 + x)`, 16 lanes each
  ((List.range ((A - 1) / 16)).flatMap fun x16 =>
    [(x16 * 16 + 1, 16, false), (A - 1 + (x16 * 16 + 1), 16, false)]) ++
  -- half block, 8 lanes
  (if (A - 1) % 16 ≥ 8 then
    [((A - 1) / 16 * 16 + 1, 8, false), (A - 1 + ((A - 1) / 16 * 16 + 1), 8, false)] else []) ++
  -- tail: `rows[idx].add(avg_width - 8)`, `rows[idx].add(width - 8)`
  (if (A - 1) % 8 ≠ 0 ∨ w % 2 = 0 then [(A - 8, 8, false), (w - 8, 8, false)] else []) ++
  -- write back: `row.add(x8 * 8)` 8 lanes, then `rows[i].add(width / 8 * 8 + dx)` single lanes
  ((List.range (w / 8)).map fun x8 => (x8 * 8, 8, true)) ++
  ((List.range (w % 8)).map fun dx => (w / 8 * 8 + dx, 1, true))

def rowPlanSse41 (w : Nat) : List (Nat × Nat × Bool) :=
  let A := avgWidth w
  [(0, 1, false)] ++
  ((List.range ((A - 1) / 8)).flatMap fun x8 =>
    [(x8 * 8 + 1, 8, false), (A - 1 + (x8 * 8 + 1), 8, false)]) ++
  (if (A - 1) % 8 ≠ 0 ∨ w % 2 = 0 then [(A - 8, 8, false), (w - 8, 8, false)] else []) ++
  ((List.range (w / 8)).map fun x8 => (x8 * 8, 8, true)) ++
  ((List.range (w % 8)).map fun dx => (w / 8 * 8 + dx, 1, true))

inductive Kernel where
  | avx2
  | sse41
  deriving Repr, DecidableEq

/-- below this width the kernel delegates everything to the scalar kernel -/
def Kernel.minWidth : Kernel → Nat
  | .avx2 => 32
  | .sse41 => 16

def rowPlan : Kernel → Nat → List (Nat × Nat × Bool)
  | .avx2 => rowPlanAvx2
  | .sse41 => rowPlanSse41

/-- every raw-pointer access of `inverse_h_i16_x86_64_{avx2,sse41}` on a `w × h` grid -/
def plan (k : Kernel) (w h : Nat) : List Access :=
  if w ≤ k.minWidth then []
  else
    (List.range (h / 8)).flatMap fun y8 =>
      (List.range 8).flatMap fun dy =>
        (rowPlan k w).map fun a => ⟨y8 * 8 + dy, a.1, a.2.1, a.2.2⟩

/-- scratch indices written in the tail loop: `width / 2 * 2 - dx * 2 (+1)` for `dx = 8 - i`,
`i` from `from` to 7 -/
def tailWrites (w : Nat) : List Nat :=
  ((List.range 8).filter (fun i => tailFrom w ≤ i)).flatMap fun i =>
    [w / 2 * 2 - (8 - i) * 2, w / 2 * 2 - (8 - i) * 2 + 1]

/-- scratch indices written in one 8-row block, in program order (scratch = `vec![uninit; width]`) -/
def scratchWritesAvx2 (w : Nat) : List Nat :=
  let A := avgWidth w
  ((List.range ((A - 1) / 16)).flatMap fun x16 =>
    ((List.range 8).flatMap fun dx => [x16 * 32 + dx * 2, x16 * 32 + dx * 2 + 1]) ++
    ((List.range 8).flatMap fun dx => [x16 * 32 + 16 + dx * 2, x16 * 32 + 16 + dx * 2 + 1])) ++
  (if (A - 1) % 16 ≥ 8 then
    (List.range 8).flatMap fun dx =>
      [(A - 1) / 16 * 32 + dx * 2, (A - 1) / 16 * 32 + dx * 2 + 1] else []) ++
  (if (A - 1) % 8 ≠ 0 ∨ w % 2 = 0 then tailWrites w else []) ++
  (if w % 2 = 1 then [w - 1] else [])

def scratchWritesSse41 (w : Nat) : List Nat :=
  let A := avgWidth w
  ((List.range ((A - 1) / 8)).flatMap fun x8 =>
    (List.range 8).flatMap fun dx => [x8 * 16 + dx * 2, x8 * 16 + dx * 2 + 1]) ++
  (if (A - 1) % 8 ≠ 0 ∨ w % 2 = 0 then tailWrites w else []) ++
  (if w % 2 = 1 then [w - 1] else [])

def scratchWrites : Kernel → Nat → List Nat
  | .avx2 => scratchWritesAvx2
  | .sse41 => scratchWritesSse41

/-- scratch events of one 8-row block in program order: all writes, then `chunks_exact(8)` and its
remainder read every element of the scratch once (`assume_init_read`) -/
def scratchPlan (k : Kernel) (w : Nat) : List ScratchEv :=
  (scratchWrites k w).map .write ++ (List.range w).map .read

/-- every read of an index is preceded by a write of it, and every index is inside the scratch -/
def WrittenBeforeRead (w : Nat) (evs : List ScratchEv) : Prop :=
  (∀ i, (.write i ∈ evs ∨ .read i ∈ evs) → i < w) ∧
  ∀ pre post i, evs = pre ++ .read i :: post → .write i ∈ pre

/-- the same as an executable check (used by the driver): walking the events in order, every index is
inside the scratch (`< w`) and every read index has been written before -/
def scratchOk (w : Nat) : List ScratchEv → List Nat → Bool
  | [], _ => true
  | .write i :: es, written => i < w && scratchOk w es (i :: written)
  | .read i :: es, written => i < w && written.contains i && scratchOk w es written

end Jxl.Unchecked
