/-!
# Output buffers (property C15): index arithmetic, regions, channel order, the stream cursor,
# sample conversions

Hand-written mirror of `crates/jxl-oxide/src/fb.rs` and of `Region::apply_orientation`
(`crates/jxl-render/src/region.rs`). The three orientation coordinate maps are NOT here: they are
generated from the source `match` arms into `JxlModel/Gen/Orientation.lean` on every run; what is
here is the independent statement of what the eight orientations mean (`specOrient`) and everything
around the maps.  Import-free.
-/
namespace Jxl.Output

/-! ## What the eight orientations mean (ISO/IEC 18181-1 `orientation`, identical to Exif) -/

/-- mirror left↔right inside a picture that is `w` wide -/
def flipH (w : Nat) (p : Nat × Nat) : Nat × Nat := (w - 1 - p.1, p.2)
/-- mirror top↔bottom inside a picture that is `h` high -/
def flipV (h : Nat) (p : Nat × Nat) : Nat × Nat := (p.1, h - 1 - p.2)
/-- mirror along the main diagonal -/
def transpose (p : Nat × Nat) : Nat × Nat := (p.2, p.1)

/-- where the stored sample `(x, y)` of a `w × h` image is displayed:
1 as is, 2 mirrored horizontally, 3 rotated by 180°, 4 mirrored vertically, 5 transposed,
6 rotated 90° clockwise, 7 transposed along the other diagonal, 8 rotated 90° anticlockwise -/
def specOrient (o w h : Nat) (p : Nat × Nat) : Nat × Nat :=
  match o with
  | 1 => p
  | 2 => flipH w p
  | 3 => flipV h (flipH w p)
  | 4 => flipV h p
  | 5 => transpose p
  | 6 => flipH h (transpose p)
  | 7 => flipV w (flipH h (transpose p))
  | 8 => flipV w (transpose p)
  | _ => p

/-- displayed size of a stored `w × h` image -/
def specDims (o w h : Nat) : Nat × Nat := if o ≤ 4 then (w, h) else (h, w)

/-! ## Buffer index arithmetic -/

/-- `FrameBuffer::from_grids`: `idx = c + (outx + outy * outw) * channels` -/
def interleavedIdx (w channels x y c : Nat) : Nat := c + (x + y * w) * channels

/-- `Render::image_planar` calls `from_grids` with one grid: `0 + (outx + outy * outw) * 1` -/
def planarIdx (w x y : Nat) : Nat := x + y * w

/-! ## Regions -/

/-- `jxl_render::Region` -/
structure Region where
  left : Int
  top : Int
  width : Nat
  height : Nat
  deriving Repr, BEq, DecidableEq, Inhabited

def Region.translate (r : Region) (x y : Int) : Region := { r with left := r.left + x, top := r.top + y }

def Region.contains (r : Region) (x y : Int) : Prop :=
  r.left ≤ x ∧ x < r.left + r.width ∧ r.top ≤ y ∧ y < r.top + r.height

/-- `Region::apply_orientation` before the repair `fix-C15-empty-crop` (kept for the witness
`C15_region_orientation_empty_request_witness`): the corner arithmetic alone. -/
def regionApplyOrientationOld (pt : Int → Int → Int × Int) (r : Region) : Region :=
  let lt := pt r.left r.top
  let rb := pt (r.left + r.width - 1) (r.top + r.height - 1)
  let left := lt.1
  let top := lt.2
  let right := rb.1
  let bottom := rb.2
  let (left, right) := if left > right then (right, left) else (left, right)
  let (top, bottom) := if top > bottom then (bottom, top) else (top, bottom)
  { left := left, top := top, width := (right - left).natAbs + 1, height := (bottom - top).natAbs + 1 }

/-- `Region::apply_orientation` (region.rs; the translator pins its text). `pt l t` stands for
`image_header.metadata.apply_orientation(image_width, image_height, l, t, true)` restricted to its
`(left, top)` result, with `image_width/height` the *oriented* header dimensions; `dims w h` for
the `(width, height)` result of `apply_orientation(w, h, 0, 0, true)`. An empty request stays
empty (its sizes swapped like any other). -/
def regionApplyOrientation (pt : Int → Int → Int × Int) (dims : Nat → Nat → Nat × Nat) (r : Region) : Region :=
  if r.width = 0 ∨ r.height = 0 then
    { left := 0, top := 0, width := (dims r.width r.height).1, height := (dims r.width r.height).2 }
  else regionApplyOrientationOld pt r

/-- `usize::checked_add_signed` -/
def checkedAddSigned (x : Nat) (b : Int) : Option Nat :=
  if 0 ≤ (x : Int) + b then some ((x : Int) + b).toNat else none

/-- `from_grids`: the position inside a grid covering `g` of pixel `(x, y)` of the copy region
(`base_x = left - region.left`, out of the grid ⇒ the sample is 0) -/
def gridPos (copyLeft copyTop : Int) (g : Region) (x y : Nat) : Option (Nat × Nat) :=
  match checkedAddSigned x (copyLeft - g.left), checkedAddSigned y (copyTop - g.top) with
  | some gx, some gy => if gx ≥ g.width || gy ≥ g.height then none else some (gx, gy)
  | _, _ => none

/-! ## Channel order of the sample streams -/

/-- extra channel type codes (`ExtraChannelType`): 0 alpha, 1 depth, 2 spot colour, 3 selection
mask, 4 black, 5 CFA, 6 thermal, 15 non-optional, 16 optional -/
def tyAlpha : Nat := 0
def tyBlack : Nat := 4
def tySpot : Nat := 2

/-- index of the first extra channel of type `ty` -/
def firstOfType (ty : Nat) : List Nat → Option Nat
  | [] => none
  | t :: r => if t = ty then some 0 else (firstOfType ty r).map (· + 1)

/-- `ImageStream::from_render`: indices (into colour channels followed by extra channels) of the
channels a stream carries, in order: the colour channels, then the first black channel if the
requested colour encoding is CMYK, then the first alpha channel unless `skipAlpha`
(`Render::stream_no_alpha`). -/
def streamChannels (nColor : Nat) (ecTypes : List Nat) (isCmyk skipAlpha : Bool) : List Nat :=
  List.range nColor
    ++ (if isCmyk then ((firstOfType tyBlack ecTypes).map (nColor + ·)).toList else [])
    ++ (if skipAlpha then [] else ((firstOfType tyAlpha ecTypes).map (nColor + ·)).toList)

/-- `PixelFormat::channels` for `JxlImage::pixel_format` -/
def pixelFormatChannels (gray isCmyk hasAlpha : Bool) : Nat :=
  match gray, isCmyk, hasAlpha with
  | false, false, false => 3
  | false, false, true => 4
  | false, true, false => 4
  | false, true, true => 5
  | true, _, false => 1
  | true, _, true => 2

/-! ## `ImageStream::write_to_buffer` as a resumable cursor machine -/

/-- the fields `y, x, c` of `ImageStream` -/
structure Cursor where
  y : Nat
  x : Nat
  c : Nat
  deriving Repr, BEq, DecidableEq, Inhabited

/-- all three loop conditions hold: the next buffer slot receives sample `(y, x, c)` -/
def atSample (W H C : Nat) (s : Cursor) : Bool := decide (s.y < H) && decide (s.x < W) && decide (s.c < C)

/-- after a sample: `c += 1`; leaving the channel loop: `c = 0; x += 1`; leaving the column loop:
`x = 0; y += 1` -/
def bump (W C : Nat) (s : Cursor) : Cursor :=
  if s.c + 1 < C then { s with c := s.c + 1 }
  else if s.x + 1 < W then { y := s.y, x := s.x + 1, c := 0 }
  else { y := s.y + 1, x := 0, c := 0 }

/-- one call with a destination of `n` slots: the coordinates written, in order, and the cursor
left behind (`break 'outer` keeps it; running out of samples ends the call) -/
def writeToBuffer (W H C : Nat) : Nat → Cursor → List (Nat × Nat × Nat) × Cursor
  | 0, s => ([], s)
  | n + 1, s =>
    if atSample W H C s then
      let r := writeToBuffer W H C n (bump W C s)
      ((s.y, s.x, s.c) :: r.1, r.2)
    else ([], s)

/-- successive calls with the given destination sizes -/
def writeCalls (W H C : Nat) : List Nat → Cursor → List (List (Nat × Nat × Nat)) × Cursor
  | [], s => ([], s)
  | n :: ns, s =>
    let r := writeToBuffer W H C n s
    let rest := writeCalls W H C ns r.2
    (r.1 :: rest.1, rest.2)

/-- row-major enumeration of `H` rows, `W` columns, `C` channels -/
def rowMajor (W H C : Nat) : List (Nat × Nat × Nat) :=
  (List.range (W * H * C)).map fun k => (k / (W * C), k / C % W, k % C)

/-! ## Sample conversions -/

/-- `BitDepth::parse_integer_sample` for integer samples (with the F7 repair: the divisor is
`2^bits - 1` also for 31 bits): both `as f32` conversions round to nearest-even, then one f32
division -/
def parseIntegerSample (bits : Nat) (s : Int) : Float32 :=
  Float32.ofInt s / Float32.ofNat (2 ^ bits - 1)

/-- `f32::clamp` -/
def clampF (x lo hi : Float32) : Float32 :=
  let x := if x < lo then lo else x
  if x > hi then hi else x

def clampD (x lo hi : Float) : Float :=
  let x := if x < lo then lo else x
  if x > hi then hi else x

/-- `Sealed::copy_from_f32` for `u8` (with the repair `fix-C15-int-rounding`):
`(val as f64 * 255.0 + 0.5).clamp(0.0, 255.0) as u8` — product and sum are exact in f64, so this
is round-half-up of the exact product, clamped; NaN gives 0 -/
def f32ToU8 (v : Float32) : Nat := (clampD (v.toFloat * 255.0 + 0.5) 0.0 255.0).toUInt8.toNat

/-- `Sealed::copy_from_f32` for `u16` -/
def f32ToU16 (v : Float32) : Nat := (clampD (v.toFloat * 65535.0 + 0.5) 0.0 65535.0).toUInt16.toNat

/-- the conversions before the repair: both operations in f32 (two roundings), kept for the
record of finding C15-double-rounding -/
def f32ToU8Old (v : Float32) : Nat := (clampF (v * 255.0 + 0.5) 0.0 255.0).toUInt8.toNat
def f32ToU16Old (v : Float32) : Nat := (clampF (v * 65535.0 + 0.5) 0.0 65535.0).toUInt16.toNat

def clampInt (v lo hi : Int) : Int := if v < lo then lo else if v > hi then hi else v

/-- `u8::copy_from_grid` on an integer grid: 8-bit images are copied with a clamp, everything
else goes through f32 -/
def intToU8 (bits : Nat) (s : Int) : Nat :=
  if bits = 8 then (clampInt s 0 255).toNat else f32ToU8 (parseIntegerSample bits s)

/-- `u16::copy_from_grid` on an integer grid -/
def intToU16 (bits : Nat) (s : Int) : Nat :=
  if bits = 16 then (clampInt s 0 65535).toNat else f32ToU16 (parseIntegerSample bits s)

/-- what "correctly rounded and clamped" means for an integer sample `s` of depth `bits` written
to an integer type with maximum `m`: `s / (2^bits - 1) * m` rounded half up in exact arithmetic,
clamped to `0..m` -/
def idealRound (bits m : Nat) (s : Int) : Nat :=
  let d : Int := 2 ^ bits - 1
  if d ≤ 0 then 0 else
  (clampInt ((2 * s * m + d) / (2 * d)) 0 m).toNat

/-- spot colour mixing of `ImageStream::write_to_buffer` for one colour sample (all in f32): per
spot channel in order `tmp = color * mix + tmp * (1 - mix)` with `mix = spot_sample * solidity`
(`0.0` where the spot channel has no sample); the list holds `(color, mix)` -/
def mixSpot (base : Float32) (spots : List (Float32 × Float32)) : Float32 :=
  spots.foldl (fun tmp (color, mix) => color * mix + tmp * (1.0 - mix)) base

end Jxl.Output
