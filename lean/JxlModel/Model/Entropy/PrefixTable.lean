import JxlModel.Model.Entropy.Prefix
/-!
# Prefix codes (prefix.rs) — Impl layer: the two-level bit-reversed lookup tables

Executable transcription of `Histogram::with_code_lengths`, `Histogram::read_symbol` and
`vec_reverse_bits` of `crates/jxl-coding/src/prefix.rs`. The Spec layer (`Prefix.lean`) decodes
by interval search; `Proofs/Entropy/PrefixTable.lean` / `Props/C04Table.lean` relate the two.

Integer widths: `sym as u16` (enumerate index), `(idx + 1) as u8`, `(chunk_size - 1) as u8`,
`second_level_entries.len() as u16` and the `u16` `current_bits` are lossless for what the callers
pass (at most `2^15` lengths, every length ≤ 15, hence at most `2^10` chunks of at most 32 entries);
the model keeps them as unbounded `Nat`. Slice / index panics are modelled (`Err.panic 40x`).
-/
namespace Jxl.Entropy

/-- `struct Entry` (prefix.rs); `Entry::default()` = all zero -/
structure Entry where
  nested : Bool := false
  bitsOrMask : Nat := 0
  symbolOrOffset : Nat := 0
deriving Repr, DecidableEq, Inhabited

/-- `struct Histogram` (prefix.rs) without the redundant `toplevel_mask = (1 << toplevel_bits) - 1` -/
structure TableHist where
  toplevelBits : Nat
  toplevel : List Entry
  second : List Entry
deriving Repr, DecidableEq, Inhabited

/-- `MAX_TOPLEVEL_BITS` -/
def maxToplevelBits : Nat := 10

/-- first loop of `with_code_lengths`: `syms_for_length[len-1].push(sym)` with `resize_with`.
`sym` = enumerate index of the head of the list. -/
def symsForLengthGo : List Nat → Nat → List (List Nat) → List (List Nat)
  | [], _, sfl => sfl
  | len :: r, sym, sfl =>
    if len > 0 then
      let sfl := if sfl.length < len then sfl ++ List.replicate (len - sfl.length) [] else sfl
      symsForLengthGo r (sym + 1) (sfl.set (len - 1) (sfl.getD (len - 1) [] ++ [sym]))
    else symsForLengthGo r (sym + 1) sfl

def symsForLength (lens : List Nat) : List (List Nat) := symsForLengthGo lens 0 []

/-- `idx.reverse_bits() >> (usize::BITS - bits)` for `idx < 2^bits`: the `bits` low bits of `idx`
in reverse order -/
def revBits (bits idx : Nat) : Nat := ofBits (toBits bits idx).reverse

/-- `vec_reverse_bits(v, out)`: the entries appended to `out`. `bits = len.trailing_zeros()`
(`len` is a power of two at every call site). `v[rev_idx]` cannot be out of range then. -/
def vecReverseBits (v : List Entry) : List Entry :=
  let bits := Nat.log2 v.length
  (List.range v.length).map fun idx => v.getD (revBits bits idx) default

/-- `entries[start..][..n].fill(e)`; `none` = slice index panic -/
def fillSlice (entries : List Entry) (start n : Nat) (e : Entry) : Option (List Entry) :=
  if start + n ≤ entries.length then
    some (entries.take start ++ List.replicate n e ++ entries.drop (start + n))
  else none

/-- inner `for &sym in syms` of the top-level loop; state = (`entries`, `current_bits`) -/
def topSyms (idx shifts : Nat) : List Nat → List Entry → Nat → Except Err (List Entry × Nat)
  | [], entries, cb => .ok (entries, cb)
  | sym :: r, entries, cb =>
    match fillSlice entries cb (2 ^ shifts) ⟨false, idx + 1, sym⟩ with
    | none => .error (.panic 401)
    | some entries' => topSyms idx shifts r entries' (cb + 2 ^ shifts)

/-- `for (idx, syms) in syms_for_length.iter().enumerate().take(toplevel_bits)` -/
def topLevels (tb : Nat) : List (List Nat) → Nat → List Entry → Nat → Except Err (List Entry × Nat)
  | [], _, entries, cb => .ok (entries, cb)
  | syms :: r, idx, entries, cb =>
    match topSyms idx (tb - 1 - idx) syms entries cb with
    | .error e => .error e
    | .ok (entries', cb') => topLevels tb r (idx + 1) entries' cb'

/-- mutable state of the second-level loop (`chunk` doubles as `remaining_entries` between levels) -/
structure ChunkState where
  entries : List Entry
  currentBits : Nat
  second : List Entry
  chunk : List Entry
deriving Repr, DecidableEq

/-- inner `for &sym in syms` of the second-level loop -/
def chunkSyms (idx chunkSize : Nat) : List Nat → ChunkState → Except Err ChunkState
  | [], st => .ok st
  | sym :: r, st =>
    let chunk := st.chunk ++ [⟨false, idx + 1, sym⟩]
    if chunk.length = chunkSize then
      if st.currentBits < st.entries.length then
        chunkSyms idx chunkSize r
          { entries := st.entries.set st.currentBits ⟨true, chunkSize - 1, st.second.length⟩
            currentBits := st.currentBits + 1
            second := st.second ++ vecReverseBits chunk
            chunk := [] }
      else .error (.panic 402)
    else chunkSyms idx chunkSize r { st with chunk := chunk }

/-- `for entry in remaining_entries { for _ in 0..mult { chunk.push(entry) } }` -/
def replicateEach (mult : Nat) (l : List Entry) : List Entry := l.flatMap (List.replicate mult)

/-- `for (idx, syms) in syms_for_length.iter().enumerate().skip(toplevel_bits)`;
last argument = `remaining_entry_bits` -/
def secondLevels (tb : Nat) : List (List Nat) → Nat → ChunkState → Nat → Except Err ChunkState
  | [], _, st, _ => .ok st
  | syms :: r, idx, st, remBits =>
    if syms.isEmpty then secondLevels tb r (idx + 1) st remBits
    else
      let chunkSizeBits := idx + 1 - tb
      let chunkSize := 2 ^ chunkSizeBits
      let chunk :=
        if !st.chunk.isEmpty then replicateEach (2 ^ (chunkSizeBits - remBits)) st.chunk else []
      match chunkSyms idx chunkSize syms { st with chunk := chunk } with
      | .error e => .error e
      | .ok st' => secondLevels tb r (idx + 1) st' chunkSizeBits

/-- `Histogram::with_code_lengths(code_lengths)` -/
def withCodeLengths (lens : List Nat) : Except Err TableHist :=
  let sfl := symsForLength lens
  let tb := min sfl.length maxToplevelBits
  let entries := List.replicate (2 ^ tb) (default : Entry)
  match topLevels tb (sfl.take tb) 0 entries 0 with
  | .error e => .error e
  | .ok (entries, cb) =>
    let st0 : ChunkState := ⟨entries, cb, [], []⟩
    let snd : Except Err ChunkState :=
      if tb < sfl.length then
        match secondLevels tb (sfl.drop tb) tb st0 0 with
        | .error e => .error e
        | .ok st => if !st.chunk.isEmpty then .error .invalidPrefixHistogram else .ok st
      else .ok st0
    match snd with
    | .error e => .error e
    | .ok st =>
      if st.currentBits = 2 ^ tb then .ok ⟨tb, vecReverseBits st.entries, st.second⟩
      else .error .invalidPrefixHistogram

/-- `Histogram::read_symbol`: peek 15 bits (LSB first, zero padded), mask, nested entry, consume.
An out-of-range table index is a panic. -/
def TableHist.read (t : TableHist) (s : Bits) : R Nat :=
  let peeked := peekPad 15 s
  let toplevelOffset := peeked &&& (2 ^ t.toplevelBits - 1)
  match t.toplevel[toplevelOffset]? with
  | none => .error (.panic 403)
  | some te =>
    if te.nested then
      let chunkOffset := (peeked >>> t.toplevelBits) &&& te.bitsOrMask
      let secondLevelOffset := te.symbolOrOffset + chunkOffset
      match t.second[secondLevelOffset]? with
      | none => .error (.panic 404)
      | some se =>
        match dropChk se.bitsOrMask s with
        | some r => .ok (se.symbolOrOffset, r)
        | none => .error .eof
    else
      match dropChk te.bitsOrMask s with
      | some r => .ok (te.symbolOrOffset, r)
      | none => .error .eof

/-- length vector of a canonical entry list (inverse of `sortedSyms` up to trailing zeros) -/
def lensOfEntries (es : List (Nat × Nat)) : List Nat :=
  let n := es.foldl (fun m e => max m (e.1 + 1)) 0
  es.foldl (fun acc e => acc.set e.1 e.2) (List.replicate n 0)

/-- decidable equality of two read results -/
def sameRead : R Nat → R Nat → Bool
  | .ok a, .ok b => a == b
  | .error e, .error f => e == f
  | _, _ => false

/-- Impl and Spec agree on every 15-bit look-ahead `v` in `[from, from+count)` (stream = the 15
bits of `v`, MSB first — every look-ahead value arises this way); returns the first disagreement -/
def firstMismatch (t : TableHist) (c : PrefixCode) : Nat → Nat → Option Nat
  | _, 0 => none
  | v, k + 1 =>
    let s := toBitsMSB 15 v
    if sameRead (t.read s) (c.read s) then firstMismatch t c (v + 1) k else some v

end Jxl.Entropy
