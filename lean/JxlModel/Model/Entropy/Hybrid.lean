import JxlModel.Model.Entropy.Reader
/-!
# Hybrid unsigned integers (`IntegerConfig`, `read_uint_prefilled`) — lib.rs
-/
namespace Jxl.Entropy

/-- `struct IntegerConfig` (lib.rs); `split = 1 << split_exponent` is derived. -/
structure IntegerConfig where
  splitExponent : Nat
  msbInToken : Nat
  lsbInToken : Nat
deriving Repr, DecidableEq, Inhabited

def IntegerConfig.split (c : IntegerConfig) : Nat := 2 ^ c.splitExponent

/-- what `IntegerConfig::parse` accepts for a given `log_alphabet_size` -/
def IntegerConfig.valid (c : IntegerConfig) (logAlpha : Nat) : Bool :=
  c.splitExponent ≤ logAlpha &&
  (if c.splitExponent == logAlpha then c.msbInToken == 0 && c.lsbInToken == 0
   else c.msbInToken + c.lsbInToken ≤ c.splitExponent)

/-- `IntegerConfig::parse(bitstream, log_alphabet_size)`.
Note: a `split_exponent` **larger** than `log_alphabet_size` can be read when
`log_alphabet_size + 1` is not a power of two (e.g. 5 → 3 bits → up to 7); the code accepts it
(msb/lsb are then read as for any other value). The model mirrors that. -/
def IntegerConfig.parse (logAlpha : Nat) (s : Bits) : R IntegerConfig :=
  match rbits (addLog2Ceil logAlpha) s with
  | .error e => .error e
  | .ok (se, s1) =>
    if se ≠ logAlpha then
      match rbits (addLog2Ceil se) s1 with
      | .error e => .error e
      | .ok (msb, s2) =>
        if msb > se then .error .invalidIntegerConfig
        else
          match rbits (addLog2Ceil (se - msb)) s2 with
          | .error e => .error e
          | .ok (lsb, s3) =>
            if lsb + msb > se then .error .invalidIntegerConfig
            else .ok (⟨se, msb, lsb⟩, s3)
    else .ok (⟨se, 0, 0⟩, s1)

/-- `read_uint_prefilled(bitstream, config, token)`. `n` is masked with 31 and the result is
truncated to `u32`; when fewer than `n` bits are left, `consume_bits` fails and the error is
returned (before /repo commit ca1c9ea the failure was ignored and the zero padded peek used). -/
def readUint (c : IntegerConfig) (token : Nat) (s : Bits) : R Nat :=
  if token < c.split then .ok (token, s)
  else
    let ml := c.msbInToken + c.lsbInToken
    let n := (c.splitExponent - ml + ((token - c.split) >>> ml)) % 32
    let rest := peekPad n s
    match dropChk n s with
    | none => .error .eof
    | some s' =>
      let low := token % 2 ^ c.lsbInToken
      let tok := (token >>> c.lsbInToken) % 2 ^ c.msbInToken + 2 ^ c.msbInToken
      .ok (((tok * 2 ^ n + rest) * 2 ^ c.lsbInToken + low) % 2 ^ 32, s')

/-- Encoder side: token, number of extra bits and the extra bits of `v` under `c`. -/
def splitUint (c : IntegerConfig) (v : Nat) : Nat × Nat × Nat :=
  if v < c.split then (v, 0, 0)
  else
    let n := Nat.log2 v
    let m := v - 2 ^ n
    let ml := c.msbInToken + c.lsbInToken
    let token := c.split + (n - c.splitExponent) * 2 ^ ml
      + (m >>> (n - c.msbInToken)) * 2 ^ c.lsbInToken + m % 2 ^ c.lsbInToken
    let nbits := n - ml
    (token, nbits, (m >>> c.lsbInToken) % 2 ^ nbits)

def tokenOf (c : IntegerConfig) (v : Nat) : Nat := (splitUint c v).1

/-- the extra bits following the token of `v` -/
def uintBits (c : IntegerConfig) (v : Nat) : Bits :=
  let (_, nb, b) := splitUint c v
  toBits nb b

end Jxl.Entropy
