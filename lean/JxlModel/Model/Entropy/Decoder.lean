import JxlModel.Model.Entropy.Hybrid
import JxlModel.Model.Entropy.Prefix
import JxlModel.Model.Entropy.Ans
import JxlModel.Model.Entropy.Lz77
import JxlModel.Model.Entropy.Cluster
import JxlModel.Model.Entropy.Perm
/-!
# `jxl_coding::Decoder` (lib.rs): parse, begin, read, finalize; `read_clusters`; `read_permutation`
-/
namespace Jxl.Entropy

/-- `enum Coder` without its mutable part -/
inductive Code
  | prefix (cs : List PrefixCode)
  | ans (hs : List AnsHist)
deriving Repr, Inhabited

/-- the immutable part of `Decoder` -/
structure Decoder where
  lz77 : Option Lz77Params
  clusters : List Nat
  configs : List IntegerConfig
  code : Code
deriving Repr, Inhabited

/-- the mutable part: ANS state and the LZ77 state. The 2^20-entry circular `window` is modelled
by `hist`, all values decoded so far, most recent first: since a copy distance is at most
`min(2^20, num_decoded)`, `window[copy_pos & 0xfffff]` is `hist[distance-1]`, and the distance
stays constant during a copy (both `copy_pos` and `num_decoded` advance by one). -/
structure DState where
  ansState : Nat := 0
  initial : Bool := true
  hist : List Nat := []
  numToCopy : Nat := 0
  copyDist : Nat := 0
  numDecoded : Nat := 0
deriving Repr, Inhabited

/-- reads `k` items with `f` -/
def readMany {α : Type} (f : Bits → R α) : Nat → Bits → R (List α)
  | 0, s => .ok ([], s)
  | k+1, s =>
    match f s with
    | .error e => .error e
    | .ok (a, s1) =>
      match readMany f k s1 with
      | .error e => .error e
      | .ok (as, s2) => .ok (a :: as, s2)

/-- like `readMany` with a per-item parameter -/
def readEach {α β : Type} (f : β → Bits → R α) : List β → Bits → R (List α)
  | [], s => .ok ([], s)
  | b :: bs, s =>
    match f b s with
    | .error e => .error e
    | .ok (a, s1) =>
      match readEach f bs s1 with
      | .error e => .error e
      | .ok (as, s2) => .ok (a :: as, s2)

/-- prefix alphabet size field in `DecoderInner::parse` -/
def readPrefixCount (s : Bits) : R Nat :=
  match rbool s with
  | .error e => .error e
  | .ok (false, s1) => .ok (1, s1)
  | .ok (true, s1) =>
    match rbits 4 s1 with
    | .error e => .error e
    | .ok (n, s2) =>
      match rbits n s2 with
      | .error e => .error e
      | .ok (v, s3) =>
        let count := 1 + 2 ^ n + v
        if count > 2 ^ 15 then .error .invalidPrefixHistogram else .ok (count, s3)

/-- `Coder::begin` / the lazy initial-state read in `Coder::read_symbol` -/
def Decoder.begin (d : Decoder) (st : DState) (s : Bits) : R DState :=
  match d.code with
  | .prefix _ => .ok (st, s)
  | .ans _ =>
    match rbits 32 s with
    | .error e => .error e
    | .ok (x, s1) => .ok ({ st with ansState := x, initial := false }, s1)

/-- `Coder::read_symbol(bitstream, cluster)` -/
def Decoder.readSymbol (d : Decoder) (st : DState) (cluster : Nat) (s : Bits) : R (Nat × DState) :=
  match d.code with
  | .prefix cs =>
    match (cs.getD cluster default).read s with
    | .error e => .error e
    | .ok (sym, s1) => .ok ((sym, st), s1)
  | .ans hs =>
    let init : R DState := if st.initial then d.begin st s else .ok (st, s)
    match init with
    | .error e => .error e
    | .ok (st1, s1) =>
      match (hs.getD cluster default).readSymbol st1.ansState s1 with
      | .error e => .error e
      | .ok ((sym, x), s2) => .ok ((sym, { st1 with ansState := x }), s2)

/-- `Coder::single_symbol` -/
def Decoder.singleSymbol (d : Decoder) (cluster : Nat) : Option Nat :=
  match d.code with
  | .prefix cs => (cs.getD cluster default).singleSymbol
  | .ans hs => (hs.getD cluster default).singleSymbol

/-- `Decoder::single_token` -/
def Decoder.singleToken (d : Decoder) (cluster : Nat) : Option Nat :=
  match d.lz77 with
  | some _ => none
  | none =>
    match d.singleSymbol cluster with
    | none => none
    | some t => if t < (d.configs.getD cluster default).split then some t else none

/-- `Coder::finalize` -/
def Decoder.finalize (d : Decoder) (st : DState) : Except Err Unit :=
  match d.code with
  | .prefix _ => .ok ()
  | .ans _ => if st.ansState = ansFinalState then .ok () else .error .invalidAnsStream

def Decoder.lzDistCluster (d : Decoder) : Nat := d.clusters.getLastD 0

/-- `DecoderInner::read_varint_with_multiplier_clustered` (no LZ77) -/
def Decoder.readPlain (d : Decoder) (st : DState) (cluster : Nat) (s : Bits) : R (Nat × DState) :=
  match d.readSymbol st cluster s with
  | .error e => .error e
  | .ok ((token, st1), s1) =>
    match readUint (d.configs.getD cluster default) token s1 with
    | .error e => .error e
    | .ok (v, s2) => .ok ((v, st1), s2)

/-- window push + `num_decoded += 1` -/
def DState.push (st : DState) (r : Nat) : DState :=
  { st with hist := r :: st.hist, numDecoded := st.numDecoded + 1 }

/-- `DecoderInner::read_varint_with_multiplier_clustered_lz77` -/
def Decoder.readLz (d : Decoder) (p : Lz77Params) (st : DState) (cluster mult : Nat) (s : Bits) :
    R (Nat × DState) :=
  if st.numToCopy > 0 then
    let r := st.hist.getD (st.copyDist - 1) 0
    .ok ((r, ({ st with numToCopy := st.numToCopy - 1 }).push r), s)
  else
    match d.readSymbol st cluster s with
    | .error e => .error e
    | .ok ((token, st1), s1) =>
      if token ≥ p.minSymbol then
        if st1.numDecoded = 0 then .error .unexpectedLz77Repeat
        else
          match readUint p.lenConf (token - p.minSymbol) s1 with
          | .error e => .error e
          | .ok (n, s2) =>
          if n + p.minLength ≥ 2 ^ 32 then .error .invalidLz77Symbol
          else
            let lc := d.lzDistCluster
            match d.readSymbol st1 lc s2 with
            | .error e => .error e
            | .ok ((dtok, st2), s3) =>
              match readUint (d.configs.getD lc default) dtok s3 with
              | .error e => .error e
              | .ok (dv, s4) =>
              let dist := lzCopyDistance mult dv st2.numDecoded
              let r := st2.hist.getD (dist - 1) 0
              .ok ((r, ({ st2 with numToCopy := n + p.minLength - 1, copyDist := dist }).push r), s4)
      else
        match readUint (d.configs.getD cluster default) token s1 with
        | .error e => .error e
        | .ok (v, s2) => .ok ((v, st1.push v), s2)

/-- `Decoder::read_varint_with_multiplier_clustered` -/
def Decoder.readClustered (d : Decoder) (st : DState) (cluster mult : Nat) (s : Bits) :
    R (Nat × DState) :=
  match d.lz77 with
  | some p => d.readLz p st cluster mult s
  | none => d.readPlain st cluster s

/-- `Decoder::read_varint_with_multiplier(ctx, mult)` -/
def Decoder.readVarint (d : Decoder) (st : DState) (ctx mult : Nat) (s : Bits) : R (Nat × DState) :=
  d.readClustered st (d.clusters.getD ctx 0) mult s

/-- reads one value per context in `ctxs` -/
def Decoder.readSeq (d : Decoder) (mult : Nat) : List Nat → DState → Bits → R (List Nat × DState)
  | [], st, s => .ok (([], st), s)
  | c :: cs, st, s =>
    match d.readVarint st c mult s with
    | .error e => .error e
    | .ok ((v, st1), s1) =>
      match d.readSeq mult cs st1 s1 with
      | .error e => .error e
      | .ok ((vs, st2), s2) => .ok ((v :: vs, st2), s2)

/-! ## RLE mode -/

inductive RleToken
  | value (v : Nat)
  | rep (n : Nat)
deriving Repr, DecidableEq

/-- `Decoder::as_rle` condition; returns the LZ77 parameters when RLE mode is offered -/
def Decoder.asRle (d : Decoder) : Option Lz77Params :=
  match d.lz77 with
  | none => none
  | some p =>
    match d.singleSymbol d.lzDistCluster with
    | none => none
    | some sym =>
      if sym = 1 ∧ (d.configs.getD d.lzDistCluster default).splitExponent = 0 then some p else none

/-- `DecoderRleMode::read_varint_clustered`, with the length addition checked
(finding F9: the unrepaired code has a plain `+`, which panics in checked builds). -/
def Decoder.readRle (d : Decoder) (p : Lz77Params) (st : DState) (cluster : Nat) (s : Bits) :
    R (RleToken × DState) :=
  match d.readSymbol st cluster s with
  | .error e => .error e
  | .ok ((token, st1), s1) =>
    if token ≥ p.minSymbol then
      match readUint p.lenConf (token - p.minSymbol) s1 with
      | .error e => .error e
      | .ok (n, s2) =>
      if n + p.minLength ≥ 2 ^ 32 then .error .invalidLz77Symbol
      else .ok ((.rep (n + p.minLength), st1), s2)
    else
      match readUint (d.configs.getD cluster default) token s1 with
      | .error e => .error e
      | .ok (v, s2) => .ok ((.value v, st1), s2)

/-! ## Parsing -/

/-- `DecoderInner::parse` after the cluster map has been read -/
def parseInnerRest (numClusters : Nat) (clusters : List Nat) (lz : Option Lz77Params) (s : Bits) :
    R Decoder :=
  match rbool s with
  | .error e => .error e
  | .ok (usePrefix, s1) =>
    let la : R Nat := if usePrefix then .ok (15, s1) else
      match rbits 2 s1 with
      | .error e => .error e
      | .ok (v, s2) => .ok (v + 5, s2)
    match la with
    | .error e => .error e
    | .ok (logAlpha, s2) =>
      match readMany (IntegerConfig.parse logAlpha) numClusters s2 with
      | .error e => .error e
      | .ok (configs, s3) =>
        if usePrefix then
          match readMany readPrefixCount numClusters s3 with
          | .error e => .error e
          | .ok (counts, s4) =>
            match readEach parsePrefix counts s4 with
            | .error e => .error e
            | .ok (cs, s5) => .ok (⟨lz, clusters, configs, .prefix cs⟩, s5)
        else
          match readMany (parseAns logAlpha) numClusters s3 with
          | .error e => .error e
          | .ok (hs, s4) => .ok (⟨lz, clusters, configs, .ans hs⟩, s4)

/-- reads `n` cluster ids with a nested decoder: `read_varint(ctx 0)` then `u8::try_from` -/
def readClusterIds (d : Decoder) : Nat → DState → Bits → R (List Nat × DState)
  | 0, st, s => .ok (([], st), s)
  | k+1, st, s =>
    match d.readVarint st 0 0 s with
    | .error e => .error e
    | .ok ((v, st1), s1) =>
      if v ≥ 256 then .error .invalidCluster
      else
        match readClusterIds d k st1 s1 with
        | .error e => .error e
        | .ok ((vs, st2), s2) => .ok ((v :: vs, st2), s2)

/-- the LZ77 field: `Lz77::parse` for `Decoder::parse`, a single bit that must be 0 for
`Decoder::parse_assume_no_lz77` -/
def parseLzField (allowLz : Bool) (s : Bits) : R (Option Lz77Params) :=
  if allowLz then parseLz77 s else
    match rbool s with
    | .error e => .error e
    | .ok (true, _) => .error .lz77NotAllowed
    | .ok (false, s1) => .ok (none, s1)

mutual
/-- `Decoder::parse` (`allowLz = true`) / `Decoder::parse_assume_no_lz77` (`allowLz = false`).
`fuel` bounds the nesting depth: a cluster map is coded by a decoder with `num_dist = 1`, whose own
map is trivial unless it enables LZ77 (two distributions), and then the innermost decoder is
parsed with `parse_assume_no_lz77(.., 1)`; three levels suffice. -/
def parseDecoder : Nat → Bool → Nat → Bits → R Decoder
  | 0, _, _, _ => .error .fuel
  | fuel+1, allowLz, numDist, s =>
    match parseLzField allowLz s with
    | .error e => .error e
    | .ok (lz, s1) =>
      let nd := if lz.isSome then numDist + 1 else numDist
      match readClusters fuel nd s1 with
      | .error e => .error e
      | .ok ((numClusters, clusters), s2) => parseInnerRest numClusters clusters lz s2

/-- `read_clusters(bitstream, num_dist)` -/
def readClusters : Nat → Nat → Bits → R (Nat × List Nat)
  | fuel, numDist, s =>
    if numDist = 1 then .ok ((1, [0]), s)
    else
      match rbool s with
      | .error e => .error e
      | .ok (true, s1) =>
        match rbits 2 s1 with
        | .error e => .error e
        | .ok (nbits, s2) =>
          match readMany (rbits nbits) numDist s2 with
          | .error e => .error e
          | .ok (cl, s3) =>
            match checkClusters cl with
            | .error e => .error e
            | .ok r => .ok (r, s3)
      | .ok (false, s1) =>
        match rbool s1 with
        | .error e => .error e
        | .ok (useMtf, s2) =>
          match parseDecoder fuel (decide (numDist > 2)) 1 s2 with
          | .error e => .error e
          | .ok (dec, s3) =>
            match dec.begin {} s3 with
            | .error e => .error e
            | .ok (st, s4) =>
              match readClusterIds dec numDist st s4 with
              | .error e => .error e
              | .ok ((ids, st1), s5) =>
                match dec.finalize st1 with
                | .error e => .error e
                | .ok () =>
                  let cl := if useMtf then mtfDecode ids else ids
                  match checkClusters cl with
                  | .error e => .error e
                  | .ok r => .ok (r, s5)
end

/-- nesting fuel used by the entry points -/
def parseFuel : Nat := 4

/-- `Decoder::parse(bitstream, num_dist)` -/
def Decoder.parse (numDist : Nat) (s : Bits) : R Decoder := parseDecoder parseFuel true numDist s

/-- `jxl_coding::read_clusters` -/
def readClustersTop (numDist : Nat) (s : Bits) : R (Nat × List Nat) := readClusters parseFuel numDist s

/-! ## Permutations -/

/-- the Lehmer entries of `read_permutation`: `idx` counts from 0, `prev` is the previous value -/
def readLehmer (d : Decoder) (size skip : Nat) : Nat → Nat → Nat → DState → Bits → R (List Nat × DState)
  | 0, _, _, st, s => .ok (([], st), s)
  | k+1, idx, prev, st, s =>
    match d.readVarint st (permContext prev) 0 s with
    | .error e => .error e
    | .ok ((v, st1), s1) =>
      if v ≥ size - skip - idx then .error .invalidPermutation
      else
        match readLehmer d size skip k (idx + 1) v st1 s1 with
        | .error e => .error e
        | .ok ((vs, st2), s2) => .ok ((v :: vs, st2), s2)

/-- `read_permutation(bitstream, decoder, size, skip)` (requires `skip ≤ size` as at every call
site; `size - skip` underflows otherwise) -/
def readPermutation (d : Decoder) (st : DState) (size skip : Nat) (s : Bits) : R (List Nat × DState) :=
  match d.readVarint st (permContext size) 0 s with
  | .error e => .error e
  | .ok ((end_, st1), s1) =>
    if end_ > size - skip then .error .invalidPermutation
    else
      match readLehmer d size skip end_ 0 0 st1 s1 with
      | .error e => .error e
      | .ok ((lehmer, st2), s2) => .ok ((lehmerDecode size skip lehmer, st2), s2)

end Jxl.Entropy
