import JxlModel.Model.Entropy.Reader
/-!
# Lehmer-coded permutations — pure part of `read_permutation` (permutation.rs)
-/
namespace Jxl.Entropy

/-- `get_context(x)` -/
def permContext (x : Nat) : Nat := min (addLog2Ceil x) 7

/-- `for idx in lehmer { permutation.push(temp.remove(idx)) }; permutation.extend(temp)` -/
def lehmerApply : List Nat → List Nat → List Nat
  | [], temp => temp
  | i :: r, temp => temp.getD i 0 :: lehmerApply r (temp.eraseIdx i)

/-- permutation of `[0,size)` from `skip` and the Lehmer code -/
def lehmerDecode (size skip : Nat) (lehmer : List Nat) : List Nat :=
  List.range skip ++ lehmerApply lehmer ((List.range (size - skip)).map (· + skip))

/-- Lehmer code of a sequence relative to the remaining pool -/
def lehmerCode : List Nat → List Nat → List Nat
  | [], _ => []
  | p :: r, temp => let i := temp.idxOf p; i :: lehmerCode r (temp.eraseIdx i)

/-- encoder: Lehmer code of `perm` (a permutation of `[0,size)` fixing `[0,skip)`), trailing
zeros trimmed as the format allows (`end` = number of coded entries) -/
def dropTrailingZeros (l : List Nat) : List Nat :=
  (l.reverse.dropWhile (· = 0)).reverse

def lehmerEncode (size skip : Nat) (perm : List Nat) : List Nat :=
  dropTrailingZeros (lehmerCode (perm.drop skip) ((List.range (size - skip)).map (· + skip)))

end Jxl.Entropy
