import JxlModel.Model.Entropy.Reader
/-!
# ANS histograms, alias tables and the state machine (ans.rs, lib.rs `Coder`)
-/
namespace Jxl.Entropy

/-- `Histogram::read_u8` -/
def readU8 (s : Bits) : R Nat :=
  match rbool s with
  | .error e => .error e
  | .ok (false, s1) => .ok (0, s1)
  | .ok (true, s1) =>
    match rbits 3 s1 with
    | .error e => .error e
    | .ok (n, s2) =>
      match rbits n s2 with
      | .error e => .error e
      | .ok (v, s3) => .ok ((2 ^ n + v) % 256, s3)

/-- `read_prefix`: the fixed prefix code of the log-counts -/
def readLogCount (s : Bits) : R Nat :=
  match rbits 3 s with
  | .error e => .error e
  | .ok (k, s1) =>
    match k with
    | 0 => .ok (10, s1)
    | 1 =>
      match rbool s1 with
      | .error e => .error e
      | .ok (true, s2) => .ok (4, s2)
      | .ok (false, s2) =>
        match rbool s2 with
        | .error e => .error e
        | .ok (true, s3) => .ok (0, s3)
        | .ok (false, s3) =>
          match rbool s3 with
          | .error e => .error e
          | .ok (true, s4) => .ok (11, s4)
          | .ok (false, s4) =>
            match rbool s4 with
            | .error e => .error e
            | .ok (true, s5) => .ok (13, s5)
            | .ok (false, s5) => .ok (12, s5)
    | 2 => .ok (7, s1)
    | 3 =>
      match rbool s1 with
      | .error e => .error e
      | .ok (b, s2) => .ok (if b then 1 else 3, s2)
    | 4 => .ok (6, s1)
    | 5 => .ok (8, s1)
    | 6 => .ok (9, s1)
    | _ =>
      match rbool s1 with
      | .error e => .error e
      | .ok (b, s2) => .ok (if b then 2 else 5, s2)

/-- the `len` of the shift field: up to three 1-bits, stopped by a 0 -/
def readShiftLen : Nat → Nat → Bits → R Nat
  | 0, len, s => .ok (len, s)
  | f+1, len, s =>
    match rbool s with
    | .error e => .error e
    | .ok (true, s1) => readShiftLen f (len + 1) s1
    | .ok (false, s1) => .ok (len, s1)

/-- state of the first loop of the general form -/
structure LogState where
  codes : List Nat                 -- reversed; 13 at the first index of a run, 0 inside
  runs : List (Nat × Nat)          -- (start, end), reversed
  omitD : Option (Nat × Nat)       -- (log, pos)

/-- first loop: `while idx < alphabet_size` reading log counts and runs. `fuel` ≥ alphabet size. -/
def readLogCounts (alphabetSize : Nat) : Nat → Nat → LogState → Bits → R LogState
  | 0, _, st, s => .ok (st, s)
  | f+1, idx, st, s =>
    if idx ≥ alphabetSize then .ok (st, s)
    else
      match readLogCount s with
      | .error e => .error e
      | .ok (c, s1) =>
        if c = 13 then
          match readU8 s1 with
          | .error e => .error e
          | .ok (rc, s2) =>
            let cnt := rc + 4
            if idx + cnt > alphabetSize then .error .invalidAnsHistogram
            else
              readLogCounts alphabetSize f (idx + cnt)
                { st with codes := List.replicate (cnt - 1) 0 ++ 13 :: st.codes,
                          runs := (idx, idx + cnt) :: st.runs } s2
        else
          let om := match st.omitD with
            | some (log, pos) => if c > log then some (c, idx) else some (log, pos)
            | none => some (c, idx)
          readLogCounts alphabetSize f (idx + 1) { st with codes := c :: st.codes, omitD := om } s1

/-- state of the second loop of the general form -/
structure DistState where
  out : List Nat := []      -- reversed
  acc : Nat := 0
  prev : Nat := 0
  runs : List (Nat × Nat)   -- remaining runs, in order

/-- second loop: `for (idx, code) in dist.iter_mut().enumerate()` over the whole table -/
def readCounts (shift omitPos : Nat) : List Nat → Nat → DistState → Bits → R DistState
  | [], _, st, s => .ok (st, s)
  | code :: rest, idx, st, s =>
    -- run handling; `inRun` = this index takes `prev`
    let (runs, inRun) : List (Nat × Nat) × Bool :=
      match st.runs with
      | (a, b) :: rr => if a ≤ idx then (if b = idx then (rr, false) else (st.runs, true))
                        else (st.runs, false)
      | [] => ([], false)
    if inRun then
      let acc := st.acc + st.prev
      if acc > 4096 then .error .invalidAnsHistogram
      else readCounts shift omitPos rest (idx + 1)
             { st with out := st.prev :: st.out, acc := acc, runs := runs } s
    else if code = 0 then
      readCounts shift omitPos rest (idx + 1) { st with out := 0 :: st.out, prev := 0, runs := runs } s
    else if idx = omitPos then
      readCounts shift omitPos rest (idx + 1)
        { st with out := code :: st.out, prev := 0, runs := runs } s
    else
      let step (v : Nat) (s : Bits) : R DistState :=
        let acc := st.acc + v
        if acc > 4096 then .error .invalidAnsHistogram
        else readCounts shift omitPos rest (idx + 1)
               { out := v :: st.out, acc := acc, prev := v, runs := runs } s
      if code > 1 then
        let zeros := code - 1
        -- (shift - ((12 - zeros) >> 1)).clamp(0, zeros) in i16
        let sub := (12 - zeros) / 2
        let bitcount := min (shift - sub) zeros
        match rbits bitcount s with
        | .error e => .error e
        | .ok (b, s1) => step (2 ^ zeros + b * 2 ^ (zeros - bitcount)) s1
      else step code s

/-- The transmitted distribution: `table_size` entries summing to 4096, plus `alphabet_size`. -/
structure AnsDist where
  dist : List Nat
  alphabetSize : Nat
deriving Repr, DecidableEq

/-- first part of `Histogram::parse`: the four header forms -/
def parseAnsDist (logAlpha : Nat) (s : Bits) : R AnsDist :=
  let T := 2 ^ logAlpha
  let zeros := List.replicate T 0
  match rbool s with
  | .error e => .error e
  | .ok (true, s1) =>
    match rbool s1 with
    | .error e => .error e
    | .ok (true, s2) =>
      -- binary
      match readU8 s2 with
      | .error e => .error e
      | .ok (v0, s3) =>
        match readU8 s3 with
        | .error e => .error e
        | .ok (v1, s4) =>
          if v0 = v1 then .error .invalidAnsHistogram
          else
            let a := max v0 v1 + 1
            if a > T then .error .invalidAnsHistogram
            else
              match rbits 12 s4 with
              | .error e => .error e
              | .ok (p, s5) => .ok (⟨(zeros.set v0 p).set v1 (4096 - p), a⟩, s5)
    | .ok (false, s2) =>
      -- unary
      match readU8 s2 with
      | .error e => .error e
      | .ok (v, s3) =>
        if v + 1 > T then .error .invalidAnsHistogram
        else .ok (⟨zeros.set v 4096, v + 1⟩, s3)
  | .ok (false, s1) =>
    match rbool s1 with
    | .error e => .error e
    | .ok (true, s2) =>
      -- flat
      match readU8 s2 with
      | .error e => .error e
      | .ok (v, s3) =>
        let a := v + 1
        if a > T then .error .invalidAnsHistogram
        else
          let base := 4096 / a
          let left := 4096 % a
          .ok (⟨List.replicate left (base + 1) ++ List.replicate (a - left) base
                 ++ List.replicate (T - a) 0, a⟩, s3)
    | .ok (false, s2) =>
      -- general
      match readShiftLen 3 0 s2 with
      | .error e => .error e
      | .ok (len, s3) =>
        match rbits len s3 with
        | .error e => .error e
        | .ok (sb, s4) =>
          let shift := sb + 2 ^ len - 1
          if shift > 13 then .error .invalidAnsHistogram
          else
            match readU8 s4 with
            | .error e => .error e
            | .ok (v, s5) =>
              let a := v + 3
              if a > T then .error .invalidAnsHistogram
              else
                match readLogCounts a (a + 1) 0 ⟨[], [], none⟩ s5 with
                | .error e => .error e
                | .ok (ls, s6) =>
                  match ls.omitD with
                  | none => .error .invalidAnsHistogram
                  | some (_, omitPos) =>
                    let codes := ls.codes.reverse ++ List.replicate (T - a) 0
                    if codes.getD (omitPos + 1) 0 = 13 ∧ omitPos + 1 < T then
                      .error .invalidAnsHistogram
                    else
                      match readCounts shift omitPos codes 0 { runs := ls.runs.reverse } s6 with
                      | .error e => .error e
                      | .ok (ds, s7) =>
                        .ok (⟨ds.out.reverse.set omitPos (4096 - ds.acc), a⟩, s7)

/-! ## Alias table -/

/-- `WorkingBucket` -/
structure WB where
  dist : Nat
  aliasSym : Nat
  aliasOff : Nat
  cutoff : Nat
deriving Repr, DecidableEq, Inhabited

/-- final `Bucket` -/
structure Bucket where
  dist : Nat
  aliasSym : Nat
  aliasOff : Nat
  cutoff : Nat
  distXor : Nat
deriving Repr, DecidableEq, Inhabited

/-- one iteration of `while let (Some(o), Some(u)) = (overfull.pop(), underfull.pop())` -/
def aliasStep (B : Nat) (bs : List WB) (o u : Nat) : List WB :=
  let bu := bs.getD u default
  let bo := bs.getD o default
  let by_ := B - bu.cutoff
  let bo' := { bo with cutoff := bo.cutoff - by_ }
  let bs1 := bs.set o bo'
  let bu1 := bs1.getD u default
  bs1.set u { bu1 with aliasSym := o, aliasOff := bo'.cutoff }

/-- the loop; stacks are lists with the top first. Each round retires one underfull bucket for
good, so `fuel = table size` is enough. -/
def aliasLoop (B : Nat) : Nat → List WB → List Nat → List Nat → List WB
  | 0, bs, _, _ => bs
  | fuel+1, bs, over, under =>
    match over, under with
    | o :: over', u :: under' =>
      let bs' := aliasStep B bs o u
      let c := (bs'.getD o default).cutoff
      if c < B then aliasLoop B fuel bs' over' (o :: under')
      else if c = B then aliasLoop B fuel bs' over' under'
      else aliasLoop B fuel bs' (o :: over') under'
    | _, _ => bs

def initWB (alphabetSize : Nat) (dist : List Nat) : List WB :=
  dist.zipIdx.map fun (d, i) => ⟨d, if i < alphabetSize then i else 0, 0, d⟩

def stackOf (p : Nat → Bool) (dist : List Nat) : List Nat :=
  ((dist.zipIdx.filter fun (d, _) => p d).map (·.2)).reverse

/-- working buckets after the loop -/
def aliasWork (logAlpha : Nat) (d : AnsDist) : List WB :=
  let B := 2 ^ (12 - logAlpha)
  aliasLoop B (d.dist.length + 1) (initWB d.alphabetSize d.dist)
    (stackOf (fun x => x > B) d.dist) (stackOf (fun x => x < B) d.dist)

/-- the final pass to `Bucket`s -/
def finalBuckets (B : Nat) (ws : List WB) : List Bucket :=
  ws.zipIdx.map fun (w, idx) =>
    if w.cutoff = B then ⟨w.dist, idx, 0, 0, 0⟩
    else ⟨w.dist, w.aliasSym, w.aliasOff - w.cutoff, w.cutoff,
          w.dist ^^^ (ws.getD w.aliasSym default).dist⟩

/-- `ans::Histogram` -/
structure AnsHist where
  buckets : List Bucket
  logBucketSize : Nat
  singleSymbol : Option Nat
deriving Repr, DecidableEq, Inhabited

/-- second part of `Histogram::parse`: table construction -/
def AnsHist.build (logAlpha : Nat) (d : AnsDist) : AnsHist :=
  let lb := 12 - logAlpha
  let B := 2 ^ lb
  match d.dist.findIdx? (· = 4096) with
  | some single =>
    ⟨d.dist.zipIdx.map fun (x, i) => ⟨x, single, B * i, 0, x ^^^ 4096⟩, lb, some single⟩
  | none => ⟨finalBuckets B (aliasWork logAlpha d), lb, none⟩

/-- `Histogram::parse(bitstream, log_alphabet_size)` (ans.rs) -/
def parseAns (logAlpha : Nat) (s : Bits) : R AnsHist :=
  match parseAnsDist logAlpha s with
  | .error e => .error e
  | .ok (d, s1) => .ok (AnsHist.build logAlpha d, s1)

/-- the alias map of `read_symbol`: 12-bit index ↦ (symbol, offset, dist of that symbol) -/
def AnsHist.lookup (h : AnsHist) (idx : Nat) : Nat × Nat × Nat :=
  let B := 2 ^ h.logBucketSize
  let i := idx / B
  let pos := idx % B
  let b := h.buckets.getD i default
  if pos ≥ b.cutoff then (b.aliasSym, b.aliasOff + pos, b.dist ^^^ b.distXor)
  else (i, pos, b.dist)

/-- `Histogram::read_symbol(bitstream, &mut state)`: returns the symbol and the new state. -/
def AnsHist.readSymbol (h : AnsHist) (state : Nat) (s : Bits) : R (Nat × Nat) :=
  let (sym, off, dist) := h.lookup (state % 4096)
  let next := (state / 4096) * dist + off
  if next < 2 ^ 16 then
    match dropChk 16 s with
    | some r => .ok ((sym, next * 2 ^ 16 + peekPad 16 s), r)
    | none => .error .eof
  else .ok ((sym, next), s)

/-- `0x130000` -/
def ansFinalState : Nat := 0x130000

end Jxl.Entropy
