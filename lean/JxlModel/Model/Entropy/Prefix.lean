import JxlModel.Model.Entropy.Reader
/-!
# Prefix codes (prefix.rs) — Spec layer

A code is given by its length vector (`lens[sym]`, 0 = unused, ≤ 15). The canonical code orders
the used symbols by (length, symbol) and gives symbol number `i` of that order the left-aligned
15-bit interval `[acc_i, acc_i + 2^(15-len_i))`, `acc_i = Σ_{j<i} 2^(15-len_j)`; its codeword is
the top `len_i` bits of `acc_i`, sent most significant bit first.

`PrefixCode.read` decodes by finding the interval that contains the 15-bit MSB-first look-ahead
(`peek_bits_const::<15>`, zero padded) — this is what indexing the bit-reversed two-level tables
of `with_code_lengths`/`read_symbol` computes. The tables themselves are not modelled here.
-/
namespace Jxl.Entropy

/-- Kraft sum scaled by 2^15: `Σ_{len>0} 2^(15-len)`. -/
def kraft : List Nat → Nat
  | [] => 0
  | l :: r => (if l = 0 then 0 else 2 ^ (15 - l)) + kraft r

/-- symbols with length exactly `l`, ascending, from a zipIdx'd vector -/
def symsOfLen (l : Nat) : List (Nat × Nat) → List (Nat × Nat)
  | [] => []
  | (len, sym) :: r => if len = l then (sym, l) :: symsOfLen l r else symsOfLen l r

/-- canonical order: `(sym, len)` sorted by `(len, sym)`, used symbols only -/
def sortedSyms (lens : List Nat) : List (Nat × Nat) :=
  let z := lens.zipIdx
  (List.range 15).flatMap fun l => symsOfLen (l + 1) z

/-- A decoder: either the zero-bit single-symbol code (`with_single_symbol`) or a canonical
table (`with_code_lengths`). -/
inductive PrefixCode
  | single (sym : Nat)
  | table (entries : List (Nat × Nat))
deriving Repr, DecidableEq, Inhabited

/-- find the interval containing `v`; `acc` = left end of the current entry -/
def walk (v : Nat) : Nat → List (Nat × Nat) → Option (Nat × Nat)
  | _, [] => none
  | acc, (sym, len) :: r =>
    if v < acc + 2 ^ (15 - len) then some (sym, len) else walk v (acc + 2 ^ (15 - len)) r

/-- `Histogram::read_symbol` (prefix.rs): peek 15 bits, look up, consume `len` bits. -/
def PrefixCode.read (c : PrefixCode) (s : Bits) : R Nat :=
  match c with
  | .single sym => .ok (sym, s)
  | .table es =>
    match walk (msbVal 15 s) 0 es with
    | none => .error .invalidPrefixHistogram   -- unreachable for complete codes
    | some (sym, len) =>
      match dropChk len s with
      | some r => .ok (sym, r)
      | none => .error .eof

def PrefixCode.singleSymbol : PrefixCode → Option Nat
  | .single s => some s
  | .table _ => none

/-- `Histogram::with_code_lengths`: succeeds exactly for complete codes (Kraft sum 1).
(The callers guarantee lengths ≤ 15 and Kraft sum ≤ 1, so the table construction can only fail by
being incomplete — `current_bits != 1 << toplevel_bits` or a dangling second-level chunk.) -/
def PrefixCode.ofLengths (lens : List Nat) : Except Err PrefixCode :=
  if kraft lens = 2 ^ 15 then .ok (.table (sortedSyms lens)) else .error .invalidPrefixHistogram

/-! ## Encoder side of the Spec: codewords -/

/-- codeword (MSB first) of `sym` in a canonical entry list; `none` if unused -/
def codeword (sym : Nat) : Nat → List (Nat × Nat) → Option Bits
  | _, [] => none
  | acc, (s, len) :: r =>
    if s = sym then some (toBitsMSB len (acc / 2 ^ (15 - len)))
    else codeword sym (acc + 2 ^ (15 - len)) r

def PrefixCode.encode (c : PrefixCode) (sym : Nat) : Bits :=
  match c with
  | .single _ => []
  | .table es => (codeword sym 0 es).getD []

/-! ## Header: `Histogram::parse(bitstream, alphabet_size)` -/

/-- apply `(sym, len)` writes in order; out of range → `InvalidPrefixHistogram` -/
def setLens (n : Nat) : List (Nat × Nat) → List Nat → Except Err (List Nat)
  | [], acc => .ok acc
  | (sym, len) :: r, acc =>
    if sym < n then setLens n r (acc.set sym len) else .error .invalidPrefixHistogram

def rsyms (bits : Nat) : Nat → Bits → R (List Nat)
  | 0, s => .ok ([], s)
  | k+1, s =>
    match rbits bits s with
    | .error e => .error e
    | .ok (v, s1) =>
      match rsyms bits k s1 with
      | .error e => .error e
      | .ok (vs, s2) => .ok (v :: vs, s2)

/-- `parse_simple` -/
def parseSimple (alphabetSize : Nat) (s : Bits) : R PrefixCode :=
  let ab := clog2 alphabetSize
  match rbits 2 s with
  | .error e => .error e
  | .ok (nm1, s1) =>
    let nsym := nm1 + 1
    match rsyms ab nsym s1 with
    | .error e => .error e
    | .ok (syms, s2) =>
      if nsym = 1 then
        let sym := syms.getD 0 0
        if sym ≥ alphabetSize then .error .invalidPrefixHistogram else .ok (.single sym, s2)
      else
        let fin (writes : List (Nat × Nat)) (s3 : Bits) : R PrefixCode :=
          match setLens alphabetSize writes (List.replicate alphabetSize 0) with
          | .error e => .error e
          | .ok lens =>
            match PrefixCode.ofLengths lens with
            | .error e => .error e
            | .ok c => .ok (c, s3)
        if nsym = 2 then fin ([(0, 0), (0, 0)] ++ syms.zip [1, 1]) s2
        else if nsym = 3 then fin ((0, 0) :: syms.zip [1, 2, 2]) s2
        else
          match rbool s2 with
          | .error e => .error e
          | .ok (sel, s3) =>
            if sel then fin (syms.zip [1, 2, 3, 3]) s3 else fin (syms.zip [2, 2, 2, 2]) s3

/-- `CODE_LENGTH_ORDER` (prefix.rs, parse_complex) -/
def codeLengthOrder : List Nat := [1, 2, 3, 4, 0, 5, 17, 6, 16, 7, 8, 9, 10, 11, 12, 13, 14, 15]

/-- one code-length-code length: `read_u32(0, 4, 3, 8)` then up to two more bits -/
def readClcLen (s : Bits) : R Nat :=
  match rbits 2 s with
  | .error e => .error e
  | .ok (k, s1) =>
    match k with
    | 0 => .ok (0, s1)
    | 1 => .ok (4, s1)
    | 2 => .ok (3, s1)
    | _ =>
      match rbool s1 with
      | .error e => .error e
      | .ok (b1, s2) =>
        if b1 then
          match rbool s2 with
          | .error e => .error e
          | .ok (b2, s3) => .ok (if b2 then 5 else 1, s3)
        else .ok (2, s2)

/-- result of reading the code-length code lengths -/
structure ClcState where
  lens : List Nat        -- 18 entries
  bitacc : Nat
  nonzeroCount : Nat
  nonzeroSym : Nat

/-- first loop of `parse_complex` over `CODE_LENGTH_ORDER.skip(hskip)` -/
def readClc : List Nat → ClcState → Bits → R ClcState
  | [], st, s => .ok (st, s)
  | idx :: r, st, s =>
    match readClcLen s with
    | .error e => .error e
    | .ok (len, s1) =>
      let lens := st.lens.set idx len
      if len ≠ 0 then
        let bitacc := st.bitacc + 32 / 2 ^ len
        let st' : ClcState := ⟨lens, bitacc, st.nonzeroCount + 1, idx⟩
        if bitacc < 32 then readClc r st' s1
        else if bitacc = 32 then .ok (st', s1)
        else .error .invalidPrefixHistogram
      else readClc r { st with lens := lens } s1

/-- loop state of the second loop of `parse_complex` -/
structure ClState where
  bitacc : Nat := 0
  prevSym : Nat := 8
  lastNonzero : Nat := 8
  lastRepeat : Nat := 0
  repeatCount : Nat := 0
  repeatSym : Nat := 0

/-- second loop of `parse_complex`: `k` code lengths still to fill, `acc` = lengths so far
(reversed). Returns the reversed lengths read before the loop ended or broke, and the state. -/
def readLens (clc : PrefixCode) : Nat → ClState → List Nat → Bits → R (List Nat × ClState)
  | 0, st, acc, s => .ok ((acc, st), s)
  | k+1, st, acc, s =>
    let finish (len : Nat) (st : ClState) (s : Bits) : R (List Nat × ClState) :=
      if len ≠ 0 then
        let bitacc := st.bitacc + 2 ^ (15 - len)
        let st := { st with bitacc := bitacc }
        if bitacc > 2 ^ 15 then .error .prefixSymbolTooLarge
        else if bitacc = 2 ^ 15 ∧ st.repeatCount = 0 then .ok ((len :: acc, st), s)
        else readLens clc k st (len :: acc) s
      else readLens clc k st (len :: acc) s
    if st.repeatCount > 0 then
      finish st.repeatSym { st with repeatCount := st.repeatCount - 1 } s
    else
      match clc.read s with
      | .error e => .error e
      | .ok (sym, s1) =>
        if sym = 0 then finish 0 { st with prevSym := 0 } s1
        else if sym ≤ 15 then finish sym { st with lastNonzero := sym, prevSym := sym } s1
        else if sym = 16 then
          match rbits 2 s1 with
          | .error e => .error e
          | .ok (x, s2) =>
            let rc0 := x + 3
            let (rc, lr) := if st.prevSym = 16 then
                let rc := rc0 + (st.lastRepeat * 3 - 8); (rc, st.lastRepeat + rc)
              else (rc0, rc0)
            finish st.lastNonzero
              { st with repeatCount := rc - 1, lastRepeat := lr, repeatSym := st.lastNonzero,
                        prevSym := 16 } s2
        else
          match rbits 3 s1 with
          | .error e => .error e
          | .ok (x, s2) =>
            let rc0 := x + 3
            let (rc, lr) := if st.prevSym = 17 then
                let rc := rc0 + (st.lastRepeat * 7 - 16); (rc, st.lastRepeat + rc)
              else (rc0, rc0)
            finish 0
              { st with repeatCount := rc - 1, lastRepeat := lr, repeatSym := 0,
                        prevSym := 17 } s2

/-- `parse_complex(bitstream, alphabet_size, hskip)` -/
def parseComplex (alphabetSize hskip : Nat) (s : Bits) : R PrefixCode :=
  match readClc (codeLengthOrder.drop hskip) ⟨List.replicate 18 0, 0, 0, 0⟩ s with
  | .error e => .error e
  | .ok (st, s1) =>
    let clc : Except Err PrefixCode :=
      if st.nonzeroCount = 1 then .ok (.single st.nonzeroSym)
      else if st.bitacc ≠ 32 then .error .invalidPrefixHistogram
      else
        -- lengths ≤ 5 here; rescale Kraft to the 15-bit convention
        PrefixCode.ofLengths st.lens
    match clc with
    | .error e => .error e
    | .ok clc =>
      match readLens clc alphabetSize {} [] s1 with
      | .error e => .error e
      | .ok ((racc, fs), s2) =>
        if fs.bitacc ≠ 2 ^ 15 ∨ fs.repeatCount > 0 then .error .invalidPrefixHistogram
        else
          let lens := racc.reverse ++ List.replicate (alphabetSize - racc.length) 0
          match PrefixCode.ofLengths lens with
          | .error e => .error e
          | .ok c => .ok (c, s2)

/-- `Histogram::parse(bitstream, alphabet_size)` (prefix.rs) -/
def parsePrefix (alphabetSize : Nat) (s : Bits) : R PrefixCode :=
  if alphabetSize = 1 then .ok (.single 0, s)
  else if alphabetSize > 2 ^ 15 then .error .prefixSymbolTooLarge
  else
    match rbits 2 s with
    | .error e => .error e
    | .ok (hskip, s1) =>
      if hskip = 1 then parseSimple alphabetSize s1 else parseComplex alphabetSize hskip s1

end Jxl.Entropy
