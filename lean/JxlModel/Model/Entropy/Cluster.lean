import JxlModel.Model.Entropy.Reader
/-!
# Context clustering — pure parts of `read_clusters` (lib.rs): move-to-front and the hole check
-/
namespace Jxl.Entropy

/-- move-to-front step: output the entry at `idx`, move it to the front -/
def mtfStep (tbl : List Nat) (idx : Nat) : Nat × List Nat :=
  let v := tbl.getD idx 0
  (v, v :: tbl.eraseIdx idx)

/-- inverse MTF as in `read_clusters` -/
def mtfDecodeFrom : List Nat → List Nat → List Nat
  | _, [] => []
  | tbl, i :: r => let (v, t) := mtfStep tbl i; v :: mtfDecodeFrom t r

def mtfDecode (l : List Nat) : List Nat := mtfDecodeFrom (List.range 256) l

/-- index of `v` in the table (encoder side) -/
def mtfEncodeFrom : List Nat → List Nat → List Nat
  | _, [] => []
  | tbl, v :: r =>
    let i := tbl.idxOf v
    i :: mtfEncodeFrom (v :: tbl.eraseIdx i) r

def mtfEncode (l : List Nat) : List Nat := mtfEncodeFrom (List.range 256) l

def listMax : List Nat → Nat
  | [] => 0
  | a :: r => max a (listMax r)

/-- number of distinct values (the `HashSet` size in `read_clusters`): every value lies in
`[0, max]`, so it is the number of `k ≤ max` that occur -/
def distinctCount (l : List Nat) : Nat :=
  ((List.range (listMax l + 1)).filter fun k => l.contains k).length

/-- tail of `read_clusters`: `num_clusters = max + 1`, error unless every value below occurs -/
def checkClusters (cl : List Nat) : Except Err (Nat × List Nat) :=
  let n := listMax cl + 1
  if distinctCount cl ≠ n then .error .clusterHole else .ok (n, cl)

end Jxl.Entropy
