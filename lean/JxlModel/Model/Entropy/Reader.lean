import JxlModel.Model.Bits
/-!
# Entropy coding — reader layer (import-free)

Abstract view of `jxl_bitstream::Bitstream` as used by `jxl_coding`:
the stream is a `List Bool` (all bytes of the buffer, LSB first).

* `rbits n` = `read_bits(n)`: refill + peek + consume; `Err.eof` iff fewer than `n` bits are left
  (then nothing is consumed — `checked_sub` fails before the assignment).
* `peekPad n` = `peek_bits*(n)` after a refill: the next `n` bits, **zero padded** past the end
  of the buffer (the 64-bit buffer holds zeros above the last byte).
* `dropChk n` = `consume_bits(n)`: `none` iff fewer than `n` bits left.

The definitions avoid `List.length` so that one read costs `O(n)`, not `O(stream)`;
`Proofs/Entropy/Reader.lean` relates them to `Jxl.readBits`.
-/
namespace Jxl.Entropy

/-- Mirrors `jxl_coding::Error` (payloads dropped) plus the model-only `fuel` (never produced,
see `Decoder.lean`) and `panic site` for arithmetic the checked build aborts on. -/
inductive Err
  | eof | bitstream | lz77NotAllowed | invalidAnsHistogram | invalidAnsStream
  | invalidIntegerConfig | invalidPermutation | invalidPrefixHistogram
  | prefixSymbolTooLarge | invalidCluster | clusterHole | unexpectedLz77Repeat
  | invalidLz77Symbol | fuel | panic (site : Nat)
deriving Repr, DecidableEq

def Err.word : Err → String
  | .eof => "eof" | .bitstream => "bitstream" | .lz77NotAllowed => "lz77-not-allowed"
  | .invalidAnsHistogram => "ans-histogram" | .invalidAnsStream => "ans-stream"
  | .invalidIntegerConfig => "integer-config" | .invalidPermutation => "permutation"
  | .invalidPrefixHistogram => "prefix-histogram" | .prefixSymbolTooLarge => "prefix-too-large"
  | .invalidCluster => "cluster" | .clusterHole => "cluster-hole"
  | .unexpectedLz77Repeat => "lz77-repeat" | .invalidLz77Symbol => "lz77-symbol"
  | .fuel => "model-fuel" | .panic s => s!"panic-{s}"

/-- result of a reading step: value and the rest of the stream -/
abbrev R (α : Type) := Except Err (α × Bits)

/-- `consume_bits(n)` -/
def dropChk : Nat → Bits → Option Bits
  | 0, s => some s
  | _+1, [] => none
  | n+1, _ :: s => dropChk n s

/-- `peek_bits(n)`: next `n` bits, zero padded at the end of the buffer -/
def peekPad (n : Nat) (s : Bits) : Nat := ofBits (s.take n)

/-- `read_bits(n)` -/
def rbits (n : Nat) (s : Bits) : R Nat :=
  match dropChk n s with
  | some r => .ok (peekPad n s, r)
  | none => .error .eof

/-- `read_bool()` -/
def rbool (s : Bits) : R Bool :=
  match s with
  | [] => .error .eof
  | b :: r => .ok (b, r)

/-- one arm of a `U32(d0,d1,d2,d3)` distribution -/
inductive U32Arm
  | const (c : Nat)
  | bits (off n : Nat)

/-- `Bitstream::read_u32` (wrapping add as in the code) -/
def readU32 (d0 d1 d2 d3 : U32Arm) (s : Bits) : R Nat :=
  match rbits 2 s with
  | .error e => .error e
  | .ok (k, r) =>
    let d := match k with | 0 => d0 | 1 => d1 | 2 => d2 | _ => d3
    match d with
    | .const c => .ok (c, r)
    | .bits off n =>
      match rbits n r with
      | .error e => .error e
      | .ok (v, r') => .ok ((v + off) % 2 ^ 32, r')

/-- value of the first `n` stream bits read MSB-first (first stream bit = most significant),
zero padded past the end. This is the index into a bit-reversed lookup table. -/
def msbVal : Nat → Bits → Nat
  | 0, _ => 0
  | _+1, [] => 0
  | n+1, b :: s => (if b then 2 ^ n else 0) + msbVal n s

/-- the `n` low bits of `v`, most significant first (how a prefix codeword is laid out) -/
def toBitsMSB : Nat → Nat → Bits
  | 0, _ => []
  | n+1, v => (v / 2 ^ n % 2 == 1) :: toBitsMSB n v

/-- smallest `k` with `n ≤ 2^k` (`next_power_of_two().trailing_zeros()`), for `n ≤ 2^32` -/
def clog2 (n : Nat) : Nat :=
  go 33 0 n
where
  go : Nat → Nat → Nat → Nat
    | 0, k, _ => k
    | f+1, k, n => if n ≤ 2 ^ k then k else go f (k+1) n

/-- `add_log2_ceil(x)` in lib.rs: `ceil(log2(x+1))` (32 for `x ≥ 2^31`) -/
def addLog2Ceil (x : Nat) : Nat := clog2 (x + 1)

/-- floor(log2 v) for `v ≥ 1` (0 for 0) -/
def flog2 (v : Nat) : Nat := Nat.log2 v

end Jxl.Entropy
