import JxlModel.Model.Entropy.Hybrid
import JxlModel.Gen.Lz77Table
/-!
# LZ77 (lib.rs `Lz77`, `read_varint_with_multiplier_clustered_lz77`) — pure parts
-/
namespace Jxl.Entropy

/-- `Lz77::Enabled { min_symbol, min_length, state.lz_len_conf }` -/
structure Lz77Params where
  minSymbol : Nat
  minLength : Nat
  lenConf : IntegerConfig
deriving Repr, DecidableEq, Inhabited

/-- `Lz77::parse` -/
def parseLz77 (s : Bits) : R (Option Lz77Params) :=
  match rbool s with
  | .error e => .error e
  | .ok (false, s1) => .ok (none, s1)
  | .ok (true, s1) =>
    match readU32 (.const 224) (.const 512) (.const 4096) (.bits 8 15) s1 with
    | .error e => .error e
    | .ok (minSymbol, s2) =>
      match readU32 (.const 3) (.const 4) (.bits 5 2) (.bits 9 8) s2 with
      | .error e => .error e
      | .ok (minLength, s3) =>
        match IntegerConfig.parse 8 s3 with
        | .error e => .error e
        | .ok (c, s4) => .ok (some ⟨minSymbol, minLength, c⟩, s4)

/-- window size 2^20 -/
def lzWindow : Nat := 2 ^ 20

/-- decoded distance value ↦ distance before clamping (special distances when a multiplier is
given). `dist_multiplier` is assumed `< 2^27` (no `i32` overflow in `offset + mult*dist`). -/
def lzRawDistance (mult v : Nat) : Nat :=
  if mult = 0 then v
  else if v < 120 then
    let (off, d) := Jxl.Gen.lz77SpecialDistances.getD v (0, 0)
    (off + (mult : Int) * d - 1).toNat
  else v - 120

/-- `(((1 << 20) - 1).min(distance) + 1).min(state.num_decoded)` -/
def lzCopyDistance (mult v numDecoded : Nat) : Nat :=
  min (min (lzWindow - 1) (lzRawDistance mult v) + 1) numDecoded

/-- Spec copy of the special-distance table (the 120-entry `(dx, dy)` neighbourhood map that the
format shares with WebP lossless): frozen here, independent of the source; `C04_special_distances`
checks the table regenerated from lib.rs against it and against its structural description. -/
def specialDistancesSpec : List (Int × Int) := [
  (0, 1), (1, 0), (1, 1), (-1, 1), (0, 2), (2, 0), (1, 2), (-1, 2),
  (2, 1), (-2, 1), (2, 2), (-2, 2), (0, 3), (3, 0), (1, 3), (-1, 3),
  (3, 1), (-3, 1), (2, 3), (-2, 3), (3, 2), (-3, 2), (0, 4), (4, 0),
  (1, 4), (-1, 4), (4, 1), (-4, 1), (3, 3), (-3, 3), (2, 4), (-2, 4),
  (4, 2), (-4, 2), (0, 5), (3, 4), (-3, 4), (4, 3), (-4, 3), (5, 0),
  (1, 5), (-1, 5), (5, 1), (-5, 1), (2, 5), (-2, 5), (5, 2), (-5, 2),
  (4, 4), (-4, 4), (3, 5), (-3, 5), (5, 3), (-5, 3), (0, 6), (6, 0),
  (1, 6), (-1, 6), (6, 1), (-6, 1), (2, 6), (-2, 6), (6, 2), (-6, 2),
  (4, 5), (-4, 5), (5, 4), (-5, 4), (3, 6), (-3, 6), (6, 3), (-6, 3),
  (0, 7), (7, 0), (1, 7), (-1, 7), (5, 5), (-5, 5), (7, 1), (-7, 1),
  (4, 6), (-4, 6), (6, 4), (-6, 4), (2, 7), (-2, 7), (7, 2), (-7, 2),
  (3, 7), (-3, 7), (7, 3), (-7, 3), (5, 6), (-5, 6), (6, 5), (-6, 5),
  (8, 0), (4, 7), (-4, 7), (7, 4), (-7, 4), (8, 1), (8, 2), (6, 6),
  (-6, 6), (8, 3), (5, 7), (-5, 7), (7, 5), (-7, 5), (8, 4), (6, 7),
  (-6, 7), (7, 6), (-7, 6), (8, 5), (7, 7), (-7, 7), (8, 6), (8, 7)]

/-! ## Spec: expansion of an explicit parse -/

/-- one item of an LZ77 parse: a literal value, or a copy of `len` values from `dist` back -/
inductive LzItem
  | lit (v : Nat)
  | copy (len dist : Nat)
deriving Repr, DecidableEq

/-- copy `n` values from distance `d` (overlapping allowed); `hist` = output so far, reversed -/
def copyBack (d : Nat) : Nat → List Nat → List Nat
  | 0, hist => hist
  | n+1, hist => copyBack d n (hist.getD (d - 1) 0 :: hist)

/-- expansion (output reversed) -/
def expandRev : List LzItem → List Nat → List Nat
  | [], hist => hist
  | .lit v :: r, hist => expandRev r (v :: hist)
  | .copy len d :: r, hist => expandRev r (copyBack d len hist)

def expand (items : List LzItem) : List Nat := (expandRev items []).reverse

end Jxl.Entropy
